"""Shared machinery of the /verif checks: build the Coq development, build the Go
harness from the current working tree of $VERIF_REPO with `go build -overlay`,
run scenarios through the harness, evaluate model + monitor inside Coq, decide
the verdict and write the evidence file."""
import fcntl
import json
import os
import random
import re
import subprocess
import sys
import time
from concurrent.futures import ThreadPoolExecutor

VERIF = os.path.dirname(os.path.dirname(os.path.abspath(__file__)))
REPO = os.environ.get("VERIF_REPO", "/repo")
COQ = os.path.join(VERIF, "coq")
LOCKDIR = os.path.join(VERIF, "build")
# scratch directory of this run (harness binary, generated case files, replay files): a second tree under test
# (VERIF_REPO) gets its own through VERIF_BUILD_DIR so that runs on different trees do not disturb each other
BUILD = os.environ.get("VERIF_BUILD_DIR") or LOCKDIR
HARNESS = os.path.join(BUILD, "harness")
COQ_ARGS = ["-Q", "theories", "PKO", "-Q", "props", "PKOProps", "-Q", "corr", "PKOCorr",
            "-w", "-notation-overridden,-deprecated-hint-without-locality,-deprecated-instance-without-locality"]
FORBIDDEN = re.compile(
    r"\b(Admitted|admit|Axiom|Axioms|Parameter|Parameters|Conjecture|Conjectures|Admit Obligations|"
    r"bypass_check|Unset Guard Checking|Unset Positivity Checking|Unset Universe Checking|"
    r"Unset Strict Positivity|type-in-type|impredicative-set)\b")


def log(*a):
    print(*a, file=sys.stderr, flush=True)


class Lock:
    def __init__(self, name):
        os.makedirs(LOCKDIR, exist_ok=True)
        self.path = os.path.join(LOCKDIR, name)

    def __enter__(self):
        self.f = open(self.path, "w")
        fcntl.flock(self.f, fcntl.LOCK_EX)

    def __exit__(self, *a):
        fcntl.flock(self.f, fcntl.LOCK_UN)
        self.f.close()


# ---------------------------------------------------------------- Coq side

def coq_files():
    out = []
    for sub in ("theories", "props", "corr"):
        d = os.path.join(COQ, sub)
        for f in sorted(os.listdir(d)):
            if f.endswith(".v"):
                out.append(os.path.join(sub, f))
    return out


def hygiene():
    """Forbidden vernacular anywhere in the development (comments stripped)."""
    bad = []
    for rel in coq_files():
        src = open(os.path.join(COQ, rel)).read()
        src = strip_comments(src)
        for i, line in enumerate(src.split("\n"), 1):
            m = FORBIDDEN.search(line)
            if m:
                bad.append("%s:%d: %s" % (rel, i, m.group(0)))
            # Variable / Hypothesis outside a section are axioms too
        depth = 0
        for i, line in enumerate(src.split("\n"), 1):
            s = line.strip()
            if re.match(r"Section\b", s):
                depth += 1
            elif re.match(r"End\b", s) and depth > 0:
                depth -= 1
            elif depth == 0 and re.match(r"(Variable|Variables|Hypothesis|Hypotheses|Context)\b", s):
                bad.append("%s:%d: %s outside section" % (rel, i, s.split()[0]))
    return bad


def strip_comments(src):
    out, depth, i = [], 0, 0
    while i < len(src):
        if src.startswith("(*", i):
            depth += 1
            i += 2
        elif src.startswith("*)", i) and depth > 0:
            depth -= 1
            i += 2
        else:
            if depth == 0:
                out.append(src[i])
            elif src[i] == "\n":
                out.append("\n")
            i += 1
    return "".join(out)


def write_coqproject():
    """_CoqProject is generated from the directory listing (coqdep orders the files)."""
    lines = ["-Q theories PKO", "-Q props PKOProps", "-Q corr PKOCorr",
             "-arg -w -arg -notation-overridden,-deprecated-hint-without-locality,-deprecated-instance-without-locality"]
    lines += coq_files()
    text = "\n".join(lines) + "\n"
    path = os.path.join(COQ, "_CoqProject")
    if not os.path.exists(path) or open(path).read() != text:
        with open(path, "w") as f:
            f.write(text)


def build_coq():
    """Full .vo build (coq_makefile + make -k). Returns the make log."""
    with Lock("coq.lock"):
        write_coqproject()
        if not os.path.exists(os.path.join(COQ, "Makefile")) or \
                os.path.getmtime(os.path.join(COQ, "_CoqProject")) > os.path.getmtime(os.path.join(COQ, "Makefile")):
            subprocess.run(["coq_makefile", "-f", "_CoqProject", "-o", "Makefile"], cwd=COQ,
                           stdout=subprocess.DEVNULL, stderr=subprocess.DEVNULL, check=True)
        p = subprocess.run(["timeout", "3000", "make", "-k", "-j16"], cwd=COQ, stdout=subprocess.PIPE,
                           stderr=subprocess.STDOUT, text=True)
        return p.returncode, p.stdout


def vo_current(rel):
    """True iff the compiled file exists and is newer than its source."""
    v = os.path.join(COQ, rel)
    vo = v[:-2] + ".vo"
    return os.path.exists(vo) and os.path.getmtime(vo) >= os.path.getmtime(v)


def check_props(pid):
    """Re-run coqc on props/<pid>.v to (re)check the theorems against the compiled theories
    and to capture what Print Assumptions reports. Returns (ok, n_theorems, assumptions, log)."""
    rel = "props/%s.v" % pid
    src = strip_comments(open(os.path.join(COQ, rel)).read())
    n = len(re.findall(r"^\s*(Theorem|Lemma|Corollary|Example)\b", src, re.M))
    with Lock("coq.lock"):
        p = subprocess.run(["timeout", "900", "coqc"] + COQ_ARGS + [rel], cwd=COQ, stdout=subprocess.PIPE,
                           stderr=subprocess.STDOUT, text=True)
    out = p.stdout
    assumptions = set()
    closed = out.count("Closed under the global context")
    for m in re.finditer(r"Axioms:\n((?:.+\n)+?)(?=\n|\Z|Closed|Axioms:)", out):
        for line in m.group(1).split("\n"):
            mm = re.match(r"^(\S+)\s*:", line)
            if mm:
                assumptions.add(mm.group(1))
    return p.returncode == 0, n, closed, sorted(assumptions), out


def coqc_eval(workdir, name, text, timeout=3000):
    os.makedirs(workdir, exist_ok=True)
    path = os.path.join(workdir, name + ".v")
    with open(path, "w") as f:
        f.write(text)
    p = subprocess.run(["timeout", str(timeout), "coqc"] + COQ_ARGS + ["-Q", workdir, "Cases", path],
                       cwd=COQ, stdout=subprocess.PIPE, stderr=subprocess.STDOUT, text=True)
    for ext in (".vo", ".vok", ".vos", ".glob"):
        try:
            os.remove(path[:-2] + ext)
        except OSError:
            pass
    return p.returncode, p.stdout


def judge_cases(pid, imports, judge, case_terms, arity, shard=400, tag="cases"):
    """Evaluates `judge c` (a tuple of `arity` booleans) for every Coq term in case_terms.
    Returns list of tuples of bools (None for cases whose shard failed to evaluate) and logs."""
    workdir = os.path.join(BUILD, pid)
    shards = [case_terms[i:i + shard] for i in range(0, len(case_terms), shard)]
    results = [None] * len(case_terms)
    logs = []

    def run(i):
        body = ["From Coq Require Import List NArith ZArith String Bool.", "Import ListNotations.",
                imports, "Open Scope N_scope.",
                "Definition cases := [", ";\n".join(shards[i]), "].",
                "Definition R := Eval vm_compute in (map (%s) cases)." % judge,
                "Print R."]
        rc, out = coqc_eval(workdir, "%s_%s_%d" % (tag, pid, i), "\n".join(body))
        return i, rc, out

    with ThreadPoolExecutor(max_workers=12) as ex:
        for i, rc, out in ex.map(run, range(len(shards))):
            if rc != 0:
                logs.append("shard %d: coqc failed:\n%s" % (i, out[-3000:]))
                continue
            m = re.search(r"R\s*=\s*(.*?)\n\s*:\s*list", out, re.S)
            toks = re.findall(r"\b(true|false)\b", m.group(1) if m else "")
            if len(toks) != arity * len(shards[i]):
                logs.append("shard %d: expected %d booleans, got %d:\n%s" %
                            (i, arity * len(shards[i]), len(toks), out[-2000:]))
                continue
            for j in range(len(shards[i])):
                results[i * shard + j] = tuple(t == "true" for t in toks[j * arity:(j + 1) * arity])
    return results, logs


def coq_show(pid, imports, expr):
    """Evaluate an arbitrary term and return Coq's printed value (for replay files)."""
    body = ["From Coq Require Import List NArith ZArith String Bool.", "Import ListNotations.", imports,
            "Open Scope N_scope.", "Definition V := Eval vm_compute in (%s)." % expr, "Print V."]
    rc, out = coqc_eval(os.path.join(BUILD, pid), "show_%s_%d" % (pid, os.getpid()), "\n".join(body), timeout=600)
    return out.strip()


# term printers
def cN(n):
    assert n >= 0
    return "%d" % n


def cZ(z):
    return "(%d)%%Z" % z


def cB(b):
    return "true" if b else "false"


def cL(xs):
    return "[" + "; ".join(xs) + "]"


def cP(*xs):
    return "(" + ", ".join(xs) + ")"


def cS(s):
    return '"' + s.replace('"', '""') + '"%string'


def cO(x):
    return "None" if x is None else "(Some %s)" % x


# ---------------------------------------------------------------- Go side

def overlay_map():
    repl = {}
    hdir = os.path.join(VERIF, "harness", "cmd", "verif-harness")
    for f in sorted(os.listdir(hdir)):
        if f.endswith(".go"):
            repl[os.path.join(REPO, "cmd", "verif-harness", f)] = os.path.join(hdir, f)
    edir = os.path.join(VERIF, "harness", "exports")
    for root, _, files in os.walk(edir):
        for f in files:
            if f.endswith(".go"):
                rel = os.path.relpath(os.path.join(root, f), edir)
                repl[os.path.join(REPO, rel)] = os.path.join(root, f)
    return {"Replace": repl}


def go_env():
    env = dict(os.environ)
    env["GOPROXY"] = "off"
    for k in ("GOFLAGS", "GOSUMDB", "GOTOOLCHAIN"):
        env.pop(k, None)
    env.setdefault("GOCACHE", os.path.expanduser("~/.cache/go-build"))
    return env


def build_harness(race=False):
    """Builds the harness from the *current working tree* of REPO. Returns (ok, log)."""
    os.makedirs(BUILD, exist_ok=True)
    with Lock("go.lock"):
        ov = os.path.join(BUILD, "overlay.json")
        with open(ov, "w") as f:
            json.dump(overlay_map(), f, indent=1)
        out = HARNESS + ("-race" if race else "")
        cmd = ["go", "build", "-tags", "verif", "-overlay", ov, "-o", out]
        if race:
            cmd.append("-race")
        cmd.append("./cmd/verif-harness")
        p = subprocess.run(cmd, cwd=REPO, env=go_env(), stdout=subprocess.PIPE, stderr=subprocess.STDOUT, text=True)
        return p.returncode == 0, p.stdout


def run_harness(mode, scenarios, race=False, timeout=3000, extra_env=None, par=8):
    """Runs scenarios (list of JSON-able values) through `harness <mode>`, `par` processes in parallel.
    Returns list of dicts {obs|err|panic}."""
    exe = HARNESS + ("-race" if race else "")
    n = len(scenarios)
    if n == 0:
        return []
    par = max(1, min(par, (n + 49) // 50))
    chunks = [scenarios[i::par] for i in range(par)]
    env = go_env()
    if extra_env:
        env.update(extra_env)

    def run(ch):
        inp = "\n".join(json.dumps(s) for s in ch) + "\n"
        p = subprocess.run(["timeout", str(timeout), exe, mode], input=inp, stdout=subprocess.PIPE,
                           stderr=subprocess.PIPE, text=True, env=env)
        lines = [json.loads(l) for l in p.stdout.split("\n") if l.strip()]
        while len(lines) < len(ch):
            lines.append({"err": "harness died: rc=%d %s" % (p.returncode, p.stderr[-2000:])})
        return lines

    with ThreadPoolExecutor(max_workers=par) as ex:
        outs = list(ex.map(run, chunks))
    res = [None] * n
    for k, o in enumerate(outs):
        for j, line in enumerate(o):
            res[k + j * par] = line
    return res


# ---------------------------------------------------------------- verdicts

def known_findings(pid):
    p = os.path.join(VERIF, "known_findings.json")
    if not os.path.exists(p):
        return []
    return [k for k in json.load(open(p)).get("findings", []) if k.get("property") == pid and k.get("status") == "open"]


class Run:
    """Collects the outcome of one check run and writes evidence / verdict."""

    def __init__(self, pid, tier, seed, level="proof"):
        self.pid, self.tier, self.seed, self.level = pid, tier, seed, level
        self.t0 = time.time()
        self.violations = []      # (identity, replay dict, concrete?)
        self.known = []
        self.cov = {"evaluations": 0, "distinct_nontrivial": 0, "samples": [], "rule": "",
                    "obligations": 0, "discharged": 0, "checker_cmd": "", "trusted_base": []}
        self.assumptions = []
        self.notes = []
        self.classes = set()

    def violation(self, identity, replay, concrete):
        for k in known_findings(self.pid):
            if concrete and k["identity"] == identity:
                if identity not in [x[0] for x in self.known]:
                    self.known.append((identity, k.get("what", "")))
                return
        self.violations.append((identity, replay, concrete))

    def finish(self):
        evdir = os.environ.get("VERIF_EVIDENCE_DIR", os.path.join(VERIF, "evidence"))
        os.makedirs(evdir, exist_ok=True)
        self.cov["distinct_nontrivial"] = len(self.classes)
        ev = {"property_id": self.pid, "tier": self.tier, "seed": self.seed, "level": self.level,
              "coverage": self.cov, "assumptions": self.assumptions, "wall_s": round(time.time() - self.t0, 1),
              "violations": len(self.violations), "known_findings": [k[0] for k in self.known],
              "notes": self.notes}
        with open(os.path.join(evdir, self.pid + ".json"), "w") as f:
            json.dump(ev, f, indent=1, sort_keys=True)
        for ident, what in self.known:
            print("KNOWN-FINDING: property=%s %s %s" % (self.pid, ident, what))
        if not self.violations:
            print("PASS property=%s tier=%s evaluations=%d obligations=%d/%d wall=%.0fs" % (
                self.pid, self.tier, self.cov["evaluations"], self.cov["discharged"], self.cov["obligations"],
                time.time() - self.t0))
            return 0
        # concrete violations first
        self.violations.sort(key=lambda v: not v[2])
        rdir = os.path.join(BUILD, "replay")
        os.makedirs(rdir, exist_ok=True)
        seen = set()
        for i, (ident, replay, concrete) in enumerate(self.violations):
            if ident in seen:
                continue
            seen.add(ident)
            path = os.path.join(rdir, "%s_%d.json" % (self.pid, len(seen)))
            with open(path, "w") as f:
                json.dump({"property": self.pid, "identity": ident, "concrete": concrete, "replay": replay}, f, indent=1)
            print("VIOLATION property=%s replay=%s%s" % (self.pid, path, "" if concrete else " no-failing-input-found"))
            if len(seen) >= 5:
                break
        return 1


def rng(seed, salt=""):
    return random.Random("%s/%s" % (seed, salt))


def std_proof_stage(run, pid):
    """Common first stage: hygiene, full build, theorem re-check. Returns True if the
    theorem side is intact."""
    ok = True
    bad = hygiene()
    if bad:
        run.violation("hygiene", {"theorem": "development hygiene", "problems": bad}, False)
        ok = False
    rc, mlog = build_coq()
    needed = ["props/%s.v" % pid, "corr/%sCorr.v" % pid]
    stale = [r for r in needed if os.path.exists(os.path.join(COQ, r)) and not vo_current(r)]
    if stale:
        errs = re.findall(r'File "([^"]+)", line (\d+)[^\n]*\n(?:.*\n){0,6}?Error:[^\n]*(?:\n[^\n]+){0,3}', mlog)
        run.violation("theorem-build:" + ",".join(stale),
                      {"theorem": "files that no longer compile: %s" % stale, "log": mlog[-4000:]}, False)
        ok = False
    pok, n, closed, assumptions, plog = check_props(pid)
    run.cov["obligations"] = n
    run.cov["discharged"] = n if pok else 0
    run.cov["checker_cmd"] = "cd /verif/coq && make -k -j16 && coqc <args> props/%s.v (Coq 8.16.1 kernel; vm_compute in corr files)" % pid
    tb = ["Coq 8.16.1 kernel (coqc); vm_compute for the correspondence evaluation and finite sweeps",
          "Print Assumptions: %d of %d statements 'Closed under the global context'" % (closed, n)]
    if assumptions:
        tb.append("axioms reported by Print Assumptions: " + ", ".join(assumptions))
    run.cov["trusted_base"] = tb
    if not pok:
        m = re.search(r'File "[^"]+", line (\d+)', plog)
        run.violation("theorem:props/%s.v" % pid, {"theorem": "props/%s.v no longer checks" % pid, "log": plog[-4000:]}, False)
        ok = False
    return ok
