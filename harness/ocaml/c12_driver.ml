(* C12: native evaluation of the Coq function C12Corr.judge (extracted to OCaml without any
   Extract directive) on the observation trees printed by `verif-harness cachetree`.

   stdin : one line per tree, as printed by the harness: {"obs":"<space separated integers>"}
           integers: handlers kinds nprefix (op)* depth nalpha (op)* (obs of each prefix op)* subtree
           subtree(d) = for each letter of the alphabet: obs, then subtree(d-1) if d > 1
   stdout: one line per tree:
           T <leaves> {<bits>/<sf>:<count>:<path>:<obs>}*
           bits = agree_current agree_fixed refs started stopped read (1 = true), sf = 1 if the
           sequence contains a Watch with a start-up failure; path = alphabet indices of the first
           sequence of that class, separated by dots ("-" for the bare prefix); obs = the integers of the
           observations of all its operations (prefix included), separated by commas
           E <message>   if the harness reported an error for that tree *)
module J = C12judge

let rec pos_of_int i =
  if i = 1 then J.XH else if i land 1 = 1 then J.XI (pos_of_int (i lsr 1)) else J.XO (pos_of_int (i lsr 1))
let n_of_int i = if i < 0 then failwith "negative" else if i = 0 then J.N0 else J.Npos (pos_of_int i)
let rec clist = function [] -> J.Nil | x :: r -> J.Cons (x, clist r)
let cbool b = if b then J.True else J.False
let obool = function J.True -> true | J.False -> false

let toks : int array ref = ref [||]
let pos = ref 0
let next () =
  if !pos >= Array.length !toks then failwith "truncated tree";
  let v = !toks.(!pos) in incr pos; v

let parse_ints (s : string) : int array =
  let out = ref [] and cur = ref 0 and have = ref false in
  String.iter (fun c ->
      if c >= '0' && c <= '9' then (cur := !cur * 10 + Char.code c - 48; have := true)
      else if !have then (out := !cur :: !out; cur := 0; have := false)) s;
  if !have then out := !cur :: !out;
  Array.of_list (List.rev !out)

let outcome_of out k = match out with
  | 0 -> J.Ok | 1 -> J.Informer_get_fails | 2 -> J.Informer_sync_fails
  | 3 -> J.Handler_registration_fails (n_of_int k) | 4 -> J.Informer_delete_fails
  | _ -> failwith "bad outcome"

let read_op () : J.op * bool =
  let tag = next () in let o = next () in let g = next () in let out = next () in let k = next () in
  let sf = (tag = 0) && (out = 1 || out = 2 || out = 3) in
  (match tag with
   | 0 -> J.Watch (n_of_int o, n_of_int g, outcome_of out k)
   | 1 -> J.Free (n_of_int o, outcome_of out k, J.Nil)
   | 2 -> J.Get (n_of_int g)
   | 3 -> J.List (n_of_int g)
   | 4 -> J.OwnersForGKV (n_of_int g)
   | _ -> failwith "bad op"), sf

let read_owners n = clist (List.init n (fun _ -> n_of_int (next ())))

let read_obs (kinds : int) : J.obs =
  let e = match next () with
    | 0 -> J.ErrNone | 1 -> J.ErrNotStarted | 2 -> J.ErrInformerGet | 3 -> J.ErrHandler | 4 -> J.ErrDelete
    | _ -> failwith "bad err" in
  let nev = next () in
  let evs = List.init nev (fun _ ->
      let t = next () in let g = n_of_int (next ()) in let h = n_of_int (next ()) in let ok = cbool (next () = 1) in
      match t with
      | 0 -> J.EGet (g, ok) | 1 -> J.EStart g | 2 -> J.EAdd (g, h, ok) | 3 -> J.EDelete (g, ok) | 4 -> J.EStop g
      | _ -> failwith "bad event") in
  let res = match next () with
    | 0 -> J.None
    | 1 -> J.Some J.None
    | r -> J.Some (J.Some (read_owners (r - 2))) in
  let snap = List.init kinds (fun g ->
      let v = match next () with 0 -> J.None | r -> J.Some (read_owners (r - 1)) in
      J.Pair (n_of_int g, v)) in
  { J.b_err = e; b_events = clist evs; b_res = res; b_snap = clist snap }

let classes : (string, int * string) Hashtbl.t = Hashtbl.create 16

let span_string (spans_rev : (int * int) list) : string =
  let b = Buffer.create 128 in
  List.iter (fun (a, z) -> for i = a to z - 1 do
                 if Buffer.length b > 0 then Buffer.add_char b ',';
                 Buffer.add_string b (string_of_int !toks.(i)) done) (List.rev spans_rev);
  Buffer.contents b

let judge_leaf handlers kinds (steps_rev : (J.op, J.obs) J.prod list) (spans_rev : (int * int) list)
    (path_rev : int list) (sf : bool) =
  let c = J.Pair (J.Pair (handlers, kinds), clist (List.rev steps_rev)) in
  match J.judge c with
  | J.Pair (J.Pair (J.Pair (J.Pair (J.Pair (a0, a1), b0), b1), b2), b3) ->
    let bit b = if obool b then '1' else '0' in
    let key = Printf.sprintf "%c%c%c%c%c%c/%d" (bit a0) (bit a1) (bit b0) (bit b1) (bit b2) (bit b3) (if sf then 1 else 0) in
    (match Hashtbl.find_opt classes key with
     | Some (n, p) -> Hashtbl.replace classes key (n + 1, p)
     | None ->
       let p = match path_rev with [] -> "-" | _ -> String.concat "." (List.rev_map string_of_int path_rev) in
       Hashtbl.replace classes key (1, p ^ ":" ^ span_string spans_rev))

let do_tree (s : string) =
  toks := parse_ints s; pos := 0; Hashtbl.reset classes;
  let nh = next () in let nk = next () in let np = next () in
  let handlers = clist (List.init nh n_of_int) and kinds = clist (List.init nk n_of_int) in
  let prefix = List.init np (fun _ -> read_op ()) in
  let depth = next () in let na = next () in
  let alphabet = Array.init na (fun _ -> read_op ()) in
  let spans0 = ref [] in
  let steps0 = List.fold_left (fun acc (o, _) ->
      let a = !pos in let b = read_obs nk in spans0 := (a, !pos) :: !spans0; J.Pair (o, b) :: acc) [] prefix in
  let sf0 = List.exists snd prefix in
  let leaves = ref 0 in
  let rec walk d steps_rev spans_rev path_rev sf =
    if d = 0 then (incr leaves; judge_leaf handlers kinds steps_rev spans_rev path_rev sf)
    else
      for a = 0 to na - 1 do
        let (o, osf) = alphabet.(a) in
        let p0 = !pos in
        let b = read_obs nk in
        walk (d - 1) (J.Pair (o, b) :: steps_rev) ((p0, !pos) :: spans_rev) (a :: path_rev) (sf || osf)
      done in
  walk depth steps0 !spans0 [] sf0;
  if !pos <> Array.length !toks then failwith "trailing integers";
  let b = Buffer.create 256 in
  Buffer.add_string b (Printf.sprintf "T %d" !leaves);
  let keys = List.sort compare (Hashtbl.fold (fun k _ acc -> k :: acc) classes []) in
  List.iter (fun k -> let (n, p) = Hashtbl.find classes k in
              Buffer.add_string b (Printf.sprintf " %s:%d:%s" k n p)) keys;
  print_endline (Buffer.contents b)

let () =
  let marker = "\"obs\":\"" in
  let ml = String.length marker in
  try
    while true do
      let line = input_line stdin in
      let idx = try Some (Str.search_forward (Str.regexp_string marker) line 0) with Not_found -> None in
      (match idx with
       | None -> print_endline ("E " ^ (if String.length line > 300 then String.sub line 0 300 else line))
       | Some i ->
         let j = String.index_from line (i + ml) '"' in
         (try do_tree (String.sub line (i + ml) (j - i - ml))
          with Failure m -> print_endline ("E decode: " ^ m)))
    done
  with End_of_file -> ()
