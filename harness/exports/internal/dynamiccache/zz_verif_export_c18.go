//go:build verif

package dynamiccache

import (
	apimachinerymeta "k8s.io/apimachinery/pkg/api/meta"
	"k8s.io/apimachinery/pkg/runtime"
	"k8s.io/apimachinery/pkg/runtime/schema"
	"k8s.io/client-go/tools/cache"
	"sigs.k8s.io/controller-runtime/pkg/client"
)

// Add-only accessors for the /verif correspondence harness (C18).

// VerifC18InformerMap is the informer-map abstraction the Cache talks to.
type VerifC18InformerMap = informerMap

// VerifC18NewCache wires a Cache like NewCache does (real owner bookkeeping, real
// cacheSource), except that the informer map is injected instead of being built
// from a rest.Config and that no metrics recorder is set.
func VerifC18NewCache(scheme *runtime.Scheme, im VerifC18InformerMap) *Cache {
	return &Cache{
		scheme:             scheme,
		informerReferences: map[schema.GroupVersionKind]map[OwnerReference]struct{}{},
		cacheSource:        &cacheSource{},
		informerMap:        im,
	}
}

// VerifC18NewCacheReader builds the real CacheReader over the given indexer,
// as InformerMap does for a new informer.
func VerifC18NewCacheReader(
	indexer cache.Indexer, gvk schema.GroupVersionKind, scope apimachinerymeta.RESTScopeName,
) client.Reader {
	return &CacheReader{indexer: indexer, groupVersionKind: gvk, scopeName: scope}
}
