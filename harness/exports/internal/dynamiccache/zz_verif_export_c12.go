//go:build verif

package dynamiccache

import (
	"k8s.io/apimachinery/pkg/runtime"
	"k8s.io/apimachinery/pkg/runtime/schema"
)

// Add-only accessors for the /verif correspondence harness (C12).

// VerifInformerMap is the informer-map abstraction the Cache talks to.
type VerifInformerMap = informerMap

// VerifNewCache wires a Cache exactly like NewCache does, except that the
// informer map is injected instead of being built from a rest.Config and
// that no metrics recorder is set (sampleMetrics is then a no-op).
func VerifNewCache(scheme *runtime.Scheme, im VerifInformerMap) *Cache {
	return &Cache{
		scheme:             scheme,
		informerReferences: map[schema.GroupVersionKind]map[OwnerReference]struct{}{},
		cacheSource:        &cacheSource{},
		informerMap:        im,
	}
}
