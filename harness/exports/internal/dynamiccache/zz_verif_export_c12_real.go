//go:build verif

package dynamiccache

import (
	apimachinerymeta "k8s.io/apimachinery/pkg/api/meta"
	"k8s.io/apimachinery/pkg/runtime"
	"k8s.io/apimachinery/pkg/runtime/schema"
	"k8s.io/client-go/dynamic"
)

// Add-only accessors for the /verif correspondence harness (C12, real InformerMap).

// VerifNewCacheOnRealInformerMap wires a Cache and a real InformerMap exactly like
// NewCache/NewInformerMap do (default options, no metrics recorder), except that the
// dynamic client is injected instead of being built from a rest.Config.
func VerifNewCacheOnRealInformerMap(
	scheme *runtime.Scheme, mapper apimachinerymeta.RESTMapper, dyn dynamic.Interface,
) *Cache {
	c := &Cache{
		scheme:             scheme,
		informerReferences: map[schema.GroupVersionKind]map[OwnerReference]struct{}{},
		cacheSource:        &cacheSource{},
	}
	c.opts.Default()
	c.informerMap = &InformerMap{
		scheme:    scheme,
		mapper:    mapper,
		resync:    c.opts.ResyncInterval,
		selectors: c.opts.Selectors.forGVK,
		indexers:  c.opts.Indexers.forGVK,

		informers:     map[schema.GroupVersionKind]mapEntry{},
		dynamicClient: dyn,
	}
	return c
}

// VerifInformerMapHas reports whether the real informer map of the cache has an entry for gvk.
func (c *Cache) VerifInformerMapHas(gvk schema.GroupVersionKind) bool {
	im, ok := c.informerMap.(*InformerMap)
	if !ok {
		return false
	}
	im.informersMux.RLock()
	defer im.informersMux.RUnlock()
	_, found := im.informers[gvk]
	return found
}
