//go:build verif

package dynamiccache

import (
	"reflect"

	apimachinerymeta "k8s.io/apimachinery/pkg/api/meta"
	"k8s.io/apimachinery/pkg/runtime"
	"k8s.io/client-go/dynamic"
	"k8s.io/client-go/rest"
)

// Add-only accessors for the /verif correspondence harness (C12, real InformerMap).

// VerifNewCacheOnRealInformerMap builds a Cache with the real constructors (NewCache ->
// NewInformerMap, default options, no metrics recorder) and then swaps the dynamic client
// of the informer map for the given one; the rest.Config is never dialled.
func VerifNewCacheOnRealInformerMap(
	scheme *runtime.Scheme, mapper apimachinerymeta.RESTMapper, dyn dynamic.Interface,
) *Cache {
	c := NewCache(&rest.Config{Host: "http://127.0.0.1:1"}, scheme, mapper, nil)
	// the field is reached by name so that this file keeps compiling when its type changes
	im := reflect.ValueOf(c.informerMap).Elem()
	f := im.FieldByName("dynamicClient")
	reflect.NewAt(f.Type(), f.Addr().UnsafePointer()).Elem().Set(reflect.ValueOf(dyn))
	return c
}

// VerifInformerMapLen is the number of entries of the real informer map (diagnostics).
func (c *Cache) VerifInformerMapLen() int {
	f := reflect.ValueOf(c.informerMap).Elem().FieldByName("informers")
	if !f.IsValid() {
		return -1
	}
	return f.Len()
}
