//go:build verif

package objectdeployments

import (
	"context"
	"errors"

	"sigs.k8s.io/controller-runtime/pkg/client"

	"package-operator.run/internal/adapters"
)

// Add-only accessor for the /verif correspondence harness (C14): the objects the ObjectDeployment controller
// (archive reconciler) sees in a revision, including those living in ObjectSlices, as unique identifiers
// "group/kind/namespace/name".
func VerifObjectsIncludingSlices(
	ctx context.Context, objectSet adapters.ObjectSetAccessor, reader client.Reader,
) ([]string, error) {
	g, ok := newObjectSetGetter(objectSet).(sliceAwareObjectSetGetter)
	if !ok {
		return nil, errors.New("objectSetGetter is not slice aware")
	}
	ids, err := g.getObjectsIncludingSlices(ctx, reader)
	if err != nil {
		return nil, err
	}
	out := make([]string, len(ids))
	for i := range ids {
		out[i] = ids[i].UniqueIdentifier()
	}
	return out, nil
}
