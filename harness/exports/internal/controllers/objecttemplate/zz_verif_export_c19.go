//go:build verif

package objecttemplate

import (
	"context"

	"k8s.io/apimachinery/pkg/apis/meta/v1/unstructured"

	corev1alpha1 "package-operator.run/apis/core/v1alpha1"
	"package-operator.run/internal/adapters"
)

// Add-only accessors for the /verif correspondence harness (C19).

// VerifUpdateStatusConditionsFromOwnedObject calls the unexported function of template_reconciler.go.
func VerifUpdateStatusConditionsFromOwnedObject(
	ctx context.Context, objectTemplate adapters.ObjectTemplateAccessor, existingObj *unstructured.Unstructured,
) error {
	return updateStatusConditionsFromOwnedObject(ctx, objectTemplate, existingObj)
}

// VerifCopySourceItems calls the unexported copySourceItems of template_reconciler.go.
func VerifCopySourceItems(
	items []corev1alpha1.ObjectTemplateSourceItem, sourceObj *unstructured.Unstructured, sourcesConfig map[string]any,
) error {
	return copySourceItems(items, sourceObj, sourcesConfig)
}
