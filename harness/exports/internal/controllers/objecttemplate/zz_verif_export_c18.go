//go:build verif

package objecttemplate

import (
	"context"

	"k8s.io/apimachinery/pkg/apis/meta/v1/unstructured"

	corev1alpha1 "package-operator.run/apis/core/v1alpha1"
)

// Add-only accessors for the /verif correspondence harness (C18).

// VerifC18Transform renders template text with the real transformer.
func VerifC18Transform(ctx context.Context, tctx TemplateContext, content []byte) ([]byte, error) {
	t, err := NewTemplateTransformer(tctx)
	if err != nil {
		return nil, err
	}
	return t.transform(ctx, content)
}

// VerifC18CopySourceItems is copySourceItems.
func VerifC18CopySourceItems(
	items []corev1alpha1.ObjectTemplateSourceItem, sourceObj *unstructured.Unstructured, sourcesConfig map[string]any,
) error {
	return copySourceItems(items, sourceObj, sourcesConfig)
}
