//go:build verif

package packages

import (
	"github.com/go-logr/logr"
	"k8s.io/apimachinery/pkg/runtime"
	"sigs.k8s.io/controller-runtime/pkg/client"

	"package-operator.run/internal/adapters"
)

// Add-only accessors for the /verif correspondence harness (property C16).

type (
	// VerifImagePuller is the controller's image puller dependency.
	VerifImagePuller = imagePuller
	// VerifPackageDeployer is the controller's deployer dependency.
	VerifPackageDeployer = packageDeployer
)

// VerifNewPackageController is NewPackageController with the PackageDeployer passed in by the
// caller (the harness wraps the real packages.NewPackageDeployer to see when Deploy is entered).
// Everything else is wired exactly like NewPackageController: namespaced factories, no metrics
// recorder, no hash modifier, no image prefix overrides.
func VerifNewPackageController(
	c client.Client, uncachedClient client.Client, log logr.Logger,
	scheme *runtime.Scheme,
	imagePuller VerifImagePuller,
	deployer VerifPackageDeployer,
) *GenericPackageController {
	return newGenericPackageController(
		adapters.NewGenericPackage, adapters.NewObjectDeployment,
		c, uncachedClient, log, scheme, imagePuller,
		deployer,
		nil, nil, nil,
	)
}
