//go:build verif

package packages

// Add-only accessors for the /verif correspondence harness (property C16).

// VerifPackageDeployer is the controller's deployer dependency.
type VerifPackageDeployer = packageDeployer

// VerifWrapDeployer replaces the PackageDeployer the constructor (NewPackageController /
// NewClusterPackageController) has wired into the unpack reconciler by wrap(that deployer).
// The harness uses it to see when Deploy is entered; the wrapper delegates to the deployer it was
// given, so the controller under test is exactly what the real constructor built.
func VerifWrapDeployer(c *GenericPackageController, wrap func(VerifPackageDeployer) VerifPackageDeployer) {
	c.unpackReconciler.packageDeployer = wrap(c.unpackReconciler.packageDeployer)
}
