//go:build verif

package controllers

import (
	"context"

	"k8s.io/apimachinery/pkg/apis/meta/v1/unstructured"

	corev1alpha1 "package-operator.run/apis/core/v1alpha1"
)

// Add-only accessor for the /verif correspondence harness (C19).

// VerifMapConditions calls the unexported mapConditions (phase_reconciler.go) as reconcilePhaseObject does.
func VerifMapConditions(
	ctx context.Context, owner PhaseObjectOwner,
	conditionMappings []corev1alpha1.ConditionMapping, actualObject *unstructured.Unstructured,
) error {
	return mapConditions(ctx, owner, conditionMappings, actualObject)
}
