//go:build verif

package packages

import (
	"package-operator.run/internal/packages/internal/packagedeploy"
)

// Add-only re-exports for the /verif correspondence harness (C14, slice naming and slice GC).

type VerifDeploymentReconciler = packagedeploy.DeploymentReconciler

const VerifSliceOwnerLabel = packagedeploy.VerifSliceOwnerLabel

var (
	VerifNewDeploymentReconciler = packagedeploy.VerifNewDeploymentReconciler
	VerifChunkPhase              = packagedeploy.VerifChunkPhase
	VerifDeployReconcile         = packagedeploy.VerifDeployReconcile
)
