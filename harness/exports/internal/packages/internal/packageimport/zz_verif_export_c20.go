//go:build verif

package packageimport

import (
	"context"
	"time"

	"github.com/google/go-containerregistry/pkg/crane"
	"k8s.io/apimachinery/pkg/types"
	"sigs.k8s.io/controller-runtime/pkg/client"

	"package-operator.run/internal/packages/internal/packagetypes"
)

// Add-only accessors for the /verif correspondence harness (property C20).

// VerifPullFn is the scripted replacement of the unexported pullImage field.
type VerifPullFn func(ctx context.Context, ref string) (*packagetypes.RawPackage, error)

// NewVerifRequestManager builds a RequestManager through the real constructor and
// replaces its pull function by the scripted one. Nothing else is changed.
func NewVerifRequestManager(pull VerifPullFn) *RequestManager {
	return NewVerifRequestManagerWithOverrides(nil, pull)
}

// NewVerifRequestManagerWithOverrides is NewVerifRequestManager with registry host overrides
// (first argument of the real constructor).
func NewVerifRequestManagerWithOverrides(registryHostOverrides map[string]string, pull VerifPullFn) *RequestManager {
	rm := NewRequestManager(registryHostOverrides, nil, nil, types.NamespacedName{})
	rm.pullImage = func(
		ctx context.Context, _ client.Client, _ types.NamespacedName, ref string, _ ...crane.Option,
	) (*packagetypes.RawPackage, error) {
		return pull(ctx, ref)
	}
	return rm
}

// VerifReceivers reads, under inFlightLock, how many receivers are registered
// for the image and whether the image has an entry at all.
func (r *RequestManager) VerifReceivers(image string) (n int, present bool) {
	r.inFlightLock.Lock()
	defer r.inFlightLock.Unlock()
	l, ok := r.inFlight[image]
	return len(l), ok
}

// VerifTryReceivers is VerifReceivers with TryLock: locked=false means the lock is
// currently held by somebody else (n and present are then meaningless).
func (r *RequestManager) VerifTryReceivers(image string) (n int, present, locked bool) {
	if !r.inFlightLock.TryLock() {
		return 0, false, false
	}
	defer r.inFlightLock.Unlock()
	l, ok := r.inFlight[image]
	return len(l), ok, true
}

// VerifStallBroadcast registers, under inFlightLock, an extra UNBUFFERED receiver at the
// head of inFlight[image], so that the next broadcast for the image blocks on its first
// send until the returned function is called. release receives and drops that response;
// it gives up after d and reports false if no broadcast ever reached the stall.
// ok=false (nothing registered) when the image has no entry.
func (r *RequestManager) VerifStallBroadcast(image string) (release func(d time.Duration) bool, ok bool) {
	r.inFlightLock.Lock()
	defer r.inFlightLock.Unlock()
	l, present := r.inFlight[image]
	if !present {
		return nil, false
	}
	ch := make(chan response)
	r.inFlight[image] = append([]chan<- response{ch}, l...)
	return func(d time.Duration) bool {
		select {
		case <-ch:
			return true
		case <-time.After(d):
			return false
		}
	}, true
}
