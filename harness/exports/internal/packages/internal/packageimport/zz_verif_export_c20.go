//go:build verif

package packageimport

import (
	"context"

	"github.com/google/go-containerregistry/pkg/crane"
	"k8s.io/apimachinery/pkg/types"
	"sigs.k8s.io/controller-runtime/pkg/client"

	"package-operator.run/internal/packages/internal/packagetypes"
)

// Add-only accessors for the /verif correspondence harness (property C20).

// VerifPullFn is the scripted replacement of the unexported pullImage field.
type VerifPullFn func(ctx context.Context, ref string) (*packagetypes.RawPackage, error)

// NewVerifRequestManager builds a RequestManager through the real constructor and
// replaces its pull function by the scripted one. Nothing else is changed.
func NewVerifRequestManager(pull VerifPullFn) *RequestManager {
	rm := NewRequestManager(nil, nil, nil, types.NamespacedName{})
	rm.pullImage = func(
		ctx context.Context, _ client.Client, _ types.NamespacedName, ref string, _ ...crane.Option,
	) (*packagetypes.RawPackage, error) {
		return pull(ctx, ref)
	}
	return rm
}

// VerifReceivers reads, under inFlightLock, how many receivers are registered
// for the image and whether the image has an entry at all.
func (r *RequestManager) VerifReceivers(image string) (n int, present bool) {
	r.inFlightLock.Lock()
	defer r.inFlightLock.Unlock()
	l, ok := r.inFlight[image]
	return len(l), ok
}
