//go:build verif

package packagedeploy

import (
	"context"

	"k8s.io/apimachinery/pkg/runtime"
	"sigs.k8s.io/controller-runtime/pkg/client"

	corev1alpha1 "package-operator.run/apis/core/v1alpha1"
	"package-operator.run/internal/adapters"
)

// Add-only accessors for the /verif correspondence harness (C14, slice naming and slice GC).

// VerifSliceOwnerLabel is the label sliceGarbageCollection selects on.
const VerifSliceOwnerLabel = sliceOwnerLabel

// verifStubChunker returns prescribed chunks per phase name (nil: no chunking for that phase).
type verifStubChunker struct {
	chunks map[string][][]corev1alpha1.ObjectSetObject
}

func (c *verifStubChunker) Chunk(
	_ context.Context, phase *corev1alpha1.ObjectSetTemplatePhase,
) ([][]corev1alpha1.ObjectSetObject, error) {
	return c.chunks[phase.Name], nil
}

// VerifNewDeploymentReconciler returns the DeploymentReconciler that the real constructors NewPackageDeployer /
// NewClusterPackageDeployer wire into the PackageDeployer, so that the wiring itself (which adapters and list
// factories each flavour gets) is part of what the harness runs.
func VerifNewDeploymentReconciler(scheme *runtime.Scheme, c client.Client, cluster bool) *DeploymentReconciler {
	var d *PackageDeployer
	if cluster {
		d = NewClusterPackageDeployer(c, scheme, nil)
	} else {
		d = NewPackageDeployer(c, c, scheme, nil)
	}
	r, ok := d.deploymentReconciler.(*DeploymentReconciler)
	if !ok {
		panic("PackageDeployer.deploymentReconciler is not a *DeploymentReconciler")
	}
	return r
}

// VerifChunkPhase runs the real chunkPhase with a chunker that returns the given chunks.
func VerifChunkPhase(
	ctx context.Context, r *DeploymentReconciler, deploy adapters.ObjectDeploymentAccessor,
	phase *corev1alpha1.ObjectSetTemplatePhase, chunks [][]corev1alpha1.ObjectSetObject,
) error {
	return r.chunkPhase(ctx, deploy, phase, &verifStubChunker{
		chunks: map[string][][]corev1alpha1.ObjectSetObject{phase.Name: chunks},
	})
}

// VerifDeployReconcile runs the real DeploymentReconciler.Reconcile with prescribed chunks per phase name.
func VerifDeployReconcile(
	ctx context.Context, r *DeploymentReconciler, desired adapters.ObjectDeploymentAccessor,
	chunks map[string][][]corev1alpha1.ObjectSetObject,
) error {
	return r.Reconcile(ctx, desired, &verifStubChunker{chunks: chunks})
}
