//go:build verif

package packagedeploy

// Add-only accessors for the /verif correspondence harness.

// VerifChunkLimit is the byte limit used by BinpackNextFitChunker.
const VerifChunkLimit = binpackNextFitStrategyChunkLimit
