//go:build verif

package packagedeploy

import (
	"context"

	"k8s.io/apimachinery/pkg/runtime"

	"package-operator.run/internal/adapters"
	"package-operator.run/internal/apis/manifests"
	"package-operator.run/internal/imageprefix"
	"package-operator.run/internal/packages/internal/packagestructure"
	"package-operator.run/internal/packages/internal/packagetypes"
	"package-operator.run/internal/packages/internal/packagevalidation"
)

// Add-only accessors for the /verif correspondence harness (C13).

// verifCapture stands in for the deployment reconciler and records the desired ObjectDeployment.
type verifCapture struct {
	got adapters.ObjectDeploymentAccessor
}

func (c *verifCapture) Reconcile(
	_ context.Context, desired adapters.ObjectDeploymentAccessor, _ objectChunker,
) error {
	c.got = desired
	return nil
}

// VerifDeployCapture runs the real PackageDeployer.Deploy (namespace-scoped wiring of
// NewPackageDeployer, no API clients) with the deployment reconciler replaced by a recorder and
// returns the desired ObjectDeployment it was handed (nil if Deploy never got that far).
func VerifDeployCapture(
	ctx context.Context, scheme *runtime.Scheme,
	apiPkg adapters.GenericPackageAccessor, rawPkg *packagetypes.RawPackage,
	env manifests.PackageEnvironment, overrides []imageprefix.Override,
) (adapters.ObjectDeploymentAccessor, error) {
	rec := &verifCapture{}
	validators := packagevalidation.PackageValidatorList{}
	validators = append(validators, packagevalidation.DefaultPackageValidators...)
	validators = append(validators, packagevalidation.PackageScopeValidator(manifests.PackageManifestScopeNamespaced))
	l := &PackageDeployer{
		scheme:               scheme,
		newObjectDeployment:  adapters.NewObjectDeployment,
		structuralLoader:     packagestructure.DefaultStructuralLoader,
		deploymentReconciler: rec,
		packageValidators:    validators,
		imagePrefixOverrides: overrides,
	}
	err := l.Deploy(ctx, apiPkg, rawPkg, env)
	return rec.got, err
}
