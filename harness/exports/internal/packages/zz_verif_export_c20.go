//go:build verif

package packages

import (
	"package-operator.run/internal/packages/internal/packageimport"
)

// Add-only re-exports for the /verif correspondence harness (property C20).

type VerifPullFn = packageimport.VerifPullFn

// NewVerifRequestManager returns a real RequestManager whose pull function is scripted;
// the result also has the VerifReceivers accessor.
var (
	NewVerifRequestManager              = packageimport.NewVerifRequestManager
	NewVerifRequestManagerWithOverrides = packageimport.NewVerifRequestManagerWithOverrides
)
