//go:build verif

package packages

import (
	"package-operator.run/internal/packages/internal/packagedeploy"
	"package-operator.run/internal/packages/internal/packagerender"
	"package-operator.run/internal/packages/internal/packagevalidation"
)

// Add-only re-exports for the /verif correspondence harness (C13).

var (
	// Objects per path after CEL/path filtering plus the filtered indexes.
	VerifRenderObjectsWithFilterInfo = packagerender.RenderObjectsWithFilterInfo
	// The deployer's image reference helper.
	VerifImageWithDigest = packagedeploy.ImageWithDigest
	// Real Deploy with a recording deployment reconciler.
	VerifDeployCapture = packagedeploy.VerifDeployCapture
)

// VerifNamespacedPackageValidators is the validator list NewPackageDeployer wires up.
func VerifNamespacedPackageValidators() PackageValidatorList {
	l := PackageValidatorList{}
	l = append(l, packagevalidation.DefaultPackageValidators...)
	return append(l, PackageScopeValidator("Namespaced"))
}
