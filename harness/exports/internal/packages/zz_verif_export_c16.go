//go:build verif

package packages

import (
	"package-operator.run/internal/packages/internal/packagevalidation"
)

// Add-only re-exports for the /verif correspondence harness (C16).

// VerifClusterPackageValidators is the validator list NewClusterPackageDeployer wires up.
func VerifClusterPackageValidators() PackageValidatorList {
	l := PackageValidatorList{}
	l = append(l, packagevalidation.DefaultPackageValidators...)
	return append(l, PackageScopeValidator("Cluster"))
}
