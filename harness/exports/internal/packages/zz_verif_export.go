//go:build verif

package packages

import (
	"package-operator.run/internal/packages/internal/packagedeploy"
)

// Add-only re-exports for the /verif correspondence harness.

type (
	VerifBinpackNextFitChunker = packagedeploy.BinpackNextFitChunker
	VerifEachObjectChunker     = packagedeploy.EachObjectChunker
)

const VerifChunkLimit = packagedeploy.VerifChunkLimit
