package main

// Package-level site kinds of the C19 translator.
//
//	unsetfield  a struct type T of the package has several constructors (functions that return a keyed
//	            composite literal T{..} / &T{..}, directly or through a local variable); a field of interface,
//	            pointer, map, chan or func type is set by one of them and left out by another, and code of the
//	            package calls through that field of a T (method call on it, call of it, dereference, passing it
//	            on as an argument). One site per (constructor that leaves it unset, T.F).
//	recursion   (second flavour) a function literal registered in a template function table that executes
//	            templates again (t.ExecuteTemplate / t.Execute): re-entrant through text/template. `guarded` =
//	            the literal refuses to go on above a bound (an early return under a `>` / `>=` comparison before the
//	            nested execution) and keeps a counter that it increments before and DECREMENTS after the nested
//	            execution.

import (
	"fmt"
	"go/ast"
	"go/token"
	"go/types"
	"sort"
	"strings"

	"golang.org/x/tools/go/packages"
)

type ctorLit struct {
	fn   string
	pos  token.Pos
	keys map[string]bool
}

func namedStruct(t types.Type) (*types.Named, *types.Struct) {
	if p, ok := t.(*types.Pointer); ok {
		t = p.Elem()
	}
	n, ok := t.(*types.Named)
	if !ok {
		return nil, nil
	}
	st, ok := n.Underlying().(*types.Struct)
	if !ok {
		return nil, nil
	}
	return n, st
}

func compositeOf(e ast.Expr) *ast.CompositeLit {
	e = unparen(e)
	if u, ok := e.(*ast.UnaryExpr); ok && u.Op == token.AND {
		e = unparen(u.X)
	}
	cl, _ := e.(*ast.CompositeLit)
	return cl
}

func nilableField(t types.Type) bool {
	switch t.Underlying().(type) {
	case *types.Interface, *types.Pointer, *types.Map, *types.Chan, *types.Signature:
		return true
	}
	return false
}

func (w *walker) unsetFields(p *packages.Package) {
	info := p.TypesInfo
	ctors := map[*types.Named][]ctorLit{}
	record := func(fn string, cl *ast.CompositeLit) {
		tv, ok := info.Types[cl]
		if !ok {
			return
		}
		n, st := namedStruct(tv.Type)
		if n == nil || n.Obj().Pkg() != p.Types {
			return
		}
		keys := map[string]bool{}
		for i, el := range cl.Elts {
			if kv, ok := el.(*ast.KeyValueExpr); ok {
				if id, ok := kv.Key.(*ast.Ident); ok {
					keys[id.Name] = true
				}
			} else if i < st.NumFields() {
				keys[st.Field(i).Name()] = true // positional literal
			}
		}
		if len(cl.Elts) == 0 {
			return // zero value: not a constructor's literal
		}
		ctors[n] = append(ctors[n], ctorLit{fn, cl.Pos(), keys})
	}
	type use struct{ fn string }
	uses := map[*types.Var]map[string]bool{}
	for _, f := range p.Syntax {
		fname := p.Fset.Position(f.Pos()).Filename
		if strings.HasSuffix(fname, "_test.go") || strings.Contains(fname, "zz_verif_export") {
			continue
		}
		for _, d := range f.Decls {
			fd, ok := d.(*ast.FuncDecl)
			if !ok || fd.Body == nil {
				continue
			}
			name := funcName(fd)
			// constructors: returned literals, directly or through a local
			locals := map[types.Object]*ast.CompositeLit{}
			ast.Inspect(fd.Body, func(n ast.Node) bool {
				switch x := n.(type) {
				case *ast.FuncLit:
					return false
				case *ast.AssignStmt:
					if len(x.Lhs) == len(x.Rhs) {
						for i, l := range x.Lhs {
							if id, ok := l.(*ast.Ident); ok {
								if cl := compositeOf(x.Rhs[i]); cl != nil {
									locals[info.ObjectOf(id)] = cl
								}
							}
						}
					}
				case *ast.ReturnStmt:
					for _, r := range x.Results {
						if cl := compositeOf(r); cl != nil {
							record(name, cl)
						} else if id, ok := unparen(r).(*ast.Ident); ok {
							if cl, ok := locals[info.ObjectOf(id)]; ok {
								record(name, cl)
							}
						}
					}
				}
				return true
			})
			// uses: calls through / dereferences of / passing on of a field of a struct of this package
			mark := func(e ast.Expr) {
				se, ok := unparen(e).(*ast.SelectorExpr)
				if !ok {
					return
				}
				sel, ok := info.Selections[se]
				if !ok || sel.Kind() != types.FieldVal {
					return
				}
				fv, ok := sel.Obj().(*types.Var)
				if !ok || !nilableField(fv.Type()) {
					return
				}
				if uses[fv] == nil {
					uses[fv] = map[string]bool{}
				}
				uses[fv][name] = true
			}
			ast.Inspect(fd.Body, func(n ast.Node) bool {
				switch x := n.(type) {
				case *ast.CallExpr:
					mark(x.Fun) // x.F(...)
					if se, ok := unparen(x.Fun).(*ast.SelectorExpr); ok {
						mark(se.X) // x.F.M(...)
					}
					for _, a := range x.Args {
						mark(a) // f(x.F)
					}
				case *ast.SelectorExpr:
					if sel, ok := info.Selections[x]; ok && sel.Kind() == types.FieldVal {
						mark(x.X) // x.F.G
					}
				case *ast.StarExpr:
					mark(x.X)
				case *ast.IndexExpr:
					mark(x.X)
				}
				return true
			})
		}
	}
	var names []*types.Named
	for n := range ctors {
		names = append(names, n)
	}
	sort.Slice(names, func(i, j int) bool { return names[i].Obj().Name() < names[j].Obj().Name() })
	for _, n := range names {
		lits := ctors[n]
		if len(lits) < 2 {
			continue
		}
		st := n.Underlying().(*types.Struct)
		for i := 0; i < st.NumFields(); i++ {
			fv := st.Field(i)
			if !nilableField(fv.Type()) || len(uses[fv]) == 0 {
				continue
			}
			var setBy, unsetBy []ctorLit
			for _, l := range lits {
				if l.keys[fv.Name()] {
					setBy = append(setBy, l)
				} else {
					unsetBy = append(unsetBy, l)
				}
			}
			if len(setBy) == 0 || len(unsetBy) == 0 {
				continue
			}
			var users []string
			for u := range uses[fv] {
				users = append(users, u)
			}
			sort.Strings(users)
			seen := map[string]bool{}
			for _, l := range unsetBy {
				if seen[l.fn] {
					continue
				}
				seen[l.fn] = true
				w.add(l.pos, l.fn, "unsetfield", fmt.Sprintf("%s.%s left unset; used in %s", n.Obj().Name(), fv.Name(), strings.Join(users, ", ")), false)
			}
		}
	}
}

// templateReentry: function literals in a template function table that execute templates again.
func (w *walker) templateReentry(name string, body ast.Node) {
	info := w.pkg.TypesInfo
	check := func(label string, fl *ast.FuncLit) {
		var call *ast.CallExpr
		ast.Inspect(fl.Body, func(n ast.Node) bool {
			c, ok := n.(*ast.CallExpr)
			if !ok || call != nil {
				return true
			}
			se, ok := unparen(c.Fun).(*ast.SelectorExpr)
			if !ok || (se.Sel.Name != "ExecuteTemplate" && se.Sel.Name != "Execute") {
				return true
			}
			if fn, ok := info.Uses[se.Sel].(*types.Func); ok && fn.Pkg() != nil && strings.HasSuffix(fn.Pkg().Path(), "/template") {
				call = c
			}
			return true
		})
		if call == nil {
			return
		}
		bounded, inc, dec := false, false, false
		ast.Inspect(fl.Body, func(n ast.Node) bool {
			switch x := n.(type) {
			case *ast.IfStmt:
				if x.End() < call.Pos() {
					if b, ok := unparen(x.Cond).(*ast.BinaryExpr); ok && (b.Op == token.GTR || b.Op == token.GEQ) && terminates(info, x.Body) {
						bounded = true
					}
				} else if x.Pos() < call.Pos() {
					// nested: `if v, ok := m[name]; ok { if v > limit { return } ... }`
					ast.Inspect(x, func(m ast.Node) bool {
						if y, ok := m.(*ast.IfStmt); ok && y != x && y.End() < call.Pos() {
							if b, ok := unparen(y.Cond).(*ast.BinaryExpr); ok && (b.Op == token.GTR || b.Op == token.GEQ) && terminates(info, y.Body) {
								bounded = true
							}
						}
						return true
					})
				}
			case *ast.IncDecStmt:
				if _, ok := unparen(x.X).(*ast.IndexExpr); ok {
					if x.Tok == token.INC && x.Pos() < call.Pos() {
						inc = true
					}
					if x.Tok == token.DEC && x.Pos() > call.End() {
						dec = true
					}
				}
			}
			return true
		})
		w.add(fl.Pos(), name, "recursion", fmt.Sprintf("%s -> %s (re-entrant through text/template)", label, types.ExprString(call.Fun)), bounded && inc && dec)
	}
	ast.Inspect(body, func(n ast.Node) bool {
		switch x := n.(type) {
		case *ast.AssignStmt:
			for i, l := range x.Lhs {
				ix, ok := unparen(l).(*ast.IndexExpr)
				if !ok || i >= len(x.Rhs) {
					continue
				}
				if fl, ok := unparen(x.Rhs[i]).(*ast.FuncLit); ok {
					check(types.ExprString(ix.Index), fl)
				}
			}
		case *ast.KeyValueExpr:
			if fl, ok := unparen(x.Value).(*ast.FuncLit); ok {
				check(types.ExprString(x.Key), fl)
			}
		}
		return true
	})
}
