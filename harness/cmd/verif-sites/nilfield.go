package main

// Two further site kinds of the C19 translator.
//
//	nilfield  a dereference (field access, method call, *p, p[i]) of a pointer that is a STRUCT FIELD reached
//	          through a selector chain (`a.B.C` where a.B is a pointer-typed field), or of a local variable that
//	          was assigned such a chain (`x := a.B; x.C`). `guarded` = the dereference is dominated, in the same
//	          function, by a nil check of that chain (or of the alias): an enclosing `if .. chain != nil ..`,
//	          the left operand of the same && / ||, an earlier `if chain == nil { return/continue/break/panic }`
//	          in an enclosing block, or an earlier `case chain == nil:` of the enclosing tagless switch.
//	          One site per (function, chain, guarded); n counts the dereferences.
//	dyncmp    == / != with both operands of an interface type without methods (any): panics when the dynamic
//	          types are equal and not comparable (slices, maps).

import (
	"go/ast"
	"go/token"
	"go/types"
	"strings"
)

type nilfieldKey struct {
	chain   string
	guarded bool
}

// ptrFieldChain: e is a selector chain whose last selection is a struct field of pointer type.
func ptrFieldChain(info *types.Info, e ast.Expr) (string, bool) {
	se, ok := unparen(e).(*ast.SelectorExpr)
	if !ok {
		return "", false
	}
	sel, ok := info.Selections[se]
	if !ok || sel.Kind() != types.FieldVal {
		return "", false
	}
	if _, ptr := sel.Type().Underlying().(*types.Pointer); !ptr {
		return "", false
	}
	return norm(types.ExprString(se)), true
}

func isNilIdent(info *types.Info, e ast.Expr) bool {
	id, ok := unparen(e).(*ast.Ident)
	if !ok {
		return false
	}
	_, isNil := info.Uses[id].(*types.Nil)
	return isNil
}

// cmpNil: e is `t op nil` or `nil op t` for one of the given texts.
func cmpNil(info *types.Info, e ast.Expr, op token.Token, texts []string) bool {
	b, ok := unparen(e).(*ast.BinaryExpr)
	if !ok || b.Op != op {
		return false
	}
	var other ast.Expr
	switch {
	case isNilIdent(info, b.Y):
		other = b.X
	case isNilIdent(info, b.X):
		other = b.Y
	default:
		return false
	}
	t := norm(types.ExprString(unparen(other)))
	for _, x := range texts {
		if x == t {
			return true
		}
	}
	return false
}

// assertsNonNil: whenever e evaluates to true, one of texts is non-nil (conjuncts of &&).
func assertsNonNil(info *types.Info, e ast.Expr, texts []string) bool {
	e = unparen(e)
	if cmpNil(info, e, token.NEQ, texts) {
		return true
	}
	if b, ok := e.(*ast.BinaryExpr); ok && b.Op == token.LAND {
		return assertsNonNil(info, b.X, texts) || assertsNonNil(info, b.Y, texts)
	}
	return false
}

// impliedByNil: whenever one of texts is nil, e evaluates to true (disjuncts of ||).
func impliedByNil(info *types.Info, e ast.Expr, texts []string) bool {
	e = unparen(e)
	if cmpNil(info, e, token.EQL, texts) {
		return true
	}
	if b, ok := e.(*ast.BinaryExpr); ok && b.Op == token.LOR {
		return impliedByNil(info, b.X, texts) || impliedByNil(info, b.Y, texts)
	}
	return false
}

func terminates(info *types.Info, body *ast.BlockStmt) bool {
	if body == nil || len(body.List) == 0 {
		return false
	}
	switch s := body.List[len(body.List)-1].(type) {
	case *ast.ReturnStmt, *ast.BranchStmt:
		return true
	case *ast.ExprStmt:
		if c, ok := s.X.(*ast.CallExpr); ok {
			if id, ok := unparen(c.Fun).(*ast.Ident); ok {
				if b, ok := info.Uses[id].(*types.Builtin); ok && b.Name() == "panic" {
					return true
				}
			}
			if se, ok := unparen(c.Fun).(*ast.SelectorExpr); ok && (se.Sel.Name == "Exit" || se.Sel.Name == "Fatal" || se.Sel.Name == "Fatalf") {
				return true
			}
		}
	}
	return false
}

func contains(outer, inner ast.Node) bool {
	return outer != nil && inner != nil && outer.Pos() <= inner.Pos() && inner.End() <= outer.End()
}

// guardedBy: is node n (inside the ancestors on stack, outermost first) dominated by a nil check of texts.
func guardedBy(info *types.Info, stack []ast.Node, n ast.Node, texts []string) bool {
	for i := len(stack) - 1; i >= 0; i-- {
		switch a := stack[i].(type) {
		case *ast.IfStmt:
			if contains(a.Body, n) && assertsNonNil(info, a.Cond, texts) {
				return true
			}
			if a.Else != nil && contains(a.Else, n) && impliedByNil(info, a.Cond, texts) {
				return true
			}
		case *ast.BinaryExpr:
			if a.Op == token.LAND && contains(a.Y, n) && assertsNonNil(info, a.X, texts) {
				return true
			}
			if a.Op == token.LOR && contains(a.Y, n) && impliedByNil(info, a.X, texts) {
				return true
			}
		case *ast.BlockStmt:
			if earlierReturnOnNil(info, a.List, n, texts) {
				return true
			}
		case *ast.CaseClause:
			if earlierReturnOnNil(info, a.Body, n, texts) {
				return true
			}
			for _, ce := range a.List {
				if contains(n, ce) || contains(ce, n) {
					continue
				}
				if assertsNonNil(info, ce, texts) {
					return true
				}
			}
			// an earlier clause of the same tagless switch handles the nil case
			if i >= 2 {
				if sw, ok := stack[i-2].(*ast.SwitchStmt); ok && sw.Tag == nil {
					for _, st := range sw.Body.List {
						cc, ok := st.(*ast.CaseClause)
						if !ok || cc == a {
							break
						}
						for _, ce := range cc.List {
							if impliedByNil(info, ce, texts) {
								return true
							}
						}
					}
				}
			}
		case *ast.ForStmt:
			if a.Cond != nil && contains(a.Body, n) && assertsNonNil(info, a.Cond, texts) {
				return true
			}
		}
	}
	return false
}

func earlierReturnOnNil(info *types.Info, list []ast.Stmt, n ast.Node, texts []string) bool {
	for _, st := range list {
		if contains(st, n) || st.Pos() > n.Pos() {
			break
		}
		ifs, ok := st.(*ast.IfStmt)
		if !ok {
			continue
		}
		if impliedByNil(info, ifs.Cond, texts) && terminates(info, ifs.Body) {
			return true
		}
	}
	return false
}

// derefOperand: the expression that is dereferenced by node n (given its parent), if any.
func derefOperand(info *types.Info, n ast.Node) ast.Expr {
	switch x := n.(type) {
	case *ast.SelectorExpr:
		sel, ok := info.Selections[x]
		if !ok {
			return nil // qualified identifier
		}
		switch sel.Kind() {
		case types.FieldVal:
			return x.X // implicit dereference if x.X is a pointer
		case types.MethodVal:
			return x.X
		}
	case *ast.StarExpr:
		if tv, ok := info.Types[x]; ok && tv.IsType() {
			return nil
		}
		return x.X
	case *ast.IndexExpr:
		if tv, ok := info.Types[x.X]; ok && !tv.IsType() {
			if p, ok := tv.Type.Underlying().(*types.Pointer); ok {
				if _, arr := p.Elem().Underlying().(*types.Array); arr {
					return x.X
				}
			}
		}
	}
	return nil
}

func (w *walker) nilfieldAndCmp(name string, body ast.Node) {
	info := w.pkg.TypesInfo
	// aliases: local variables assigned (once, at their definition) from a pointer field chain
	alias := map[types.Object]string{}
	assigned := map[types.Object]int{}
	ast.Inspect(body, func(n ast.Node) bool {
		as, ok := n.(*ast.AssignStmt)
		if !ok {
			return true
		}
		for i, l := range as.Lhs {
			id, ok := l.(*ast.Ident)
			if !ok {
				continue
			}
			obj := info.ObjectOf(id)
			if obj == nil {
				continue
			}
			assigned[obj]++
			if as.Tok == token.DEFINE && len(as.Lhs) == len(as.Rhs) {
				if chain, ok := ptrFieldChain(info, as.Rhs[i]); ok && info.Defs[id] != nil {
					alias[obj] = chain
				}
			}
		}
		return true
	})
	counts := map[nilfieldKey]int{}
	first := map[nilfieldKey]token.Pos{}
	var order []nilfieldKey
	var stack []ast.Node
	ast.Inspect(body, func(n ast.Node) bool {
		if n == nil {
			stack = stack[:len(stack)-1]
			return true
		}
		defer func() { stack = append(stack, n) }()
		if b, ok := n.(*ast.BinaryExpr); ok && (b.Op == token.EQL || b.Op == token.NEQ) {
			if isEmptyIface(info, b.X) && isEmptyIface(info, b.Y) && !isNilIdent(info, b.X) && !isNilIdent(info, b.Y) {
				w.add(b.Pos(), name, "dyncmp", types.ExprString(b), false)
			}
		}
		op := derefOperand(info, n)
		if op == nil {
			return true
		}
		var chain string
		var texts []string
		if c, ok := ptrFieldChain(info, op); ok {
			chain, texts = c, []string{c}
		} else if id, ok := unparen(op).(*ast.Ident); ok {
			obj := info.ObjectOf(id)
			if c, ok := alias[obj]; ok && assigned[obj] == 1 {
				chain, texts = c+" (via "+id.Name+")", []string{c, id.Name}
			}
		}
		if chain == "" {
			return true
		}
		// method calls on pointer receivers do not dereference by themselves
		if se, ok := n.(*ast.SelectorExpr); ok {
			if sel := info.Selections[se]; sel != nil && sel.Kind() == types.MethodVal {
				if sig, ok := sel.Obj().Type().(*types.Signature); ok && sig.Recv() != nil {
					if _, ptrRecv := sig.Recv().Type().(*types.Pointer); ptrRecv && !sel.Indirect() {
						return true
					}
				}
			}
		}
		k := nilfieldKey{chain, guardedBy(info, stack, n, texts)}
		if counts[k] == 0 {
			order = append(order, k)
			first[k] = n.Pos()
		}
		counts[k]++
		return true
	})
	for _, k := range order {
		for i := 0; i < counts[k]; i++ {
			w.add(first[k], name, "nilfield", k.chain, k.guarded)
		}
	}
}

func isEmptyIface(info *types.Info, e ast.Expr) bool {
	tv, ok := info.Types[e]
	if !ok || tv.Type == nil {
		return false
	}
	it, ok := tv.Type.Underlying().(*types.Interface)
	return ok && it.NumMethods() == 0
}

// guardPath: the conditions under which target (a node inside body) is reached, outermost first: the
// conditions of the enclosing if statements (negated for the else branch) and the case lists of the enclosing
// switch clauses. It is part of the identity of explicit-panic sites: such a panic states "cannot happen
// here", and what "here" means is these conditions - a changed guard is a different site.
func guardPath(body ast.Node, target ast.Node) []string {
	var stack []ast.Node
	var found []ast.Node
	ast.Inspect(body, func(n ast.Node) bool {
		if n == nil {
			stack = stack[:len(stack)-1]
			return true
		}
		if n == target && found == nil {
			found = append([]ast.Node{}, stack...)
		}
		stack = append(stack, n)
		return true
	})
	var out []string
	for i, a := range found {
		switch x := a.(type) {
		case *ast.IfStmt:
			switch {
			case contains(x.Body, target):
				out = append(out, "if "+norm(types.ExprString(x.Cond)))
			case x.Else != nil && contains(x.Else, target):
				out = append(out, "if !("+norm(types.ExprString(x.Cond))+")")
			}
		case *ast.CaseClause:
			tag := ""
			if i >= 2 {
				if sw, ok := found[i-2].(*ast.SwitchStmt); ok && sw.Tag != nil {
					tag = norm(types.ExprString(sw.Tag)) + " "
				}
			}
			if len(x.List) == 0 {
				out = append(out, "switch "+tag+"default")
				continue
			}
			var cs []string
			for _, e := range x.List {
				cs = append(cs, norm(types.ExprString(e)))
			}
			out = append(out, "switch "+tag+"case "+strings.Join(cs, ", "))
		}
	}
	return out
}
