// Command verif-sites is the panic-site translator of the C19 check (/verif). It type-checks the
// anchored packages of the tree it is built into (go build -overlay, like verif-harness) and lists
// every syntactic place where Go can panic at run time on account of a *value*:
//
//	assert     x.(T) in single-value form (outside a type switch)
//	index      x[i] / x[i:j] on a slice, string or (non-constant index) array / pointer to array
//	panic      explicit call of the builtin panic; the conditions it sits under (enclosing if / case) are part of expr
//	must       call of a Must*/must* helper
//	nilderef   v, err := f(); v dereferenced before an unconditional `if err != nil` guard
//	recursion  function that (directly) calls itself
//	nilarg     literal nil passed for a pointer or interface parameter of a function of another module
//	nilfield   dereference of a pointer-typed struct field reached through a selector chain (nilfield.go)
//	dyncmp     == / != on two operands of type any (nilfield.go)
//	unsetfield a nilable field that one constructor of a struct sets and another leaves out, and that is used (unsetfield.go)
//
// One JSON document per line: {file, line, func, kind, expr, guarded, n}. `guarded` is a syntactic
// heuristic (see the guard* functions); line numbers are informational and are not part of a
// site's identity. usage: verif-sites <repo root> <package pattern>...
package main

import (
	"encoding/json"
	"fmt"
	"go/ast"
	"go/constant"
	"go/token"
	"go/types"
	"os"
	"path/filepath"
	"sort"
	"strings"

	"golang.org/x/tools/go/packages"
)

type site struct {
	File    string `json:"file"`
	Line    int    `json:"line"`
	Func    string `json:"func"`
	Kind    string `json:"kind"`
	Expr    string `json:"expr"`
	Guarded bool   `json:"guarded"`
	N       int    `json:"n"`
}

func norm(s string) string { return strings.Join(strings.Fields(s), " ") }

func unparen(e ast.Expr) ast.Expr {
	for {
		p, ok := e.(*ast.ParenExpr)
		if !ok {
			return e
		}
		e = p.X
	}
}

type walker struct {
	pkg   *packages.Package
	root  string
	sites []site
}

func (w *walker) add(pos token.Pos, fn, kind, expr string, guarded bool) {
	p := w.pkg.Fset.Position(pos)
	rel, err := filepath.Rel(w.root, p.Filename)
	if err != nil || strings.HasPrefix(rel, "..") {
		// a dependency outside the tree (module cache): import path + file name, version-independent
		rel = w.pkg.PkgPath + "/" + filepath.Base(p.Filename)
	}
	w.sites = append(w.sites, site{File: rel, Line: p.Line, Func: fn, Kind: kind, Expr: norm(expr), Guarded: guarded, N: 1})
}

func funcName(d *ast.FuncDecl) string {
	if d.Recv == nil || len(d.Recv.List) == 0 {
		return d.Name.Name
	}
	t := d.Recv.List[0].Type
	star := ""
	if s, ok := t.(*ast.StarExpr); ok {
		star, t = "*", s.X
	}
	if ix, ok := t.(*ast.IndexExpr); ok {
		t = ix.X
	}
	if ix, ok := t.(*ast.IndexListExpr); ok {
		t = ix.X
	}
	return "(" + star + types.ExprString(t) + ")." + d.Name.Name
}

// lenChecked: the function body mentions len(<operand>) (or cap), or the operand is ranged over with
// the index variable used as the index, anywhere in the enclosing function.
func lenChecked(body ast.Node, operand string, index ast.Expr, info *types.Info) bool {
	found := false
	var idxObj types.Object
	if id, ok := unparen(index).(*ast.Ident); ok && index != nil {
		idxObj = info.ObjectOf(id)
	}
	ast.Inspect(body, func(n ast.Node) bool {
		if found {
			return false
		}
		switch x := n.(type) {
		case *ast.CallExpr:
			if id, ok := x.Fun.(*ast.Ident); ok && (id.Name == "len" || id.Name == "cap") && len(x.Args) == 1 {
				if norm(types.ExprString(x.Args[0])) == operand {
					found = true
				}
			}
		case *ast.RangeStmt:
			if idxObj != nil && x.Key != nil && norm(types.ExprString(x.X)) == operand {
				if id, ok := x.Key.(*ast.Ident); ok && info.ObjectOf(id) == idxObj {
					found = true
				}
			}
		}
		return true
	})
	return found
}

func isConst(info *types.Info, e ast.Expr) (constant.Value, bool) {
	if e == nil {
		return nil, false
	}
	tv, ok := info.Types[e]
	if !ok || tv.Value == nil {
		return nil, false
	}
	return tv.Value, true
}

func (w *walker) walkFunc(name string, recvObj types.Object, body ast.Node) {
	info := w.pkg.TypesInfo
	w.nilfieldAndCmp(name, body)
	w.templateReentry(name, body)
	okForm := map[*ast.TypeAssertExpr]bool{}
	ast.Inspect(body, func(n ast.Node) bool {
		switch x := n.(type) {
		case *ast.AssignStmt:
			if len(x.Lhs) == 2 && len(x.Rhs) == 1 {
				if ta, ok := unparen(x.Rhs[0]).(*ast.TypeAssertExpr); ok {
					okForm[ta] = true
				}
			}
		case *ast.ValueSpec:
			if len(x.Names) == 2 && len(x.Values) == 1 {
				if ta, ok := unparen(x.Values[0]).(*ast.TypeAssertExpr); ok {
					okForm[ta] = true
				}
			}
		}
		return true
	})
	ast.Inspect(body, func(n ast.Node) bool {
		switch x := n.(type) {
		case *ast.TypeAssertExpr:
			if x.Type != nil && !okForm[x] {
				w.add(x.Pos(), name, "assert", types.ExprString(x), false)
			}
		case *ast.IndexExpr:
			w.index(name, body, x.X, x.Index, x, false)
		case *ast.SliceExpr:
			w.index(name, body, x.X, nil, x, true)
		case *ast.CallExpr:
			w.nilarg(name, x)
			switch f := unparen(x.Fun).(type) {
			case *ast.Ident:
				if b, ok := info.Uses[f].(*types.Builtin); ok && b.Name() == "panic" {
					expr := types.ExprString(x)
					if g := guardPath(body, x); len(g) > 0 {
						expr += " [" + strings.Join(g, "; ") + "]"
					}
					w.add(x.Pos(), name, "panic", expr, false)
				}
				if isMust(f.Name) {
					w.add(x.Pos(), name, "must", types.ExprString(x), allConst(info, x.Args))
				}
				if recvObj != nil && info.Uses[f] == recvObj {
					w.add(x.Pos(), name, "recursion", types.ExprString(x.Fun), false)
				}
			case *ast.SelectorExpr:
				if isMust(f.Sel.Name) {
					w.add(x.Pos(), name, "must", types.ExprString(x), allConst(info, x.Args))
				}
				if recvObj != nil && info.Uses[f.Sel] == recvObj {
					w.add(x.Pos(), name, "recursion", types.ExprString(x.Fun), false)
				}
			}
		case *ast.BlockStmt:
			w.nilderef(name, x.List)
		case *ast.CaseClause:
			w.nilderef(name, x.Body)
		case *ast.CommClause:
			w.nilderef(name, x.Body)
		}
		return true
	})
}

// nilarg: f(.., nil, ..) where f belongs to another module and the parameter is a pointer or an interface: whether the
// callee tolerates nil is a contract of that library.
func (w *walker) nilarg(name string, call *ast.CallExpr) {
	info := w.pkg.TypesInfo
	var obj types.Object
	switch f := unparen(call.Fun).(type) {
	case *ast.Ident:
		obj = info.Uses[f]
	case *ast.SelectorExpr:
		obj = info.Uses[f.Sel]
	}
	fn, ok := obj.(*types.Func)
	if !ok || fn.Pkg() == nil {
		return
	}
	path := fn.Pkg().Path()
	if path == w.pkg.PkgPath || strings.HasPrefix(path, "package-operator.run/") || !strings.Contains(path, ".") {
		return // same module, or standard library
	}
	sig, ok := fn.Type().(*types.Signature)
	if !ok {
		return
	}
	for i, a := range call.Args {
		id, ok := unparen(a).(*ast.Ident)
		if !ok || id.Name != "nil" {
			continue
		}
		if _, isNil := info.Uses[id].(*types.Nil); !isNil {
			continue
		}
		var pt types.Type
		switch {
		case sig.Variadic() && i >= sig.Params().Len()-1:
			continue
		case i < sig.Params().Len():
			pt = sig.Params().At(i).Type()
		default:
			continue
		}
		_, ptr := pt.Underlying().(*types.Pointer)
		_, iface := pt.Underlying().(*types.Interface)
		if !ptr && !iface {
			continue
		}
		w.add(call.Pos(), name, "nilarg", fmt.Sprintf("%s arg %d (%s) of %s", "nil", i, types.TypeString(pt, func(p *types.Package) string { return p.Name() }), types.ExprString(call.Fun)), false)
	}
}

func isMust(n string) bool {
	return strings.HasPrefix(n, "Must") || (strings.HasPrefix(n, "must") && len(n) > 4 && n[4] >= 'A' && n[4] <= 'Z')
}

func allConst(info *types.Info, args []ast.Expr) bool {
	for _, a := range args {
		if _, ok := isConst(info, a); !ok {
			return false
		}
	}
	return true
}

func (w *walker) index(name string, body ast.Node, operand, idx ast.Expr, whole ast.Expr, slice bool) {
	info := w.pkg.TypesInfo
	tv, ok := info.Types[operand]
	if !ok || tv.IsType() {
		return // generic instantiation or unknown
	}
	t := tv.Type.Underlying()
	if p, ok := t.(*types.Pointer); ok {
		t = p.Elem().Underlying()
	}
	switch tt := t.(type) {
	case *types.Map, *types.Signature:
		return
	case *types.TypeParam:
	case *types.Array:
		if !slice {
			if _, c := isConst(info, idx); c {
				return // checked by the compiler
			}
		}
		_ = tt
	case *types.Slice:
	case *types.Basic:
		if tt.Info()&types.IsString == 0 {
			return
		}
		if _, c := isConst(info, operand); c {
			if _, c2 := isConst(info, idx); c2 && !slice {
				return
			}
		}
	default:
		return
	}
	if _, lit := unparen(operand).(*ast.CompositeLit); lit {
		if _, c := isConst(info, idx); c && !slice {
			return
		}
	}
	if slice {
		se := whole.(*ast.SliceExpr)
		if se.Low == nil && se.High == nil && se.Max == nil {
			return // x[:] cannot fail (nil pointer to array aside)
		}
	}
	op := norm(types.ExprString(operand))
	w.add(whole.Pos(), name, "index", types.ExprString(whole), lenChecked(body, op, idx, info))
}

func isErrorType(t types.Type) bool {
	return t != nil && types.Identical(t, types.Universe.Lookup("error").Type())
}

// exactErrNotNil: cond is literally `err != nil` for the given object.
func exactErrNotNil(info *types.Info, cond ast.Expr, errObj types.Object) bool {
	b, ok := unparen(cond).(*ast.BinaryExpr)
	if !ok || b.Op != token.NEQ {
		return false
	}
	id, ok := unparen(b.X).(*ast.Ident)
	if !ok || info.ObjectOf(id) != errObj {
		return false
	}
	nl, ok := unparen(b.Y).(*ast.Ident)
	return ok && nl.Name == "nil"
}

func chainChecks(info *types.Info, s *ast.IfStmt, errObj types.Object) bool {
	for s != nil {
		if exactErrNotNil(info, s.Cond, errObj) {
			return true
		}
		next, _ := s.Else.(*ast.IfStmt)
		s = next
	}
	return false
}

// derefUse: first place inside n where object v is dereferenced (v.f, *v, v[i]).
func derefUse(info *types.Info, n ast.Node, v types.Object) (pos token.Pos, expr string) {
	ast.Inspect(n, func(m ast.Node) bool {
		if pos != token.NoPos {
			return false
		}
		switch x := m.(type) {
		case *ast.SelectorExpr:
			if id, ok := unparen(x.X).(*ast.Ident); ok && info.ObjectOf(id) == v {
				if sel, ok := info.Selections[x]; ok && sel.Kind() == types.FieldVal {
					pos, expr = x.Pos(), types.ExprString(x)
				}
			}
		case *ast.StarExpr:
			if id, ok := unparen(x.X).(*ast.Ident); ok && info.ObjectOf(id) == v {
				pos, expr = x.Pos(), types.ExprString(x)
			}
		}
		return true
	})
	return
}

func (w *walker) nilderef(name string, list []ast.Stmt) {
	info := w.pkg.TypesInfo
	for i, st := range list {
		as, ok := st.(*ast.AssignStmt)
		if !ok || len(as.Lhs) != 2 || len(as.Rhs) != 1 {
			continue
		}
		if _, ok := unparen(as.Rhs[0]).(*ast.CallExpr); !ok {
			continue
		}
		vid, ok1 := as.Lhs[0].(*ast.Ident)
		eid, ok2 := as.Lhs[1].(*ast.Ident)
		if !ok1 || !ok2 || vid.Name == "_" || eid.Name == "_" {
			continue
		}
		v, e := info.ObjectOf(vid), info.ObjectOf(eid)
		if v == nil || e == nil || !isErrorType(e.Type()) {
			continue
		}
		if _, ptr := v.Type().Underlying().(*types.Pointer); !ptr {
			continue
		}
		for _, later := range list[i+1:] {
			if ifs, ok := later.(*ast.IfStmt); ok && ifs.Init == nil && chainChecks(info, ifs, e) {
				break
			}
			if pos, expr := derefUse(info, later, v); pos != token.NoPos {
				w.add(pos, name, "nilderef", expr+" after "+types.ExprString(as.Rhs[0]), false)
				break
			}
			// the error variable is overwritten: the original error can no longer be checked
			if as2, ok := later.(*ast.AssignStmt); ok {
				over := false
				for _, l := range as2.Lhs {
					if id, ok := l.(*ast.Ident); ok && info.ObjectOf(id) == e {
						over = true
					}
				}
				if over {
					break
				}
			}
		}
	}
}

func main() {
	if len(os.Args) < 3 {
		fmt.Fprintln(os.Stderr, "usage: verif-sites <repo root> <pattern>...")
		os.Exit(2)
	}
	root, err := filepath.Abs(os.Args[1])
	if err != nil {
		panic(err)
	}
	cfg := &packages.Config{
		Mode: packages.NeedName | packages.NeedFiles | packages.NeedCompiledGoFiles | packages.NeedImports |
			packages.NeedTypes | packages.NeedSyntax | packages.NeedTypesInfo | packages.NeedTypesSizes,
		Dir: root, Env: os.Environ(), Tests: false,
	}
	pkgs, err := packages.Load(cfg, os.Args[2:]...)
	if err != nil {
		fmt.Fprintln(os.Stderr, "load:", err)
		os.Exit(1)
	}
	bad := false
	var all []site
	for _, p := range pkgs {
		for _, e := range p.Errors {
			fmt.Fprintln(os.Stderr, "package error:", p.PkgPath, e)
			bad = true
		}
		w := &walker{pkg: p, root: root}
		for _, f := range p.Syntax {
			fname := p.Fset.Position(f.Pos()).Filename
			if strings.HasSuffix(fname, "_test.go") || strings.Contains(filepath.Base(fname), "zz_verif_export") {
				continue
			}
			for _, d := range f.Decls {
				switch x := d.(type) {
				case *ast.FuncDecl:
					if x.Body != nil {
						w.walkFunc(funcName(x), p.TypesInfo.Defs[x.Name], x.Body)
					}
				case *ast.GenDecl:
					for _, s := range x.Specs {
						if vs, ok := s.(*ast.ValueSpec); ok {
							for i, v := range vs.Values {
								n := "var"
								if i < len(vs.Names) {
									n = "var " + vs.Names[i].Name
								} else if len(vs.Names) > 0 {
									n = "var " + vs.Names[0].Name
								}
								w.walkFunc(n, nil, v)
							}
						}
					}
				}
			}
		}
		w.unsetFields(p)
		all = append(all, w.sites...)
	}
	if bad {
		os.Exit(1)
	}
	// merge identical (file, func, kind, expr, guarded) into one entry with a count
	type key struct {
		File, Func, Kind, Expr string
		Guarded                bool
	}
	idx := map[key]int{}
	var out []site
	for _, s := range all {
		k := key{s.File, s.Func, s.Kind, s.Expr, s.Guarded}
		if i, ok := idx[k]; ok {
			out[i].N++
			continue
		}
		idx[k] = len(out)
		out = append(out, s)
	}
	sort.SliceStable(out, func(i, j int) bool {
		a, b := out[i], out[j]
		if a.File != b.File {
			return a.File < b.File
		}
		if a.Line != b.Line {
			return a.Line < b.Line
		}
		return a.Expr < b.Expr
	})
	enc := json.NewEncoder(os.Stdout)
	enc.SetEscapeHTML(false)
	for _, s := range out {
		if err := enc.Encode(s); err != nil {
			panic(err)
		}
	}
}
