//go:build verif

package main

// Abstraction / concretisation between the scenario language (numbers, as in coq/theories/Base.v)
// and real unstructured objects. Purely syntactic; part of the trusted base.

import (
	"encoding/json"
	"fmt"
	"sort"
	"strconv"
	"strings"
	"time"

	"k8s.io/apimachinery/pkg/api/meta"
	metav1 "k8s.io/apimachinery/pkg/apis/meta/v1"
	"k8s.io/apimachinery/pkg/apis/meta/v1/unstructured"
	"k8s.io/apimachinery/pkg/runtime"
	"k8s.io/apimachinery/pkg/runtime/schema"
	clientgoscheme "k8s.io/client-go/kubernetes/scheme"

	corev1alpha1 "package-operator.run/apis/core/v1alpha1"
	"package-operator.run/internal/constants"
)

const (
	pkgLabel       = "package-operator.run/package"
	revAnnotation  = "package-operator.run/revision"
	holdFinalizer  = "verif.example/hold"
	widgetGroup    = "verif.example"
	foreignOwnerAV = "apps/v1"
)

type gkInfo struct {
	apiVersion, kind string
	namespaced       bool
	registered       bool
}

var gkTable = map[int]gkInfo{
	1: {"v1", "ConfigMap", true, true},
	2: {widgetGroup + "/v1", "Widget", true, true},
	3: {"v1", "Namespace", false, true},
	4: {widgetGroup + "/v1", "Unregistered", true, false},
}

func gkOf(apiVersion, kind string) int {
	for n, i := range gkTable {
		if i.apiVersion == apiVersion && i.kind == kind {
			return n
		}
	}
	return 0
}

var ownerKinds = map[int]string{1: "ObjectSet", 2: "ClusterObjectSet", 3: "ObjectSetPhase", 4: "ClusterObjectSetPhase",
	5: "ObjectDeployment", 6: "ClusterObjectDeployment", 9: "Deployment"}

func ownerKindNum(apiVersion, kind string) int {
	for n, k := range ownerKinds {
		if k == kind {
			if (n == 9) == (apiVersion == foreignOwnerAV) {
				return n
			}
		}
	}
	return 0
}

func ownerAPIVersion(kind int) string {
	if kind == 9 {
		return foreignOwnerAV
	}
	return corev1alpha1.GroupVersion.String()
}

func nsName(n int) string {
	if n == 0 {
		return ""
	}
	return "ns" + strconv.Itoa(n)
}

func num(prefix, s string) int {
	if s == "" {
		return 0
	}
	n, err := strconv.Atoi(strings.TrimPrefix(s, prefix))
	if err != nil {
		return -1
	}
	return n
}

func newScheme() *runtime.Scheme {
	s := runtime.NewScheme()
	_ = clientgoscheme.AddToScheme(s)
	_ = corev1alpha1.AddToScheme(s)
	return s
}

func newMapper() meta.RESTMapper {
	m := meta.NewDefaultRESTMapper([]schema.GroupVersion{{Group: "", Version: "v1"}, {Group: widgetGroup, Version: "v1"}, corev1alpha1.GroupVersion})
	for _, i := range gkTable {
		if !i.registered {
			continue
		}
		gv, _ := schema.ParseGroupVersion(i.apiVersion)
		scope := meta.RESTScopeNamespace
		if !i.namespaced {
			scope = meta.RESTScopeRoot
		}
		m.Add(gv.WithKind(i.kind), scope)
	}
	for _, k := range []string{"ObjectSet", "ObjectSetPhase", "ObjectDeployment", "ObjectSlice", "Package", "ObjectTemplate"} {
		m.Add(corev1alpha1.GroupVersion.WithKind(k), meta.RESTScopeNamespace)
		m.Add(corev1alpha1.GroupVersion.WithKind("Cluster"+k), meta.RESTScopeRoot)
	}
	return m
}

// ---- abstract types (JSON)

type aRef [4]int // kind, name, uid, ctrl(0/1)

type aObj struct {
	GK       int    `json:"gk"`
	NS       int    `json:"ns"`
	Name     int    `json:"name"`
	UID      int    `json:"uid"`
	RV       int    `json:"rv"`
	Gen      int64  `json:"gen"`
	Owners   []aRef `json:"owners"`
	AOwners  []aRef `json:"aowners"`
	Rev      any    `json:"rev"` // nil | number | "bad"
	Cache    bool   `json:"cache"`
	Pkg      int    `json:"pkg"`
	Body     int    `json:"body"`
	Avail    int    `json:"avail"`
	ObsGen   *int64 `json:"obsgen"`
	Deleting bool   `json:"deleting"`
	Fin      bool   `json:"fin"`
}

type aOID struct {
	Kind int `json:"kind"`
	NS   int `json:"ns"`
	Name int `json:"name"`
	UID  int `json:"uid"`
}

func pkgLabelValue(n int) string {
	switch n {
	case 0:
		return ""
	case 1:
		return "package-operator"
	default:
		return "pkg" + strconv.Itoa(n)
	}
}

func pkgLabelNum(s string) int {
	switch {
	case s == "":
		return 0
	case s == "package-operator":
		return 1
	default:
		return num("pkg", s)
	}
}

type annotRef struct {
	APIVersion string `json:"apiVersion"`
	Kind       string `json:"kind"`
	Name       string `json:"name"`
	Namespace  string `json:"namespace"`
	UID        string `json:"uid"`
	Controller *bool  `json:"controller,omitempty"`
}

func concreteRefs(rs []aRef) []any {
	out := []any{}
	for _, r := range rs {
		m := map[string]any{
			"apiVersion": ownerAPIVersion(r[0]), "kind": ownerKinds[r[0]],
			"name": "n" + strconv.Itoa(r[1]), "uid": "u" + strconv.Itoa(r[2]),
		}
		if r[3] == 1 {
			m["controller"] = true
			m["blockOwnerDeletion"] = true
		}
		out = append(out, m)
	}
	return out
}

func (a aObj) concrete() map[string]any {
	gi := gkTable[a.GK]
	md := map[string]any{"name": "n" + strconv.Itoa(a.Name)}
	if a.NS != 0 {
		md["namespace"] = nsName(a.NS)
	}
	md["uid"] = "u" + strconv.Itoa(a.UID)
	md["resourceVersion"] = strconv.Itoa(a.RV)
	md["generation"] = a.Gen
	md["creationTimestamp"] = time.Unix(1600000000, 0).UTC().Format(time.RFC3339)
	if len(a.Owners) > 0 {
		md["ownerReferences"] = concreteRefs(a.Owners)
	}
	ann := map[string]any{}
	if len(a.AOwners) > 0 {
		var rs []annotRef
		for _, r := range a.AOwners {
			ar := annotRef{APIVersion: ownerAPIVersion(r[0]), Kind: ownerKinds[r[0]], Name: "n" + strconv.Itoa(r[1]), UID: "u" + strconv.Itoa(r[2])}
			if r[0] == 1 || r[0] == 3 || r[0] == 5 {
				ar.Namespace = nsName(a.NS) // namespaced owners live in the object's namespace (the field is never compared)
			}
			if r[3] == 1 {
				t := true
				ar.Controller = &t
			}
			rs = append(rs, ar)
		}
		b, _ := json.Marshal(rs)
		ann[constants.OwnerStrategyAnnotationKey] = string(b)
	}
	switch v := a.Rev.(type) {
	case nil:
	case string:
		ann[revAnnotation] = "not-a-number"
	case float64:
		ann[revAnnotation] = strconv.FormatInt(int64(v), 10)
	case int:
		ann[revAnnotation] = strconv.Itoa(v)
	}
	if len(ann) > 0 {
		md["annotations"] = ann
	}
	lbl := map[string]any{}
	if a.Cache {
		lbl[constants.DynamicCacheLabel] = "True"
	}
	if a.Pkg != 0 {
		lbl[pkgLabel] = pkgLabelValue(a.Pkg)
	}
	if len(lbl) > 0 {
		md["labels"] = lbl
	}
	if a.Fin {
		md["finalizers"] = []any{holdFinalizer}
	}
	if a.Deleting {
		md["deletionTimestamp"] = time.Unix(1600000100, 0).UTC().Format(time.RFC3339)
	}
	m := map[string]any{"apiVersion": gi.apiVersion, "kind": gi.kind, "metadata": md,
		"spec": map[string]any{"v": strconv.Itoa(a.Body)}}
	st := map[string]any{}
	if a.Avail != 0 {
		s := "True"
		if a.Avail == 2 {
			s = "False"
		}
		st["conditions"] = []any{map[string]any{"type": "Available", "status": s}}
	}
	if a.ObsGen != nil {
		st["observedGeneration"] = *a.ObsGen
	}
	if len(st) > 0 {
		m["status"] = st
	}
	return m
}

func absRefs(refs []metav1.OwnerReference) []aRef {
	out := []aRef{}
	for _, r := range refs {
		c := 0
		if r.Controller != nil && *r.Controller {
			c = 1
		}
		out = append(out, aRef{ownerKindNum(r.APIVersion, r.Kind), num("n", r.Name), num("u", string(r.UID)), c})
	}
	return out
}

// abstractObj projects a stored object onto the fields of Base.obj. Unknown shapes yield an error
// so that they surface as correspondence failures instead of being silently dropped.
func abstractObj(m map[string]any) (aObj, error) {
	u := &unstructured.Unstructured{Object: m}
	a := aObj{GK: gkOf(u.GetAPIVersion(), u.GetKind()), NS: num("ns", u.GetNamespace()), Name: num("n", u.GetName()),
		UID: num("u", string(u.GetUID())), Gen: u.GetGeneration(), Owners: absRefs(u.GetOwnerReferences()), AOwners: []aRef{}}
	rv, err := strconv.Atoi(u.GetResourceVersion())
	if err != nil {
		return a, fmt.Errorf("resourceVersion %q", u.GetResourceVersion())
	}
	a.RV = rv
	ann := u.GetAnnotations()
	if s := ann[constants.OwnerStrategyAnnotationKey]; s != "" {
		var rs []annotRef
		if err := json.Unmarshal([]byte(s), &rs); err != nil {
			return a, err
		}
		for _, r := range rs {
			c := 0
			if r.Controller != nil && *r.Controller {
				c = 1
			}
			a.AOwners = append(a.AOwners, aRef{ownerKindNum(r.APIVersion, r.Kind), num("n", r.Name), num("u", r.UID), c})
		}
	}
	if s, ok := ann[revAnnotation]; ok && s != "" {
		if n, err := strconv.ParseInt(s, 10, 64); err == nil {
			a.Rev = n
		} else {
			a.Rev = "bad"
		}
	}
	lbl := u.GetLabels()
	a.Cache = lbl[constants.DynamicCacheLabel] == "True"
	a.Pkg = pkgLabelNum(lbl[pkgLabel])
	if v, ok, _ := unstructured.NestedString(m, "spec", "v"); ok {
		a.Body = num("", v)
	}
	conds, _, _ := unstructured.NestedSlice(m, "status", "conditions")
	for _, c := range conds {
		if cm, ok := c.(map[string]any); ok && cm["type"] == "Available" {
			if cm["status"] == "True" {
				a.Avail = 1
			} else {
				a.Avail = 2
			}
		}
	}
	if og, ok, _ := unstructured.NestedInt64(m, "status", "observedGeneration"); ok {
		a.ObsGen = &og
	}
	a.Deleting = u.GetDeletionTimestamp() != nil
	for _, f := range u.GetFinalizers() {
		if f == holdFinalizer {
			a.Fin = true
		}
	}
	return a, nil
}

func abstractOpt(m map[string]any) *aObj {
	if m == nil {
		return nil
	}
	a, err := abstractObj(m)
	if err != nil {
		a.GK = -1
	}
	return &a
}

// abstractStore lists the member-kind objects (gkTable kinds) of the store, sorted by key.
func abstractStore(s *Store) []aObj {
	out := []aObj{}
	for _, k := range s.RawKeys() {
		m := s.RawGet(k)
		u := &unstructured.Unstructured{Object: m}
		if gkOf(u.GetAPIVersion(), u.GetKind()) == 0 {
			continue
		}
		a, err := abstractObj(m)
		if err != nil {
			a.GK = -1
		}
		out = append(out, a)
	}
	sort.Slice(out, func(i, j int) bool {
		a, b := out[i], out[j]
		if a.GK != b.GK {
			return a.GK < b.GK
		}
		if a.NS != b.NS {
			return a.NS < b.NS
		}
		return a.Name < b.Name
	})
	return out
}

type aKey struct {
	GK   int `json:"gk"`
	NS   int `json:"ns"`
	Name int `json:"name"`
}

func abstractKey(k storeKey) aKey {
	av := k.Group + "/v1"
	if k.Group == "" {
		av = "v1"
	}
	return aKey{gkOf(av, k.Kind), num("ns", k.Namespace), num("n", k.Name)}
}
