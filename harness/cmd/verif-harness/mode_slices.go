//go:build verif

package main

// C14, clauses 2-4. Three modes:
//   slicenames: the real DeploymentReconciler.chunkPhase / reconcileSlice / reconcileSliceWithCollisionCount
//               against a store pre-loaded with clashing ObjectSlices (names computed with the real hash).
//   slicegc:    histories of the real DeploymentReconciler.Reconcile (prescribed chunks per phase) interleaved with
//               ObjectSets being created from the template and deleted; what sliceGarbageCollection deletes.
//   slicedset:  the real (Cluster)ObjectSet controller on twin worlds: objects inline vs. moved into ObjectSlices.

import (
	"context"
	"encoding/json"
	"errors"
	"fmt"
	"net"
	"os"
	"reflect"
	"sort"
	"strconv"

	"github.com/go-logr/logr"
	"k8s.io/apimachinery/pkg/api/equality"
	apierrors "k8s.io/apimachinery/pkg/api/errors"
	metav1 "k8s.io/apimachinery/pkg/apis/meta/v1"
	"k8s.io/apimachinery/pkg/apis/meta/v1/unstructured"
	"k8s.io/apimachinery/pkg/runtime"
	"k8s.io/apimachinery/pkg/runtime/schema"
	"k8s.io/apimachinery/pkg/types"
	ctrl "sigs.k8s.io/controller-runtime"
	"sigs.k8s.io/controller-runtime/pkg/client"

	corev1alpha1 "package-operator.run/apis/core/v1alpha1"
	manifestsv1alpha1 "package-operator.run/apis/manifests/v1alpha1"
	"package-operator.run/internal/adapters"
	"package-operator.run/internal/apis/manifests"
	"package-operator.run/internal/constants"
	"package-operator.run/internal/controllers/objectdeployments"
	"package-operator.run/internal/controllers/objectsets"
	"package-operator.run/internal/packages"
	"package-operator.run/internal/utils"
)

// ------------------------------------------------------------------ contents of slices (modes slicenames, slicegc)

// contentObjects: content number i is a list of i%3+1 ConfigMaps named after i%3 whose data carries i: different
// numbers give different lists; numbers that are equal modulo 3 list the same object identities (kind, name) with
// different manifests - what a package update that only changes manifests produces. The objects are what the real
// renderer (packagerender phaseCollector.AddObjects via RenderObjectSetTemplateSpec) makes of package objects that
// carry, besides the phase annotation: nothing / only the CEL condition annotation / another annotation / both.
func contentObjects(i int) []corev1alpha1.ObjectSetObject {
	shape := (i / 3) % 4
	if i >= 100 {
		shape = (i / 3) % 2
	}
	var raw []unstructured.Unstructured
	for j := 0; j < i%3+1; j++ {
		ann := map[string]any{manifestsv1alpha1.PackagePhaseAnnotation: "p"}
		if shape == 1 || shape == 3 {
			ann[manifestsv1alpha1.PackageCELConditionAnnotation] = "true"
		}
		if shape >= 2 {
			ann["example.com/kept"] = "yes"
		}
		raw = append(raw, unstructured.Unstructured{Object: map[string]any{
			"apiVersion": "v1", "kind": "ConfigMap",
			"metadata": map[string]any{"name": fmt.Sprintf("c%d-%d", i%3, j), "annotations": ann},
			"data":     map[string]any{"v": "value-" + strconv.Itoa(i)},
		}})
	}
	spec := packages.RenderObjectSetTemplateSpec(&packages.PackageInstance{
		Manifest: &manifests.PackageManifest{Spec: manifests.PackageManifestSpec{Phases: []manifests.PackageManifestPhase{{Name: "p"}}}},
		Objects:  raw,
	})
	if len(spec.Phases) != 1 {
		return nil
	}
	return spec.Phases[0].Objects
}

// dropEmptyMeta: what decoding by the API server does to the metadata of the objects embedded in an ObjectSlice:
// empty annotations / labels maps are dropped (the comment in phaseCollector.AddObjects relies on it).
func dropEmptyMeta(objs []corev1alpha1.ObjectSetObject) []corev1alpha1.ObjectSetObject {
	out := make([]corev1alpha1.ObjectSetObject, len(objs))
	for i := range objs {
		out[i] = *objs[i].DeepCopy()
		md, ok := out[i].Object.Object["metadata"].(map[string]any)
		if !ok {
			continue
		}
		for _, f := range []string{"annotations", "labels"} {
			if m, ok := md[f].(map[string]any); ok && len(m) == 0 {
				delete(md, f)
			}
		}
	}
	return out
}

// normClient: the recording store behind the server-side normalisation of ObjectSlices.
type normClient struct{ *Store }

func (c *normClient) normalised(obj client.Object) client.Object {
	cp := obj.DeepCopyObject().(client.Object)
	switch t := cp.(type) {
	case *corev1alpha1.ObjectSlice:
		t.Objects = dropEmptyMeta(t.Objects)
	case *corev1alpha1.ClusterObjectSlice:
		t.Objects = dropEmptyMeta(t.Objects)
	default:
		return nil
	}
	return cp
}

func (c *normClient) Create(ctx context.Context, obj client.Object, opts ...client.CreateOption) error {
	cp := c.normalised(obj)
	if cp == nil {
		return c.Store.Create(ctx, obj, opts...)
	}
	if err := c.Store.Create(ctx, cp, opts...); err != nil {
		return err
	}
	reflect.ValueOf(obj).Elem().Set(reflect.ValueOf(cp).Elem())
	return nil
}

func (c *normClient) Update(ctx context.Context, obj client.Object, opts ...client.UpdateOption) error {
	cp := c.normalised(obj)
	if cp == nil {
		return c.Store.Update(ctx, obj, opts...)
	}
	if err := c.Store.Update(ctx, cp, opts...); err != nil {
		return err
	}
	reflect.ValueOf(obj).Elem().Set(reflect.ValueOf(cp).Elem())
	return nil
}

// contentID recovers the content number of a list of objects (-1: not one of ours).
func contentID(objs []corev1alpha1.ObjectSetObject) int {
	if len(objs) == 0 {
		return -1
	}
	v, _, _ := unstructured.NestedString(objs[0].Object.Object, "data", "v")
	var i int
	if _, err := fmt.Sscanf(v, "value-%d", &i); err != nil {
		return -1
	}
	if !equality.Semantic.DeepEqual(dropEmptyMeta(objs), dropEmptyMeta(contentObjects(i))) {
		return -1
	}
	return i
}

type depWorld struct {
	cluster bool
	scheme  *runtime.Scheme
	s       *Store
	r       *packages.VerifDeploymentReconciler
	ns      string
	name    string
	uid     string
}

const (
	depName  = "dep"
	depUID   = "u30"
	otherDep = "other"
)

func newDepWorld(cluster bool) *depWorld {
	scheme := newScheme()
	s := NewStore(scheme, newMapper())
	w := &depWorld{cluster: cluster, scheme: scheme, s: s, name: depName, uid: depUID}
	if !cluster {
		w.ns = "ns1"
	}
	w.r = packages.VerifNewDeploymentReconciler(scheme, &normClient{s}, cluster)
	return w
}

func (w *depWorld) kind(base string) string {
	if w.cluster {
		return "Cluster" + base
	}
	return base
}

func (w *depWorld) newDeployment() adapters.ObjectDeploymentAccessor {
	var d adapters.ObjectDeploymentAccessor
	if w.cluster {
		d = adapters.NewClusterObjectDeployment(w.scheme)
	} else {
		d = adapters.NewObjectDeployment(w.scheme)
	}
	d.ClientObject().SetName(w.name)
	d.ClientObject().SetNamespace(w.ns)
	d.SetSelector(map[string]string{"app": w.name})
	return d
}

func (w *depWorld) put(obj client.Object) error {
	u, err := w.s.toUnstructured(obj)
	if err != nil {
		return err
	}
	w.s.RawPut(u.Object, false)
	return nil
}

func (w *depWorld) sliceKey(ns, name string) storeKey {
	return storeKey{corev1alpha1.GroupVersion.Group, w.kind("ObjectSlice"), ns, name}
}

func (w *depWorld) sliceName(content int, cc int32) string {
	return w.name + "-" + utils.ComputeFNV32Hash(contentObjects(content), &cc)
}

// putSlice: ctrl 0 no owner, 1 controlled by the deployment, 2 controlled by another deployment,
// 3 owned (not controlled) by the deployment.
func (w *depWorld) putSlice(ns, name string, content int, ctrl int, label bool) error {
	var sl adapters.ObjectSliceAccessor
	if w.cluster {
		sl = adapters.NewClusterObjectSlice(w.scheme)
	} else {
		sl = adapters.NewObjectSlice(w.scheme)
	}
	o := sl.ClientObject()
	o.SetName(name)
	o.SetNamespace(ns)
	if label {
		o.SetLabels(map[string]string{packages.VerifSliceOwnerLabel: w.name})
	}
	t := true
	ref := metav1.OwnerReference{APIVersion: corev1alpha1.GroupVersion.String(), Kind: w.kind("ObjectDeployment")}
	switch ctrl {
	case 1:
		ref.Name, ref.UID, ref.Controller, ref.BlockOwnerDeletion = w.name, types.UID(w.uid), &t, &t
		o.SetOwnerReferences([]metav1.OwnerReference{ref})
	case 2:
		ref.Name, ref.UID, ref.Controller, ref.BlockOwnerDeletion = otherDep, "u31", &t, &t
		o.SetOwnerReferences([]metav1.OwnerReference{ref})
	case 3:
		ref.Name, ref.UID = w.name, types.UID(w.uid)
		o.SetOwnerReferences([]metav1.OwnerReference{ref})
	}
	sl.SetObjects(dropEmptyMeta(contentObjects(content)))
	return w.put(o)
}

type aNamedSlice struct {
	NS       string `json:"ns"`
	Name     string `json:"name"`
	Content  int    `json:"content"`
	Ctrl     bool   `json:"ctrl"`     // the deployment is the controller (by ownerReference)
	Labelled bool   `json:"labelled"` // in the deployment's namespace, carrying its slice-owner label
}

func (w *depWorld) slices() []aNamedSlice {
	out := []aNamedSlice{}
	for _, k := range w.s.RawKeys() {
		if k.Group != corev1alpha1.GroupVersion.Group || k.Kind != w.kind("ObjectSlice") {
			continue
		}
		m := w.s.RawGet(k)
		u := &unstructured.Unstructured{Object: m}
		a := aNamedSlice{NS: k.Namespace, Name: k.Name, Content: -1}
		var objs []corev1alpha1.ObjectSetObject
		if w.cluster {
			var o corev1alpha1.ClusterObjectSlice
			if err := runtime.DefaultUnstructuredConverter.FromUnstructured(m, &o); err == nil {
				objs = o.Objects
			}
		} else {
			var o corev1alpha1.ObjectSlice
			if err := runtime.DefaultUnstructuredConverter.FromUnstructured(m, &o); err == nil {
				objs = o.Objects
			}
		}
		a.Content = contentID(objs)
		for _, r := range u.GetOwnerReferences() {
			if r.Kind == w.kind("ObjectDeployment") && r.Name == w.name && string(r.UID) == w.uid && r.Controller != nil && *r.Controller {
				a.Ctrl = true
			}
		}
		a.Labelled = k.Namespace == w.ns && u.GetLabels()[packages.VerifSliceOwnerLabel] == w.name
		out = append(out, a)
	}
	return out
}

type aSliceReq struct {
	Verb string `json:"verb"`
	NS   string `json:"ns"`
	Name string `json:"name"`
	Err  string `json:"err,omitempty"`
}

func (w *depWorld) sliceRequests(log []*Request) []aSliceReq {
	out := []aSliceReq{}
	for _, r := range log {
		if r.Key.Kind != w.kind("ObjectSlice") || r.Verb == "get" || r.Verb == "list" {
			continue
		}
		out = append(out, aSliceReq{r.Verb, r.Key.Namespace, r.Key.Name, r.Err})
	}
	return out
}

// ------------------------------------------------------------------ slicenames

type sliceNamesScenario struct {
	Cluster  bool  `json:"cluster"`
	Contents []int `json:"contents"` // the content numbers whose names are tabulated
	MaxCC    int   `json:"maxcc"`
	Pre      []struct {
		At      [2]int `json:"at"` // placed under the name the real code computes for (content, collision count)
		Content int    `json:"content"`
		Ctrl    int    `json:"ctrl"`
	} `json:"pre"`
	Chunks []int `json:"chunks"`
}

type sliceNamesObs struct {
	Names    [][3]any      `json:"names"` // content, collision count, name
	Pre      []aNamedSlice `json:"pre"`
	Err      string        `json:"err,omitempty"`
	Slices   []string      `json:"slices"`  // phase.Slices after chunkPhase
	Inline   int           `json:"inline"`  // len(phase.Objects) after chunkPhase
	Requests []aSliceReq   `json:"requests"`
	Post     []aNamedSlice `json:"post"`
}

func (w *depWorld) storedDeployment() (adapters.ObjectDeploymentAccessor, error) {
	d := w.newDeployment()
	d.ClientObject().SetUID(types.UID(w.uid))
	if err := w.put(d.ClientObject()); err != nil {
		return nil, err
	}
	got := w.newDeployment()
	if err := w.s.Get(context.Background(), client.ObjectKeyFromObject(d.ClientObject()), got.ClientObject()); err != nil {
		return nil, err
	}
	return got, nil
}

func init() {
	register("slicenames", func(raw json.RawMessage) (any, error) {
		var sc sliceNamesScenario
		if err := json.Unmarshal(raw, &sc); err != nil {
			return nil, err
		}
		w := newDepWorld(sc.Cluster)
		deploy, err := w.storedDeployment()
		if err != nil {
			return nil, err
		}
		obs := sliceNamesObs{Names: [][3]any{}, Slices: []string{}}
		for _, c := range sc.Contents {
			for cc := 0; cc <= sc.MaxCC; cc++ {
				obs.Names = append(obs.Names, [3]any{c, cc, w.sliceName(c, int32(cc))})
			}
		}
		for _, p := range sc.Pre {
			name := w.sliceName(p.At[0], int32(p.At[1]))
			if w.s.RawGet(w.sliceKey(w.ns, name)) != nil {
				continue // first one wins
			}
			if err := w.putSlice(w.ns, name, p.Content, p.Ctrl, p.Ctrl == 1); err != nil {
				return nil, err
			}
		}
		obs.Pre = w.slices()
		phase := &corev1alpha1.ObjectSetTemplatePhase{Name: "p"}
		var chunks [][]corev1alpha1.ObjectSetObject
		for _, c := range sc.Chunks {
			chunks = append(chunks, contentObjects(c))
			phase.Objects = append(phase.Objects, contentObjects(c)...)
		}
		w.s.ResetPass()
		if err := packages.VerifChunkPhase(context.Background(), w.r, deploy, phase, chunks); err != nil {
			obs.Err = err.Error()
		}
		obs.Slices = append(obs.Slices, phase.Slices...)
		obs.Inline = len(phase.Objects)
		obs.Requests = w.sliceRequests(w.s.Log)
		obs.Post = w.slices()
		return obs, nil
	})
}

// ------------------------------------------------------------------ slicegc

type sliceGCStep struct {
	Op     string  `json:"op"`               // deploy | newset | delset | slice
	Phases [][]int `json:"phases,omitempty"` // deploy: chunk contents per phase (empty: the phase is not chunked)
	Name   int     `json:"name,omitempty"`   // newset / delset: ObjectSet number
	Listed int     `json:"listed,omitempty"` // newset: 0 belongs to the deployment; 1 other labels; 2 other namespace
	At     [2]int  `json:"at,omitempty"`     // slice: third-party slice under the name of (content, cc) ...
	Label  int     `json:"label,omitempty"`  // ... 0 with the deployment's label, 1 without, 2 labelled in another namespace
	Ctrl   int     `json:"ctrl,omitempty"`
	Holds  *int    `json:"holds,omitempty"` // slice: the content it holds (default: the content it is named after)
	Other  bool    `json:"other,omitempty"` // the step concerns the same-named deployment of another namespace
	Life   int     `json:"life,omitempty"`  // newset / setlife: lifecycle state 0 active, 1 paused, 2 archived
	Gone   bool    `json:"gone,omitempty"`  // newset / setlife: being deleted (deletionTimestamp set, finalizer still there)
}

type sliceGCScenario struct {
	Cluster bool          `json:"cluster"`
	Steps   []sliceGCStep `json:"steps"`
}

type aGCSet struct {
	NS     string     `json:"ns"`
	Name   string     `json:"name"`
	Listed bool       `json:"listed"` // namespace of the deployment and labels matching its selector
	Life   string     `json:"life"`   // spec.lifecycleState; not part of what makes an ObjectSet a holder of slices
	Gone   bool       `json:"gone"`   // deletionTimestamp set
	Refs   [][]string `json:"refs"`
}

// aOtherDep: another ObjectDeployment of the store and the slices its template names.
type aOtherDep struct {
	NS       string     `json:"ns"`
	Name     string     `json:"name"`
	Template [][]string `json:"template"`
}

func (w *depWorld) otherDeployments() []aOtherDep {
	out := []aOtherDep{}
	for _, k := range w.s.RawKeys() {
		if k.Group != corev1alpha1.GroupVersion.Group || k.Kind != w.kind("ObjectDeployment") || (k.Namespace == w.ns && k.Name == w.name) {
			continue
		}
		d := aOtherDep{NS: k.Namespace, Name: k.Name, Template: [][]string{}}
		phases, _, _ := unstructured.NestedSlice(w.s.RawGet(k), "spec", "template", "spec", "phases")
		for _, p := range phases {
			pm, _ := p.(map[string]any)
			sl, _, _ := unstructured.NestedStringSlice(pm, "slices")
			if sl == nil {
				sl = []string{}
			}
			d.Template = append(d.Template, sl)
		}
		out = append(out, d)
	}
	return out
}

type sliceGCStepObs struct {
	Step     int           `json:"step"`
	NS       string        `json:"ns"` // namespace of the acting deployment
	Others   []aOtherDep   `json:"others"`
	Err      string        `json:"err,omitempty"`
	Template [][]string    `json:"template"` // slice names per phase of the stored deployment after the step
	Inline   []int         `json:"inline"`   // number of inline objects per phase
	Want     [][]int       `json:"want"`     // contents of the chunks the chunker returned, per phase
	Got      [][]int       `json:"got"`      // contents of the slices the template names, per phase (-1 unknown, -2 missing)
	Sets     []aGCSet      `json:"sets"`
	Before   []aNamedSlice `json:"before"` // slices at the instant of the garbage collection (post + deleted)
	Requests []aSliceReq   `json:"requests"`
	Post     []aNamedSlice `json:"post"`
}

func (w *depWorld) sets() []aGCSet {
	out := []aGCSet{}
	for _, k := range w.s.RawKeys() {
		if k.Group != corev1alpha1.GroupVersion.Group || k.Kind != w.kind("ObjectSet") {
			continue
		}
		m := w.s.RawGet(k)
		u := &unstructured.Unstructured{Object: m}
		a := aGCSet{NS: k.Namespace, Name: k.Name, Refs: [][]string{}}
		a.Listed = k.Namespace == w.ns && u.GetLabels()["app"] == w.name
		a.Life, _, _ = unstructured.NestedString(m, "spec", "lifecycleState")
		a.Gone = u.GetDeletionTimestamp() != nil
		phases, _, _ := unstructured.NestedSlice(m, "spec", "phases")
		for _, p := range phases {
			names := []string{}
			if pm, ok := p.(map[string]any); ok {
				sl, _, _ := unstructured.NestedStringSlice(pm, "slices")
				names = append(names, sl...)
			}
			a.Refs = append(a.Refs, names)
		}
		out = append(out, a)
	}
	return out
}

func (w *depWorld) template() (names [][]string, inline []int, phases []any) {
	names, inline = [][]string{}, []int{}
	m := w.s.RawGet(storeKey{corev1alpha1.GroupVersion.Group, w.kind("ObjectDeployment"), w.ns, w.name})
	if m == nil {
		return
	}
	phases, _, _ = unstructured.NestedSlice(m, "spec", "template", "spec", "phases")
	for _, p := range phases {
		pm, _ := p.(map[string]any)
		sl, _, _ := unstructured.NestedStringSlice(pm, "slices")
		if sl == nil {
			sl = []string{}
		}
		objs, _, _ := unstructured.NestedSlice(pm, "objects")
		names = append(names, sl)
		inline = append(inline, len(objs))
	}
	return
}

func init() {
	register("slicegc", func(raw json.RawMessage) (any, error) {
		var sc sliceGCScenario
		if err := json.Unmarshal(raw, &sc); err != nil {
			return nil, err
		}
		w1 := newDepWorld(sc.Cluster)
		out := []sliceGCStepObs{}
		otherNS := "ns2"
		// the same-named deployment of the other namespace shares store and reconciler
		w2 := &depWorld{cluster: false, scheme: w1.scheme, s: w1.s, r: w1.r, ns: otherNS, name: w1.name, uid: "u32"}
		for i, st := range sc.Steps {
			w := w1
			if st.Other && !sc.Cluster {
				w = w2
			}
			switch st.Op {
			case "deploy":
				desired := w.newDeployment()
				if w.s.RawGet(storeKey{corev1alpha1.GroupVersion.Group, w.kind("ObjectDeployment"), w.ns, w.name}) == nil {
					// let the deployment exist with a known uid (the real code would create it the same way)
					d := w.newDeployment()
					d.ClientObject().SetUID(types.UID(w.uid))
					if err := w.put(d.ClientObject()); err != nil {
						return nil, err
					}
				}
				chunks := map[string][][]corev1alpha1.ObjectSetObject{}
				spec := corev1alpha1.ObjectSetTemplateSpec{}
				for j, cs := range st.Phases {
					ph := corev1alpha1.ObjectSetTemplatePhase{Name: "p" + strconv.Itoa(j)}
					for _, c := range cs {
						chunks[ph.Name] = append(chunks[ph.Name], contentObjects(c))
						ph.Objects = append(ph.Objects, contentObjects(c)...)
					}
					if len(cs) == 0 {
						ph.Objects = contentObjects(100 + j) // a phase small enough to stay inline
					}
					spec.Phases = append(spec.Phases, ph)
				}
				desired.SetTemplateSpec(spec)
				w.s.ResetPass()
				o := sliceGCStepObs{Step: i, NS: w.ns}
				if err := packages.VerifDeployReconcile(context.Background(), w.r, desired, chunks); err != nil {
					o.Err = err.Error()
				}
				o.Template, o.Inline, _ = w.template()
				o.Others = w.otherDeployments()
				o.Sets = w.sets()
				o.Requests = w.sliceRequests(w.s.Log)
				o.Post = w.slices()
				o.Want, o.Got = [][]int{}, [][]int{}
				for _, cs := range st.Phases {
					o.Want = append(o.Want, append([]int{}, cs...))
				}
				for _, names := range o.Template {
					got := []int{}
					for _, n := range names {
						c := -2
						for _, sl := range o.Post {
							if sl.NS == w.ns && sl.Name == n {
								c = sl.Content
							}
						}
						got = append(got, c)
					}
					o.Got = append(o.Got, got)
				}
				o.Before = append([]aNamedSlice{}, o.Post...)
				for _, r := range w.s.Log {
					if r.Key.Kind == w.kind("ObjectSlice") && r.Verb == "delete" && r.Err == "" && r.Pre != nil {
						u := &unstructured.Unstructured{Object: r.Pre}
						o.Before = append(o.Before, aNamedSlice{NS: r.Key.Namespace, Name: r.Key.Name, Content: -2,
							Labelled: r.Key.Namespace == w.ns && u.GetLabels()[packages.VerifSliceOwnerLabel] == w.name})
					}
				}
				sort.Slice(o.Before, func(a, b int) bool {
					if o.Before[a].NS != o.Before[b].NS {
						return o.Before[a].NS < o.Before[b].NS
					}
					return o.Before[a].Name < o.Before[b].Name
				})
				out = append(out, o)
			case "newset":
				_, _, phases := w.template()
				ns := w.ns
				labels := map[string]any{"app": w.name}
				switch st.Listed {
				case 1:
					labels = map[string]any{"app": "someone-else"}
				case 2:
					if !w.cluster {
						ns = otherNS
					} else {
						labels = map[string]any{}
					}
				}
				md := map[string]any{"name": "os" + strconv.Itoa(st.Name), "labels": labels}
				if ns != "" {
					md["namespace"] = ns
				}
				spec := map[string]any{"phases": runtime.DeepCopyJSONValue(phases)}
				if st.Life != 0 {
					spec["lifecycleState"] = string(lifeState(st.Life))
				}
				if st.Gone {
					md["deletionTimestamp"] = "2020-09-13T12:28:20Z"
					md["finalizers"] = []any{constants.CachedFinalizer}
				}
				w.s.RawPut(map[string]any{"apiVersion": corev1alpha1.GroupVersion.String(), "kind": w.kind("ObjectSet"),
					"metadata": md, "spec": spec}, false)
			case "setlife":
				// the ObjectDeployment controller pauses / archives an older revision, or a revision is being deleted
				for _, ns := range []string{w.ns, otherNS} {
					k := storeKey{corev1alpha1.GroupVersion.Group, w.kind("ObjectSet"), ns, "os" + strconv.Itoa(st.Name)}
					m := w.s.RawGet(k)
					if m == nil {
						continue
					}
					_ = unstructured.SetNestedField(m, string(lifeState(st.Life)), "spec", "lifecycleState")
					if st.Gone {
						u := &unstructured.Unstructured{Object: m}
						ts := metav1.Unix(1600000200, 0)
						u.SetDeletionTimestamp(&ts)
						u.SetFinalizers([]string{constants.CachedFinalizer})
					}
					w.s.RawPut(m, true)
				}
			case "delset":
				for _, ns := range []string{w.ns, otherNS} {
					w.s.RawDelete(storeKey{corev1alpha1.GroupVersion.Group, w.kind("ObjectSet"), ns, "os" + strconv.Itoa(st.Name)})
				}
			case "slice":
				name := w.sliceName(st.At[0], int32(st.At[1]))
				ns := w.ns
				if st.Label == 2 && !w.cluster {
					ns = otherNS
				}
				holds := st.At[0]
				if st.Holds != nil {
					holds = *st.Holds
				}
				if w.s.RawGet(w.sliceKey(ns, name)) == nil {
					if err := w.putSlice(ns, name, holds, st.Ctrl, st.Label != 1); err != nil {
						return nil, err
					}
				}
			default:
				return nil, fmt.Errorf("unknown step %q", st.Op)
			}
		}
		return out, nil
	})
}

// ------------------------------------------------------------------ slicedset

type aSliceRefs struct {
	Kind   int     `json:"kind"`
	NS     int     `json:"ns"`
	Name   int     `json:"name"`
	Slices [][]int `json:"slices"` // slice names per phase, by position
}

type aSlice struct {
	NS      int     `json:"ns"`
	Name    int     `json:"name"`
	Objects []aPObj `json:"objects"`
	Owners  []aRef  `json:"owners"`
	RV      int     `json:"rv"`
}

// aSliceFault: the Read-th (0-based) Get of an ObjectSlice in the pass fails without effect.
// Kind: err (500 InternalError) | timeout (ServerTimeout) | gone (410) | neterr (transport error without API status).
type aSliceFault struct {
	Read int    `json:"read"`
	Kind string `json:"kind"`
}

type slicedWorldScenario struct {
	objectsetScenario
	Refs       []aSliceRefs `json:"refs"`
	Slices     []aSlice     `json:"slices"`
	NextSRV    int64        `json:"next_srv"`
	SliceFault *aSliceFault `json:"slice_fault,omitempty"`
}

type slicedsetScenario struct {
	Sliced slicedWorldScenario `json:"sliced"`
	Inline objectsetScenario   `json:"inline"`
}

type aSliceEvent struct {
	Verb   string `json:"verb"`
	NS     int    `json:"ns"`
	Name   int    `json:"name"`
	Owners []aRef `json:"owners"`
	Err    string `json:"err,omitempty"`
}

type aXEvent struct {
	Set   *aMetaEvent  `json:"set,omitempty"`
	Slice *aSliceEvent `json:"slice,omitempty"`
}

type slicedObs struct {
	Res     string    `json:"res"`
	ErrMsg  string    `json:"errmsg,omitempty"`
	Events  []aXEvent `json:"events"`
	Post    []aObj    `json:"post"`
	Sets    []aSet    `json:"sets"`
	Phases  []aOSP    `json:"phases"`
	NextRV  int64     `json:"next_rv"`
	NextUID int64     `json:"next_uid"`
	Slices  []aSlice  `json:"slices"`
	NextSRV int64     `json:"next_srv"`
}

func isSliceKind(kind string) bool { return kind == "ObjectSlice" || kind == "ClusterObjectSlice" }

// splitClient sends requests on (Cluster)ObjectSlices to a store of their own, so that their resourceVersions come
// from a separate counter (resourceVersions are opaque; this keeps the member objects' numbering of the sliced run
// comparable with the inline run). pos remembers how long the main log was when a slice request was made.
type splitClient struct {
	*Store
	slices *Store
	pos    []int
	fault  *aSliceFault
	reads  int
}

func (c *splitClient) readFault(key client.ObjectKey) error {
	n := c.reads
	c.reads++
	if c.fault == nil || c.fault.Read != n {
		return nil
	}
	gr := schema.GroupResource{Group: corev1alpha1.GroupVersion.Group, Resource: "objectslices"}
	switch c.fault.Kind {
	case "timeout":
		return apierrors.NewServerTimeout(gr, "get", 1)
	case "gone":
		return apierrors.NewGone("injected fault: gone")
	case "neterr":
		return &net.OpError{Op: "read", Net: "tcp", Err: errors.New("connection reset by peer")}
	default:
		return apierrors.NewInternalError(errors.New("injected fault"))
	}
}

func (c *splitClient) isSlice(obj runtime.Object) bool {
	gvk, err := c.Store.GroupVersionKindFor(obj)
	if err != nil {
		return false
	}
	k := gvk.Kind
	if len(k) > 4 && k[len(k)-4:] == "List" {
		k = k[:len(k)-4]
	}
	return isSliceKind(k)
}

func (c *splitClient) mark(before int) {
	for i := before; i < len(c.slices.Log); i++ {
		c.pos = append(c.pos, len(c.Store.Log))
	}
}

func (c *splitClient) Get(ctx context.Context, key client.ObjectKey, obj client.Object, opts ...client.GetOption) error {
	if c.isSlice(obj) {
		if err := c.readFault(key); err != nil {
			return err
		}
		n := len(c.slices.Log)
		defer c.mark(n)
		return c.slices.Get(ctx, key, obj, opts...)
	}
	return c.Store.Get(ctx, key, obj, opts...)
}

func (c *splitClient) List(ctx context.Context, list client.ObjectList, opts ...client.ListOption) error {
	if c.isSlice(list) {
		n := len(c.slices.Log)
		defer c.mark(n)
		return c.slices.List(ctx, list, opts...)
	}
	return c.Store.List(ctx, list, opts...)
}

func (c *splitClient) Create(ctx context.Context, obj client.Object, opts ...client.CreateOption) error {
	if c.isSlice(obj) {
		n := len(c.slices.Log)
		defer c.mark(n)
		return c.slices.Create(ctx, obj, opts...)
	}
	return c.Store.Create(ctx, obj, opts...)
}

func (c *splitClient) Update(ctx context.Context, obj client.Object, opts ...client.UpdateOption) error {
	if c.isSlice(obj) {
		n := len(c.slices.Log)
		defer c.mark(n)
		return c.slices.Update(ctx, obj, opts...)
	}
	return c.Store.Update(ctx, obj, opts...)
}

func (c *splitClient) Delete(ctx context.Context, obj client.Object, opts ...client.DeleteOption) error {
	if c.isSlice(obj) {
		n := len(c.slices.Log)
		defer c.mark(n)
		return c.slices.Delete(ctx, obj, opts...)
	}
	return c.Store.Delete(ctx, obj, opts...)
}

func (c *splitClient) Patch(ctx context.Context, obj client.Object, patch client.Patch, opts ...client.PatchOption) error {
	if c.isSlice(obj) {
		n := len(c.slices.Log)
		defer c.mark(n)
		return c.slices.Patch(ctx, obj, patch, opts...)
	}
	return c.Store.Patch(ctx, obj, patch, opts...)
}

func (a aSlice) concrete(cluster bool) (map[string]any, error) {
	md := metav1.ObjectMeta{Name: "n" + strconv.Itoa(a.Name), Namespace: nsName(a.NS), UID: types.UID("us" + strconv.Itoa(a.Name)),
		ResourceVersion: strconv.Itoa(a.RV), Generation: 1, CreationTimestamp: metav1.Unix(1600000000, 0)}
	for _, r := range a.Owners {
		ref := metav1.OwnerReference{APIVersion: ownerAPIVersion(r[0]), Kind: ownerKinds[r[0]], Name: "n" + strconv.Itoa(r[1]), UID: types.UID("u" + strconv.Itoa(r[2]))}
		if r[3] == 1 {
			t := true
			ref.Controller, ref.BlockOwnerDeletion = &t, &t
		}
		md.OwnerReferences = append(md.OwnerReferences, ref)
	}
	var objs []corev1alpha1.ObjectSetObject
	for _, o := range a.Objects {
		objs = append(objs, o.concrete())
	}
	var obj runtime.Object
	kind := "ObjectSlice"
	if cluster {
		kind = "ClusterObjectSlice"
		obj = &corev1alpha1.ClusterObjectSlice{ObjectMeta: md, Objects: objs}
	} else {
		obj = &corev1alpha1.ObjectSlice{ObjectMeta: md, Objects: objs}
	}
	m, err := runtime.DefaultUnstructuredConverter.ToUnstructured(obj)
	if err != nil {
		return nil, err
	}
	m["apiVersion"] = corev1alpha1.GroupVersion.String()
	m["kind"] = kind
	return m, nil
}

func abstractSlice(m map[string]any) aSlice {
	u := &unstructured.Unstructured{Object: m}
	a := aSlice{NS: num("ns", u.GetNamespace()), Name: num("n", u.GetName()), Objects: []aPObj{}, Owners: absRefs(u.GetOwnerReferences())}
	a.RV, _ = strconv.Atoi(u.GetResourceVersion())
	var objs []corev1alpha1.ObjectSetObject
	if u.GetKind() == "ClusterObjectSlice" {
		var o corev1alpha1.ClusterObjectSlice
		if err := runtime.DefaultUnstructuredConverter.FromUnstructured(m, &o); err != nil {
			a.Name = -1
		}
		objs = o.Objects
	} else {
		var o corev1alpha1.ObjectSlice
		if err := runtime.DefaultUnstructuredConverter.FromUnstructured(m, &o); err != nil {
			a.Name = -1
		}
		objs = o.Objects
	}
	for _, o := range objs {
		a.Objects = append(a.Objects, abstractPObj(o))
	}
	return a
}

func abstractSlices(s *Store) []aSlice {
	out := []aSlice{}
	for _, k := range s.RawKeys() {
		if k.Group == corev1alpha1.GroupVersion.Group && isSliceKind(k.Kind) {
			out = append(out, abstractSlice(s.RawGet(k)))
		}
	}
	sort.Slice(out, func(i, j int) bool {
		if out[i].NS != out[j].NS {
			return out[i].NS < out[j].NS
		}
		return out[i].Name < out[j].Name
	})
	return out
}

// runSetWorld: one Reconcile of the real (Cluster)ObjectSet controller for sc.Target; refs/slices may be empty (inline world).
func runSetWorld(sc objectsetScenario, refs []aSliceRefs, slices []aSlice, nextSRV int64, fault *aSliceFault) (*slicedObs, error) {
	scheme := newScheme()
	s := NewStore(scheme, newMapper())
	sl := NewStore(scheme, newMapper())
	// ObjectSets: the stored spec of a sliced set names its slices
	refOf := func(a aSet) [][]int {
		for _, r := range refs {
			if r.Kind == a.Kind && r.NS == a.NS && r.Name == a.Name {
				return r.Slices
			}
		}
		return nil
	}
	for _, o := range sc.Store {
		s.RawPut(denormRefs(o.concrete()), false)
	}
	for _, p := range sc.Phases {
		m, err := p.concrete()
		if err != nil {
			return nil, err
		}
		s.RawPut(m, false)
	}
	putNamespaces(s, sc.NSs)
	for _, a := range sc.Sets {
		m, err := a.concrete(scheme)
		if err != nil {
			return nil, err
		}
		if rs := refOf(a); rs != nil {
			phases, _, _ := unstructured.NestedSlice(m, "spec", "phases")
			for i := range phases {
				if i >= len(rs) || len(rs[i]) == 0 {
					continue
				}
				names := []any{}
				for _, n := range rs[i] {
					names = append(names, "n"+strconv.Itoa(n))
				}
				phases[i].(map[string]any)["slices"] = names
			}
			if err := unstructured.SetNestedSlice(m, phases, "spec", "phases"); err != nil {
				return nil, err
			}
		}
		s.RawPut(m, false)
	}
	s.SetCounters(sc.NextRV, sc.NextUID)
	for _, a := range slices {
		m, err := a.concrete(a.NS == 0)
		if err != nil {
			return nil, err
		}
		sl.RawPut(m, false)
	}
	sl.SetCounters(nextSRV, 1)
	if sc.Force {
		os.Setenv(constants.ForceAdoptionEnvironmentVariable, "1")
	} else {
		os.Unsetenv(constants.ForceAdoptionEnvironmentVariable)
	}
	for k, v := range sc.Faults {
		n, _ := strconv.Atoi(k)
		s.Faults[n] = v
	}
	cache := &fakeCache{s: s}
	cl := &splitClient{Store: s, slices: sl, fault: fault}
	var c *objectsets.GenericObjectSetController
	if sc.Target.Kind == 2 {
		c = objectsets.NewClusterObjectSetController(cl, logr.Discard(), scheme, cache, s, nil, s.RESTMapper())
	} else {
		c = objectsets.NewObjectSetController(cl, logr.Discard(), scheme, cache, s, nil, s.RESTMapper())
	}
	s.ResetPass()
	sl.ResetPass()
	key := setKey(sc.Target)
	res, err := c.Reconcile(context.Background(), ctrl.Request{NamespacedName: types.NamespacedName{Namespace: key.Namespace, Name: key.Name}})
	obs := &slicedObs{Events: []aXEvent{}}
	nonRead := 0
	for _, log := range [][]*Request{s.Log, sl.Log} {
		for _, r := range log {
			if !r.DryRun && r.Verb != "get" && r.Verb != "list" {
				nonRead++
			}
		}
	}
	switch {
	case err != nil:
		obs.Res = "error"
		obs.ErrMsg = err.Error()
	case res.RequeueAfter > 0 || res.Requeue:
		obs.Res = "requeue"
	case nonRead == 0:
		obs.Res = "nothing"
	default:
		obs.Res = "done"
	}
	// merge the two logs in request order
	si := 0
	emitSlices := func(upto int) {
		for si < len(sl.Log) && cl.pos[si] <= upto {
			r := sl.Log[si]
			si++
			if r.Verb == "get" || r.Verb == "list" {
				continue
			}
			e := &aSliceEvent{Verb: r.Verb, NS: num("ns", r.Key.Namespace), Name: num("n", r.Key.Name), Owners: []aRef{}, Err: r.Err}
			if r.Post != nil {
				e.Owners = absRefs((&unstructured.Unstructured{Object: r.Post}).GetOwnerReferences())
			}
			obs.Events = append(obs.Events, aXEvent{Slice: e})
		}
	}
	for i, r := range s.Log {
		emitSlices(i)
		evs := setEventsFromLog(s, []*Request{r}, key)
		for j := range evs {
			obs.Events = append(obs.Events, aXEvent{Set: &evs[j]})
		}
	}
	emitSlices(len(s.Log))
	obs.Post = abstractStoreX(s)
	obs.Sets = abstractSets(s)
	obs.Phases = abstractPhases(s)
	obs.NextRV, obs.NextUID = s.Counters()
	obs.Slices = abstractSlices(sl)
	obs.NextSRV, _ = sl.Counters()
	return obs, nil
}

func init() {
	register("slicedset", func(raw json.RawMessage) (any, error) {
		var sc slicedsetScenario
		if err := json.Unmarshal(raw, &sc); err != nil {
			return nil, err
		}
		sliced, err := runSetWorld(sc.Sliced.objectsetScenario, sc.Sliced.Refs, sc.Sliced.Slices, sc.Sliced.NextSRV, sc.Sliced.SliceFault)
		if err != nil {
			return nil, err
		}
		inline, err := runSetWorld(sc.Inline, nil, nil, 1, nil)
		if err != nil {
			return nil, err
		}
		return map[string]any{"sliced": sliced, "inline": inline}, nil
	})
}

// ------------------------------------------------------------------ slicecollide

// slicecollide: searches the real slice-name function for collisions among contents that list the same object
// identities (numbers from..to step 3), collision count 0. Used offline to build checks/c14_collisions.json.
func init() {
	register("slicecollide", func(raw json.RawMessage) (any, error) {
		var sc struct {
			From int `json:"from"`
			To   int `json:"to"`
		}
		if err := json.Unmarshal(raw, &sc); err != nil {
			return nil, err
		}
		seen := map[string]int{}
		pairs := [][2]int{}
		var cc int32
		for i := sc.From; i < sc.To; i += 3 {
			h := utils.ComputeFNV32Hash(contentObjects(i), &cc)
			if j, ok := seen[h]; ok {
				pairs = append(pairs, [2]int{j, i})
			} else {
				seen[h] = i
			}
		}
		return pairs, nil
	})
}

// ------------------------------------------------------------------ sliceobjects

// sliceobjects: what the ObjectDeployment controller's archive reconciler sees as the objects of a revision
// (real defaultObjectSetGetter.getObjectsIncludingSlices), for the sliced ObjectSet and for its inline twin.
type sliceObjectsScenario struct {
	Set    aSet     `json:"set"`    // as stored: inline objects only
	Slices [][]int  `json:"refs"`   // slice names per phase
	Store  []aSlice `json:"slices"` // the slices that exist
	Inline aSet     `json:"inline"` // the twin with the objects inline
}

type sliceObjectsObs struct {
	Err    string `json:"err,omitempty"`
	Keys   []aKey `json:"keys"`
	Inline []aKey `json:"inline"`
}

func idKey(id string) aKey {
	var p [4]string
	n := 0
	for _, part := range splitN(id, '/', 4) {
		p[n] = part
		n++
	}
	av := p[0] + "/v1"
	if p[0] == "" {
		av = "v1"
	}
	return aKey{gkOf(av, p[1]), num("ns", p[2]), num("n", p[3])}
}

func splitN(s string, sep byte, n int) []string {
	out := []string{}
	for len(out) < n-1 {
		i := -1
		for j := 0; j < len(s); j++ {
			if s[j] == sep {
				i = j
				break
			}
		}
		if i < 0 {
			break
		}
		out = append(out, s[:i])
		s = s[i+1:]
	}
	return append(out, s)
}

func accessorOf(scheme *runtime.Scheme, a aSet, refs [][]int) (adapters.ObjectSetAccessor, error) {
	m, err := a.concrete(scheme)
	if err != nil {
		return nil, err
	}
	if refs != nil {
		phases, _, _ := unstructured.NestedSlice(m, "spec", "phases")
		for i := range phases {
			if i >= len(refs) || len(refs[i]) == 0 {
				continue
			}
			names := []any{}
			for _, n := range refs[i] {
				names = append(names, "n"+strconv.Itoa(n))
			}
			phases[i].(map[string]any)["slices"] = names
		}
		if err := unstructured.SetNestedSlice(m, phases, "spec", "phases"); err != nil {
			return nil, err
		}
	}
	if a.Kind == 2 {
		o := &corev1alpha1.ClusterObjectSet{}
		if err := runtime.DefaultUnstructuredConverter.FromUnstructured(m, o); err != nil {
			return nil, err
		}
		return &adapters.ClusterObjectSetAdapter{ClusterObjectSet: *o}, nil
	}
	o := &corev1alpha1.ObjectSet{}
	if err := runtime.DefaultUnstructuredConverter.FromUnstructured(m, o); err != nil {
		return nil, err
	}
	return &adapters.ObjectSetAdapter{ObjectSet: *o}, nil
}

func init() {
	register("sliceobjects", func(raw json.RawMessage) (any, error) {
		var sc sliceObjectsScenario
		if err := json.Unmarshal(raw, &sc); err != nil {
			return nil, err
		}
		scheme := newScheme()
		sl := NewStore(scheme, newMapper())
		for _, a := range sc.Store {
			m, err := a.concrete(a.NS == 0)
			if err != nil {
				return nil, err
			}
			sl.RawPut(m, false)
		}
		obs := sliceObjectsObs{Keys: []aKey{}, Inline: []aKey{}}
		acc, err := accessorOf(scheme, sc.Set, sc.Slices)
		if err != nil {
			return nil, err
		}
		ids, err := objectdeployments.VerifObjectsIncludingSlices(context.Background(), acc, sl)
		if err != nil {
			obs.Err = errClass(errors.Unwrap(err))
			if obs.Err == "" {
				obs.Err = "Other"
			}
		}
		for _, id := range ids {
			obs.Keys = append(obs.Keys, idKey(id))
		}
		iacc, err := accessorOf(scheme, sc.Inline, nil)
		if err != nil {
			return nil, err
		}
		iids, err := objectdeployments.VerifObjectsIncludingSlices(context.Background(), iacc, sl)
		if err != nil {
			return nil, err
		}
		for _, id := range iids {
			obs.Inline = append(obs.Inline, idKey(id))
		}
		return obs, nil
	})
}
