//go:build verif

package main

// delegation mode (C15): ObjectSetPhase objects in the world, the real (Cluster)ObjectSet controller and the real
// (Cluster)ObjectSetPhase controllers (same-cluster constructors = native owner references, multi-cluster
// constructors with the same Store as target = owner annotation, class "default") run per step of a schedule
// against one recording server. A "twin" run repeats the scenario with every phase local.
//
// Names: the model's name numbers are numerals in base 1000; digit d0 is written "<prefix><d0>", every further
// digit "-p<d>". An ObjectSet 10 with phase 1 therefore owns the phase object "n10-p1" = number 10001, and
// "n3-p2" + "-" + "p5" = "n3" + "-" + "p2-p5" (ObjectSet.join_name). Names below 1000 are as everywhere else.

import (
	"context"
	"encoding/json"
	"fmt"
	"math/rand"
	"os"
	"reflect"
	"sort"
	"strconv"
	"strings"

	"github.com/go-logr/logr"
	corev1 "k8s.io/api/core/v1"
	metav1 "k8s.io/apimachinery/pkg/apis/meta/v1"
	"k8s.io/apimachinery/pkg/apis/meta/v1/unstructured"
	"k8s.io/apimachinery/pkg/runtime"
	"k8s.io/apimachinery/pkg/types"
	ctrl "sigs.k8s.io/controller-runtime"
	"sigs.k8s.io/controller-runtime/pkg/client"

	corev1alpha1 "package-operator.run/apis/core/v1alpha1"
	"package-operator.run/internal/constants"
	"package-operator.run/internal/controllers/objectsetphases"
	"package-operator.run/internal/controllers/objectsets"
)

// ---- names

func xName(prefix string, n int) string {
	if n < 0 {
		return prefix + strconv.Itoa(n)
	}
	digits := []int{n % 1000}
	for n >= 1000 {
		n /= 1000
		digits = append([]int{n % 1000}, digits...)
	}
	s := prefix + strconv.Itoa(digits[0])
	for _, d := range digits[1:] {
		s += "-p" + strconv.Itoa(d)
	}
	return s
}

func xNum(prefix, s string) int {
	if s == "" {
		return 0
	}
	parts := strings.Split(s, "-")
	n := 0
	for i, p := range parts {
		pre := "p"
		if i == 0 {
			pre = prefix
		}
		if !strings.HasPrefix(p, pre) {
			return -1
		}
		d, err := strconv.Atoi(strings.TrimPrefix(p, pre))
		if err != nil || d < 0 || (i > 0 && d >= 1000) || (len(parts) > 1 && d >= 1000) {
			return -1
		}
		n = n*1000 + d
	}
	return n
}

func setNameStr(n int) string   { return xName("n", n) }
func setNameNum(s string) int   { return xNum("n", s) }
func phaseNameStr(n int) string { return xName("p", n) }
func phaseNameNum(s string) int { return xNum("p", s) }

// Owner references of member objects name phase objects. abs.go writes and reads names as "n<decimal>":
// denormRefs rewrites such names to the extended form after concretisation, normRefs back before abstraction.
func rewriteRefNames(m map[string]any, f func(string) string) map[string]any {
	c := deepCopyMap(m)
	if c == nil {
		return nil
	}
	u := &unstructured.Unstructured{Object: c}
	refs := u.GetOwnerReferences()
	for i := range refs {
		refs[i].Name = f(refs[i].Name)
	}
	if len(refs) > 0 {
		u.SetOwnerReferences(refs)
	}
	ann := u.GetAnnotations()
	if s := ann[constants.OwnerStrategyAnnotationKey]; s != "" {
		var rs []annotRef
		if err := json.Unmarshal([]byte(s), &rs); err == nil {
			for i := range rs {
				rs[i].Name = f(rs[i].Name)
			}
			b, _ := json.Marshal(rs)
			ann[constants.OwnerStrategyAnnotationKey] = string(b)
			u.SetAnnotations(ann)
		}
	}
	return u.Object
}

func denormRefs(m map[string]any) map[string]any {
	return rewriteRefNames(m, func(s string) string {
		if n := num("n", s); n >= 1000 {
			return setNameStr(n)
		}
		return s
	})
}

func normRefs(m map[string]any) map[string]any {
	return rewriteRefNames(m, func(s string) string {
		if strings.Contains(s, "-p") {
			if n := setNameNum(s); n >= 0 {
				return "n" + strconv.Itoa(n)
			}
		}
		return s
	})
}

func isEnvNamespace(m map[string]any) bool {
	u := &unstructured.Unstructured{Object: m}
	return u.GetAPIVersion() == "v1" && u.GetKind() == "Namespace" && strings.HasPrefix(u.GetName(), "ns")
}

// abstractStoreX: abstractStore with extended reference names, without the environment's Namespace objects.
func abstractStoreX(s *Store) []aObj {
	out := []aObj{}
	for _, k := range s.RawKeys() {
		m := s.RawGet(k)
		u := &unstructured.Unstructured{Object: m}
		if gkOf(u.GetAPIVersion(), u.GetKind()) == 0 || isEnvNamespace(m) {
			continue
		}
		a, err := abstractObj(normRefs(m))
		if err != nil {
			a.GK = -1
		}
		out = append(out, a)
	}
	sort.Slice(out, func(i, j int) bool {
		a, b := out[i], out[j]
		if a.GK != b.GK {
			return a.GK < b.GK
		}
		if a.NS != b.NS {
			return a.NS < b.NS
		}
		return a.Name < b.Name
	})
	return out
}

func eventsFromLogX(log []*Request) []aEvent {
	cp := make([]*Request, 0, len(log))
	for _, r := range log {
		c := *r
		c.Pre, c.Post, c.LastRead = normRefs(r.Pre), normRefs(r.Post), normRefs(r.LastRead)
		cp = append(cp, &c)
	}
	return eventsFromLog(cp)
}

func abstractNamespaces(s *Store) [][2]int {
	out := [][2]int{}
	for _, k := range s.RawKeys() {
		m := s.RawGet(k)
		if !isEnvNamespace(m) {
			continue
		}
		u := &unstructured.Unstructured{Object: m}
		t := 0
		if u.GetDeletionTimestamp() != nil {
			t = 1
		}
		out = append(out, [2]int{num("ns", u.GetName()), t})
	}
	sort.Slice(out, func(i, j int) bool { return out[i][0] < out[j][0] })
	return out
}

func putNamespaces(s *Store, nss [][2]int) {
	for _, n := range nss {
		md := map[string]any{"name": nsName(n[0]), "uid": "uns" + strconv.Itoa(n[0]), "resourceVersion": "1"}
		if n[1] == 1 {
			md["deletionTimestamp"] = "2020-09-13T12:28:20Z"
			md["finalizers"] = []any{"kubernetes"}
		}
		s.RawPut(map[string]any{"apiVersion": "v1", "kind": "Namespace", "metadata": md}, false)
	}
}

// ---- ObjectSetPhase objects

type aOSP struct {
	aOID
	RV       int     `json:"rv"`
	Gen      int64   `json:"gen"`
	Owners   []aRef  `json:"owners"`
	Deleting bool    `json:"deleting"`
	Fin      bool    `json:"fin"`
	Orphan   bool    `json:"orphan"`
	Pkg      int     `json:"pkg"`
	Class    int     `json:"class"` // 0 none, 1 "default", 2 "other"
	Paused   bool    `json:"paused"`
	Revision int64   `json:"revision"`
	Prev     []int   `json:"prev"`
	Objects  []aPObj `json:"objects"`
	Conds    []aCond `json:"conds"`
	CtrlOf   []aKey  `json:"ctrlof"`
}

var classNames = []string{"", "default", "other"}

func (a aOSP) concrete() (map[string]any, error) {
	md := metav1.ObjectMeta{Name: setNameStr(a.Name), Namespace: nsName(a.NS), UID: types.UID("u" + strconv.Itoa(a.UID)),
		ResourceVersion: strconv.Itoa(a.RV), Generation: a.Gen, CreationTimestamp: metav1.Unix(1600000000, 0)}
	if a.Fin {
		md.Finalizers = append(md.Finalizers, constants.CachedFinalizer)
	}
	if a.Orphan {
		md.Finalizers = append(md.Finalizers, "orphan")
	}
	if a.Deleting {
		ts := metav1.Unix(1600000200, 0)
		md.DeletionTimestamp = &ts
	}
	md.Labels = map[string]string{}
	if a.Pkg != 0 {
		md.Labels[pkgLabel] = pkgLabelValue(a.Pkg)
	}
	if a.Class != 0 {
		md.Labels[corev1alpha1.ObjectSetPhaseClassLabel] = classNames[a.Class]
	}
	spec := corev1alpha1.ObjectSetPhaseSpec{Paused: a.Paused, Revision: a.Revision, AvailabilityProbes: scenarioProbes(), Objects: []corev1alpha1.ObjectSetObject{}}
	for _, n := range a.Prev {
		spec.Previous = append(spec.Previous, corev1alpha1.PreviousRevisionReference{Name: setNameStr(n)})
	}
	for _, o := range a.Objects {
		spec.Objects = append(spec.Objects, o.concrete())
	}
	st := corev1alpha1.ObjectSetPhaseStatus{}
	for _, c := range a.Conds {
		st.Conditions = append(st.Conditions, metav1.Condition{
			Type: condTypes[c[0]], Status: condStatus[c[1]], Reason: condReasons[c[2]], ObservedGeneration: c[3],
			LastTransitionTime: metav1.Unix(1600000300, 0),
		})
	}
	for _, k := range a.CtrlOf {
		g, kind := gkGroupKind(k.GK)
		st.ControllerOf = append(st.ControllerOf, corev1alpha1.ControlledObjectReference{Group: g, Kind: kind, Namespace: nsName(k.NS), Name: "n" + strconv.Itoa(k.Name)})
	}
	var obj runtime.Object
	kind := "ObjectSetPhase"
	if a.Kind == 4 {
		kind = "ClusterObjectSetPhase"
		obj = &corev1alpha1.ClusterObjectSetPhase{ObjectMeta: md, Spec: corev1alpha1.ClusterObjectSetPhaseSpec{
			Paused: spec.Paused, Revision: spec.Revision, Previous: spec.Previous, AvailabilityProbes: spec.AvailabilityProbes, Objects: spec.Objects},
			Status: corev1alpha1.ClusterObjectSetPhaseStatus{Conditions: st.Conditions, ControllerOf: st.ControllerOf}}
	} else {
		obj = &corev1alpha1.ObjectSetPhase{ObjectMeta: md, Spec: spec, Status: st}
	}
	m, err := runtime.DefaultUnstructuredConverter.ToUnstructured(obj)
	if err != nil {
		return nil, err
	}
	m["apiVersion"] = corev1alpha1.GroupVersion.String()
	m["kind"] = kind
	if len(a.Owners) > 0 {
		refs := concreteRefs(a.Owners)
		for _, r := range refs {
			rm := r.(map[string]any)
			if n := num("n", rm["name"].(string)); n >= 1000 {
				rm["name"] = setNameStr(n)
			}
		}
		_ = unstructured.SetNestedSlice(m, refs, "metadata", "ownerReferences")
	}
	return m, nil
}

func absCond(c metav1.Condition) aCond {
	st := int64(2)
	switch c.Status {
	case metav1.ConditionTrue:
		st = 0
	case metav1.ConditionFalse:
		st = 1
	}
	return aCond{idx(condTypes, c.Type), st, idx(condReasons, c.Reason), c.ObservedGeneration}
}

func absCtrlRef(r corev1alpha1.ControlledObjectReference) aKey {
	av := r.Group + "/v1"
	if r.Group == "" {
		av = "v1"
	}
	return aKey{gkOf(av, r.Kind), num("ns", r.Namespace), num("n", r.Name)}
}

func abstractOSP(m map[string]any) (aOSP, error) {
	u := &unstructured.Unstructured{Object: m}
	a := aOSP{Owners: []aRef{}, Prev: []int{}, Objects: []aPObj{}, Conds: []aCond{}, CtrlOf: []aKey{}}
	var md metav1.ObjectMeta
	var prev []corev1alpha1.PreviousRevisionReference
	var objs []corev1alpha1.ObjectSetObject
	var conds []metav1.Condition
	var ctrlof []corev1alpha1.ControlledObjectReference
	var probes []corev1alpha1.ObjectSetProbe
	if u.GetKind() == "ClusterObjectSetPhase" {
		var o corev1alpha1.ClusterObjectSetPhase
		if err := runtime.DefaultUnstructuredConverter.FromUnstructured(m, &o); err != nil {
			return a, err
		}
		a.Kind = 4
		md, prev, objs, conds, ctrlof = o.ObjectMeta, o.Spec.Previous, o.Spec.Objects, o.Status.Conditions, o.Status.ControllerOf
		a.Paused, a.Revision, probes = o.Spec.Paused, o.Spec.Revision, o.Spec.AvailabilityProbes
	} else {
		var o corev1alpha1.ObjectSetPhase
		if err := runtime.DefaultUnstructuredConverter.FromUnstructured(m, &o); err != nil {
			return a, err
		}
		a.Kind = 3
		md, prev, objs, conds, ctrlof = o.ObjectMeta, o.Spec.Previous, o.Spec.Objects, o.Status.Conditions, o.Status.ControllerOf
		a.Paused, a.Revision, probes = o.Spec.Paused, o.Spec.Revision, o.Spec.AvailabilityProbes
	}
	a.NS, a.Name, a.UID = num("ns", md.Namespace), setNameNum(md.Name), num("u", string(md.UID))
	a.RV, _ = strconv.Atoi(md.ResourceVersion)
	a.Gen = md.Generation
	a.Deleting = md.DeletionTimestamp != nil
	for _, f := range md.Finalizers {
		if f == constants.CachedFinalizer {
			a.Fin = true
		}
		if f == "orphan" {
			a.Orphan = true
		}
	}
	a.Pkg = pkgLabelNum(md.Labels[pkgLabel])
	// the availability probes are not a field of the model: every scenario uses scenarioProbes(), and a phase
	// object with other probes is outside the model (reported as a correspondence failure)
	if !reflect.DeepEqual(normalize(map[string]any{"p": mustUnstructured(probes)}), normalize(map[string]any{"p": mustUnstructured(scenarioProbes())})) {
		a.Name = -1
	}
	a.Class = 3
	for i, c := range classNames {
		if md.Labels[corev1alpha1.ObjectSetPhaseClassLabel] == c {
			a.Class = i
		}
	}
	for _, r := range md.OwnerReferences {
		c := 0
		if r.Controller != nil && *r.Controller {
			c = 1
		}
		a.Owners = append(a.Owners, aRef{ownerKindNum(r.APIVersion, r.Kind), setNameNum(r.Name), num("u", string(r.UID)), c})
	}
	for _, p := range prev {
		a.Prev = append(a.Prev, setNameNum(p.Name))
	}
	for _, o := range objs {
		a.Objects = append(a.Objects, abstractPObj(o))
	}
	for _, c := range conds {
		a.Conds = append(a.Conds, absCond(c))
	}
	for _, r := range ctrlof {
		a.CtrlOf = append(a.CtrlOf, absCtrlRef(r))
	}
	return a, nil
}

func mustUnstructured(probes []corev1alpha1.ObjectSetProbe) []any {
	out := []any{}
	for i := range probes {
		m, err := runtime.DefaultUnstructuredConverter.ToUnstructured(&probes[i])
		if err != nil {
			return nil
		}
		out = append(out, m)
	}
	return out
}

func isPhaseKey(k storeKey) bool {
	return k.Group == corev1alpha1.GroupVersion.Group && (k.Kind == "ObjectSetPhase" || k.Kind == "ClusterObjectSetPhase")
}

func abstractPhases(s *Store) []aOSP {
	out := []aOSP{}
	for _, k := range s.RawKeys() {
		if !isPhaseKey(k) {
			continue
		}
		a, err := abstractOSP(s.RawGet(k))
		if err != nil {
			a.Kind = -1
		}
		out = append(out, a)
	}
	sort.Slice(out, func(i, j int) bool {
		if out[i].Kind != out[j].Kind {
			return out[i].Kind < out[j].Kind
		}
		if out[i].NS != out[j].NS {
			return out[i].NS < out[j].NS
		}
		return out[i].Name < out[j].Name
	})
	return out
}

func optOSP(m map[string]any) *aOSP {
	if m == nil {
		return nil
	}
	a, err := abstractOSP(m)
	if err != nil {
		a.Kind = -1
	}
	return &a
}

// A request on an ObjectSetPhase object, in the event language of ObjectSet.pev.
type aPEv struct {
	Op     string  `json:"op"` // get | create | pause | delete | strip | finalizer | status | other:<verb>
	Name   int     `json:"name"`
	Obj    *aOSP   `json:"obj,omitempty"` // get: the object returned; create / pause: the object stored
	Paused bool    `json:"paused,omitempty"`
	Added  bool    `json:"added,omitempty"`
	OK     bool    `json:"ok"`
	Res    string  `json:"res,omitempty"` // delete: ok | notfound | conflict
	Conds  []aCond `json:"conds,omitempty"`
	CtrlOf []aKey  `json:"ctrlof,omitempty"`
	Err    string  `json:"err,omitempty"`
}

func hasCachedFinalizer(m map[string]any) bool {
	if m == nil {
		return false
	}
	for _, f := range (&unstructured.Unstructured{Object: m}).GetFinalizers() {
		if f == constants.CachedFinalizer {
			return true
		}
	}
	return false
}

// phaseEvent abstracts one logged request on a phase object. byOwner: the acting controller is the ObjectSet
// controller (reads count, a merge patch is the pause patch); otherwise the ObjectSetPhase controller acting on
// its own object (its Get is not an event, a merge patch is the finalizer patch).
func phaseEvent(r *Request, byOwner bool) *aPEv {
	e := &aPEv{Name: setNameNum(r.Key.Name), OK: r.Err == "", Err: r.Err}
	switch r.Verb {
	case "get":
		if !byOwner {
			return nil
		}
		e.Op = "get"
		if r.Err == "" {
			e.Obj = optOSP(r.Pre)
		} else if r.Err != "NotFound" {
			e.Op = "other:get"
		}
	case "create":
		e.Op = "create"
		if r.Err == "" {
			e.Obj = optOSP(r.Post)
		}
	case "patch-merge":
		if byOwner {
			e.Op = "pause"
			if r.Err == "" {
				e.Obj = optOSP(r.Post)
				e.Paused = e.Obj != nil && e.Obj.Paused
			} else if p := optOSP(r.Pre); p != nil {
				e.Paused = !p.Paused
			}
		} else {
			e.Op = "finalizer"
			had := hasCachedFinalizer(r.Pre)
			e.Added = !had
		}
	case "delete":
		e.Op = "delete"
		switch r.Err {
		case "":
			e.Res = "ok"
		case "NotFound":
			e.Res = "notfound"
		case "Conflict":
			e.Res = "conflict"
		default:
			e.Op = "other:delete"
		}
	case "update":
		e.Op = "strip"
	case "status-update":
		e.Op = "status"
		e.Conds, e.CtrlOf = []aCond{}, []aKey{}
		if r.Sent != nil {
			if a, err := abstractOSP(r.Sent); err == nil {
				e.Conds, e.CtrlOf = a.Conds, a.CtrlOf
			}
		}
	default:
		e.Op = "other:" + r.Verb
	}
	return e
}

// phaseStepEvents: the events of one ObjectSetPhase controller pass on [target].
func phaseStepEvents(log []*Request, target storeKey) []aMetaEvent {
	out := []aMetaEvent{}
	for _, r := range log {
		if r.DryRun {
			continue
		}
		if isPhaseKey(r.Key) {
			if r.Key != target {
				out = append(out, aMetaEvent{Kind: "other:" + r.Verb + " " + r.Key.String(), OK: r.Err == "", Err: r.Err})
				continue
			}
			if e := phaseEvent(r, false); e != nil {
				out = append(out, aMetaEvent{Kind: "phase", Phase: e, OK: e.OK})
			}
			continue
		}
		evs := eventsFromLogX([]*Request{r})
		for i := range evs {
			out = append(out, aMetaEvent{Kind: "member", Member: &evs[i], OK: true})
		}
		if len(evs) == 0 && r.Verb != "get" && r.Verb != "list" {
			out = append(out, aMetaEvent{Kind: "other:" + r.Verb + " " + r.Key.String(), OK: r.Err == "", Err: r.Err})
		}
	}
	return out
}

func phaseKey(o aOID) storeKey {
	kind := "ObjectSetPhase"
	if o.Kind == 4 {
		kind = "ClusterObjectSetPhase"
	}
	return storeKey{corev1alpha1.GroupVersion.Group, kind, nsName(o.NS), setNameStr(o.Name)}
}

// ---- the controllers

// Two clusters. With the multi-cluster constructors ("annot") the run uses a management cluster (ObjectSets,
// (Cluster)ObjectSetPhases, the Namespaces the ObjectSet controller consults, and the members of phases the
// ObjectSet controller reconciles in-process) and a target cluster (the members of delegated phases): two
// recording servers. The four phase controllers are built through their real constructors with the argument roles
// of cmd/remote-phase-manager (dynamic cache and uncached reader = target, client = management, targetWriter =
// target) and cmd/package-operator-manager (everything = the one cluster), so a swapped client is inside the run.
// Both servers draw resourceVersions and uids from ONE counter and append to ONE request log: the abstraction stays
// the one logical world of ObjectSet.v (management objects and delegated members are disjoint keys).
type shared struct {
	rv, uid int64
	log     []*Request
}

type cluster struct {
	*Store
	sh *shared
}

func (c *cluster) pre() int { c.Store.SetCounters(c.sh.rv, c.sh.uid); return len(c.Store.Log) }
func (c *cluster) post(n int) {
	c.sh.rv, c.sh.uid = c.Store.Counters()
	if n <= len(c.Store.Log) {
		c.sh.log = append(c.sh.log, c.Store.Log[n:]...)
	}
}

func (c *cluster) Get(ctx context.Context, key client.ObjectKey, obj client.Object, opts ...client.GetOption) error {
	n := c.pre()
	defer c.post(n)
	return c.Store.Get(ctx, key, obj, opts...)
}
func (c *cluster) List(ctx context.Context, list client.ObjectList, opts ...client.ListOption) error {
	n := c.pre()
	defer c.post(n)
	return c.Store.List(ctx, list, opts...)
}
func (c *cluster) Create(ctx context.Context, obj client.Object, opts ...client.CreateOption) error {
	n := c.pre()
	defer c.post(n)
	return c.Store.Create(ctx, obj, opts...)
}
func (c *cluster) Delete(ctx context.Context, obj client.Object, opts ...client.DeleteOption) error {
	n := c.pre()
	defer c.post(n)
	return c.Store.Delete(ctx, obj, opts...)
}
func (c *cluster) Update(ctx context.Context, obj client.Object, opts ...client.UpdateOption) error {
	n := c.pre()
	defer c.post(n)
	return c.Store.Update(ctx, obj, opts...)
}
func (c *cluster) Patch(ctx context.Context, obj client.Object, patch client.Patch, opts ...client.PatchOption) error {
	n := c.pre()
	defer c.post(n)
	return c.Store.Patch(ctx, obj, patch, opts...)
}

type clusterStatus struct{ c *cluster }

func (c *cluster) Status() client.SubResourceWriter { return &clusterStatus{c} }
func (w *clusterStatus) Create(ctx context.Context, obj client.Object, sub client.Object, opts ...client.SubResourceCreateOption) error {
	return w.c.Store.Status().Create(ctx, obj, sub, opts...)
}
func (w *clusterStatus) Update(ctx context.Context, obj client.Object, opts ...client.SubResourceUpdateOption) error {
	n := w.c.pre()
	defer w.c.post(n)
	return w.c.Store.Status().Update(ctx, obj, opts...)
}
func (w *clusterStatus) Patch(ctx context.Context, obj client.Object, patch client.Patch, opts ...client.SubResourcePatchOption) error {
	return w.c.Store.Status().Patch(ctx, obj, patch, opts...)
}

var _ client.Client = (*cluster)(nil)

type world2 struct {
	mg, tg *cluster // the same cluster in single-cluster runs
	sh     *shared
}

func newWorld2(scheme *runtime.Scheme, two bool) *world2 {
	sh := &shared{rv: 1, uid: 1}
	w := &world2{sh: sh}
	w.mg = &cluster{Store: NewStore(scheme, newMapper()), sh: sh}
	w.tg = w.mg
	if two {
		w.tg = &cluster{Store: NewStore(scheme, newMapper()), sh: sh}
	}
	return w
}

func (w *world2) stores() []*Store {
	if w.mg == w.tg {
		return []*Store{w.mg.Store}
	}
	return []*Store{w.mg.Store, w.tg.Store}
}
func (w *world2) Counters() (int64, int64) { return w.sh.rv, w.sh.uid }
func (w *world2) ResetPass() {
	for _, s := range w.stores() {
		s.ResetPass()
	}
	w.sh.log = nil
}

// memberStore: where a member object lives. In a two-cluster run: on the target cluster iff its key is listed by a
// delegated phase of some ObjectSet of the scenario or by some phase object.
func (w *world2) memberStore(k aKey, delegatedKeys map[aKey]bool) *Store {
	if w.mg != w.tg && delegatedKeys[k] {
		return w.tg.Store
	}
	return w.mg.Store
}

type controllerSet struct {
	w        *world2
	set      *objectsets.GenericObjectSetController
	cset     *objectsets.GenericObjectSetController
	phase    *objectsetphases.GenericObjectSetPhaseController
	cphase   *objectsetphases.GenericObjectSetPhaseController
	strategy string
}

// lagClient: the manager's cached client of the management cluster with informer lag for some phase objects: a Get
// of a key listed in [stale] answers with the old incarnation from the cache (no request reaches the API server, so
// nothing is logged); every other request goes to the server. The uncached reader handed to the controllers is the
// server itself. Only used in teardown-only scenarios, in which correct code reads phase objects uncached.
type lagClient struct {
	*cluster
	stale map[storeKey]map[string]any
}

func (c *lagClient) Get(ctx context.Context, key client.ObjectKey, obj client.Object, opts ...client.GetOption) error {
	if gvk, err := c.cluster.GroupVersionKindFor(obj); err == nil {
		if m, ok := c.stale[storeKey{gvk.Group, gvk.Kind, key.Namespace, key.Name}]; ok {
			return runtime.DefaultUnstructuredConverter.FromUnstructured(deepCopyMap(m), obj)
		}
	}
	return c.cluster.Get(ctx, key, obj, opts...)
}

func newControllerSet(w *world2, scheme *runtime.Scheme, strategy string, stale []aOSP) *controllerSet {
	cs := &controllerSet{w: w, strategy: strategy}
	mgCache := &fakeCache{s: w.mg.Store}
	var cached client.Client = w.mg
	if len(stale) > 0 {
		lc := &lagClient{cluster: w.mg, stale: map[storeKey]map[string]any{}}
		for _, p := range stale {
			if m, err := p.concrete(); err == nil {
				lc.stale[phaseKey(p.aOID)] = m
			}
		}
		cached = lc
	}
	// (Cluster)ObjectSet controllers: cmd/package-operator-manager: client (cached), dynamic cache, uncached client of their own cluster
	cs.set = objectsets.NewObjectSetController(cached, logr.Discard(), scheme, mgCache, w.mg, nil, w.mg.RESTMapper())
	cs.cset = objectsets.NewClusterObjectSetController(cached, logr.Discard(), scheme, mgCache, w.mg, nil, w.mg.RESTMapper())
	if strategy == "annot" {
		// cmd/remote-phase-manager/main.go:211-227: (log, scheme, dc (target), uncachedTargetClient, class,
		// managementClusterClient, targetClient, targetMapper)
		tgCache := &fakeCache{s: w.tg.Store}
		cs.phase = objectsetphases.NewMultiClusterObjectSetPhaseController(
			logr.Discard(), scheme, tgCache, w.tg, "default", w.mg, w.tg, w.tg.RESTMapper())
		cs.cphase = objectsetphases.NewMultiClusterClusterObjectSetPhaseController(
			logr.Discard(), scheme, tgCache, w.tg, "default", w.mg, w.tg, w.tg.RESTMapper())
	} else {
		// cmd/package-operator-manager/components/objectsetphase.go: (log, scheme, dc, uncachedClient, class, client, restMapper)
		cs.phase = objectsetphases.NewSameClusterObjectSetPhaseController(
			logr.Discard(), scheme, mgCache, w.mg, "default", w.mg, w.mg.RESTMapper())
		cs.cphase = objectsetphases.NewSameClusterClusterObjectSetPhaseController(
			logr.Discard(), scheme, mgCache, w.mg, "default", w.mg, w.mg.RESTMapper())
	}
	return cs
}

type aStep struct {
	Actor  string       `json:"actor"` // set | phase | env
	Target aOID         `json:"target"`
	Res    string       `json:"res"`
	ErrMsg string       `json:"errmsg,omitempty"`
	Events []aMetaEvent `json:"events"`
	// the acting object as stored right before the pass (nil: not found)
	PreSet   *aSet `json:"pre_set,omitempty"`
	PrePhase *aOSP `json:"pre_phase,omitempty"`
	// env steps: what the environment did (resulting objects) and the counters afterwards
	EnvObjs []aObj `json:"env_objs,omitempty"`
	EnvSets []aSet `json:"env_sets,omitempty"`
	EnvGone []aOID `json:"env_gone,omitempty"` // ObjectSets the environment removed
	// garbage collection after an out-of-band deletion: phase objects and member objects the environment removed
	EnvPhasesGone []aOID `json:"env_phases_gone,omitempty"`
	EnvKeysGone   []aKey `json:"env_keys_gone,omitempty"`
	NextRV        int64  `json:"next_rv"`
	NextUID       int64  `json:"next_uid"`
}

func passResult(log []*Request, res ctrl.Result, err error) (string, string) {
	nonRead := 0
	for _, r := range log {
		if !r.DryRun && r.Verb != "get" && r.Verb != "list" {
			nonRead++
		}
	}
	switch {
	case err != nil:
		return "error", err.Error()
	case res.RequeueAfter > 0 || res.Requeue:
		return "requeue", ""
	case nonRead == 0:
		return "nothing", ""
	default:
		return "done", ""
	}
}

func (cs *controllerSet) runSet(t aOID) aStep {
	key := setKey(t)
	c := cs.set
	if t.Kind == 2 {
		c = cs.cset
	}
	cs.w.ResetPass()
	var pre *aSet
	if m := cs.w.mg.RawGet(key); m != nil {
		if a, err := abstractSet(m); err == nil {
			pre = &a
		}
	}
	res, err := c.Reconcile(context.Background(), ctrl.Request{NamespacedName: types.NamespacedName{Namespace: key.Namespace, Name: key.Name}})
	st := aStep{Actor: "set", Target: t, PreSet: pre}
	st.Res, st.ErrMsg = passResult(cs.w.sh.log, res, err)
	st.Events = setEventsFromLog(cs.w.mg.Store, cs.w.sh.log, key)
	st.NextRV, st.NextUID = cs.w.Counters()
	return st
}

func (cs *controllerSet) runPhase(t aOID) aStep {
	key := phaseKey(t)
	c := cs.phase
	if t.Kind == 4 {
		c = cs.cphase
	}
	cs.w.ResetPass()
	pre := optOSP(cs.w.mg.RawGet(key))
	res, err := c.Reconcile(context.Background(), ctrl.Request{NamespacedName: types.NamespacedName{Namespace: key.Namespace, Name: key.Name}})
	st := aStep{Actor: "phase", Target: t, PrePhase: pre}
	st.Res, st.ErrMsg = passResult(cs.w.sh.log, res, err)
	st.Events = phaseStepEvents(cs.w.sh.log, key)
	st.NextRV, st.NextUID = cs.w.Counters()
	return st
}

// ---- scenarios

// A third-party edit of an ObjectSet between controller passes.
type aSetOp struct {
	Op     string `json:"op"` // life | delete | delete-orphan | gc-phases
	Target aOID   `json:"target"`
	Life   int    `json:"life,omitempty"`
}

type aStage struct {
	Ops      []aSetOp   `json:"ops,omitempty"` // applied before the stage's passes
	Targets  []aOID     `json:"targets"`       // the ObjectSets reconciled in this stage
	Policy   string     `json:"policy"`        // rr | random
	Seed     int64      `json:"seed,omitempty"`
	Max      int        `json:"max,omitempty"` // bound on controller passes of the stage
	Explicit []struct { // policy "explicit": the passes to run, in order
		Actor  string `json:"actor"`
		Target aOID   `json:"target"`
	} `json:"explicit,omitempty"`
}

type delegationScenario struct {
	Force    bool     `json:"force"`
	Strategy string   `json:"strategy"` // native | annot
	Store    []aObj   `json:"store"`
	Sets     []aSet   `json:"sets"`
	Phases   []aOSP   `json:"phases"`
	NSs      [][2]int `json:"nss"`
	NextRV   int64    `json:"next_rv"`
	NextUID  int64    `json:"next_uid"`
	Kubelet  bool     `json:"kubelet"` // Widgets without status become Available after every pass
	Stages   []aStage `json:"stages"`
	Twin     bool     `json:"twin"`
	// OneCluster: run the multi-cluster constructors against a single recording server (management = target)
	OneCluster bool `json:"one_cluster,omitempty"`
	// StalePhases: old incarnations of phase objects that the ObjectSet controllers' cached client still serves
	StalePhases []aOSP `json:"stale_phases,omitempty"`
}

type delegationRun struct {
	Steps   []aStep  `json:"steps"`
	Post    []aObj   `json:"post"`
	Sets    []aSet   `json:"sets"`
	Phases  []aOSP   `json:"phases"`
	NSs     [][2]int `json:"nss"`
	NextRV  int64    `json:"next_rv"`
	NextUID int64    `json:"next_uid"`
	Quiet   bool     `json:"quiet"` // every stage ended because a full round changed nothing
}

type delegationObs struct {
	D *delegationRun `json:"d"`
	L *delegationRun `json:"l,omitempty"`
}

// delegatedKeys: the member keys listed by a delegated phase of an ObjectSet of the scenario or by a phase object.
func delegatedKeys(sc *delegationScenario) map[aKey]bool {
	out := map[aKey]bool{}
	add := func(ons int, objs []aPObj) {
		for _, o := range objs {
			ns := o.NS
			if ns == 0 {
				ns = ons
			}
			out[aKey{o.GK, ns, o.Name}] = true
		}
	}
	for _, a := range sc.Sets {
		for _, ph := range a.Phases {
			if ph.Class {
				add(a.NS, ph.Objects)
			}
		}
	}
	for _, p := range sc.Phases {
		add(p.NS, p.Objects)
	}
	return out
}

func loadWorldX(w *world2, scheme *runtime.Scheme, sc *delegationScenario) error {
	dk := delegatedKeys(sc)
	for _, o := range sc.Store {
		w.memberStore(aKey{o.GK, o.NS, o.Name}, dk).RawPut(denormRefs(o.concrete()), false)
	}
	for _, a := range sc.Sets {
		m, err := a.concrete(scheme)
		if err != nil {
			return err
		}
		w.mg.RawPut(m, false)
	}
	for _, p := range sc.Phases {
		m, err := p.concrete()
		if err != nil {
			return err
		}
		w.mg.RawPut(m, false)
	}
	putNamespaces(w.mg.Store, sc.NSs)
	w.sh.rv, w.sh.uid = sc.NextRV, sc.NextUID
	return nil
}

func stateSig(w *world2) string {
	n := 0
	for _, s := range w.stores() {
		n += len(s.RawKeys())
	}
	return fmt.Sprint(w.sh.rv, w.sh.uid, n)
}

func sortObjs(out []aObj) {
	sort.Slice(out, func(i, j int) bool {
		a, b := out[i], out[j]
		if a.GK != b.GK {
			return a.GK < b.GK
		}
		if a.NS != b.NS {
			return a.NS < b.NS
		}
		return a.Name < b.Name
	})
}

// abstractStoreW: the member objects of both clusters as one store. A key present on both clusters (possible only
// for a key that one revision handles in-process and another one delegates in a two-cluster run, which the
// scenarios avoid) is reported with name -1, i.e. outside the model.
func abstractStoreW(w *world2) []aObj {
	out := []aObj{}
	seen := map[aKey]bool{}
	for _, s := range w.stores() {
		for _, o := range abstractStoreX(s) {
			k := aKey{o.GK, o.NS, o.Name}
			if seen[k] {
				o.Name = -1
			}
			seen[k] = true
			out = append(out, o)
		}
	}
	sortObjs(out)
	return out
}

// kubelet: the controller of the Widgets. Every Widget without an Available condition, or whose
// status.observedGeneration differs from its generation, gets Available=True for its generation (resourceVersion
// unchanged, like the scripted third party of the other modes). A Widget with a condition and no
// observedGeneration is left alone. The rule looks at the current object only, so its fixpoint does not depend
// on when it runs.
func kubelet(w *world2) []aObj {
	out := []aObj{}
	for _, s := range w.stores() {
		out = append(out, kubeletOn(s)...)
	}
	sortObjs(out)
	return out
}

func kubeletOn(s *Store) []aObj {
	out := []aObj{}
	for _, k := range s.RawKeys() {
		if k.Kind != "Widget" {
			continue
		}
		m := s.RawGet(k)
		u := &unstructured.Unstructured{Object: m}
		if _, ok := m["status"]; ok {
			og, has, _ := unstructured.NestedInt64(m, "status", "observedGeneration")
			conds, _, _ := unstructured.NestedSlice(m, "status", "conditions")
			if len(conds) > 0 && (!has || og == u.GetGeneration()) {
				continue
			}
		}
		m["status"] = map[string]any{"conditions": []any{map[string]any{"type": "Available", "status": "True"}}, "observedGeneration": u.GetGeneration()}
		s.RawPut(m, false)
		if a, err := abstractObj(normRefs(m)); err == nil {
			out = append(out, a)
		}
	}
	return out
}

func applySetOp(w *world2, op aSetOp) (aSet, bool, error) {
	s := w.mg.Store
	s.SetCounters(w.sh.rv, w.sh.uid)
	defer func() { w.sh.rv, w.sh.uid = s.Counters() }()
	key := setKey(op.Target)
	m := s.RawGet(key)
	if m == nil {
		return aSet{}, false, fmt.Errorf("set op on missing %s", key)
	}
	u := &unstructured.Unstructured{Object: m}
	switch op.Op {
	case "life":
		_ = unstructured.SetNestedField(m, string(lifeState(op.Life)), "spec", "lifecycleState")
		u.SetGeneration(u.GetGeneration() + 1)
	case "delete", "delete-orphan":
		if op.Op == "delete-orphan" {
			u.SetFinalizers(append(u.GetFinalizers(), "orphan"))
		}
		if len(u.GetFinalizers()) == 0 {
			s.RawDelete(key)
			return aSet{}, true, nil
		}
		if u.GetDeletionTimestamp() == nil {
			ts := metav1.Unix(1600000200, 0)
			u.SetDeletionTimestamp(&ts)
		}
	default:
		return aSet{}, false, fmt.Errorf("unknown set op %q", op.Op)
	}
	s.RawPut(m, true)
	a, err := abstractSet(s.RawGet(key))
	return a, false, err
}

// gcPhases: a third party deletes every phase object controlled by the ObjectSet (without going through the
// phase controller) and the garbage collector removes the member objects those phase objects controlled.
func gcPhases(w *world2, t aOID) ([]aOID, []aKey) {
	pg, kg := []aOID{}, []aKey{}
	uids := map[string]bool{}
	setUID := "u" + strconv.Itoa(t.UID)
	s := w.mg.Store
	for _, k := range s.RawKeys() {
		if !isPhaseKey(k) {
			continue
		}
		m := s.RawGet(k)
		u := &unstructured.Unstructured{Object: m}
		own := false
		for _, r := range u.GetOwnerReferences() {
			if r.Controller != nil && *r.Controller && string(r.UID) == setUID {
				own = true
			}
		}
		if !own {
			continue
		}
		uids[string(u.GetUID())] = true
		if a := optOSP(m); a != nil {
			pg = append(pg, a.aOID)
		}
		s.RawDelete(k)
	}
	// the garbage collector of the cluster the phase objects live on (owner references do not reach across clusters)
	for _, k := range s.RawKeys() {
		m := s.RawGet(k)
		u := &unstructured.Unstructured{Object: m}
		if gkOf(u.GetAPIVersion(), u.GetKind()) == 0 || isEnvNamespace(m) {
			continue
		}
		for _, r := range u.GetOwnerReferences() {
			if r.Controller != nil && *r.Controller && uids[string(r.UID)] {
				kg = append(kg, abstractKey(k))
				s.RawDelete(k)
				break
			}
		}
	}
	return pg, kg
}

func livePhases(w *world2) []aOID {
	out := []aOID{}
	for _, p := range abstractPhases(w.mg.Store) {
		out = append(out, p.aOID)
	}
	return out
}

func runDelegation(sc *delegationScenario, local bool) (*delegationRun, error) {
	scheme := newScheme()
	s := newWorld2(scheme, sc.Strategy == "annot" && !sc.OneCluster)
	world := *sc
	if local {
		world.Sets = nil
		for _, a := range sc.Sets {
			b := a
			b.Phases = nil
			for _, ph := range a.Phases {
				ph.Class = false
				b.Phases = append(b.Phases, ph)
			}
			world.Sets = append(world.Sets, b)
		}
	}
	if err := loadWorldX(s, scheme, &world); err != nil {
		return nil, err
	}
	if sc.Force {
		os.Setenv(constants.ForceAdoptionEnvironmentVariable, "1")
	} else {
		os.Unsetenv(constants.ForceAdoptionEnvironmentVariable)
	}
	cs := newControllerSet(s, scheme, sc.Strategy, sc.StalePhases)
	run := &delegationRun{Steps: []aStep{}, Quiet: true}
	after := func() {
		if !sc.Kubelet {
			return
		}
		if objs := kubelet(s); len(objs) > 0 {
			st := aStep{Actor: "env", Res: "done", Events: []aMetaEvent{}, EnvObjs: objs}
			st.NextRV, st.NextUID = s.Counters()
			run.Steps = append(run.Steps, st)
		}
	}
	for _, stage := range sc.Stages {
		if len(stage.Ops) > 0 {
			st := aStep{Actor: "env", Res: "done", Events: []aMetaEvent{}}
			for _, op := range stage.Ops {
				if op.Op == "gc-phases" {
					pg, kg := gcPhases(s, op.Target)
					st.EnvPhasesGone = append(st.EnvPhasesGone, pg...)
					st.EnvKeysGone = append(st.EnvKeysGone, kg...)
					continue
				}
				a, gone, err := applySetOp(s, op)
				if err != nil {
					return nil, err
				}
				if gone {
					st.EnvGone = append(st.EnvGone, op.Target)
				} else {
					st.EnvSets = append(st.EnvSets, a)
				}
			}
			st.NextRV, st.NextUID = s.Counters()
			run.Steps = append(run.Steps, st)
		}
		max := stage.Max
		if max == 0 {
			max = 60
		}
		n := 0
		step := func(actor string, t aOID) {
			if actor == "set" {
				run.Steps = append(run.Steps, cs.runSet(t))
			} else {
				run.Steps = append(run.Steps, cs.runPhase(t))
			}
			n++
			after()
		}
		quiet := false
		switch stage.Policy {
		case "explicit":
			for _, e := range stage.Explicit {
				step(e.Actor, e.Target)
			}
		case "random":
			r := rand.New(rand.NewSource(stage.Seed))
			calm := 0
			for n < max {
				type cand struct {
					actor string
					t     aOID
				}
				cands := []cand{}
				for _, t := range stage.Targets {
					cands = append(cands, cand{"set", t})
				}
				for _, t := range livePhases(s) {
					cands = append(cands, cand{"phase", t})
				}
				if len(cands) == 0 {
					break
				}
				c := cands[r.Intn(len(cands))]
				before := stateSig(s)
				step(c.actor, c.t)
				if stateSig(s) == before {
					calm++
				} else {
					calm = 0
				}
				if calm >= 3*len(cands) {
					break
				}
			}
			fallthrough
		default: // rr: rounds of all ObjectSets then all phase objects, until a round changes nothing
			for n < max+40 {
				before := stateSig(s)
				for _, t := range stage.Targets {
					step("set", t)
				}
				for _, t := range livePhases(s) {
					step("phase", t)
				}
				if stateSig(s) == before {
					quiet = true
					break
				}
			}
		}
		run.Quiet = run.Quiet && quiet
	}
	run.Post = abstractStoreW(s)
	run.Sets = abstractSets(s.mg.Store)
	run.Phases = abstractPhases(s.mg.Store)
	run.NSs = abstractNamespaces(s.mg.Store)
	run.NextRV, run.NextUID = s.Counters()
	return run, nil
}

func init() {
	register("delegation", func(raw json.RawMessage) (any, error) {
		var sc delegationScenario
		if err := json.Unmarshal(raw, &sc); err != nil {
			return nil, err
		}
		obs := delegationObs{}
		var err error
		if obs.D, err = runDelegation(&sc, false); err != nil {
			return nil, err
		}
		if sc.Twin {
			if obs.L, err = runDelegation(&sc, true); err != nil {
				return nil, err
			}
		}
		return obs, nil
	})
	_ = corev1.Namespace{}
}
