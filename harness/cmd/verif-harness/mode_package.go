//go:build verif

package main

import (
	"context"
	"crypto/sha256"
	"encoding/hex"
	"encoding/json"
	"errors"
	"fmt"
	"strings"

	"github.com/go-logr/logr"
	"k8s.io/apimachinery/pkg/apis/meta/v1/unstructured"
	"k8s.io/apimachinery/pkg/runtime"
	"k8s.io/apimachinery/pkg/types"
	"k8s.io/apimachinery/pkg/util/validation/field"
	ctrl "sigs.k8s.io/controller-runtime"

	corev1alpha1 "package-operator.run/apis/core/v1alpha1"
	"package-operator.run/internal/adapters"
	"package-operator.run/internal/apis/manifests"
	pkgcontroller "package-operator.run/internal/controllers/packages"
	"package-operator.run/internal/imageprefix"
	"package-operator.run/internal/packages"
)

// package mode (C16): the real GenericPackageController, built by the real constructor
// NewPackageController or NewClusterPackageController (scenario field "cluster") with the recording
// API server as client and uncached client and a scripted image puller, so the wiring of the unpack
// reconciler, the PackageDeployer, the deployment reconciler and the status reconciler is the
// production one.  The only intervention is VerifWrapDeployer, which wraps the deployer the
// constructor wired in with a recorder of Deploy entries.
// A scenario is an initial Package plus steps: edit the spec, arm an API fault for request #n of
// the next pass, arm a concurrent writer (a third party that updates the ObjectDeployment's metadata,
// hence its resourceVersion, right before request #n of the next pass takes effect), run one Reconcile.  Per pass the harness reports, in order, the pulls, the entries
// into PackageDeployer.Deploy and the API requests; the persisted Package status; the stored
// ObjectDeployment (template identified by the sha256 of its JSON); and, independently, a reference
// render of the Package's current spec through the real loader / admission / renderer
// (renderOnce of mode_render.go, which does not evaluate constraints).
type pkgScenario struct {
	Cluster bool `json:"cluster"` // ClusterPackage / ClusterObjectDeployment flavour
	Images  map[string]struct {
		Files map[string]string `json:"files"`
	} `json:"images"`
	Environment json.RawMessage `json:"environment"` // manifests.PackageEnvironment
	Others      []struct {      // other Packages present in the cluster
		Name      string            `json:"name"`
		Namespace string            `json:"namespace"`
		Labels    map[string]string `json:"labels"`
	} `json:"others"`
	Package struct {
		Name      string            `json:"name"`
		Namespace string            `json:"namespace"`
		Labels    map[string]string `json:"labels"`
		pkgSpec
	} `json:"package"`
	Steps []pkgStep `json:"steps"`
}

type pkgSpec struct {
	Image     string          `json:"image"`
	Config    json.RawMessage `json:"config"` // any JSON value or absent
	Component string          `json:"component"`
	Paused    bool            `json:"paused"`
}

type pkgStep struct {
	Op string `json:"op"` // edit | fault | touch | pass
	pkgSpec
	N        int    `json:"n"`         // fault, touch: request number within the next pass
	Kind     string `json:"kind"`      // fault: err | lost
	PullFail bool   `json:"pull_fail"` // pass: the puller fails
}

type pkgEvent struct {
	T     string `json:"t"` // pull | deploy | req
	Image string `json:"image,omitempty"`
	Verb  string `json:"verb,omitempty"`
	Kind  string `json:"kind,omitempty"`
	Err   string `json:"err,omitempty"`
}

type pkgCond struct {
	Type   string `json:"type"`
	Status string `json:"status"`
	Reason string `json:"reason"`
	Gen    int64  `json:"gen"`
}

type pkgOD struct {
	Empty  bool   `json:"empty"` // template without phases
	Tmpl   string `json:"tmpl"`  // sha256 of the JSON of spec.template.spec
	Hash   string `json:"hash"`  // utils.ComputeFNV32Hash of spec.template, as the ObjectDeployment controller computes it
	Paused bool   `json:"paused"`
	Gen    int64  `json:"gen"`
	Slices int    `json:"slices"` // phases that reference ObjectSlices (their objects are inlined before Tmpl is computed)
	// referenced ObjectSlices that do not exist
	MissingSlices []string `json:"missing_slices,omitempty"`
}

type pkgPass struct {
	Step         int        `json:"step"`
	Spec         pkgSpec    `json:"spec"`
	SpecHash     string     `json:"spec_hash"` // GetSpecHash of the Package read before the pass
	Gen          int64      `json:"gen"`
	Events       []pkgEvent `json:"events"`
	Err          string     `json:"err"`     // error class of Reconcile, "" = nil
	ErrMsg       string     `json:"err_msg"` // full message (diagnostics only, never compared)
	Requeue      bool       `json:"requeue"`
	UnpackedHash string     `json:"unpacked_hash"` // persisted
	Conds        []pkgCond  `json:"conds"`         // persisted
	OD           *pkgOD     `json:"od"`
	Pulls        int        `json:"pulls"`
	RefErr       string     `json:"ref_err"`  // reference render: error class, "" = rendered
	RefTmpl      string     `json:"ref_tmpl"` // reference render: sha256 of the JSON of the template spec
	RefHash      string     `json:"ref_hash"`
	Unconsumed   int        `json:"unconsumed_faults"`
}

type pkgObs struct {
	Passes []pkgPass `json:"passes"`
}

type scriptedPuller struct {
	sc     *pkgScenario
	fail   bool
	store  *Store
	marks  *[]pkgMark
	pulls  int
	perImg map[string]int
}

// pkgMark remembers where in the request log a pull / Deploy happened.
type pkgMark struct {
	at int
	ev pkgEvent
}

var errScriptedPull = errors.New("scripted pull failure")

func (p *scriptedPuller) Pull(_ context.Context, image string) (*packages.RawPackage, error) {
	p.pulls++
	p.perImg[image]++
	*p.marks = append(*p.marks, pkgMark{at: p.store.logLen(), ev: pkgEvent{T: "pull", Image: image}})
	if p.fail {
		return nil, errScriptedPull
	}
	img, ok := p.sc.Images[image]
	if !ok {
		return nil, fmt.Errorf("image %q does not exist: %w", image, errScriptedPull)
	}
	return &packages.RawPackage{Files: freshFiles(img.Files)}, nil
}

type recordingDeployer struct {
	real  pkgcontroller.VerifPackageDeployer
	store *Store
	marks *[]pkgMark
}

// pkgFlavour hides the difference between Package and ClusterPackage from the harness.
type pkgFlavour struct{ cluster bool }

func (f pkgFlavour) pkgKind() string {
	if f.cluster {
		return "ClusterPackage"
	}
	return "Package"
}

func (f pkgFlavour) odKind() string {
	if f.cluster {
		return "ClusterObjectDeployment"
	}
	return "ObjectDeployment"
}

func (f pkgFlavour) sliceKind() string {
	if f.cluster {
		return "ClusterObjectSlice"
	}
	return "ObjectSlice"
}

func (f pkgFlavour) newSlice(scheme *runtime.Scheme) adapters.ObjectSliceAccessor {
	if f.cluster {
		return adapters.NewClusterObjectSlice(scheme)
	}
	return adapters.NewObjectSlice(scheme)
}

func (f pkgFlavour) newPkg(scheme *runtime.Scheme) adapters.GenericPackageAccessor {
	if f.cluster {
		return adapters.NewGenericClusterPackage(scheme)
	}
	return adapters.NewGenericPackage(scheme)
}

func (f pkgFlavour) newOD(scheme *runtime.Scheme) adapters.ObjectDeploymentAccessor {
	if f.cluster {
		return adapters.NewClusterObjectDeployment(scheme)
	}
	return adapters.NewObjectDeployment(scheme)
}

func pkgParts(a adapters.GenericPackageAccessor) (*corev1alpha1.PackageSpec, *corev1alpha1.PackageStatus) {
	switch o := a.ClientObject().(type) {
	case *corev1alpha1.Package:
		return &o.Spec, &o.Status
	case *corev1alpha1.ClusterPackage:
		return &o.Spec, &o.Status
	}
	panic("unknown package type")
}

func (d *recordingDeployer) Deploy(
	ctx context.Context, apiPkg adapters.GenericPackageAccessor, rawPkg *packages.RawPackage,
	env manifests.PackageEnvironment,
) error {
	*d.marks = append(*d.marks, pkgMark{at: d.store.logLen(), ev: pkgEvent{T: "deploy"}})
	return d.real.Deploy(ctx, apiPkg, rawPkg, env)
}

// logLen / nextReqIdx: read-only accessors of the recording server (kept here, store.go is shared).
func (s *Store) logLen() int {
	s.mu.Lock()
	defer s.mu.Unlock()
	return len(s.Log)
}

func (s *Store) nextReqIdx() int {
	s.mu.Lock()
	defer s.mu.Unlock()
	return s.reqIdx
}

func pkgErrClass(err error) string {
	if err == nil {
		return ""
	}
	msg := err.Error()
	for _, p := range []string{
		"deploying package: reconciling ObjectDeployment", "deploying package: validate Package configuration",
		"deploying package: unmarshal config", "deploying package", "getting environment", "failed to pause",
		"failed to unpause", "updating Package status",
	} {
		if strings.HasPrefix(msg, p) {
			return p
		}
	}
	return "other"
}

func canonicalSum(v any) (string, error) {
	b, err := json.Marshal(v)
	if err != nil {
		return "", err
	}
	var x any
	if err := json.Unmarshal(b, &x); err != nil {
		return "", err
	}
	b, err = json.Marshal(prune(x))
	if err != nil {
		return "", err
	}
	sum := sha256.Sum256(b)
	return hex.EncodeToString(sum[:]), nil
}

func (sp pkgSpec) apply(spec *corev1alpha1.PackageSpec) {
	spec.Image, spec.Component, spec.Paused = sp.Image, sp.Component, sp.Paused
	spec.Config = nil
	if len(sp.Config) > 0 && string(sp.Config) != "null" {
		spec.Config = &runtime.RawExtension{Raw: append([]byte{}, sp.Config...)}
	}
}

// refRender is the reference render of a spec: the stage sequence of PackageDeployer.Deploy without
// constraints and without API (as renderOnce of mode_render.go), with the package validators of the
// flavour's deployer.
func refRender(ctx context.Context, sc *renderScenario, cluster bool) renderGroup {
	if !cluster {
		return renderOnce(ctx, sc)
	}
	fail := func(err error) renderGroup { return renderGroup{Err: renderErrClass(err)} }
	apiPkg := sc.apiPackage()
	env, err := sc.env()
	if err != nil {
		return renderGroup{Err: "scenario-environment"}
	}
	pkg, err := packages.DefaultStructuralLoader.LoadComponent(ctx, &packages.RawPackage{Files: freshFiles(sc.Files)}, apiPkg.GetComponent())
	if err != nil {
		return fail(err)
	}
	tmplCtx := apiPkg.TemplateContext()
	configuration := map[string]any{}
	if tmplCtx.Config != nil {
		if err := json.Unmarshal(tmplCtx.Config.Raw, &configuration); err != nil {
			return fail(fmt.Errorf("unmarshal config: %w", err))
		}
	}
	verrs, err := packages.AdmitPackageConfiguration(ctx, configuration, pkg.Manifest, field.NewPath("spec", "config"))
	if err != nil {
		return renderGroup{Err: "config-admission"}
	}
	if len(verrs) > 0 {
		return renderGroup{Err: "config-invalid"}
	}
	images := map[string]string{}
	if pkg.ManifestLock != nil {
		for _, pi := range pkg.ManifestLock.Spec.Images {
			resolved, err := packages.VerifImageWithDigest(imageprefix.Replace(pi.Image, nil), pi.Digest)
			if err != nil {
				return renderGroup{Err: "image-reference"}
			}
			images[pi.Name] = resolved
		}
	}
	inst, err := packages.RenderPackageInstance(ctx, pkg, packages.PackageRenderContext{
		Package: tmplCtx.Package, Config: configuration, Images: images, Environment: env,
	}, packages.VerifClusterPackageValidators(), packages.DefaultObjectValidators)
	if err != nil {
		return fail(err)
	}
	deploy := adapters.NewClusterObjectDeployment(renderScheme)
	deploy.SetTemplateSpec(packages.RenderObjectSetTemplateSpec(inst))
	g := renderGroup{}
	fillOutput(&g, deploy)
	return g
}

func init() {
	register("package", func(raw json.RawMessage) (any, error) {
		var sc pkgScenario
		if err := json.Unmarshal(raw, &sc); err != nil {
			return nil, err
		}
		ctx := logr.NewContext(context.Background(), logr.Discard())
		scheme := newScheme()
		store := NewStore(scheme, newMapper())

		env := manifests.PackageEnvironment{}
		if len(sc.Environment) > 0 && string(sc.Environment) != "null" {
			if err := json.Unmarshal(sc.Environment, &env); err != nil {
				return nil, err
			}
		}
		fl := pkgFlavour{cluster: sc.Cluster}
		if fl.cluster {
			sc.Package.Namespace = ""
		}
		for _, o := range sc.Others {
			other := fl.newPkg(scheme)
			obj := other.ClientObject()
			obj.SetName(o.Name)
			obj.SetLabels(o.Labels)
			if !fl.cluster {
				obj.SetNamespace(o.Namespace)
			}
			ospec, _ := pkgParts(other)
			ospec.Image = "other"
			if err := store.Create(ctx, obj); err != nil {
				return nil, err
			}
		}
		pkg := fl.newPkg(scheme)
		pkg.ClientObject().SetName(sc.Package.Name)
		pkg.ClientObject().SetNamespace(sc.Package.Namespace)
		pkg.ClientObject().SetLabels(sc.Package.Labels)
		pspec, _ := pkgParts(pkg)
		sc.Package.pkgSpec.apply(pspec)
		if err := store.Create(ctx, pkg.ClientObject()); err != nil {
			return nil, err
		}
		key := types.NamespacedName{Name: sc.Package.Name, Namespace: sc.Package.Namespace}
		pkgKey := storeKey{corev1alpha1.GroupVersion.Group, fl.pkgKind(), key.Namespace, key.Name}
		odKey := storeKey{corev1alpha1.GroupVersion.Group, fl.odKind(), key.Namespace, key.Name}

		marks := []pkgMark{}
		puller := &scriptedPuller{sc: &sc, store: store, marks: &marks, perImg: map[string]int{}}
		// the real constructors, as cmd/package-operator-manager/components/package.go calls them
		var c *pkgcontroller.GenericPackageController
		if fl.cluster {
			c = pkgcontroller.NewClusterPackageController(store, store, logr.Discard(), scheme, puller, nil, nil, nil)
		} else {
			c = pkgcontroller.NewPackageController(store, store, logr.Discard(), scheme, puller, nil, nil, nil)
		}
		pkgcontroller.VerifWrapDeployer(c, func(real pkgcontroller.VerifPackageDeployer) pkgcontroller.VerifPackageDeployer {
			return &recordingDeployer{real: real, store: store, marks: &marks}
		})
		c.SetEnvironment(&env)

		obs := pkgObs{Passes: []pkgPass{}}
		pending := map[int]string{} // request number within the next pass -> fault kind
		touches := map[int]bool{}   // request numbers of the next pass preceded by a third-party write
		touchNo := 0
		for i, st := range sc.Steps {
			switch st.Op {
			case "edit":
				cur := fl.newPkg(scheme)
				if err := store.Get(ctx, key, cur.ClientObject()); err != nil {
					return nil, err
				}
				cspec, _ := pkgParts(cur)
				st.pkgSpec.apply(cspec)
				if err := store.Update(ctx, cur.ClientObject()); err != nil {
					return nil, err
				}
			case "fault":
				if st.Kind != "err" && st.Kind != "lost" {
					return nil, fmt.Errorf("step %d: unknown fault kind %q", i, st.Kind)
				}
				pending[st.N] = st.Kind
			case "touch":
				touches[st.N] = true
			case "pass":
				cur := fl.newPkg(scheme)
				if err := store.Get(ctx, key, cur.ClientObject()); err != nil {
					return nil, err
				}
				curSpec, _ := pkgParts(cur)
				p := pkgPass{Step: i, SpecHash: cur.GetSpecHash(nil), Gen: cur.ClientObject().GetGeneration(), Events: []pkgEvent{}, Conds: []pkgCond{}}
				p.Spec = pkgSpec{Image: curSpec.Image, Component: curSpec.Component, Paused: curSpec.Paused}
				if curSpec.Config != nil {
					p.Spec.Config = append(json.RawMessage{}, curSpec.Config.Raw...)
				}

				store.ResetPass()
				marks = marks[:0]
				puller.fail = st.PullFail
				base := store.nextReqIdx()
				store.Faults = map[int]string{}
				for n, kind := range pending {
					store.Faults[base+n] = kind
				}
				store.Before = map[int]func(*Store){}
				for n := range touches {
					store.Before[base+n] = func(s *Store) {
						// the concurrent writer: a metadata-only update of the ObjectDeployment, if there is one
						m := s.RawGet(odKey)
						if m == nil {
							return
						}
						touchNo++
						u := &unstructured.Unstructured{Object: m}
						annos := u.GetAnnotations()
						if annos == nil {
							annos = map[string]string{}
						}
						annos["verif.example/touched"] = fmt.Sprint(touchNo)
						u.SetAnnotations(annos)
						s.RawPut(u.Object, true)
					}
				}
				res, err := c.Reconcile(ctx, ctrl.Request{NamespacedName: key})
				p.Err = pkgErrClass(err)
				if err != nil {
					p.ErrMsg = err.Error()
				}
				// controller-runtime ignores the Result when an error is returned (the request is requeued with
				// its own rate limiter), so a requeue is only reported for error-free passes
				p.Requeue = err == nil && !res.IsZero()
				for n := range pending {
					if base+n >= store.nextReqIdx() {
						p.Unconsumed++
					}
				}
				store.Faults = map[int]string{}
				store.Before = map[int]func(*Store){}
				pending = map[int]string{}
				touches = map[int]bool{}

				// events in order: marks are positioned by the length of the request log at their time
				mi := 0
				for j, r := range store.Log {
					for mi < len(marks) && marks[mi].at <= j {
						p.Events = append(p.Events, marks[mi].ev)
						mi++
					}
					p.Events = append(p.Events, pkgEvent{T: "req", Verb: r.Verb, Kind: r.Key.Kind, Err: r.Err})
				}
				for ; mi < len(marks); mi++ {
					p.Events = append(p.Events, marks[mi].ev)
				}
				p.Pulls = puller.pulls

				after := fl.newPkg(scheme)
				if err := store.fromMap(store.RawGet(pkgKey), after.ClientObject()); err != nil {
					return nil, err
				}
				_, afterStatus := pkgParts(after)
				p.UnpackedHash = afterStatus.UnpackedHash
				for _, cnd := range afterStatus.Conditions {
					p.Conds = append(p.Conds, pkgCond{cnd.Type, string(cnd.Status), cnd.Reason, cnd.ObservedGeneration})
				}
				if m := store.RawGet(odKey); m != nil {
					od := fl.newOD(scheme)
					if err := store.fromMap(m, od.ClientObject()); err != nil {
						return nil, err
					}
					spec := od.GetTemplateSpec()
					o := &pkgOD{Empty: len(spec.Phases) == 0, Paused: od.GetSpecPaused(), Gen: od.ClientObject().GetGeneration()}
					g := renderGroup{}
					fillOutput(&g, od)
					o.Hash = g.Hash
					// the template the ObjectDeployment stands for: objects of referenced ObjectSlices inlined in order
					for pi := range spec.Phases {
						ph := &spec.Phases[pi]
						if len(ph.Slices) == 0 {
							continue
						}
						o.Slices++
						for _, name := range ph.Slices {
							sm := store.RawGet(storeKey{corev1alpha1.GroupVersion.Group, fl.sliceKind(), key.Namespace, name})
							if sm == nil {
								o.MissingSlices = append(o.MissingSlices, name)
								continue
							}
							sl := fl.newSlice(scheme)
							if err := store.fromMap(sm, sl.ClientObject()); err != nil {
								return nil, err
							}
							ph.Objects = append(ph.Objects, sl.GetObjects()...)
						}
						ph.Slices = nil
					}
					sum, err := canonicalSum(spec)
					if err != nil {
						return nil, err
					}
					o.Tmpl = sum
					if len(o.MissingSlices) > 0 {
						o.Tmpl = "missing-slices:" + strings.Join(o.MissingSlices, ",")
					}
					p.OD = o
				}

				// reference render of the current spec (no constraints, no API)
				if img, ok := sc.Images[curSpec.Image]; !ok {
					p.RefErr = "no-image"
				} else {
					rs := &renderScenario{Files: img.Files, Component: curSpec.Component, Config: p.Spec.Config, Environment: sc.Environment}
					co := cur.ClientObject()
					rs.Package.Name, rs.Package.Namespace = co.GetName(), co.GetNamespace()
					rs.Package.Labels, rs.Package.Annotations = co.GetLabels(), co.GetAnnotations()
					rs.Package.Image = curSpec.Image
					g := refRender(ctx, rs, fl.cluster)
					p.RefErr, p.RefHash = g.Err, g.Hash
					if g.Err == "" {
						var spec corev1alpha1.ObjectSetTemplateSpec
						if err := json.Unmarshal([]byte(g.JSON), &spec); err != nil {
							return nil, err
						}
						sum, err := canonicalSum(spec)
						if err != nil {
							return nil, err
						}
						p.RefTmpl = sum
					}
				}
				obs.Passes = append(obs.Passes, p)
			default:
				return nil, fmt.Errorf("step %d: unknown op %q", i, st.Op)
			}
		}
		return obs, nil
	})
}
