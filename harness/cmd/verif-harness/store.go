//go:build verif

package main

// Recording in-memory API server: the executable twin of coq/theories/Api.v.
// It implements controller-runtime's client.Client over unstructured JSON with:
// resourceVersion optimistic concurrency, status subresource for package-operator.run kinds,
// server-side apply as PKO uses it (merge of maps, ownerReferences as a list-map keyed by uid, status ignored),
// JSON merge / JSON patches, delete preconditions and finalizer-delayed deletion, dry run,
// a request log, scripted faults per request index and hooks that run third-party operations
// right before a given request. A request that leaves an object unchanged does not bump
// its resourceVersion.

import (
	"context"
	"encoding/json"
	"fmt"
	"reflect"
	"sort"
	"strconv"
	"strings"
	"sync"
	"time"

	jsonpatch "gopkg.in/evanphx/json-patch.v4"
	apierrors "k8s.io/apimachinery/pkg/api/errors"
	"k8s.io/apimachinery/pkg/api/meta"
	metav1 "k8s.io/apimachinery/pkg/apis/meta/v1"
	"k8s.io/apimachinery/pkg/apis/meta/v1/unstructured"
	"k8s.io/apimachinery/pkg/labels"
	"k8s.io/apimachinery/pkg/runtime"
	"k8s.io/apimachinery/pkg/runtime/schema"
	"k8s.io/apimachinery/pkg/types"
	utiljson "k8s.io/apimachinery/pkg/util/json"
	"sigs.k8s.io/controller-runtime/pkg/client"
	"sigs.k8s.io/controller-runtime/pkg/client/apiutil"
	"sigs.k8s.io/yaml"
)

type storeKey struct {
	Group, Kind, Namespace, Name string
}

func (k storeKey) String() string {
	return fmt.Sprintf("%s/%s %s/%s", k.Group, k.Kind, k.Namespace, k.Name)
}

type Request struct {
	Idx      int            `json:"idx"`
	Verb     string         `json:"verb"` // get list create update status-update patch-apply patch-merge patch-json delete
	Key      storeKey       `json:"key"`
	DryRun   bool           `json:"dryRun,omitempty"`
	Precond  map[string]any `json:"precond,omitempty"`
	Err      string         `json:"err,omitempty"` // error class returned to the caller
	Changed  bool           `json:"changed"`       // the stored state changed
	Pre      map[string]any `json:"-"`             // stored object before the request (nil = absent)
	Post     map[string]any `json:"-"`             // stored object after the request (nil = absent)
	Fault    string         `json:"fault,omitempty"`
	Sent     map[string]any `json:"-"` // the object as sent by the caller (status updates)
	LastRead map[string]any `json:"-"` // what the most recent read of this key in the current pass returned
}

type Store struct {
	mu      sync.Mutex
	scheme  *runtime.Scheme
	mapper  meta.RESTMapper
	objs    map[storeKey]map[string]any
	nextRV  int64
	nextUID int64
	clock   int64

	Log      []*Request
	reqIdx   int
	Faults   map[int]string        // request index -> "err" | "lost"
	Before   map[int]func(*Store)  // third-party op right before request #idx takes effect
	lastRead map[storeKey]map[string]any
	// WriteHook runs right before the n-th (0-based) non-dry-run write request of the current pass takes effect.
	WriteHook func(n int)
	writeNo   int
	// DryRunReject: objects carrying this annotation are rejected by a dry run.
}

const dryRejectAnnotation = "verif.example/dry-run-reject"

// objects carrying this annotation get NotFound from a DRY-RUN apply of a not yet existing object (and only
// from that): the preflight dry run then falls back to a dry-run create, which is accepted.
const applyDry404Annotation = "verif.example/apply-dry-run-notfound"

func NewStore(scheme *runtime.Scheme, mapper meta.RESTMapper) *Store {
	return &Store{
		scheme: scheme, mapper: mapper, objs: map[storeKey]map[string]any{},
		nextRV: 1, nextUID: 1, Faults: map[int]string{}, Before: map[int]func(*Store){},
		lastRead: map[storeKey]map[string]any{},
	}
}

func deepCopyMap(m map[string]any) map[string]any {
	if m == nil {
		return nil
	}
	return runtime.DeepCopyJSON(m)
}

// ResetPass clears per-pass bookkeeping (request log and last reads).
func (s *Store) ResetPass() {
	s.mu.Lock()
	defer s.mu.Unlock()
	s.Log = nil
	s.writeNo = 0
	s.lastRead = map[storeKey]map[string]any{}
}

func (s *Store) keyOf(u *unstructured.Unstructured) storeKey {
	gvk := u.GroupVersionKind()
	return storeKey{gvk.Group, gvk.Kind, u.GetNamespace(), u.GetName()}
}

func (s *Store) toUnstructured(obj runtime.Object) (*unstructured.Unstructured, error) {
	if u, ok := obj.(*unstructured.Unstructured); ok {
		return u.DeepCopy(), nil
	}
	m, err := runtime.DefaultUnstructuredConverter.ToUnstructured(obj)
	if err != nil {
		return nil, err
	}
	u := &unstructured.Unstructured{Object: m}
	gvk, err := apiutil.GVKForObject(obj, s.scheme)
	if err != nil {
		return nil, err
	}
	u.SetGroupVersionKind(gvk)
	return u, nil
}

func (s *Store) fromMap(m map[string]any, obj runtime.Object) error {
	if u, ok := obj.(*unstructured.Unstructured); ok {
		u.Object = deepCopyMap(m)
		return nil
	}
	// reset typed object then fill
	v := reflect.ValueOf(obj).Elem()
	v.Set(reflect.Zero(v.Type()))
	return runtime.DefaultUnstructuredConverter.FromUnstructured(deepCopyMap(m), obj)
}

// ---- raw (third-party / harness) access, not logged

func (s *Store) RawGet(k storeKey) map[string]any {
	s.mu.Lock()
	defer s.mu.Unlock()
	return deepCopyMap(s.objs[k])
}

func (s *Store) RawKeys() []storeKey {
	s.mu.Lock()
	defer s.mu.Unlock()
	out := make([]storeKey, 0, len(s.objs))
	for k := range s.objs {
		out = append(out, k)
	}
	sort.Slice(out, func(i, j int) bool { return out[i].String() < out[j].String() })
	return out
}

// RawPut stores m as given (uid / resourceVersion assigned if missing); bump=true assigns a new resourceVersion.
func (s *Store) RawPut(m map[string]any, bump bool) storeKey {
	s.mu.Lock()
	defer s.mu.Unlock()
	return s.rawPutLocked(m, bump)
}

func (s *Store) rawPutLocked(m map[string]any, bump bool) storeKey {
	u := &unstructured.Unstructured{Object: deepCopyMap(m)}
	k := s.keyOf(u)
	if u.GetUID() == "" {
		u.SetUID(types.UID(fmt.Sprintf("u%d", s.nextUID)))
		s.nextUID++
	}
	if u.GetResourceVersion() == "" || bump {
		u.SetResourceVersion(strconv.FormatInt(s.nextRV, 10))
		s.nextRV++
	}
	if ts := u.GetCreationTimestamp(); ts.IsZero() {
		s.clock++
		u.SetCreationTimestamp(metav1.NewTime(time.Unix(1700000000+s.clock, 0).UTC()))
	}
	s.objs[k] = u.Object
	return k
}

func (s *Store) RawDelete(k storeKey) {
	s.mu.Lock()
	defer s.mu.Unlock()
	delete(s.objs, k)
}

func (s *Store) Counters() (rv, uid int64) {
	s.mu.Lock()
	defer s.mu.Unlock()
	return s.nextRV, s.nextUID
}

func (s *Store) SetCounters(rv, uid int64) {
	s.mu.Lock()
	defer s.mu.Unlock()
	s.nextRV, s.nextUID = rv, uid
}

// ---- request bookkeeping

type faultErr struct{ msg string }

func (e *faultErr) Error() string { return e.msg }

func (s *Store) begin(verb string, k storeKey, dry bool) (*Request, error) {
	idx := s.reqIdx
	s.reqIdx++
	if f := s.Before[idx]; f != nil {
		s.mu.Unlock()
		f(s)
		s.mu.Lock()
	}
	if !dry && verb != "get" && verb != "list" {
		n := s.writeNo
		s.writeNo++
		if s.WriteHook != nil {
			s.mu.Unlock()
			s.WriteHook(n)
			s.mu.Lock()
		}
	}
	r := &Request{Idx: idx, Verb: verb, Key: k, DryRun: dry, Pre: deepCopyMap(s.objs[k]), LastRead: deepCopyMap(s.lastRead[k])}
	s.Log = append(s.Log, r)
	if f := s.Faults[idx]; f != "" && f != "lost" {
		// every kind but "lost" fails the request before it has any effect; they differ in the API status returned
		r.Fault = "err"
		r.Err = "InjectedFault"
		r.Post = r.Pre
		return r, injectedError(f, k)
	}
	return r, nil
}

// injectedError: the API status an injected fault answers with.
func injectedError(kind string, k storeKey) error {
	switch kind {
	case "webhook":
		return apierrors.NewInternalError(&faultErr{`failed calling webhook "injected.example.com": Post "https://webhook.svc:443/mutate": dial tcp: connection refused`})
	case "conflict":
		return apierrors.NewConflict(gr(k), k.Name, &faultErr{"injected fault: the object has been modified"})
	case "timeout":
		return apierrors.NewServerTimeout(gr(k), "injected", 1)
	case "unavailable":
		return apierrors.NewServiceUnavailable("injected fault: service unavailable")
	case "toomany":
		return apierrors.NewTooManyRequests("injected fault: too many requests", 1)
	default: // "err"
		return apierrors.NewInternalError(&faultErr{"injected fault before effect"})
	}
}

func (s *Store) end(r *Request, err error) error {
	r.Post = deepCopyMap(s.objs[r.Key])
	r.Changed = !reflect.DeepEqual(r.Pre, r.Post)
	if err != nil {
		if r.Fault == "" {
			r.Err = errClass(err)
		}
		return err
	}
	if s.Faults[r.Idx] == "lost" {
		r.Fault = "lost"
		r.Err = "InjectedFault"
		return apierrors.NewInternalError(&faultErr{"injected fault: response lost"})
	}
	return nil
}

func errClass(err error) string {
	switch {
	case err == nil:
		return ""
	case apierrors.IsNotFound(err):
		return "NotFound"
	case apierrors.IsConflict(err):
		return "Conflict"
	case apierrors.IsAlreadyExists(err):
		return "AlreadyExists"
	case apierrors.IsBadRequest(err):
		return "BadRequest"
	case apierrors.IsInvalid(err):
		return "Invalid"
	case apierrors.IsInternalError(err):
		return "Internal"
	default:
		return "Other"
	}
}

func gr(k storeKey) schema.GroupResource {
	return schema.GroupResource{Group: k.Group, Resource: strings.ToLower(k.Kind) + "s"}
}

func hasStatusSubresource(k storeKey) bool { return strings.HasSuffix(k.Group, "package-operator.run") }

// commit stores the new content if it differs from the old one: new resourceVersion, generation bump when
// anything outside metadata and status changed. Returns the stored content.
func (s *Store) commit(k storeKey, old, new map[string]any) map[string]any {
	nu := &unstructured.Unstructured{Object: new}
	if old != nil {
		ou := &unstructured.Unstructured{Object: old}
		nu.SetResourceVersion(ou.GetResourceVersion())
		nu.SetUID(ou.GetUID())
		nu.SetCreationTimestamp(ou.GetCreationTimestamp())
		nu.SetGeneration(ou.GetGeneration())
		if dt := ou.GetDeletionTimestamp(); dt != nil {
			nu.SetDeletionTimestamp(dt)
		}
		if reflect.DeepEqual(normalize(stripVolatile(k, old)), normalize(stripVolatile(k, nu.Object))) {
			return old
		}
		if !reflect.DeepEqual(specOf(old), specOf(nu.Object)) {
			nu.SetGeneration(ou.GetGeneration() + 1)
		}
	} else {
		nu.SetUID(types.UID(fmt.Sprintf("u%d", s.nextUID)))
		s.nextUID++
		nu.SetGeneration(1)
		s.clock++
		nu.SetCreationTimestamp(metav1.NewTime(time.Unix(1700000000+s.clock, 0).UTC()))
	}
	nu.SetResourceVersion(strconv.FormatInt(s.nextRV, 10))
	s.nextRV++
	// finalizer-delayed deletion completes when the last finalizer goes away
	if nu.GetDeletionTimestamp() != nil && len(nu.GetFinalizers()) == 0 {
		delete(s.objs, k)
		return nu.Object
	}
	s.objs[k] = nu.Object
	return nu.Object
}

// normalize: JSON round trip so that typed and untyped representations compare equal, empty maps dropped.
func normalize(m map[string]any) any {
	b, _ := json.Marshal(m)
	var out any
	_ = json.Unmarshal(b, &out)
	return prune(out)
}

func prune(v any) any {
	switch t := v.(type) {
	case map[string]any:
		for k, x := range t {
			p := prune(x)
			if p == nil {
				delete(t, k)
			} else {
				t[k] = p
			}
		}
		if len(t) == 0 {
			return nil
		}
		return t
	case []any:
		if len(t) == 0 {
			return nil
		}
		for i := range t {
			t[i] = prune(t[i])
		}
		return t
	default:
		return v
	}
}

// stripVolatile: for package-operator.run kinds, condition messages and transition times do not count as
// a change (the model does not carry them); documented deviation from a real API server.
func stripVolatile(k storeKey, m map[string]any) map[string]any {
	if !hasStatusSubresource(k) {
		return m
	}
	c := deepCopyMap(m)
	conds, ok, _ := unstructured.NestedSlice(c, "status", "conditions")
	if !ok {
		return c
	}
	for _, x := range conds {
		if cm, ok := x.(map[string]any); ok {
			delete(cm, "message")
			delete(cm, "lastTransitionTime")
		}
	}
	_ = unstructured.SetNestedSlice(c, conds, "status", "conditions")
	return c
}

func specOf(m map[string]any) any {
	c := map[string]any{}
	for k, v := range m {
		if k == "metadata" || k == "status" || k == "apiVersion" || k == "kind" {
			continue
		}
		c[k] = v
	}
	return normalize(c)
}

// validRefs: at most one ownerReference may be the controller (apimachinery ValidateOwnerReferences).
func (s *Store) validRefs(k storeKey, m map[string]any) error {
	n := 0
	for _, r := range (&unstructured.Unstructured{Object: m}).GetOwnerReferences() {
		if r.Controller != nil && *r.Controller {
			n++
		}
	}
	if n > 1 {
		return apierrors.NewInvalid(schema.GroupKind{Group: k.Group, Kind: k.Kind}, k.Name, nil)
	}
	return nil
}

func (s *Store) admit(u *unstructured.Unstructured) error {
	k := s.keyOf(u)
	if u.GetAnnotations()[dryRejectAnnotation] != "" {
		return apierrors.NewInvalid(schema.GroupKind{Group: k.Group, Kind: k.Kind}, k.Name, nil)
	}
	if s.mapper != nil {
		m, err := s.mapper.RESTMapping(schema.GroupKind{Group: k.Group, Kind: k.Kind})
		if err != nil {
			return apierrors.NewNotFound(gr(k), k.Name)
		}
		if m.Scope.Name() == meta.RESTScopeNameRoot && k.Namespace != "" {
			return apierrors.NewBadRequest("the namespace of the provided object does not match the namespace sent on the request")
		}
		if m.Scope.Name() == meta.RESTScopeNameNamespace && k.Namespace == "" {
			return apierrors.NewBadRequest("an empty namespace may not be set during creation")
		}
	}
	return nil
}

// ---- client.Reader

func (s *Store) Get(_ context.Context, key client.ObjectKey, obj client.Object, _ ...client.GetOption) error {
	s.mu.Lock()
	defer s.mu.Unlock()
	gvk, err := apiutil.GVKForObject(obj, s.scheme)
	if err != nil {
		return err
	}
	k := storeKey{gvk.Group, gvk.Kind, key.Namespace, key.Name}
	r, err := s.begin("get", k, false)
	if err != nil {
		return s.end(r, err)
	}
	m, ok := s.objs[k]
	if !ok {
		s.lastRead[k] = nil
		return s.end(r, apierrors.NewNotFound(gr(k), key.Name))
	}
	if s.Faults[r.Idx] == "lost" {
		// the response never reaches the caller
		return s.end(r, nil)
	}
	s.lastRead[k] = deepCopyMap(m)
	if err := s.fromMap(m, obj); err != nil {
		return err
	}
	obj.GetObjectKind().SetGroupVersionKind(gvk)
	return s.end(r, nil)
}

// ForgetRead drops the record of the last read of k (used by cache wrappers that hide the object).
func (s *Store) ForgetRead(k storeKey) {
	s.mu.Lock()
	defer s.mu.Unlock()
	s.lastRead[k] = nil
}

func (s *Store) List(_ context.Context, list client.ObjectList, opts ...client.ListOption) error {
	s.mu.Lock()
	defer s.mu.Unlock()
	lo := &client.ListOptions{}
	lo.ApplyOptions(opts)
	gvk, err := apiutil.GVKForObject(list, s.scheme)
	if err != nil {
		return err
	}
	gvk.Kind = strings.TrimSuffix(gvk.Kind, "List")
	r, err := s.begin("list", storeKey{gvk.Group, gvk.Kind, lo.Namespace, ""}, false)
	if err != nil {
		return s.end(r, err)
	}
	var keys []storeKey
	for k := range s.objs {
		if k.Group == gvk.Group && k.Kind == gvk.Kind && (lo.Namespace == "" || lo.Namespace == k.Namespace) {
			keys = append(keys, k)
		}
	}
	sort.Slice(keys, func(i, j int) bool { return keys[i].String() < keys[j].String() })
	items := []any{}
	for _, k := range keys {
		m := s.objs[k]
		u := &unstructured.Unstructured{Object: m}
		if lo.LabelSelector != nil && !lo.LabelSelector.Matches(labels.Set(u.GetLabels())) {
			continue
		}
		items = append(items, deepCopyMap(m))
	}
	out := map[string]any{"apiVersion": gvk.GroupVersion().String(), "kind": gvk.Kind + "List", "items": items}
	if ul, ok := list.(*unstructured.UnstructuredList); ok {
		ul.Object = map[string]any{"apiVersion": out["apiVersion"], "kind": out["kind"]}
		ul.Items = nil
		for _, it := range items {
			ul.Items = append(ul.Items, unstructured.Unstructured{Object: it.(map[string]any)})
		}
		return s.end(r, nil)
	}
	v := reflect.ValueOf(list).Elem()
	v.Set(reflect.Zero(v.Type()))
	if err := runtime.DefaultUnstructuredConverter.FromUnstructured(out, list); err != nil {
		return err
	}
	return s.end(r, nil)
}

// ---- client.Writer

func isDry(d []string) bool { return len(d) > 0 }

func (s *Store) Create(_ context.Context, obj client.Object, opts ...client.CreateOption) error {
	s.mu.Lock()
	defer s.mu.Unlock()
	co := &client.CreateOptions{}
	co.ApplyOptions(opts)
	u, err := s.toUnstructured(obj)
	if err != nil {
		return err
	}
	k := s.keyOf(u)
	r, err := s.begin("create", k, isDry(co.DryRun))
	if err != nil {
		return s.end(r, err)
	}
	if err := s.admit(u); err != nil {
		return s.end(r, err)
	}
	if _, ok := s.objs[k]; ok {
		return s.end(r, apierrors.NewAlreadyExists(gr(k), k.Name))
	}
	if k.Name == "" {
		return s.end(r, apierrors.NewBadRequest("name required"))
	}
	unstructured.RemoveNestedField(u.Object, "status")
	if r.DryRun {
		return s.end(r, nil)
	}
	stored := s.commit(k, nil, u.Object)
	if err := s.fromMap(stored, obj); err != nil {
		return err
	}
	return s.end(r, nil)
}

func (s *Store) Delete(_ context.Context, obj client.Object, opts ...client.DeleteOption) error {
	s.mu.Lock()
	defer s.mu.Unlock()
	do := &client.DeleteOptions{}
	do.ApplyOptions(opts)
	u, err := s.toUnstructured(obj)
	if err != nil {
		return err
	}
	k := s.keyOf(u)
	r, err := s.begin("delete", k, isDry(do.DryRun))
	if do.Preconditions != nil {
		r.Precond = map[string]any{}
		if do.Preconditions.UID != nil {
			r.Precond["uid"] = string(*do.Preconditions.UID)
		}
		if do.Preconditions.ResourceVersion != nil {
			r.Precond["resourceVersion"] = *do.Preconditions.ResourceVersion
		}
	}
	if err != nil {
		return s.end(r, err)
	}
	m, ok := s.objs[k]
	if !ok {
		return s.end(r, apierrors.NewNotFound(gr(k), k.Name))
	}
	cur := &unstructured.Unstructured{Object: m}
	if p := do.Preconditions; p != nil {
		if p.UID != nil && *p.UID != cur.GetUID() {
			return s.end(r, apierrors.NewConflict(gr(k), k.Name, fmt.Errorf("uid precondition failed")))
		}
		if p.ResourceVersion != nil && *p.ResourceVersion != cur.GetResourceVersion() {
			return s.end(r, apierrors.NewConflict(gr(k), k.Name, fmt.Errorf("resourceVersion precondition failed")))
		}
	}
	if r.DryRun {
		return s.end(r, nil)
	}
	if len(cur.GetFinalizers()) > 0 {
		if cur.GetDeletionTimestamp() == nil {
			n := cur.DeepCopy()
			s.clock++
			ts := metav1.NewTime(time.Unix(1700000000+s.clock, 0).UTC())
			n.SetDeletionTimestamp(&ts)
			n.SetResourceVersion(strconv.FormatInt(s.nextRV, 10))
			s.nextRV++
			s.objs[k] = n.Object
		}
		return s.end(r, nil)
	}
	delete(s.objs, k)
	return s.end(r, nil)
}

func (s *Store) Update(_ context.Context, obj client.Object, opts ...client.UpdateOption) error {
	s.mu.Lock()
	defer s.mu.Unlock()
	uo := &client.UpdateOptions{}
	uo.ApplyOptions(opts)
	u, err := s.toUnstructured(obj)
	if err != nil {
		return err
	}
	k := s.keyOf(u)
	r, err := s.begin("update", k, isDry(uo.DryRun))
	if err != nil {
		return s.end(r, err)
	}
	old, ok := s.objs[k]
	if !ok {
		return s.end(r, apierrors.NewNotFound(gr(k), k.Name))
	}
	ou := &unstructured.Unstructured{Object: old}
	if rv := u.GetResourceVersion(); rv != "" && rv != ou.GetResourceVersion() {
		return s.end(r, apierrors.NewConflict(gr(k), k.Name, fmt.Errorf("the object has been modified")))
	}
	if hasStatusSubresource(k) {
		if st, ok := old["status"]; ok {
			u.Object["status"] = runtime.DeepCopyJSONValue(st)
		} else {
			delete(u.Object, "status")
		}
	}
	if r.DryRun {
		return s.end(r, nil)
	}
	stored := s.commit(k, old, u.Object)
	if err := s.fromMap(stored, obj); err != nil {
		return err
	}
	return s.end(r, nil)
}

func mergeSSA(dst, src map[string]any) {
	for key, v := range src {
		sv, isMap := v.(map[string]any)
		dv, dIsMap := dst[key].(map[string]any)
		if isMap && dIsMap {
			mergeSSA(dv, sv)
			continue
		}
		dst[key] = runtime.DeepCopyJSONValue(v)
	}
}

func mergeOwnerRefs(stored, patch []any) []any {
	out := []any{}
	uid := func(x any) any {
		if m, ok := x.(map[string]any); ok {
			return m["uid"]
		}
		return nil
	}
	for _, sref := range stored {
		repl := sref
		for _, p := range patch {
			if uid(p) == uid(sref) {
				repl = p
			}
		}
		out = append(out, runtime.DeepCopyJSONValue(repl))
	}
	for _, p := range patch {
		found := false
		for _, sref := range stored {
			if uid(p) == uid(sref) {
				found = true
			}
		}
		if !found {
			out = append(out, runtime.DeepCopyJSONValue(p))
		}
	}
	return out
}

func (s *Store) Patch(_ context.Context, obj client.Object, patch client.Patch, opts ...client.PatchOption) error {
	s.mu.Lock()
	defer s.mu.Unlock()
	po := &client.PatchOptions{}
	po.ApplyOptions(opts)
	u, err := s.toUnstructured(obj)
	if err != nil {
		return err
	}
	k := s.keyOf(u)
	data, err := patch.Data(obj)
	if err != nil {
		return err
	}
	verb := map[types.PatchType]string{types.ApplyPatchType: "patch-apply", types.MergePatchType: "patch-merge",
		types.JSONPatchType: "patch-json", types.StrategicMergePatchType: "patch-merge"}[patch.Type()]
	r, err := s.begin(verb, k, isDry(po.DryRun))
	if err != nil {
		return s.end(r, err)
	}
	old, exists := s.objs[k]
	var newObj map[string]any
	switch patch.Type() {
	case types.ApplyPatchType:
		var applied map[string]any
		jdata, err := yaml.YAMLToJSON(data)
		if err != nil {
			return s.end(r, apierrors.NewBadRequest(err.Error()))
		}
		if err := utiljson.Unmarshal(jdata, &applied); err != nil {
			return s.end(r, apierrors.NewBadRequest(err.Error()))
		}
		au := &unstructured.Unstructured{Object: applied}
		if au.GetName() == "" {
			au.SetName(k.Name)
		}
		if err := s.admit(au); err != nil {
			return s.end(r, err)
		}
		delete(applied, "status")
		if !exists && r.DryRun && au.GetAnnotations()[applyDry404Annotation] != "" {
			return s.end(r, apierrors.NewNotFound(gr(k), k.Name))
		}
		if !exists {
			newObj = applied
		} else {
			newObj = deepCopyMap(old)
			patchRefs, _, _ := unstructured.NestedSlice(applied, "metadata", "ownerReferences")
			storedRefs, _, _ := unstructured.NestedSlice(old, "metadata", "ownerReferences")
			mergeSSA(newObj, applied)
			if patchRefs != nil || storedRefs != nil {
				merged := mergeOwnerRefs(storedRefs, patchRefs)
				if len(merged) > 0 {
					_ = unstructured.SetNestedSlice(newObj, merged, "metadata", "ownerReferences")
				}
			}
		}
	case types.MergePatchType, types.StrategicMergePatchType:
		if !exists {
			return s.end(r, apierrors.NewNotFound(gr(k), k.Name))
		}
		var pm map[string]any
		if err := json.Unmarshal(data, &pm); err != nil {
			return s.end(r, apierrors.NewBadRequest(err.Error()))
		}
		if rv, ok, _ := unstructured.NestedString(pm, "metadata", "resourceVersion"); ok && rv != "" {
			if rv != (&unstructured.Unstructured{Object: old}).GetResourceVersion() {
				return s.end(r, apierrors.NewConflict(gr(k), k.Name, fmt.Errorf("the object has been modified")))
			}
		}
		oj, _ := json.Marshal(old)
		nj, err := jsonpatch.MergePatch(oj, data)
		if err != nil {
			return s.end(r, apierrors.NewBadRequest(err.Error()))
		}
		if err := utiljson.Unmarshal(nj, &newObj); err != nil {
			return err
		}
		if hasStatusSubresource(k) {
			if st, ok := old["status"]; ok {
				newObj["status"] = runtime.DeepCopyJSONValue(st)
			} else {
				delete(newObj, "status")
			}
		}
	case types.JSONPatchType:
		if !exists {
			return s.end(r, apierrors.NewNotFound(gr(k), k.Name))
		}
		p, err := jsonpatch.DecodePatch(data)
		if err != nil {
			return s.end(r, apierrors.NewBadRequest(err.Error()))
		}
		oj, _ := json.Marshal(old)
		nj, err := p.Apply(oj)
		if err != nil {
			return s.end(r, apierrors.NewBadRequest(err.Error()))
		}
		if err := utiljson.Unmarshal(nj, &newObj); err != nil {
			return err
		}
	default:
		return s.end(r, apierrors.NewBadRequest("unsupported patch type"))
	}
	if err := s.validRefs(k, newObj); err != nil {
		return s.end(r, err)
	}
	if r.DryRun {
		return s.end(r, nil)
	}
	stored := s.commit(k, old, newObj)
	if err := s.fromMap(stored, obj); err != nil {
		return err
	}
	return s.end(r, nil)
}

func (s *Store) DeleteAllOf(context.Context, client.Object, ...client.DeleteAllOfOption) error {
	return fmt.Errorf("DeleteAllOf not supported by the recording server")
}

// ---- status subresource

type statusWriter struct{ s *Store }

func (s *Store) Status() client.SubResourceWriter { return &statusWriter{s} }

func (s *Store) SubResource(string) client.SubResourceClient { panic("SubResource not supported") }

func (w *statusWriter) Create(context.Context, client.Object, client.Object, ...client.SubResourceCreateOption) error {
	return fmt.Errorf("status create not supported")
}

func (w *statusWriter) Update(_ context.Context, obj client.Object, _ ...client.SubResourceUpdateOption) error {
	s := w.s
	s.mu.Lock()
	defer s.mu.Unlock()
	u, err := s.toUnstructured(obj)
	if err != nil {
		return err
	}
	k := s.keyOf(u)
	r, err := s.begin("status-update", k, false)
	r.Sent = deepCopyMap(u.Object)
	if err != nil {
		return s.end(r, err)
	}
	old, ok := s.objs[k]
	if !ok {
		return s.end(r, apierrors.NewNotFound(gr(k), k.Name))
	}
	ou := &unstructured.Unstructured{Object: old}
	if rv := u.GetResourceVersion(); rv != "" && rv != ou.GetResourceVersion() {
		return s.end(r, apierrors.NewConflict(gr(k), k.Name, fmt.Errorf("the object has been modified")))
	}
	newObj := deepCopyMap(old)
	if st, ok := u.Object["status"]; ok {
		newObj["status"] = runtime.DeepCopyJSONValue(st)
	} else {
		delete(newObj, "status")
	}
	stored := s.commit(k, old, newObj)
	if err := s.fromMap(stored, obj); err != nil {
		return err
	}
	return s.end(r, nil)
}

func (w *statusWriter) Patch(context.Context, client.Object, client.Patch, ...client.SubResourcePatchOption) error {
	return fmt.Errorf("status patch not supported")
}

// ---- misc client.Client

func (s *Store) Scheme() *runtime.Scheme     { return s.scheme }
func (s *Store) RESTMapper() meta.RESTMapper { return s.mapper }
func (s *Store) GroupVersionKindFor(obj runtime.Object) (schema.GroupVersionKind, error) {
	return apiutil.GVKForObject(obj, s.scheme)
}

func (s *Store) IsObjectNamespaced(obj runtime.Object) (bool, error) {
	gvk, err := apiutil.GVKForObject(obj, s.scheme)
	if err != nil {
		return false, err
	}
	m, err := s.mapper.RESTMapping(gvk.GroupKind())
	if err != nil {
		return false, err
	}
	return m.Scope.Name() == meta.RESTScopeNameNamespace, nil
}

var _ client.Client = (*Store)(nil)
