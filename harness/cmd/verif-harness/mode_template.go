//go:build verif

package main

// template mode (C18): runs the real objecttemplate.NewObjectTemplateController /
// NewClusterObjectTemplateController over a history of third-party steps and controller passes.
//
//   - API server: the recording Store, reached through tClient which adds what controller-runtime's
//     REST client does for cluster-scoped kinds (NamespaceIfScoped: the namespace of the key / object is
//     not part of the request path for reads, patches and updates; a body that carries a namespace is
//     rejected with BadRequest on create/update, apiserver/pkg/registry/rest/meta.go:44-64).
//   - dynamic cache: the real dynamiccache.Cache (owner bookkeeping, Watch/Free/OwnersForGKV, Get) with
//     the real cacheSource and the real CacheReader over a client-go Indexer. Only the informer map is
//     scripted: an informer is a handler list plus an indexer that the harness fills with the labelled
//     objects of the Store (list at creation, resync before every pass and after every write: "cache in sync").
//   - events: third-party create/edit/delete steps are delivered to the handlers the cacheSource
//     registered on the scripted informer, i.e. through controller-runtime's event handler, the
//     controller's predicate and the real dynamiccache.EnqueueWatchingObjects into a recording queue.
//
// Scenario language: numbers as in coq/theories/Template.v (kinds 1 ConfigMap, 2 Secret,
// 3 ClusterThing (cluster-scoped), 4 Unregistered; namespace 0 = none; data keys/values are numbers).

import (
	"context"
	"encoding/json"
	"fmt"
	"sort"
	"strconv"
	"strings"
	"time"

	"github.com/go-logr/logr"
	apierrors "k8s.io/apimachinery/pkg/api/errors"
	"k8s.io/apimachinery/pkg/api/meta"
	"k8s.io/apimachinery/pkg/apis/meta/v1/unstructured"
	"k8s.io/apimachinery/pkg/runtime"
	"k8s.io/apimachinery/pkg/runtime/schema"
	"k8s.io/apimachinery/pkg/types"
	toolscache "k8s.io/client-go/tools/cache"
	"k8s.io/client-go/util/workqueue"
	ctrl "sigs.k8s.io/controller-runtime"
	"sigs.k8s.io/controller-runtime/pkg/client"
	"sigs.k8s.io/controller-runtime/pkg/client/apiutil"
	"sigs.k8s.io/controller-runtime/pkg/predicate"
	"sigs.k8s.io/controller-runtime/pkg/reconcile"
	"sigs.k8s.io/yaml"

	corev1alpha1 "package-operator.run/apis/core/v1alpha1"
	"package-operator.run/internal/apis/manifests"
	"package-operator.run/internal/constants"
	hypershiftv1beta1 "package-operator.run/internal/controllers/hostedclusters/hypershift/v1beta1"
	"package-operator.run/internal/controllers/objecttemplate"
	"package-operator.run/internal/dynamiccache"
)

// ---------------------------------------------------------------- scenario / observation types

type tSource struct {
	Kind  int      `json:"kind"`
	NS    int      `json:"ns"`
	Name  int      `json:"name"`
	Opt   bool     `json:"opt"`
	Items [][2]int `json:"items"` // (source data key, destination key)
}

// tCode: one member of the template family.
// form 0: data = the whole config (range); 1: data = picked destinations via .config.kN (missingkey=error);
// 2: picked destinations via index|default; 3: whole config + environment version under key 99;
// 4: unparsable template text; 5: renders to text that is not YAML; 6: like 3 + the HyperShift part of the environment under key 98;
// 7: like 0 + every collected value also as a label (key + 1000) and as an annotation (key + 2000).
type tCode struct {
	Form  int   `json:"form"`
	Kind  int   `json:"kind"`
	NS    int   `json:"ns"`
	Name  int   `json:"name"`
	Pick  []int `json:"pick"`
	ORefs bool  `json:"orefs"`
}

type tCond struct {
	Type   int  `json:"type"`
	Status int  `json:"status"` // 0 False, 1 True, 2 Unknown
	ObsGen int  `json:"obsgen"`
	Bare   bool `json:"bare,omitempty"` // no reason/message: "malformed condition" (template_reconciler.go:392-398), c_ok = false in the model
}

type tObj struct {
	Key   [3]int   `json:"key"`
	Data  [][2]int `json:"data"`
	Label bool     `json:"label"`  // carries package-operator.run/cache=True (exactly)
	LOther int     `json:"lother"` // carries the label key with another value: 2 "true", 3 "False", 4 "" (0: not)
	Ctrl  int      `json:"ctrl"` // controller owner: 0 none, 1 the template, 2 somebody else
	Gen   int      `json:"gen"`
	SObs  *int     `json:"sobs"`
	Conds []tCond  `json:"conds"`
}

type tTmpl struct {
	NS      int       `json:"ns"`
	Sources []tSource `json:"sources"`
	Code    tCode     `json:"code"`
	Gen     int       `json:"gen"`
	Fin     bool      `json:"fin"`
	Del     bool      `json:"del"`
	Invalid int       `json:"invalid"` // 0 none, 1 SourceError, 2 TemplateError
	Conds   [][2]int  `json:"conds"`
	CtrlOf  *[3]int   `json:"ctrlof"`
}

type tStep struct {
	Op      string    `json:"op"` // put | del | tedit | pass | drain | passx | tdel | env | hyper | hc | aux | poke
	B       bool      `json:"b,omitempty"`   // hyper: section present; hc: HostedCluster present
	NS      int       `json:"ns,omitempty"`  // hc, aux: the namespace
	Adv     []tAct    `json:"adv,omitempty"` // passx: what happens before the n-th API request of the pass
	LOther  int       `json:"lother,omitempty"`
	Key     *[3]int   `json:"key,omitempty"`
	Data    [][2]int  `json:"data,omitempty"`
	Label   bool      `json:"label,omitempty"`
	Sources []tSource `json:"sources,omitempty"`
	Code    *tCode    `json:"code,omitempty"`
	Env     int       `json:"env,omitempty"`
	SObs    *int      `json:"sobs,omitempty"`
	Conds   []tCond   `json:"conds,omitempty"`
}

// tAct: before request N of the pass takes effect, a third party deletes / modifies an object, or the request fails.
type tAct struct {
	N     int      `json:"n"`
	Op    string   `json:"op"` // del | put | fault
	Key   *[3]int  `json:"key,omitempty"`
	Data  [][2]int `json:"data,omitempty"`
	Fault string   `json:"fault,omitempty"` // NotFound | Conflict | Internal
}

type tScenario struct {
	IvRes int      `json:"iv_res"` // ResourceRetryInterval in seconds (0 = unset)
	IvOpt int      `json:"iv_opt"` // OptionalResourceRetryInterval in seconds
	TNS   int      `json:"tns"`    // namespace of the template (0 = ClusterObjectTemplate)
	Tmpl  *tTmpl   `json:"tmpl"`   // initial template object (nil = absent)
	Store []tObj   `json:"store"`
	Watch [][2]int `json:"watch"` // pre-existing cache owner entries (kind, owner); owner 1 the template, 2 another template of its kind, 3 an owner of another kind
	Env   int      `json:"env"`
	Desc  bool     `json:"desc"` // order in which the enqueue handler sees the owners of a kind: descending by (kind, uid)
	Hs    bool     `json:"hs"`  // the environment handed to the sink has a HyperShift section
	Hcs   []int    `json:"hcs"` // namespaces a HostedCluster object maps to
	Steps []tStep  `json:"steps"`
}

type tEv struct {
	E    string   `json:"e"` // watch | free | patch-label | create | update | fin-add | fin-rm | status | other
	Kind int      `json:"kind,omitempty"`
	Key  *[3]int  `json:"key,omitempty"`
	Data [][2]int `json:"data,omitempty"`
	Res  string   `json:"res,omitempty"`
	Note string   `json:"note,omitempty"`
}

type tTmplState struct {
	Gen     int      `json:"gen"`
	Fin     bool     `json:"fin"`
	Del     bool     `json:"del"`
	Invalid int      `json:"invalid"`
	Conds   [][2]int `json:"conds"`
	CtrlOf  *[3]int  `json:"ctrlof"`
}

type tSnap struct {
	Store []tObj      `json:"store"`
	Tmpl    *tTmplState `json:"tmpl"`
	Watch   [][2]int    `json:"watch"`
	Pending bool        `json:"pending"` // a request for the template sits in the (recording) work queue
	Hcs     []int       `json:"hcs"`     // namespaces the HostedCluster objects on the API server map to
}

type tStepObs struct {
	Kind    string `json:"kind"` // pass | enq | aux | none
	Aux     int    `json:"aux"`  // aux: what the other template rendered for the HyperShift part
	Evs     []tEv  `json:"evs,omitempty"`
	Requeue int    `json:"requeue"`
	Err     int    `json:"err"` // 0 none, 1 yaml, 2 creation, 3 update, 4 malformed condition, 5 get of the template, 6 finalizer patch, 7 uncached get, 8 label patch, 9 status update, 99 other
	ErrMsg  string `json:"errmsg,omitempty"`
	Enq     bool   `json:"enq"`
	Snap    tSnap  `json:"snap"`
}

type tRef struct {
	Status string   `json:"status"` // ok | absent | missing | srcerr | tmplerr | yamlerr
	Key    *[3]int  `json:"key,omitempty"`
	Data   [][2]int `json:"data,omitempty"`
}

type tObsOut struct {
	Init  tSnap      `json:"init"`
	Steps []tStepObs `json:"steps"`
	Ref   tRef       `json:"ref"`
}

// ---------------------------------------------------------------- kinds

type tkInfo struct {
	apiVersion, kind       string
	namespaced, registered bool
}

var tkTable = map[int]tkInfo{
	1: {"v1", "ConfigMap", true, true},
	2: {"v1", "Secret", true, true},
	3: {widgetGroup + "/v1", "ClusterThing", false, true},
	4: {widgetGroup + "/v1", "Unregistered", true, false},
}

func tkOf(gvk schema.GroupVersionKind) int {
	for n, i := range tkTable {
		gv, _ := schema.ParseGroupVersion(i.apiVersion)
		if gv.Group == gvk.Group && i.kind == gvk.Kind {
			return n
		}
	}
	return 0
}

func tkGVK(kind int) schema.GroupVersionKind {
	i := tkTable[kind]
	gv, _ := schema.ParseGroupVersion(i.apiVersion)
	return gv.WithKind(i.kind)
}

func newTemplateMapper() meta.RESTMapper {
	m := meta.NewDefaultRESTMapper([]schema.GroupVersion{{Group: "", Version: "v1"}, {Group: widgetGroup, Version: "v1"}, corev1alpha1.GroupVersion})
	for _, i := range tkTable {
		if !i.registered {
			continue
		}
		gv, _ := schema.ParseGroupVersion(i.apiVersion)
		scope := meta.RESTScopeNamespace
		if !i.namespaced {
			scope = meta.RESTScopeRoot
		}
		m.Add(gv.WithKind(i.kind), scope)
	}
	m.Add(corev1alpha1.GroupVersion.WithKind("ObjectTemplate"), meta.RESTScopeNamespace)
	m.Add(corev1alpha1.GroupVersion.WithKind("ClusterObjectTemplate"), meta.RESTScopeRoot)
	return m
}

func tIsRoot(m meta.RESTMapper, gvk schema.GroupVersionKind) bool {
	rm, err := m.RESTMapping(gvk.GroupKind(), gvk.Version)
	return err == nil && rm.Scope.Name() == meta.RESTScopeNameRoot
}

// ---------------------------------------------------------------- concretisation / abstraction

const (
	tTmplName  = "tmpl"
	tMeUID     = "me"
	tOtherUID  = "other"
	tOtherName = "other"
)

// Namespaces are "ns-<n>" so that a HostedCluster {namespace "ns", name "<n>"} maps to them
// (hypershift HostedClusterNamespace = namespace + "-" + name).
func tNsName(n int) string {
	if n == 0 {
		return ""
	}
	return "ns-" + strconv.Itoa(n)
}

func tNsNum(s string) int {
	if s == "" {
		return 0
	}
	n, err := strconv.Atoi(strings.TrimPrefix(s, "ns-"))
	if err != nil {
		return -1
	}
	return n
}

func tDataKey(prefix string, n int) string {
	if n == 99 {
		return "e"
	}
	if n == 98 {
		return "h"
	}
	return prefix + strconv.Itoa(n)
}

func tConcreteData(prefix string, d [][2]int) map[string]any {
	out := map[string]any{}
	for _, kv := range d {
		if kv[0] < 1000 {
			out[tDataKey(prefix, kv[0])] = "v" + strconv.Itoa(kv[1])
		}
	}
	return out
}

// tSetContent replaces .data, the labels other than the cache label, and the annotations of m by what d says.
func tSetContent(m map[string]any, prefix string, d [][2]int) {
	m["data"] = tConcreteData(prefix, d)
	u := &unstructured.Unstructured{Object: m}
	labels := map[string]string{}
	if v, ok := u.GetLabels()[constants.DynamicCacheLabel]; ok {
		labels[constants.DynamicCacheLabel] = v
	}
	annos := map[string]string{}
	for _, kv := range d {
		switch {
		case kv[0] >= 2000:
			annos["a"+strconv.Itoa(kv[0]-2000)] = "v" + strconv.Itoa(kv[1])
		case kv[0] >= 1000:
			labels["l"+strconv.Itoa(kv[0]-1000)] = "v" + strconv.Itoa(kv[1])
		}
	}
	if len(labels) == 0 {
		labels = nil
	}
	if len(annos) == 0 {
		annos = nil
	}
	u.SetLabels(labels)
	u.SetAnnotations(annos)
}

func tSameContent(a, b map[string]any) bool {
	x, _ := json.Marshal(tAbsData(a))
	y, _ := json.Marshal(tAbsData(b))
	return string(x) == string(y)
}

func tNum(s string) int {
	if s == "e" {
		return 99
	}
	if s == "h" {
		return 98
	}
	if len(s) < 2 {
		return -1
	}
	n, err := strconv.Atoi(s[1:])
	if err != nil {
		return -1
	}
	return n
}

// tAbsData: the content of an object as one map: .data keys as they are, metadata.labels (other than the cache
// label) + 1000, metadata.annotations + 2000.
func tAbsData(m map[string]any) [][2]int {
	out := [][2]int{}
	add := func(path []string, off int) {
		d, _, _ := unstructured.NestedMap(m, path...)
		for k, v := range d {
			if k == constants.DynamicCacheLabel {
				continue
			}
			kn := tNum(k)
			if kn >= 0 {
				kn += off
			}
			s, ok := v.(string)
			if !ok {
				out = append(out, [2]int{kn, -1})
				continue
			}
			out = append(out, [2]int{kn, tNum(s)})
		}
	}
	add([]string{"data"}, 0)
	add([]string{"metadata", "labels"}, 1000)
	add([]string{"metadata", "annotations"}, 2000)
	sort.Slice(out, func(i, j int) bool { return out[i][0] < out[j][0] })
	return out
}

func tAbsKey(gvk schema.GroupVersionKind, ns, name string) [3]int {
	return [3]int{tkOf(gvk), tNsNum(ns), num("n", name)}
}

var tStatusNames = []string{"False", "True", "Unknown"}

func tStatusNum(s string) int {
	for i, n := range tStatusNames {
		if n == s {
			return i
		}
	}
	return -1
}

// values of the cache label other than the one the informers select on
var tOtherLabel = map[int]string{2: "true", 3: "False", 4: ""}

func (o tObj) concrete(prefix string) map[string]any {
	i := tkTable[o.Key[0]]
	md := map[string]any{"name": "n" + strconv.Itoa(o.Key[2]), "generation": int64(o.Gen)}
	if o.Key[1] != 0 {
		md["namespace"] = tNsName(o.Key[1])
	}
	if o.Label {
		md["labels"] = map[string]any{constants.DynamicCacheLabel: "True"}
	} else if o.LOther != 0 {
		md["labels"] = map[string]any{constants.DynamicCacheLabel: tOtherLabel[o.LOther]}
	}
	switch o.Ctrl {
	case 1:
		md["ownerReferences"] = []any{map[string]any{"apiVersion": corev1alpha1.GroupVersion.String(), "kind": "ObjectTemplate",
			"name": tTmplName, "uid": tMeUID, "controller": true, "blockOwnerDeletion": true}}
	case 2:
		md["ownerReferences"] = []any{map[string]any{"apiVersion": "apps/v1", "kind": "Deployment",
			"name": "someone", "uid": "u99", "controller": true}}
	}
	m := map[string]any{"apiVersion": i.apiVersion, "kind": i.kind, "metadata": md}
	tSetContent(m, prefix, o.Data)
	if st := tConcreteStatus(o.SObs, o.Conds); st != nil {
		m["status"] = st
	}
	return m
}

func tConcreteStatus(sobs *int, conds []tCond) map[string]any {
	if sobs == nil && len(conds) == 0 {
		return nil
	}
	st := map[string]any{}
	if sobs != nil {
		st["observedGeneration"] = int64(*sobs)
	}
	cs := []any{}
	for _, c := range conds {
		cm := map[string]any{"type": "c" + strconv.Itoa(c.Type), "status": tStatusNames[c.Status],
			"observedGeneration": int64(c.ObsGen), "reason": "R", "message": "M"}
		if c.Bare {
			delete(cm, "reason")
			delete(cm, "message")
		}
		cs = append(cs, cm)
	}
	if len(cs) > 0 {
		st["conditions"] = cs
	}
	return st
}

func tAbsObj(m map[string]any) tObj {
	u := &unstructured.Unstructured{Object: m}
	o := tObj{Key: tAbsKey(u.GroupVersionKind(), u.GetNamespace(), u.GetName()), Data: tAbsData(m),
		Label: u.GetLabels()[constants.DynamicCacheLabel] == "True", Gen: int(u.GetGeneration()), Conds: []tCond{}}
	if v, ok := u.GetLabels()[constants.DynamicCacheLabel]; ok && v != "True" {
		o.LOther = 9
		for n, s := range tOtherLabel {
			if s == v {
				o.LOther = n
			}
		}
	}
	for _, r := range u.GetOwnerReferences() {
		if r.Controller != nil && *r.Controller {
			if string(r.UID) == tMeUID {
				o.Ctrl = 1
			} else {
				o.Ctrl = 2
			}
		}
	}
	if g, ok, _ := unstructured.NestedInt64(m, "status", "observedGeneration"); ok {
		x := int(g)
		o.SObs = &x
	}
	cs, _, _ := unstructured.NestedSlice(m, "status", "conditions")
	for _, c := range cs {
		cm, _ := c.(map[string]any)
		t, _ := cm["type"].(string)
		s, _ := cm["status"].(string)
		g, _, _ := unstructured.NestedInt64(cm, "observedGeneration")
		_, reasonOk := cm["reason"].(string)
		_, messageOk := cm["message"].(string)
		o.Conds = append(o.Conds, tCond{Type: tNum(t), Status: tStatusNum(s), ObsGen: int(g), Bare: !reasonOk || !messageOk})
	}
	return o
}

func tItemKey(k, form int) string {
	switch form % 4 {
	case 0:
		return ".data.k" + strconv.Itoa(k)
	case 1:
		return "data.k" + strconv.Itoa(k)
	case 2:
		return "{.data.k" + strconv.Itoa(k) + "}"
	default:
		return "{data.k" + strconv.Itoa(k) + "}"
	}
}

func tConcreteSources(srcs []tSource) []any {
	out := []any{}
	for _, s := range srcs {
		i := tkTable[s.Kind]
		items := []any{}
		for _, it := range s.Items {
			dest := ".k" + strconv.Itoa(it[1])
			if it[1] == 0 {
				dest = "" // destination 0 of the model: empty destination (JSONPathFormatError, template_reconciler.go:283)
			}
			items = append(items, map[string]any{"key": tItemKey(it[0], it[0]+it[1]), "destination": dest})
		}
		m := map[string]any{"apiVersion": i.apiVersion, "kind": i.kind, "name": "n" + strconv.Itoa(s.Name), "items": items}
		if s.NS != 0 {
			m["namespace"] = tNsName(s.NS)
		}
		if s.Opt {
			m["optional"] = true
		}
		out = append(out, m)
	}
	return out
}

// tHyperExpr prints the HyperShift part of the environment: "v0" no section, "v1" section without HostedCluster,
// "v1<name>" the HostedCluster (its name is the number of the namespace it maps to).
const tHyperExpr = `{{ $hs := index .environment "hyperShift" }}{{ if $hs }}{{ $hc := index $hs "hostedCluster" }}` +
	`{{ if $hc }}"v1{{ index $hc "metadata" "name" }}"{{ else }}"v1"{{ end }}{{ else }}"v0"{{ end }}`

// tTemplateText: the Go template text of a family member.
func tTemplateText(c tCode) string {
	switch c.Form {
	case 4:
		return "apiVersion: v1\nkind: ConfigMap\nmetadata:\n  name: {{ .config.k1 \n"
	case 5:
		return "a: b: c\n\t- {{ len .config }}\n"
	}
	i := tkTable[c.Kind]
	var b strings.Builder
	fmt.Fprintf(&b, "apiVersion: %s\nkind: %s\nmetadata:\n  name: n%d\n", i.apiVersion, i.kind, c.Name)
	if c.Form == 7 {
		// every collected value also as a label and as an annotation
		b.WriteString("  labels:\n{{- range $k, $v := .config }}\n    {{ $k | replace \"k\" \"l\" }}: {{ $v | quote }}\n{{- end }}\n")
		b.WriteString("  annotations:\n{{- range $k, $v := .config }}\n    {{ $k | replace \"k\" \"a\" }}: {{ $v | quote }}\n{{- end }}\n")
	}
	if c.NS != 0 {
		fmt.Fprintf(&b, "  namespace: %s\n", tNsName(c.NS))
	}
	if c.ORefs {
		b.WriteString("  ownerReferences:\n  - apiVersion: v1\n    kind: ConfigMap\n    name: someone\n    uid: u77\n")
	}
	b.WriteString("data:\n")
	switch c.Form {
	case 0, 3, 6, 7:
		b.WriteString("{{- range $k, $v := .config }}\n  {{ $k }}: {{ $v | quote }}\n{{- end }}\n")
		if c.Form == 3 || c.Form == 6 {
			b.WriteString("  e: {{ .environment.kubernetes.version | quote }}\n")
		}
		if c.Form == 6 {
			b.WriteString("  h: " + tHyperExpr + "\n")
		}
	case 1:
		for _, d := range c.Pick {
			fmt.Fprintf(&b, "  k%d: {{ .config.k%d | quote }}\n", d, d)
		}
	case 2:
		for _, d := range c.Pick {
			fmt.Fprintf(&b, "  k%d: {{ index .config \"k%d\" | default \"v0\" | quote }}\n", d, d)
		}
	}
	return b.String()
}

func (h *tHarness) tmplGVK() schema.GroupVersionKind {
	if h.tns == 0 {
		return corev1alpha1.GroupVersion.WithKind("ClusterObjectTemplate")
	}
	return corev1alpha1.GroupVersion.WithKind("ObjectTemplate")
}

func (h *tHarness) tmplKey(name string) storeKey {
	gvk := h.tmplGVK()
	return storeKey{gvk.Group, gvk.Kind, tNsName(h.tns), name}
}

func (h *tHarness) tmplObject(name, uid string, t *tTmpl) map[string]any {
	gvk := h.tmplGVK()
	md := map[string]any{"name": name, "uid": uid, "generation": int64(1)}
	if h.tns != 0 {
		md["namespace"] = tNsName(h.tns)
	}
	m := map[string]any{"apiVersion": gvk.GroupVersion().String(), "kind": gvk.Kind, "metadata": md,
		"spec": map[string]any{"template": "", "sources": []any{}}}
	if t == nil {
		return m
	}
	md["generation"] = int64(t.Gen)
	if t.Fin {
		md["finalizers"] = []any{constants.CachedFinalizer}
	}
	if t.Del {
		md["deletionTimestamp"] = time.Unix(1700000000, 0).UTC().Format(time.RFC3339)
	}
	m["spec"] = map[string]any{"template": tTemplateText(t.Code), "sources": tConcreteSources(t.Sources)}
	st := map[string]any{}
	conds := []any{}
	for _, c := range t.Conds {
		conds = append(conds, map[string]any{"type": "c" + strconv.Itoa(c[0]), "status": tStatusNames[c[1]],
			"reason": "R", "message": "M", "lastTransitionTime": time.Unix(1700000000, 0).UTC().Format(time.RFC3339)})
	}
	if t.Invalid != 0 {
		conds = append(conds, map[string]any{"type": corev1alpha1.ObjectTemplateInvalid, "status": "True",
			"reason": map[int]string{1: "SourceError", 2: "TemplateError"}[t.Invalid], "message": "old",
			"lastTransitionTime": time.Unix(1700000000, 0).UTC().Format(time.RFC3339)})
	}
	if len(conds) > 0 {
		st["conditions"] = conds
	}
	if t.CtrlOf != nil {
		gvk := tkGVK(t.CtrlOf[0])
		st["controllerOf"] = map[string]any{"kind": gvk.Kind, "group": gvk.Group, "name": "n" + strconv.Itoa(t.CtrlOf[2]),
			"namespace": tNsName(t.CtrlOf[1])}
	}
	if len(st) > 0 {
		m["status"] = st
	}
	return m
}

func tAbsTmpl(m map[string]any) *tTmplState {
	if m == nil {
		return nil
	}
	u := &unstructured.Unstructured{Object: m}
	t := &tTmplState{Gen: int(u.GetGeneration()), Del: u.GetDeletionTimestamp() != nil, Conds: [][2]int{}}
	for _, f := range u.GetFinalizers() {
		if f == constants.CachedFinalizer {
			t.Fin = true
		}
	}
	cs, _, _ := unstructured.NestedSlice(m, "status", "conditions")
	for _, c := range cs {
		cm, _ := c.(map[string]any)
		ty, _ := cm["type"].(string)
		s, _ := cm["status"].(string)
		if ty == corev1alpha1.ObjectTemplateInvalid {
			r, _ := cm["reason"].(string)
			switch {
			case s == "True" && r == "SourceError":
				t.Invalid = 1
			case s == "True" && r == "TemplateError":
				t.Invalid = 2
			default:
				t.Invalid = 9
			}
			continue
		}
		t.Conds = append(t.Conds, [2]int{tNum(ty), tStatusNum(s)})
	}
	co, ok, _ := unstructured.NestedMap(m, "status", "controllerOf")
	if ok {
		k, _ := co["kind"].(string)
		g, _ := co["group"].(string)
		n, _ := co["name"].(string)
		ns, _ := co["namespace"].(string)
		if k != "" || n != "" {
			key := [3]int{tkOf(schema.GroupVersionKind{Group: g, Kind: k}), tNsNum(ns), num("n", n)}
			t.CtrlOf = &key
		}
	}
	return t
}

// ---------------------------------------------------------------- the harness state

type tHarness struct {
	s      *Store
	scheme *runtime.Scheme
	mapper meta.RESTMapper
	tns    int
	trace  []tEv
	im     *tInformerMap
	cache   *dynamiccache.Cache
	queue   *tQueue
	pending bool
	adv     []tAct
	advOn   bool
	reqNo   int
}

// before: request number reqNo of the current pass is about to take effect.
func (h *tHarness) before() error {
	if !h.advOn {
		return nil
	}
	n := h.reqNo
	h.reqNo++
	var fault error
	for _, a := range h.adv {
		if a.N != n {
			continue
		}
		switch a.Op {
		case "del":
			h.s.RawDelete(h.objKey(*a.Key))
		case "put":
			k := h.objKey(*a.Key)
			if old := h.s.RawGet(k); old != nil {
				upd := deepCopyMap(old)
				tSetContent(upd, "k", a.Data)
				if !tSameContent(old, upd) {
					u := &unstructured.Unstructured{Object: upd}
					u.SetGeneration(u.GetGeneration() + 1)
					h.s.RawPut(upd, true)
				}
			}
		case "fault":
			if fault == nil {
				gr := schema.GroupResource{Resource: "injected"}
				switch a.Fault {
				case "NotFound":
					fault = apierrors.NewNotFound(gr, "injected")
				case "Conflict":
					fault = apierrors.NewConflict(gr, "injected", fmt.Errorf("injected fault"))
				default:
					fault = apierrors.NewInternalError(fmt.Errorf("injected fault"))
				}
			}
		}
	}
	h.im.syncAll()
	return fault
}

// record: every write of the controller is followed by a resync of the informers, i.e. the cache is taken
// to be consistent with the API server also within a pass (with a lagging informer the only difference
// is a second, empty label patch when one pass reads the same unlabelled source twice).
func (h *tHarness) record(e tEv) {
	h.trace = append(h.trace, e)
	if e.E != "watch" && e.E != "free" {
		h.im.syncAll()
	}
}

// ---- client wrapper

type tClient struct {
	*Store
	h *tHarness
}

func (c *tClient) gvkOf(obj runtime.Object) schema.GroupVersionKind {
	gvk, _ := apiutil.GVKForObject(obj, c.h.scheme)
	return gvk
}

func isPKO(gvk schema.GroupVersionKind) bool { return gvk.Group == corev1alpha1.GroupVersion.Group }

func resName(err error) string {
	if err == nil {
		return "ok"
	}
	return errClass(err)
}

func (c *tClient) Get(ctx context.Context, key client.ObjectKey, obj client.Object, opts ...client.GetOption) error {
	if tIsRoot(c.h.mapper, c.gvkOf(obj)) {
		key.Namespace = "" // NamespaceIfScoped
	}
	if err := c.h.before(); err != nil {
		return err
	}
	return c.Store.Get(ctx, key, obj, opts...)
}

// do: the request takes effect unless a scheduled fault replaces its answer.
func (c *tClient) do(f func() error) error {
	if err := c.h.before(); err != nil {
		return err
	}
	return f()
}

func (c *tClient) sentEvent(verb string, obj client.Object) tEv {
	gvk := c.gvkOf(obj)
	key := tAbsKey(gvk, obj.GetNamespace(), obj.GetName())
	e := tEv{E: verb, Key: &key}
	if u, ok := obj.(*unstructured.Unstructured); ok {
		e.Data = tAbsData(u.Object)
		if u.GetLabels()[constants.DynamicCacheLabel] != "True" {
			e.Note = "nolabel"
		}
	}
	return e
}

func (c *tClient) Create(ctx context.Context, obj client.Object, opts ...client.CreateOption) error {
	gvk := c.gvkOf(obj)
	if isPKO(gvk) {
		c.h.record(tEv{E: "other", Note: "create " + gvk.Kind})
		return c.Store.Create(ctx, obj, opts...)
	}
	e := c.sentEvent("create", obj)
	err := c.do(func() error { return c.Store.Create(ctx, obj, opts...) })
	e.Res = resName(err)
	c.h.record(e)
	return err
}

func (c *tClient) Update(ctx context.Context, obj client.Object, opts ...client.UpdateOption) error {
	gvk := c.gvkOf(obj)
	if isPKO(gvk) {
		c.h.record(tEv{E: "other", Note: "update " + gvk.Kind})
		return c.Store.Update(ctx, obj, opts...)
	}
	e := c.sentEvent("update", obj)
	err := c.do(func() error {
		if tIsRoot(c.h.mapper, gvk) && obj.GetNamespace() != "" {
			return apierrors.NewBadRequest("the namespace of the provided object does not match the namespace sent on the request")
		}
		return c.Store.Update(ctx, obj, opts...)
	})
	e.Res = resName(err)
	c.h.record(e)
	return err
}

func (c *tClient) Patch(ctx context.Context, obj client.Object, patch client.Patch, opts ...client.PatchOption) error {
	gvk := c.gvkOf(obj)
	data, err := patch.Data(obj)
	if err != nil {
		return err
	}
	var pm map[string]any
	_ = json.Unmarshal(data, &pm)
	if isPKO(gvk) {
		fins, _, _ := unstructured.NestedStringSlice(pm, "metadata", "finalizers")
		_, has, _ := unstructured.NestedFieldNoCopy(pm, "metadata", "finalizers")
		e := tEv{E: "other", Note: "patch " + gvk.Kind}
		if has {
			e = tEv{E: "fin-rm"}
			for _, f := range fins {
				if f == constants.CachedFinalizer {
					e = tEv{E: "fin-add"}
				}
			}
		}
		err := c.do(func() error { return c.Store.Patch(ctx, obj, client.RawPatch(patch.Type(), data), opts...) })
		e.Res = resName(err)
		c.h.record(e)
		return err
	}
	key := tAbsKey(gvk, obj.GetNamespace(), obj.GetName())
	target := obj
	u, isU := obj.(*unstructured.Unstructured)
	if tIsRoot(c.h.mapper, gvk) && isU {
		cp := u.DeepCopy()
		cp.SetNamespace("") // NamespaceIfScoped
		target = cp
		key[1] = 0
	}
	e := tEv{E: "patch-other", Key: &key}
	if v, ok, _ := unstructured.NestedString(pm, "metadata", "labels", constants.DynamicCacheLabel); ok && v == "True" && len(pm) == 1 {
		e.E = "patch-label"
	}
	err = c.do(func() error { return c.Store.Patch(ctx, target, client.RawPatch(patch.Type(), data), opts...) })
	if target != obj && err == nil {
		u.Object = target.(*unstructured.Unstructured).Object
	}
	if err == nil && isU {
		e.Data = tAbsData(u.Object) // what the API server answered: the pass goes on with this
	}
	e.Res = resName(err)
	c.h.record(e)
	return err
}

func (c *tClient) Delete(ctx context.Context, obj client.Object, opts ...client.DeleteOption) error {
	c.h.record(tEv{E: "other", Note: "delete " + c.gvkOf(obj).Kind})
	return c.Store.Delete(ctx, obj, opts...)
}

type tStatusWriter struct {
	client.SubResourceWriter
	h *tHarness
}

func (w *tStatusWriter) Update(ctx context.Context, obj client.Object, opts ...client.SubResourceUpdateOption) error {
	err := w.h.before()
	if err == nil {
		err = w.SubResourceWriter.Update(ctx, obj, opts...)
	}
	w.h.record(tEv{E: "status", Res: resName(err)})
	return err
}

func (c *tClient) Status() client.SubResourceWriter {
	return &tStatusWriter{SubResourceWriter: c.Store.Status(), h: c.h}
}

// ---- scripted informer map

type tInformer struct {
	toolscache.SharedIndexInformer // nil: any method the code under test needs beyond the ones below panics visibly
	handlers                       []toolscache.ResourceEventHandler
	indexer                        toolscache.Indexer
}

func (i *tInformer) AddEventHandler(h toolscache.ResourceEventHandler) (toolscache.ResourceEventHandlerRegistration, error) {
	i.handlers = append(i.handlers, h)
	return nil, nil
}
func (i *tInformer) HasSynced() bool                { return true }
func (i *tInformer) GetIndexer() toolscache.Indexer { return i.indexer }

type tInformerEntry struct {
	inf    *tInformer
	reader client.Reader
}

type tInformerMap struct {
	h       *tHarness
	entries map[schema.GroupVersionKind]*tInformerEntry
}

func (m *tInformerMap) Get(_ context.Context, gvk schema.GroupVersionKind, _ runtime.Object) (toolscache.SharedIndexInformer, client.Reader, error) {
	if e, ok := m.entries[gvk]; ok {
		return e.inf, e.reader, nil
	}
	rm, err := m.h.mapper.RESTMapping(gvk.GroupKind(), gvk.Version)
	if err != nil {
		return nil, nil, err
	}
	idx := toolscache.NewIndexer(toolscache.MetaNamespaceKeyFunc, toolscache.Indexers{toolscache.NamespaceIndex: toolscache.MetaNamespaceIndexFunc})
	e := &tInformerEntry{inf: &tInformer{indexer: idx}, reader: dynamiccache.VerifC18NewCacheReader(idx, gvk, rm.Scope.Name())}
	m.entries[gvk] = e
	m.sync(gvk)
	return e.inf, e.reader, nil
}

func (m *tInformerMap) Delete(_ context.Context, gvk schema.GroupVersionKind) error {
	delete(m.entries, gvk)
	return nil
}

// sync: the informer's list with the cache label selector.
func (m *tInformerMap) sync(gvk schema.GroupVersionKind) {
	e := m.entries[gvk]
	objs := []any{}
	for _, k := range m.h.s.RawKeys() {
		if k.Group != gvk.Group || k.Kind != gvk.Kind {
			continue
		}
		u := &unstructured.Unstructured{Object: m.h.s.RawGet(k)}
		if u.GetLabels()[constants.DynamicCacheLabel] == "True" {
			objs = append(objs, u)
		}
	}
	_ = e.inf.indexer.Replace(objs, "")
}

func (m *tInformerMap) syncAll() {
	for gvk := range m.entries {
		m.sync(gvk)
	}
}

// ---- recording cache wrapper (what the controller gets as its dynamicCache)

type tCache struct {
	*dynamiccache.Cache
	h *tHarness
}

func (c *tCache) Get(ctx context.Context, key client.ObjectKey, obj client.Object, opts ...client.GetOption) error {
	err := c.Cache.Get(ctx, key, obj, opts...)
	if u, ok := obj.(*unstructured.Unstructured); ok && err == nil {
		gvk := u.GroupVersionKind()
		k := tAbsKey(gvk, u.GetNamespace(), u.GetName())
		c.h.trace = append(c.h.trace, tEv{E: "cache-hit", Key: &k, Data: tAbsData(u.Object)})
	}
	return err
}

func (c *tCache) Watch(ctx context.Context, owner client.Object, obj runtime.Object) error {
	c.h.record(tEv{E: "watch", Kind: tkOf(obj.GetObjectKind().GroupVersionKind())})
	return c.Cache.Watch(ctx, owner, obj)
}

func (c *tCache) Free(ctx context.Context, owner client.Object) error {
	c.h.record(tEv{E: "free"})
	return c.Cache.Free(ctx, owner)
}

// ---- recording work queue

type tQueue struct {
	workqueue.TypedRateLimitingInterface[reconcile.Request] // nil
	added                                                   []reconcile.Request
}

func (q *tQueue) Add(r reconcile.Request) { q.added = append(q.added, r) }

// ---------------------------------------------------------------- steps

func (h *tHarness) ownerObject(owner int) client.Object {
	u := &unstructured.Unstructured{}
	u.SetGroupVersionKind(h.tmplGVK())
	u.SetNamespace(tNsName(h.tns))
	switch owner {
	case 1:
		u.SetName(tTmplName)
		u.SetUID(tMeUID)
	case 3:
		// an owner of ANOTHER kind watching through the same (shared) dynamic cache: the cluster-scoped variant for a
		// namespaced template and vice versa
		if h.tns == 0 {
			u.SetGroupVersionKind(corev1alpha1.GroupVersion.WithKind("ObjectTemplate"))
			u.SetNamespace(tNsName(1))
		} else {
			u.SetGroupVersionKind(corev1alpha1.GroupVersion.WithKind("ClusterObjectTemplate"))
			u.SetNamespace("")
		}
		u.SetName("foreign")
		u.SetUID("foreign")
	default:
		u.SetName(tOtherName)
		u.SetUID(tOtherUID)
	}
	return u
}

// tOrderedOwners hands the cache's owner references to the enqueue handler in a scripted order (the cache itself
// returns them in Go map order): ascending or descending by (kind, uid).
type tOrderedOwners struct {
	cache *dynamiccache.Cache
	desc  bool
}

func (o *tOrderedOwners) OwnersForGKV(gvk schema.GroupVersionKind) []dynamiccache.OwnerReference {
	refs := o.cache.OwnersForGKV(gvk)
	sort.Slice(refs, func(i, j int) bool {
		a, b := refs[i].Kind+"/"+string(refs[i].UID), refs[j].Kind+"/"+string(refs[j].UID)
		if o.desc {
			return a > b
		}
		return a < b
	})
	return refs
}

func (h *tHarness) objKey(k [3]int) storeKey {
	gvk := tkGVK(k[0])
	return storeKey{gvk.Group, gvk.Kind, tNsName(k[1]), "n" + strconv.Itoa(k[2])}
}

func hasLabel(m map[string]any) bool {
	return m != nil && (&unstructured.Unstructured{Object: m}).GetLabels()[constants.DynamicCacheLabel] == "True"
}

// deliver: what the informer of the object's kind would hand to its event handlers.
func (h *tHarness) deliver(gvk schema.GroupVersionKind, old, new map[string]any) bool {
	h.queue.added = nil
	e, ok := h.im.entries[gvk]
	if ok {
		ou, nu := &unstructured.Unstructured{Object: old}, &unstructured.Unstructured{Object: new}
		for _, hd := range e.inf.handlers {
			switch {
			case !hasLabel(old) && hasLabel(new):
				hd.OnAdd(nu, false)
			case hasLabel(old) && hasLabel(new):
				hd.OnUpdate(ou, nu)
			case hasLabel(old) && !hasLabel(new):
				hd.OnDelete(ou)
			}
		}
	}
	for _, r := range h.queue.added {
		if r.Name == tTmplName && r.Namespace == tNsName(h.tns) {
			return true
		}
	}
	return false
}

func dataEq(a, b map[string]any) bool {
	x, _ := json.Marshal(a["data"])
	y, _ := json.Marshal(b["data"])
	return string(x) == string(y)
}

func (h *tHarness) stepPut(st tStep) bool {
	k := h.objKey(*st.Key)
	old := h.s.RawGet(k)
	var new map[string]any
	if old == nil {
		new = tObj{Key: *st.Key, Data: st.Data, Label: st.Label, LOther: st.LOther, Gen: 1}.concrete("k")
		h.s.RawPut(new, true)
	} else {
		new = deepCopyMap(old)
		tSetContent(new, "k", st.Data)
		if tSameContent(old, new) {
			return false // nothing changes on the API server: no watch event
		}
		u := &unstructured.Unstructured{Object: new}
		u.SetGeneration(u.GetGeneration() + 1)
		h.s.RawPut(new, true)
	}
	return h.deliver(tkGVK(st.Key[0]), old, h.s.RawGet(k))
}

func (h *tHarness) stepDel(st tStep) bool {
	k := h.objKey(*st.Key)
	old := h.s.RawGet(k)
	if old == nil {
		return false
	}
	h.s.RawDelete(k)
	return h.deliver(tkGVK(st.Key[0]), old, nil)
}

func (h *tHarness) stepPoke(st tStep) {
	k := h.objKey(*st.Key)
	old := h.s.RawGet(k)
	if old == nil {
		return
	}
	if s := tConcreteStatus(st.SObs, st.Conds); s != nil {
		old["status"] = s
	} else {
		delete(old, "status")
	}
	h.s.RawPut(old, true)
}

func (h *tHarness) stepEdit(st tStep) {
	k := h.tmplKey(tTmplName)
	old := h.s.RawGet(k)
	if old == nil {
		return
	}
	old["spec"] = map[string]any{"template": tTemplateText(*st.Code), "sources": tConcreteSources(st.Sources)}
	u := &unstructured.Unstructured{Object: old}
	u.SetGeneration(u.GetGeneration() + 1)
	h.s.RawPut(old, true)
}

func (h *tHarness) stepTDel() error {
	k := h.tmplKey(tTmplName)
	if h.s.RawGet(k) == nil {
		return nil
	}
	u := &unstructured.Unstructured{}
	u.SetGroupVersionKind(h.tmplGVK())
	u.SetNamespace(k.Namespace)
	u.SetName(k.Name)
	return h.s.Delete(context.Background(), u)
}

func envOf(n int, hs bool) *manifests.PackageEnvironment {
	env := &manifests.PackageEnvironment{Kubernetes: manifests.PackageEnvironmentKubernetes{Version: "v" + strconv.Itoa(n)}}
	if hs {
		env.HyperShift = &manifests.PackageEnvironmentHyperShift{}
	}
	return env
}

var tHCGVK = hypershiftv1beta1.GroupVersion.WithKind("HostedCluster")

func (h *tHarness) hcKey(ns int) storeKey {
	return storeKey{tHCGVK.Group, tHCGVK.Kind, "ns", strconv.Itoa(ns)}
}

func (h *tHarness) setHC(ns int, present bool) {
	if !present {
		h.s.RawDelete(h.hcKey(ns))
		return
	}
	h.s.RawPut(map[string]any{"apiVersion": tHCGVK.GroupVersion().String(), "kind": tHCGVK.Kind,
		"metadata": map[string]any{"name": strconv.Itoa(ns), "namespace": "ns"}}, true)
}

const tAuxTarget = 200

// auxPass: the same controller reconciles another ObjectTemplate, "aux" in namespace ns, which has no sources
// and prints the HyperShift part of its environment into ConfigMap n200 of that namespace. Returns what it printed.
func (h *tHarness) auxPass(ctx context.Context, c *objecttemplate.GenericObjectTemplateController, ns int) (int, error) {
	gvk := h.tmplGVK()
	k := storeKey{gvk.Group, gvk.Kind, tNsName(ns), "aux"}
	if h.s.RawGet(k) == nil {
		text := fmt.Sprintf("apiVersion: v1\nkind: ConfigMap\nmetadata:\n  name: n%d\ndata:\n  h: %s\n", tAuxTarget, tHyperExpr)
		md := map[string]any{"name": "aux", "uid": "aux" + strconv.Itoa(ns), "generation": int64(1)}
		if ns != 0 {
			md["namespace"] = tNsName(ns)
		}
		h.s.RawPut(map[string]any{"apiVersion": gvk.GroupVersion().String(), "kind": gvk.Kind, "metadata": md,
			"spec": map[string]any{"template": text, "sources": []any{}}}, true)
	}
	h.im.syncAll()
	saved := h.trace
	_, err := c.Reconcile(ctx, ctrl.Request{NamespacedName: types.NamespacedName{Name: "aux", Namespace: tNsName(ns)}})
	h.trace = saved
	if err != nil {
		return -1, nil
	}
	cm := h.s.RawGet(storeKey{"", "ConfigMap", tNsName(ns), "n" + strconv.Itoa(tAuxTarget)})
	if cm == nil {
		return -2, nil
	}
	d := tAbsData(cm)
	if len(d) != 1 {
		return -3, nil
	}
	return d[0][1], nil
}

func (h *tHarness) snapshot() tSnap {
	sn := tSnap{Store: []tObj{}, Watch: [][2]int{}, Pending: h.pending, Hcs: []int{}}
	for _, k := range h.s.RawKeys() {
		if k.Group == corev1alpha1.GroupVersion.Group {
			continue
		}
		if k.Group == tHCGVK.Group {
			n, _ := strconv.Atoi(k.Name)
			sn.Hcs = append(sn.Hcs, n)
			continue
		}
		o := tAbsObj(h.s.RawGet(k))
		if o.Key[2] >= tAuxTarget {
			continue // targets of the other templates (aux passes) live outside the abstraction
		}
		sn.Store = append(sn.Store, o)
	}
	sort.Ints(sn.Hcs)
	sort.Slice(sn.Store, func(i, j int) bool {
		a, b := sn.Store[i].Key, sn.Store[j].Key
		if a[0] != b[0] {
			return a[0] < b[0]
		}
		if a[1] != b[1] {
			return a[1] < b[1]
		}
		return a[2] < b[2]
	})
	sn.Tmpl = tAbsTmpl(h.s.RawGet(h.tmplKey(tTmplName)))
	for kind := 1; kind <= 4; kind++ {
		for _, o := range h.cache.OwnersForGKV(tkGVK(kind)) {
			if strings.HasPrefix(string(o.UID), "aux") {
				continue
			}
			id := 2
			switch string(o.UID) {
			case tMeUID:
				id = 1
			case "foreign":
				id = 3
			}
			sn.Watch = append(sn.Watch, [2]int{kind, id})
		}
	}
	sort.Slice(sn.Watch, func(i, j int) bool {
		if sn.Watch[i][0] != sn.Watch[j][0] {
			return sn.Watch[i][0] < sn.Watch[j][0]
		}
		return sn.Watch[i][1] < sn.Watch[j][1]
	})
	return sn
}

func tErrClass(err error) int {
	switch {
	case err == nil:
		return 0
	case strings.Contains(err.Error(), "unmarshalling yaml of rendered template"):
		return 1
	case strings.Contains(err.Error(), "handling creation"):
		return 2
	case strings.Contains(err.Error(), "updating templated object"):
		return 3
	case strings.Contains(err.Error(), "updating status conditions from owned object"):
		return 4
	case strings.Contains(err.Error(), "adding finalizer"), strings.Contains(err.Error(), "removing finalizer"):
		return 6
	case strings.Contains(err.Error(), "from uncachedClient"):
		return 7
	case strings.Contains(err.Error(), "patching source object for cache"):
		return 8
	case strings.Contains(err.Error(), "updating ObjectTemplate status"):
		return 9
	case apierrors.IsInternalError(err) || apierrors.IsConflict(err):
		return 5 // the unwrapped answer of the Get of the ObjectTemplate
	default:
		return 99
	}
}

// reference: render the CURRENT sources of the CURRENT template spec through the real
// copySourceItems and the real transformer, without any controller state.
func (h *tHarness) reference(env int, hs bool) tRef {
	tm := h.s.RawGet(h.tmplKey(tTmplName))
	if tm == nil {
		return tRef{Status: "absent"}
	}
	var spec corev1alpha1.ObjectTemplateSpec
	if err := runtime.DefaultUnstructuredConverter.FromUnstructured(tm["spec"].(map[string]any), &spec); err != nil {
		return tRef{Status: "harness:" + err.Error()}
	}
	cfg := map[string]any{}
	for _, src := range spec.Sources {
		gv, _ := schema.ParseGroupVersion(src.APIVersion)
		gvk := gv.WithKind(src.Kind)
		ns := src.Namespace
		if ns == "" {
			ns = tNsName(h.tns)
		}
		if tIsRoot(h.mapper, gvk) {
			ns = ""
		}
		m := h.s.RawGet(storeKey{gvk.Group, gvk.Kind, ns, src.Name})
		if m == nil {
			if src.Optional {
				continue
			}
			return tRef{Status: "missing"}
		}
		if err := objecttemplate.VerifC18CopySourceItems(src.Items, &unstructured.Unstructured{Object: m}, cfg); err != nil {
			return tRef{Status: "srcerr"}
		}
	}
	envData := map[string]any{}
	pe := envOf(env, hs)
	if hs && h.tns != 0 && h.s.RawGet(h.hcKey(h.tns)) != nil {
		pe.HyperShift.HostedCluster = &manifests.PackageEnvironmentHyperShiftHostedCluster{
			TemplateContextObjectMeta: manifests.TemplateContextObjectMeta{Name: strconv.Itoa(h.tns), Namespace: "ns"},
			HostedClusterNamespace:    tNsName(h.tns),
		}
	}
	b, _ := json.Marshal(pe)
	_ = json.Unmarshal(b, &envData)
	out, err := objecttemplate.VerifC18Transform(context.Background(),
		objecttemplate.TemplateContext{Config: cfg, Environment: envData}, []byte(spec.Template))
	if err != nil {
		return tRef{Status: "tmplerr"}
	}
	obj := &unstructured.Unstructured{Object: map[string]any{}}
	if err := yaml.Unmarshal(out, obj); err != nil {
		return tRef{Status: "yamlerr"}
	}
	key := tAbsKey(obj.GroupVersionKind(), obj.GetNamespace(), obj.GetName())
	return tRef{Status: "ok", Key: &key, Data: tAbsData(obj.Object)}
}

func init() {
	register("template", func(raw json.RawMessage) (any, error) {
		var sc tScenario
		if err := json.Unmarshal(raw, &sc); err != nil {
			return nil, err
		}
		h := &tHarness{scheme: newScheme(), mapper: newTemplateMapper(), tns: sc.TNS}
		_ = hypershiftv1beta1.AddToScheme(h.scheme)
		h.s = NewStore(h.scheme, h.mapper)
		h.im = &tInformerMap{h: h, entries: map[schema.GroupVersionKind]*tInformerEntry{}}
		h.cache = dynamiccache.VerifC18NewCache(h.scheme, h.im)
		h.queue = &tQueue{}
		cl := &tClient{Store: h.s, h: h}
		dc := &tCache{Cache: h.cache, h: h}
		cfg := objecttemplate.ControllerConfig{
			OptionalResourceRetryInterval: time.Duration(sc.IvOpt) * time.Second,
			ResourceRetryInterval:         time.Duration(sc.IvRes) * time.Second,
		}
		var c *objecttemplate.GenericObjectTemplateController
		if sc.TNS == 0 {
			c = objecttemplate.NewClusterObjectTemplateController(cl, cl, logr.Discard(), dc, h.scheme, h.mapper, cfg)
		} else {
			c = objecttemplate.NewObjectTemplateController(cl, cl, logr.Discard(), dc, h.scheme, h.mapper, cfg)
		}
		env, hs := sc.Env, sc.Hs
		c.SetEnvironment(envOf(env, hs))
		for _, ns := range sc.Hcs {
			h.setHC(ns, true)
		}
		ctx := context.Background()
		// what SetupWithManager wires: the cache source with the real enqueue mapper, started with the controller's queue
		typed, err := h.scheme.New(h.tmplGVK())
		if err != nil {
			return nil, err
		}
		src := h.cache.Source(
			dynamiccache.NewEnqueueWatchingObjects(&tOrderedOwners{cache: h.cache, desc: sc.Desc}, typed, h.scheme),
			predicate.NewPredicateFuncs(func(client.Object) bool { return true }))
		if err := src.Start(ctx, h.queue); err != nil {
			return nil, err
		}

		for _, o := range sc.Store {
			h.s.RawPut(o.concrete("k"), true)
		}
		if sc.Tmpl != nil {
			h.s.RawPut(h.tmplObject(tTmplName, tMeUID, sc.Tmpl), true)
		}
		for _, w := range sc.Watch {
			u := &unstructured.Unstructured{}
			u.SetGroupVersionKind(tkGVK(w[0]))
			if err := h.cache.Watch(ctx, h.ownerObject(w[1]), u); err != nil {
				return nil, fmt.Errorf("seeding watch: %w", err)
			}
		}
		out := tObsOut{Init: h.snapshot(), Steps: []tStepObs{}}
		req := ctrl.Request{NamespacedName: types.NamespacedName{Name: tTmplName, Namespace: tNsName(sc.TNS)}}
		for _, st := range sc.Steps {
			so := tStepObs{Kind: "none"}
			switch st.Op {
			case "put":
				so.Kind, so.Enq = "enq", h.stepPut(st)
				h.pending = h.pending || so.Enq
			case "del":
				so.Kind, so.Enq = "enq", h.stepDel(st)
				h.pending = h.pending || so.Enq
			case "poke":
				h.stepPoke(st)
			case "tedit":
				h.stepEdit(st)
			case "tdel":
				if err := h.stepTDel(); err != nil {
					return nil, err
				}
			case "env":
				env = st.Env
				c.SetEnvironment(envOf(env, hs))
			case "hyper":
				hs = st.B
				c.SetEnvironment(envOf(env, hs))
			case "hc":
				h.setHC(st.NS, st.B)
			case "aux":
				v, err := h.auxPass(ctx, c, st.NS)
				if err != nil {
					return nil, err
				}
				so.Kind, so.Aux = "aux", v
			case "pass", "drain", "passx":
				if st.Op == "drain" && !h.pending {
					break // the worker finds no request
				}
				h.pending = false
				h.adv, h.advOn, h.reqNo = st.Adv, st.Op == "passx", 0
				h.im.syncAll()
				h.s.ResetPass()
				h.trace = nil
				res, err := c.Reconcile(ctx, req)
				h.advOn = false
				so.Kind = "pass"
				so.Evs = h.trace
				if so.Evs == nil {
					so.Evs = []tEv{}
				}
				so.Requeue = int(res.RequeueAfter / time.Second)
				if res.Requeue {
					so.Requeue += 100000
				}
				so.Err = tErrClass(err)
				if err != nil {
					so.ErrMsg = err.Error()
				}
			default:
				return nil, fmt.Errorf("unknown step %q", st.Op)
			}
			so.Snap = h.snapshot()
			out.Steps = append(out.Steps, so)
		}
		out.Ref = h.reference(env, hs)
		return out, nil
	})
}
