//go:build verif

package main

import (
	"context"
	"encoding/json"
	"errors"
	"fmt"
	"reflect"
	"strings"

	"k8s.io/apimachinery/pkg/apis/meta/v1/unstructured"
	k8sjson "k8s.io/apimachinery/pkg/util/json"

	corev1alpha1 "package-operator.run/apis/core/v1alpha1"
	internalprobing "package-operator.run/internal/probing"
	"package-operator.run/pkg/probing"
)

// probe mode (C17): the scenario is a list of real corev1alpha1.ObjectSetProbe values
// plus one unstructured object. The prober is built by the real internal/probing.Parse
// and run on a deep copy of the object.
type probeScenario struct {
	Probes []corev1alpha1.ObjectSetProbe `json:"probes"`
	Object json.RawMessage               `json:"object"`
}

type probeParseErr struct {
	Index int    `json:"index"`
	Class string `json:"class"` // cel-not-bool | cel-compile | selector | unknown
	Text  string `json:"text"`
}

type probePer struct {
	ParseErr *probeParseErr `json:"parseErr,omitempty"`
	OK       bool           `json:"ok"`
	Reasons  []string       `json:"reasons"`
}

type probeCEL struct {
	Rule    string `json:"rule"`
	Class   string `json:"class"`   // ok | not-bool | compile
	Outcome string `json:"outcome"` // true | false | error | none (does not compile)
}

type probeFailure struct {
	Index  int    `json:"index"` // index of the ObjectSetProbe; len(probes) = message could not be attributed
	Reason string `json:"reason"`
}

type probeObs struct {
	ParseErr *probeParseErr `json:"parseErr,omitempty"`
	Success  bool           `json:"success"`
	Failures []probeFailure `json:"failures"`
	Messages []string       `json:"messages"`
	Per      []probePer     `json:"per"`
	Pure     bool           `json:"pure"`
	GK       [2]string      `json:"gk"`
	Gen      int64          `json:"gen"`
	CEL      []probeCEL     `json:"cel"`
	Panics   []string       `json:"panics,omitempty"` // Probe panicked (recovered by the harness)
}

// Reason enums. The table mirrors the fixed message formats of pkg/probing:
//
//	observedgeneration.go:24  ".status outdated"
//	condition.go:28           `condition %q == %q: ` + one of
//	condition.go:35             "missing .status.conditions"
//	condition.go:38,59          "malformed"
//	condition.go:51,71          "outdated"
//	condition.go:77             "wrong status"
//	condition.go:79             "not reported"
//	fieldsequal.go:36         `"%v" == "%v": ` + one of
//	fieldsequal.go:41           `"%v" missing` (FieldA)
//	fieldsequal.go:45           `"%v" missing` (FieldB)
//	fieldsequal.go:49           `"%v" != "%v"`
//	cel.go:75                 "CEL program failed: %v"
//	cel.go:78                 the probe's own Message
//
// Anything else is "unknown" and is reported by the check as a correspondence failure.
var condSuffix = map[string]string{
	"missing .status.conditions": "cond-missing",
	"malformed":                  "cond-malformed",
	"outdated":                   "cond-outdated",
	"wrong status":               "cond-wrong-status",
	"not reported":               "cond-not-reported",
}

// reasonOf maps a message to its reason enum. Which probe of a spec is in effect follows the
// switch of internal/probing.ParseProbes (parse.go:78-101): fieldsEqual, then condition, then cel.
func reasonOf(msg string, probes []corev1alpha1.ObjectSetProbe) string {
	if msg == ".status outdated" {
		return "status-outdated"
	}
	for _, osp := range probes {
		for _, p := range osp.Probes {
			switch {
			case p.FieldsEqual != nil:
				prefix := fmt.Sprintf(`"%v" == "%v": `, p.FieldsEqual.FieldA, p.FieldsEqual.FieldB)
				if !strings.HasPrefix(msg, prefix) {
					continue
				}
				rest := msg[len(prefix):]
				switch {
				case rest == fmt.Sprintf(`"%v" missing`, p.FieldsEqual.FieldA):
					return "field-missing-a"
				case rest == fmt.Sprintf(`"%v" missing`, p.FieldsEqual.FieldB):
					return "field-missing-b"
				case strings.HasPrefix(rest, `"`) && strings.Contains(rest, `" != "`) && strings.HasSuffix(rest, `"`):
					return "field-not-equal"
				}
			case p.Condition != nil:
				prefix := fmt.Sprintf("condition %q == %q: ", p.Condition.Type, p.Condition.Status)
				if !strings.HasPrefix(msg, prefix) {
					continue
				}
				if r, ok := condSuffix[msg[len(prefix):]]; ok {
					return r
				}
			case p.CEL != nil:
				if strings.HasPrefix(msg, "CEL program failed: ") {
					return "cel-error"
				}
				if msg == p.CEL.Message {
					return "cel-false"
				}
			}
		}
	}
	return "unknown"
}

func classifyParseErr(err error) *probeParseErr {
	pe := &probeParseErr{Index: -1, Class: "unknown", Text: err.Error()}
	txt := err.Error()
	switch {
	case strings.HasPrefix(txt, "parsing selector of probe #"):
		_, _ = fmt.Sscanf(txt, "parsing selector of probe #%d:", &pe.Index)
		pe.Class = "selector"
	case strings.HasPrefix(txt, "parsing probe #"):
		_, _ = fmt.Sscanf(txt, "parsing probe #%d:", &pe.Index)
		switch {
		case errors.Is(err, probing.ErrCELInvalidEvaluationType):
			pe.Class = "cel-not-bool"
		case strings.Contains(txt, "compiling CEL: "):
			pe.Class = "cel-compile"
		}
	}
	return pe
}

func decodeObject(raw json.RawMessage) (*unstructured.Unstructured, error) {
	// k8s.io/apimachinery/pkg/util/json is what the API machinery uses for
	// unstructured content: integers become int64, other numbers float64.
	m := map[string]any{}
	if err := k8sjson.Unmarshal(raw, &m); err != nil {
		return nil, err
	}
	return &unstructured.Unstructured{Object: m}, nil
}

// celOracle: for every distinct CEL rule of the probe list, what the real NewCELProbe says about the rule
// (compile class) and what the compiled PROGRAM returns on the object. The program is evaluated directly
// (CELProbe.Program.Eval, cel-go), not through CELProbe.Probe, so that the oracle is independent of how the
// probe turns an evaluation result into (success, message): true | false | error (evaluation failed) |
// non-bool (a value that is not a boolean: the rule should not have been accepted).
func celOracle(probes []corev1alpha1.ObjectSetProbe, obj *unstructured.Unstructured) []probeCEL {
	out := []probeCEL{}
	seen := map[string]bool{}
	for _, osp := range probes {
		for _, p := range osp.Probes {
			if p.CEL == nil || seen[p.CEL.Rule] {
				continue
			}
			seen[p.CEL.Rule] = true
			c := probeCEL{Rule: p.CEL.Rule, Outcome: "none"}
			cp, err := probing.NewCELProbe(p.CEL.Rule, "verif-oracle")
			switch {
			case err == nil:
				c.Class = "ok"
				val, _, err := cp.Program.Eval(map[string]any{"self": obj.DeepCopy().Object})
				switch {
				case err != nil:
					c.Outcome = "error"
				default:
					if b, ok := val.Value().(bool); !ok {
						c.Outcome = "non-bool"
					} else if b {
						c.Outcome = "true"
					} else {
						c.Outcome = "false"
					}
				}
			case errors.Is(err, probing.ErrCELInvalidEvaluationType):
				c.Class = "not-bool"
			default:
				c.Class = "compile"
			}
			out = append(out, c)
		}
	}
	return out
}

// safeProbe runs a prober and turns a panic into an observation.
func safeProbe(p probing.Prober, obj *unstructured.Unstructured) (ok bool, msgs []string, panicked string) {
	defer func() {
		if r := recover(); r != nil {
			ok, msgs, panicked = false, nil, fmt.Sprint(r)
		}
	}()
	ok, msgs = p.Probe(obj)
	return ok, msgs, ""
}

func init() {
	register("probe", func(raw json.RawMessage) (any, error) {
		var sc probeScenario
		if err := json.Unmarshal(raw, &sc); err != nil {
			return nil, err
		}
		orig, err := decodeObject(sc.Object)
		if err != nil {
			return nil, err
		}
		ctx := context.Background()
		obs := probeObs{Failures: []probeFailure{}, Messages: []string{}, Per: []probePer{}, CEL: []probeCEL{}, Pure: true}
		gk := orig.GetObjectKind().GroupVersionKind().GroupKind()
		obs.GK = [2]string{gk.Group, gk.Kind}
		obs.Gen = orig.GetGeneration()

		run := func(p probing.Prober) (bool, []string) {
			holder := orig.DeepCopy()
			ok, msgs, panicked := safeProbe(p, holder)
			if panicked != "" {
				obs.Panics = append(obs.Panics, panicked)
			}
			if !reflect.DeepEqual(holder.Object, orig.Object) {
				obs.Pure = false
			}
			return ok, msgs
		}

		obs.CEL = celOracle(sc.Probes, orig)

		// every ObjectSetProbe alone: the body of the loop of Parse (parse.go:19-33) through the
		// exported ParseProbes and ParseSelector, i.e. without the And around the whole list.
		perMsgs := make([][]string, len(sc.Probes))
		for i := range sc.Probes {
			pp := probePer{Reasons: []string{}}
			p, err := internalprobing.ParseProbes(ctx, sc.Probes[i].Probes)
			if err != nil {
				pp.ParseErr = classifyParseErr(fmt.Errorf("parsing probe #%d: %w", i, err))
			} else if p, err = internalprobing.ParseSelector(ctx, sc.Probes[i].Selector, p); err != nil {
				pp.ParseErr = classifyParseErr(fmt.Errorf("parsing selector of probe #%d: %w", i, err))
			} else {
				ok, msgs := run(p)
				pp.OK = ok
				perMsgs[i] = msgs
				for _, m := range msgs {
					pp.Reasons = append(pp.Reasons, reasonOf(m, sc.Probes[i:i+1]))
				}
			}
			obs.Per = append(obs.Per, pp)
		}

		// the whole list
		p, err := internalprobing.Parse(ctx, sc.Probes)
		if err != nil {
			obs.ParseErr = classifyParseErr(err)
			return obs, nil
		}
		ok, msgs := run(p)
		obs.Success = ok
		if msgs != nil {
			obs.Messages = msgs
		}
		// attribute the messages to ObjectSetProbe indices: the messages of probe i alone
		// must appear as a block, blocks in index order.
		pos := 0
		for i := range sc.Probes {
			mi := perMsgs[i]
			if len(mi) == 0 || pos+len(mi) > len(msgs) || !reflect.DeepEqual(msgs[pos:pos+len(mi)], mi) {
				continue
			}
			for _, m := range mi {
				obs.Failures = append(obs.Failures, probeFailure{Index: i, Reason: reasonOf(m, sc.Probes[i:i+1])})
			}
			pos += len(mi)
		}
		for _, m := range msgs[pos:] {
			obs.Failures = append(obs.Failures, probeFailure{Index: len(sc.Probes), Reason: reasonOf(m, sc.Probes)})
		}
		return obs, nil
	})
}
