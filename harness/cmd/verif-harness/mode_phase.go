//go:build verif

package main

// phase mode: runs the real controllers.PhaseReconciler (ReconcilePhase / TeardownPhase) with the real
// boxcutter owner strategies, the real preflight checkers and the real prober against the recording
// server, for one owner and one phase, and reports the result, the write requests and the post-store.

import (
	"context"
	"encoding/json"
	"errors"
	"fmt"
	"os"
	"regexp"
	"strconv"
	"strings"

	apierrors "k8s.io/apimachinery/pkg/api/errors"
	metav1 "k8s.io/apimachinery/pkg/apis/meta/v1"
	"k8s.io/apimachinery/pkg/apis/meta/v1/unstructured"
	"k8s.io/apimachinery/pkg/runtime"
	"k8s.io/apimachinery/pkg/types"
	"pkg.package-operator.run/boxcutter/ownerhandling"
	"sigs.k8s.io/controller-runtime/pkg/client"
	"sigs.k8s.io/controller-runtime/pkg/controller/controllerutil"

	corev1alpha1 "package-operator.run/apis/core/v1alpha1"
	"package-operator.run/internal/adapters"
	"package-operator.run/internal/constants"
	"package-operator.run/internal/controllers"
	"package-operator.run/internal/preflight"
	internalprobing "package-operator.run/internal/probing"
)

type aOwner struct {
	aOID
	Rev    int64 `json:"rev"`
	Paused bool  `json:"paused"`
	Pkg    int   `json:"pkg"`
}

type aPrev struct {
	aOID
	Remotes [][2]int `json:"remotes"`
}

type aPObj struct {
	GK        int  `json:"gk"`
	NS        int  `json:"ns"`
	Name      int  `json:"name"`
	Body      int  `json:"body"`
	CP        int  `json:"cp"` // 0 Prevent, 1 IfNoController, 2 None
	OwnerRefs bool `json:"ownerrefs"`
	DryReject bool `json:"dryreject"`
	ApplyDry404 bool `json:"applydry404,omitempty"` // the dry-run apply answers NotFound; the fallback dry-run create is accepted
	// Noise: the template presets metadata keys that Package Operator owns (bit 1: revision annotation "1",
	// bit 2: cache label "False", bit 4: a foreign package label). The model has no such field: what is applied
	// must not depend on it.
	Noise int `json:"noise,omitempty"`
}

// A third-party operation executed directly on the store.
type aEnvOp struct {
	Op  string `json:"op"` // put | delete
	Obj *aObj  `json:"obj,omitempty"`
	Key *aKey  `json:"key,omitempty"`
}

type phaseScenario struct {
	Flavor  string  `json:"flavor"`
	Force   bool    `json:"force"`
	Owner   aOwner  `json:"owner"`
	Prev    []aPrev `json:"prev"`
	Store   []aObj  `json:"store"`
	NextRV  int64   `json:"next_rv"`
	NextUID int64   `json:"next_uid"`
	Op      string  `json:"op"` // reconcile | teardown
	Objects []aPObj `json:"objects"`
	// Between: third-party ops run right before every non-dry-run write request of the pass
	// (i.e. between the pass's read of an object and its write).
	Between []aEnvOp `json:"between,omitempty"`
	// Faults: API faults at request indices of the pass (all requests, reads and dry-runs included):
	// "err" = the request fails without effect, "lost" = the request takes effect and its response is lost.
	Faults []convFault `json:"faults,omitempty"`
}

type aEvent struct {
	Verb string `json:"verb"` // apply | release | delete
	Key  aKey   `json:"key"`
	Read *aObj  `json:"read"`
	Pre  *aObj  `json:"pre"`
	Post *aObj  `json:"post"`
	Res  string `json:"res"` // ok | notfound | conflict | <error class>
	PUID int    `json:"puid"`
	PRV  int    `json:"prv"`
	Fault string `json:"fault,omitempty"` // err | lost (injected)
}

type phaseObs struct {
	Res      string   `json:"res"` // ok | preflight | err
	Err      string   `json:"err,omitempty"`
	ErrMsg   string   `json:"errmsg,omitempty"`
	Viol     []string `json:"viol"`
	Actual   []aObj   `json:"actual"`
	Failed   []aKey   `json:"failed"`
	Done     bool     `json:"done"`
	Events   []aEvent `json:"events"`
	Post     []aObj   `json:"post"`
	NextRV   int64    `json:"next_rv"`
	NextUID  int64    `json:"next_uid"`
	Requests []string `json:"requests"`
	ReqKeys  []aKey   `json:"req_keys"` // object named by each request (parallel to Requests)
	// OtherWrites: non-dry-run write requests on member kinds with a verb the reconcilers never use
	// (create, update, ...): each one is a write outside the apply / release-patch / delete paths.
	OtherWrites []string `json:"other_writes"`
}

var cpNames = []corev1alpha1.CollisionProtection{
	corev1alpha1.CollisionProtectionPrevent, corev1alpha1.CollisionProtectionIfNoController, corev1alpha1.CollisionProtectionNone,
}

func (p aPObj) concrete() corev1alpha1.ObjectSetObject {
	gi := gkTable[p.GK]
	md := map[string]any{"name": "n" + strconv.Itoa(p.Name)}
	if p.NS != 0 {
		md["namespace"] = nsName(p.NS)
	}
	if p.OwnerRefs {
		md["ownerReferences"] = []any{map[string]any{"apiVersion": "v1", "kind": "ConfigMap", "name": "n77", "uid": "u99999"}}
	}
	if p.DryReject {
		md["annotations"] = map[string]any{dryRejectAnnotation: "true"}
	}
	if p.ApplyDry404 {
		md["annotations"] = map[string]any{applyDry404Annotation: "true"}
	}
	if p.Noise&1 != 0 {
		an, _ := md["annotations"].(map[string]any)
		if an == nil {
			an = map[string]any{}
		}
		an["package-operator.run/revision"] = "1"
		md["annotations"] = an
	}
	if p.Noise&6 != 0 {
		lb := map[string]any{}
		if p.Noise&2 != 0 {
			lb[constants.DynamicCacheLabel] = "False"
		}
		if p.Noise&4 != 0 {
			lb[pkgLabel] = "someone-else"
		}
		md["labels"] = lb
	}
	return corev1alpha1.ObjectSetObject{
		Object: unstructured.Unstructured{Object: map[string]any{
			"apiVersion": gi.apiVersion, "kind": gi.kind, "metadata": md, "spec": map[string]any{"v": strconv.Itoa(p.Body)},
		}},
		CollisionProtection: cpNames[p.CP],
	}
}

func objectMeta(o aOID) metav1.ObjectMeta {
	return metav1.ObjectMeta{Name: "n" + strconv.Itoa(o.Name), Namespace: nsName(o.NS), UID: types.UID("u" + strconv.Itoa(o.UID)), Generation: 1}
}

// phase owner for ObjectSetPhase kinds: the four methods PhaseReconciler needs.
type simpleOwner struct {
	obj    client.Object
	rev    int64
	paused bool
	conds  []metav1.Condition
}

func (o *simpleOwner) ClientObject() client.Object        { return o.obj }
func (o *simpleOwner) GetRevision() int64                 { return o.rev }
func (o *simpleOwner) GetConditions() *[]metav1.Condition { return &o.conds }
func (o *simpleOwner) IsSpecPaused() bool                 { return o.paused }

func buildOwner(scheme *runtime.Scheme, ow aOwner) controllers.PhaseObjectOwner {
	md := objectMeta(ow.aOID)
	if ow.Pkg != 0 {
		md.Labels = map[string]string{pkgLabel: pkgLabelValue(ow.Pkg)}
	}
	var obj client.Object
	switch ow.Kind {
	case 1:
		o := &corev1alpha1.ObjectSet{ObjectMeta: md}
		o.Status.Revision = ow.Rev
		if ow.Paused {
			o.Spec.LifecycleState = corev1alpha1.ObjectSetLifecycleStatePaused
		}
		return &adapters.ObjectSetAdapter{ObjectSet: *o}
	case 2:
		o := &corev1alpha1.ClusterObjectSet{ObjectMeta: md}
		o.Status.Revision = ow.Rev
		if ow.Paused {
			o.Spec.LifecycleState = corev1alpha1.ObjectSetLifecycleStatePaused
		}
		return &adapters.ClusterObjectSetAdapter{ClusterObjectSet: *o}
	case 3:
		obj = &corev1alpha1.ObjectSetPhase{ObjectMeta: md}
	case 4:
		obj = &corev1alpha1.ClusterObjectSetPhase{ObjectMeta: md}
	}
	return &simpleOwner{obj: obj, rev: ow.Rev, paused: ow.Paused}
}

type simplePrev struct {
	obj     client.Object
	remotes []corev1alpha1.RemotePhaseReference
}

func (p *simplePrev) ClientObject() client.Object                           { return p.obj }
func (p *simplePrev) GetRemotePhases() []corev1alpha1.RemotePhaseReference { return p.remotes }

func buildPrev(pv aPrev) controllers.PreviousObjectSet {
	md := objectMeta(pv.aOID)
	var obj client.Object
	if pv.Kind == 2 {
		obj = &corev1alpha1.ClusterObjectSet{ObjectMeta: md}
	} else {
		obj = &corev1alpha1.ObjectSet{ObjectMeta: md}
	}
	p := &simplePrev{obj: obj}
	for _, r := range pv.Remotes {
		p.remotes = append(p.remotes, corev1alpha1.RemotePhaseReference{Name: "n" + strconv.Itoa(r[0]), UID: types.UID("u" + strconv.Itoa(r[1]))})
	}
	return p
}

// fakeCache: the dynamic cache seen by the phase reconciler: only objects carrying the cache label.
type fakeCache struct {
	s       *Store
	Watches []string
}

func (c *fakeCache) Get(ctx context.Context, key client.ObjectKey, obj client.Object, opts ...client.GetOption) error {
	tmp := obj.DeepCopyObject().(client.Object)
	if err := c.s.Get(ctx, key, tmp, opts...); err != nil {
		return err
	}
	if tmp.GetLabels()[constants.DynamicCacheLabel] != "True" {
		gvk := obj.GetObjectKind().GroupVersionKind()
		k := storeKey{gvk.Group, gvk.Kind, key.Namespace, key.Name}
		// the caller has not seen the object: the lookup behind the cache is not a read of the pass
		c.s.ForgetRead(k)
		return apierrors.NewNotFound(gr(k), key.Name)
	}
	return c.s.fromMap(tmp.(*unstructured.Unstructured).Object, obj)
}

func (c *fakeCache) List(ctx context.Context, list client.ObjectList, opts ...client.ListOption) error {
	return c.s.List(ctx, list, opts...)
}

func (c *fakeCache) Watch(_ context.Context, owner client.Object, obj runtime.Object) error {
	c.Watches = append(c.Watches, obj.GetObjectKind().GroupVersionKind().Kind)
	return nil
}

func (c *fakeCache) Free(_ context.Context, _ client.Object) error { return nil }

func flavorParts(flavor string, scheme *runtime.Scheme, s *Store) (strategy interface {
	controllersOwnerStrategy
}, checker preflightChecker) {
	m := s.RESTMapper()
	switch flavor {
	case "samephase":
		return ownerhandling.NewNative(scheme), preflight.NewAPIExistence(m, preflight.List{
			preflight.NewNamespaceEscalation(m), preflight.NewDryRun(s), preflight.NewNoOwnerReferences(m)})
	case "sameclusterphase":
		return ownerhandling.NewNative(scheme), preflight.NewAPIExistence(m, preflight.List{
			preflight.NewDryRun(s), preflight.NewNoOwnerReferences(m)})
	case "multiphase":
		return ownerhandling.NewAnnotation(scheme, constants.OwnerStrategyAnnotationKey), preflight.NewAPIExistence(m, preflight.List{
			preflight.NewNoOwnerReferences(m), preflight.NewDryRun(s)})
	case "multiclusterphase":
		return ownerhandling.NewAnnotation(scheme, constants.OwnerStrategyAnnotationKey), preflight.NewAPIExistence(m, preflight.List{
			preflight.NewDryRun(s), preflight.NewNoOwnerReferences(m)})
	default: // objectset
		return ownerhandling.NewNative(scheme), preflight.NewAPIExistence(m, preflight.List{
			preflight.NewNoOwnerReferences(m), preflight.NewNamespaceEscalation(m), preflight.NewDryRun(s)})
	}
}

type controllersOwnerStrategy interface {
	GetController(obj metav1.Object) (metav1.OwnerReference, bool)
	IsController(owner, obj metav1.Object) bool
	IsOwner(owner, obj metav1.Object) bool
	ReleaseController(obj metav1.Object)
	RemoveOwner(owner, obj metav1.Object)
	SetOwnerReference(owner, obj metav1.Object) error
	SetControllerReference(owner, obj metav1.Object) error
}

type preflightChecker interface {
	Check(ctx context.Context, owner, obj client.Object) (violations []preflight.Violation, err error)
}

func violKind(v preflight.Violation) string {
	switch {
	case strings.Contains(v.Error, "not registered on the api server"):
		return "ApiMissing"
	case strings.Contains(v.Error, "Object must not have a owner reference"):
		return "OwnerRefs"
	case strings.Contains(v.Error, "Must stay within the same namespace"):
		return "Namespace"
	case strings.Contains(v.Error, "Must be namespaced scoped"):
		return "Scope"
	default:
		return "DryRun"
	}
}

func classifyErr(err error) (string, []string) {
	var pe *preflight.Error
	var e1 *controllers.ObjectNotOwnedByPreviousRevisionError
	var e2 *controllers.RevisionCollisionError
	var ao *controllerutil.AlreadyOwnedError
	switch {
	case errors.As(err, &pe):
		vs := []string{}
		for _, v := range pe.Violations {
			vs = append(vs, violKind(v))
		}
		return "preflight", vs
	case errors.As(err, &e1):
		return "NotPrevious", nil
	case errors.As(err, &e2):
		return "RevCollision", nil
	case strings.Contains(err.Error(), "getting revision of object"):
		return "RevParse", nil
	case errors.As(err, &ao), strings.Contains(err.Error(), "cross-namespace owner references are disallowed"),
		strings.Contains(err.Error(), "cluster-scoped resource must not have a namespace-scoped owner"):
		return "OwnerRef", nil
	case apierrors.IsInvalid(err):
		return "Invalid", nil
	case apierrors.IsConflict(err):
		return "Conflict", nil
	case apierrors.IsNotFound(err):
		return "NotFound", nil
	case apierrors.IsInternalError(err):
		return "Fault", nil
	default:
		return "Other", nil
	}
}

var probeMsgRe = regexp.MustCompile(`^(\S*) (\S+) (\S*)/(\S+): `)

func failedKey(msg string) aKey {
	m := probeMsgRe.FindStringSubmatch(msg)
	if m == nil {
		return aKey{-1, -1, -1}
	}
	av := m[1] + "/v1"
	if m[1] == "" {
		av = "v1"
	}
	return aKey{gkOf(av, m[2]), num("ns", m[3]), num("n", m[4])}
}

func scenarioProbes() []corev1alpha1.ObjectSetProbe {
	return []corev1alpha1.ObjectSetProbe{{
		Selector: corev1alpha1.ProbeSelector{Kind: &corev1alpha1.PackageProbeKindSpec{Group: widgetGroup, Kind: "Widget"}},
		Probes:   []corev1alpha1.Probe{{Condition: &corev1alpha1.ProbeConditionSpec{Type: "Available", Status: "True"}}},
	}}
}

func applyEnvOps(s *Store, ops []aEnvOp) {
	for _, op := range ops {
		switch op.Op {
		case "put":
			m := op.Obj.concrete()
			s.RawPut(m, false)
		case "delete":
			gi := gkTable[op.Key.GK]
			g := strings.TrimSuffix(gi.apiVersion, "v1")
			g = strings.TrimSuffix(g, "/")
			s.RawDelete(storeKey{g, gi.kind, nsName(op.Key.NS), "n" + strconv.Itoa(op.Key.Name)})
		}
	}
}

func eventsFromLog(log []*Request) []aEvent {
	evs := []aEvent{}
	for _, r := range log {
		if r.DryRun {
			continue
		}
		var verb string
		switch r.Verb {
		case "patch-apply":
			verb = "apply"
		case "patch-merge":
			verb = "release"
		case "delete":
			verb = "delete"
		default:
			continue
		}
		if abstractKey(r.Key).GK == 0 {
			continue
		}
		e := aEvent{Verb: verb, Key: abstractKey(r.Key), Read: abstractOpt(r.LastRead), Pre: abstractOpt(r.Pre), Post: abstractOpt(r.Post), Fault: r.Fault}
		switch r.Err {
		case "":
			e.Res = "ok"
		case "NotFound":
			e.Res = "notfound"
		case "Conflict":
			e.Res = "conflict"
		default:
			e.Res = r.Err
		}
		if r.Precond != nil {
			if u, ok := r.Precond["uid"].(string); ok {
				e.PUID = num("u", u)
			}
			if v, ok := r.Precond["resourceVersion"].(string); ok {
				e.PRV, _ = strconv.Atoi(v)
			}
		}
		evs = append(evs, e)
	}
	return evs
}

func otherWrites(log []*Request) []string {
	out := []string{}
	for _, r := range log {
		if r.DryRun || abstractKey(r.Key).GK == 0 {
			continue
		}
		switch r.Verb {
		case "get", "list", "patch-apply", "patch-merge", "delete":
		default:
			out = append(out, r.Verb+" "+r.Key.String()+" "+r.Err)
		}
	}
	return out
}

func requestSummary(log []*Request) []string {
	out := []string{}
	for _, r := range log {
		d := ""
		if r.DryRun {
			d = " dry"
		}
		out = append(out, fmt.Sprintf("%s%s %s %s", r.Verb, d, r.Key.String(), r.Err))
	}
	return out
}

func init() {
	register("phase", func(raw json.RawMessage) (any, error) {
		var sc phaseScenario
		if err := json.Unmarshal(raw, &sc); err != nil {
			return nil, err
		}
		scheme := newScheme()
		s := NewStore(scheme, newMapper())
		for _, o := range sc.Store {
			s.RawPut(o.concrete(), false)
		}
		s.SetCounters(sc.NextRV, sc.NextUID)
		if sc.Force {
			os.Setenv(constants.ForceAdoptionEnvironmentVariable, "1")
		} else {
			os.Unsetenv(constants.ForceAdoptionEnvironmentVariable)
		}
		strategy, checker := flavorParts(sc.Flavor, scheme, s)
		cache := &fakeCache{s: s}
		pr := controllers.NewPhaseReconciler(scheme, s, cache, s, strategy, checker)
		owner := buildOwner(scheme, sc.Owner)
		var prev []controllers.PreviousObjectSet
		for _, p := range sc.Prev {
			prev = append(prev, buildPrev(p))
		}
		phase := corev1alpha1.ObjectSetTemplatePhase{Name: "p"}
		for _, o := range sc.Objects {
			phase.Objects = append(phase.Objects, o.concrete())
		}
		ctx := context.Background()
		obs := phaseObs{Viol: []string{}, Actual: []aObj{}, Failed: []aKey{}}
		s.ResetPass()
		s.WriteHook = func(int) { applyEnvOps(s, sc.Between) }
		for _, f := range sc.Faults {
			s.Faults[s.reqIdx+f.Req] = f.Kind
		}
		switch sc.Op {
		case "teardown":
			done, err := pr.TeardownPhase(ctx, owner, phase)
			obs.Done = done
			if err != nil {
				obs.Res = "err"
				obs.Err, _ = classifyErr(err)
				obs.ErrMsg = err.Error()
			} else {
				obs.Res = "ok"
			}
		default:
			probe, err := internalprobing.Parse(ctx, scenarioProbes())
			if err != nil {
				return nil, err
			}
			actual, res, err := pr.ReconcilePhase(ctx, owner, phase, probe, prev)
			if err != nil {
				cls, vs := classifyErr(err)
				if cls == "preflight" {
					obs.Res = "preflight"
					obs.Viol = vs
				} else {
					obs.Res = "err"
					obs.Err = cls
					obs.ErrMsg = err.Error()
				}
			} else {
				obs.Res = "ok"
				for _, a := range actual {
					ao, err := abstractObj(a.(*unstructured.Unstructured).Object)
					if err != nil {
						return nil, err
					}
					obs.Actual = append(obs.Actual, ao)
				}
				for _, f := range res.FailedProbes {
					obs.Failed = append(obs.Failed, failedKey(f))
				}
			}
		}
		obs.Events = eventsFromLog(s.Log)
		obs.Requests = requestSummary(s.Log)
		obs.ReqKeys = []aKey{}
		for _, r := range s.Log {
			obs.ReqKeys = append(obs.ReqKeys, abstractKey(r.Key))
		}
		obs.OtherWrites = otherWrites(s.Log)
		obs.Post = abstractStore(s)
		obs.NextRV, obs.NextUID = s.Counters()
		return obs, nil
	})
}
