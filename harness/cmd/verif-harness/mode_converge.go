//go:build verif

package main

// converge mode (C10): runs a schedule of real (Cluster)ObjectSet controller passes over a world with
// disturbances (API faults at chosen request indices, restarts = fresh controller + fresh cache per
// pass, third-party drift on members), then fair rounds until two full rounds issue no state-changing
// request, and reports the projected end state. Every pass uses a freshly constructed controller, so
// no in-memory state survives a pass (the "restart anywhere" quantifier).

import (
	"context"
	"encoding/json"
	"os"
	"sort"
	"strconv"

	"github.com/go-logr/logr"
	"k8s.io/apimachinery/pkg/apis/meta/v1/unstructured"
	"k8s.io/apimachinery/pkg/runtime"
	"k8s.io/apimachinery/pkg/types"
	ctrl "sigs.k8s.io/controller-runtime"

	"package-operator.run/internal/constants"
	"package-operator.run/internal/controllers/objectsets"
)

type convFault struct {
	Pass int    `json:"pass"` // index into the disturbed schedule
	Req  int    `json:"req"`  // request index within that pass (all requests, reads included)
	Kind string `json:"kind"` // err | lost
}

// A third-party edit of an existing member (skipped when the object does not exist at that point).
type convEdit struct {
	Key      aKey  `json:"key"`
	Delete   bool  `json:"delete,omitempty"`
	Body     *int  `json:"body,omitempty"`
	Uncache  bool  `json:"uncache,omitempty"`
	Unavail  bool  `json:"unavail,omitempty"`
	StripOwners bool `json:"strip_owners,omitempty"`
}

type convDrift struct {
	BeforePass int        `json:"before_pass"`
	Edits      []convEdit `json:"edits"`
}

func applyEdits(s *Store, edits []convEdit, targets []aOID) {
	for _, e := range edits {
		gi := gkTable[e.Key.GK]
		g := ""
		if gi.apiVersion != "v1" {
			g = gi.apiVersion[:len(gi.apiVersion)-3]
		}
		k := storeKey{g, gi.kind, nsName(e.Key.NS), "n" + strconv.Itoa(e.Key.Name)}
		m := s.RawGet(k)
		if m == nil {
			continue
		}
		// only objects Package Operator manages are "managed objects" whose drift has to be repaired
		managed := false
		for _, r := range (&unstructured.Unstructured{Object: m}).GetOwnerReferences() {
			for _, t := range targets {
				if r.Controller != nil && *r.Controller && string(r.UID) == "u"+strconv.Itoa(t.UID) {
					managed = true
				}
			}
		}
		if !managed {
			continue
		}
		if e.Delete {
			s.RawDelete(k)
			continue
		}
		if e.Body != nil {
			_ = unstructured.SetNestedField(m, strconv.Itoa(*e.Body), "spec", "v")
			u := &unstructured.Unstructured{Object: m}
			u.SetGeneration(u.GetGeneration() + 1)
		}
		if e.Uncache {
			u := &unstructured.Unstructured{Object: m}
			l := u.GetLabels()
			delete(l, constants.DynamicCacheLabel)
			u.SetLabels(l)
		}
		if e.StripOwners {
			(&unstructured.Unstructured{Object: m}).SetOwnerReferences(nil)
		}
		if e.Unavail {
			_ = unstructured.SetNestedSlice(m, []any{map[string]any{"type": "Available", "status": "False"}}, "status", "conditions")
		}
		s.RawPut(m, true)
	}
}

type convergeScenario struct {
	Force    bool        `json:"force"`
	Store    []aObj      `json:"store"`
	Sets     []aSet      `json:"sets"`
	NextRV   int64       `json:"next_rv"`
	NextUID  int64       `json:"next_uid"`
	Targets  []aOID      `json:"targets"`  // ObjectSets reconciled round-robin
	Schedule []int       `json:"schedule"` // disturbed prefix: indices into Targets
	Faults   []convFault `json:"faults"`
	Drift    []convDrift `json:"drift"`
	MaxRounds int        `json:"max_rounds"`
}

type convState struct {
	Members []aObj `json:"members"`
	Sets    []aSet `json:"sets"`
}

type convergeObs struct {
	Converged      bool      `json:"converged"`
	Rounds         int       `json:"rounds"`
	QuietWrites    int       `json:"quiet_writes"` // state-changing requests in the two final rounds
	PassRequests   []int     `json:"pass_requests"` // number of requests per disturbed pass (for fault enumeration)
	PassErrors     []string  `json:"pass_errors"`
	End            convState `json:"end"`
	Panics         []string  `json:"panics,omitempty"`
	QuietErrors    []string  `json:"quiet_errors"` // errors returned by passes of the two final (quiet) rounds
}

// workload controllers: every Widget eventually reports Available for its current generation.
func kubeletStep(s *Store) {
	for _, k := range s.RawKeys() {
		if k.Kind != "Widget" {
			continue
		}
		m := s.RawGet(k)
		u := &unstructured.Unstructured{Object: m}
		if u.GetDeletionTimestamp() != nil {
			continue
		}
		want := map[string]any{
			"conditions":         []any{map[string]any{"type": "Available", "status": "True"}},
			"observedGeneration": u.GetGeneration(),
		}
		cur, _, _ := unstructured.NestedMap(m, "status")
		cj, _ := json.Marshal(cur)
		wj, _ := json.Marshal(want)
		if string(cj) == string(wj) {
			continue
		}
		m["status"] = want
		s.RawPut(m, true)
	}
}

// garbage collector: objects whose deletion is pending only because of the scenario's hold finalizer are
// released (the finalizer's owner "finishes"), and deleting objects without finalizers disappear.
func gcStep(s *Store) {
	for _, k := range s.RawKeys() {
		m := s.RawGet(k)
		u := &unstructured.Unstructured{Object: m}
		if abstractKey(k).GK == 0 || u.GetDeletionTimestamp() == nil {
			continue
		}
		s.RawDelete(k)
	}
}

func runSetPass(s *Store, scheme *runtime.Scheme, t aOID, faults map[int]string) (reqs int, changed int, errMsg string) {
	cache := &fakeCache{s: s}
	var c *objectsets.GenericObjectSetController
	if t.Kind == 2 {
		c = objectsets.NewClusterObjectSetController(s, logr.Discard(), scheme, cache, s, nil, s.RESTMapper())
	} else {
		c = objectsets.NewObjectSetController(s, logr.Discard(), scheme, cache, s, nil, s.RESTMapper())
	}
	s.ResetPass()
	base := s.reqIdx
	s.Faults = map[int]string{}
	for i, f := range faults {
		s.Faults[base+i] = f
	}
	key := setKey(t)
	_, err := c.Reconcile(context.Background(), ctrl.Request{NamespacedName: types.NamespacedName{Namespace: key.Namespace, Name: key.Name}})
	if err != nil {
		errMsg = err.Error()
	}
	for _, r := range s.Log {
		if r.Changed && !r.DryRun {
			changed++
		}
	}
	return len(s.Log), changed, errMsg
}

func projectState(s *Store) convState {
	st := convState{Members: abstractStore(s), Sets: abstractSets(s)}
	for i := range st.Members {
		st.Members[i].RV, st.Members[i].UID, st.Members[i].Gen = 0, 0, 0
		// status belongs to the workload controllers, never written by PKO: not part of the compared end state
		// (it is reflected in the ObjectSets' conditions)
		st.Members[i].ObsGen = nil
		st.Members[i].Avail = 0
		// compare the controller only: demoted references of former revisions are history that a re-created
		// object cannot carry (they do not influence garbage collection while the controller exists)
		ctrl := []aRef{}
		for _, r := range st.Members[i].Owners {
			if r[3] == 1 {
				ctrl = append(ctrl, r)
			}
		}
		st.Members[i].Owners = ctrl
	}
	for i := range st.Sets {
		st.Sets[i].RV = 0
		for j := range st.Sets[i].Conds {
			st.Sets[i].Conds[j][3] = 0
		}
		sort.Slice(st.Sets[i].Conds, func(a, b int) bool { return st.Sets[i].Conds[a][0] < st.Sets[i].Conds[b][0] })
		sort.Slice(st.Sets[i].CtrlOf, func(a, b int) bool {
			x, y := st.Sets[i].CtrlOf[a], st.Sets[i].CtrlOf[b]
			if x.GK != y.GK {
				return x.GK < y.GK
			}
			if x.NS != y.NS {
				return x.NS < y.NS
			}
			return x.Name < y.Name
		})
	}
	return st
}

func init() {
	register("converge", func(raw json.RawMessage) (any, error) {
		var sc convergeScenario
		if err := json.Unmarshal(raw, &sc); err != nil {
			return nil, err
		}
		scheme := newScheme()
		s := NewStore(scheme, newMapper())
		if err := loadWorld(s, scheme, sc.Store, sc.Sets, sc.NextRV, sc.NextUID); err != nil {
			return nil, err
		}
		if sc.Force {
			os.Setenv(constants.ForceAdoptionEnvironmentVariable, "1")
		} else {
			os.Unsetenv(constants.ForceAdoptionEnvironmentVariable)
		}
		obs := convergeObs{PassRequests: []int{}, PassErrors: []string{}, QuietErrors: []string{}}
		// disturbed prefix
		for pi, ti := range sc.Schedule {
			for _, d := range sc.Drift {
				if d.BeforePass == pi {
					applyEdits(s, d.Edits, sc.Targets)
				}
			}
			faults := map[int]string{}
			for _, f := range sc.Faults {
				if f.Pass == pi {
					faults[f.Req] = f.Kind
				}
			}
			n, _, e := runSetPass(s, scheme, sc.Targets[ti], faults)
			obs.PassRequests = append(obs.PassRequests, n)
			obs.PassErrors = append(obs.PassErrors, e)
			kubeletStep(s)
			gcStep(s)
		}
		// fair rounds until quiet twice
		max := sc.MaxRounds
		if max == 0 {
			max = 40
		}
		quiet := 0
		for obs.Rounds = 0; obs.Rounds < max && quiet < 2; obs.Rounds++ {
			changedRound := 0
			roundErrs := []string{}
			for _, t := range sc.Targets {
				_, ch, e := runSetPass(s, scheme, t, nil)
				changedRound += ch
				if e != "" {
					roundErrs = append(roundErrs, e)
				}
			}
			before := len(s.RawKeys())
			rv0, _ := s.Counters()
			kubeletStep(s)
			gcStep(s)
			rv1, _ := s.Counters()
			if changedRound == 0 && rv0 == rv1 && before == len(s.RawKeys()) {
				quiet++
			} else {
				quiet = 0
			}
			if quiet > 0 {
				obs.QuietWrites += changedRound
				obs.QuietErrors = append(obs.QuietErrors, roundErrs...)
			} else {
				obs.QuietErrors = []string{}
			}
		}
		obs.Converged = quiet >= 2
		obs.End = projectState(s)
		_ = strconv.Itoa
		return obs, nil
	})
}
