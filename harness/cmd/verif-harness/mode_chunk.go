//go:build verif

package main

import (
	"context"
	"encoding/json"
	"fmt"
	"strings"

	"k8s.io/apimachinery/pkg/apis/meta/v1/unstructured"

	corev1alpha1 "package-operator.run/apis/core/v1alpha1"
	"package-operator.run/internal/packages"
)

// chunk mode: sizes are given relative to the real limit L:
// each entry is {"q": a, "d": b} meaning size = a*L/12 + b bytes (b may be negative).
type chunkScenario struct {
	Strategy string `json:"strategy"` // "binpack" | "each"
	Sizes    []struct {
		Q int `json:"q"`
		D int `json:"d"`
	} `json:"sizes"`
}

type chunkObs struct {
	Limit  int     `json:"limit"`
	Sizes  []int   `json:"sizes"`  // measured len(json.Marshal(obj.Object)) per input object
	Bypass bool    `json:"bypass"` // nil result
	Chunks [][]int `json:"chunks"` // indices of the input objects per chunk
}

func objOfSize(idx, size int) (corev1alpha1.ObjectSetObject, error) {
	mk := func(pad int) unstructured.Unstructured {
		return unstructured.Unstructured{Object: map[string]any{
			"apiVersion": "v1", "kind": "ConfigMap",
			"metadata": map[string]any{"name": fmt.Sprintf("o%d", idx)},
			"data":     map[string]any{"p": strings.Repeat("x", pad)},
		}}
	}
	base := mk(0)
	b, err := json.Marshal(base) // the chunker measures json.Marshal(obj.Object) with obj.Object an Unstructured
	if err != nil {
		return corev1alpha1.ObjectSetObject{}, err
	}
	if size < len(b) {
		size = len(b)
	}
	o := mk(size - len(b))
	return corev1alpha1.ObjectSetObject{Object: o}, nil
}

func init() {
	register("chunk", func(raw json.RawMessage) (any, error) {
		var sc chunkScenario
		if err := json.Unmarshal(raw, &sc); err != nil {
			return nil, err
		}
		L := packages.VerifChunkLimit
		phase := &corev1alpha1.ObjectSetTemplatePhase{Name: "p"}
		obs := chunkObs{Limit: L, Sizes: []int{}}
		for i, s := range sc.Sizes {
			o, err := objOfSize(i, s.Q*L/12+s.D)
			if err != nil {
				return nil, err
			}
			b, _ := json.Marshal(o.Object)
			obs.Sizes = append(obs.Sizes, len(b))
			phase.Objects = append(phase.Objects, o)
		}
		var res [][]corev1alpha1.ObjectSetObject
		var err error
		switch sc.Strategy {
		case "each":
			res, err = (&packages.VerifEachObjectChunker{}).Chunk(context.Background(), phase)
		default:
			res, err = (&packages.VerifBinpackNextFitChunker{}).Chunk(context.Background(), phase)
		}
		if err != nil {
			return nil, err
		}
		obs.Bypass = res == nil
		obs.Chunks = [][]int{}
		for _, c := range res {
			idxs := []int{}
			for _, o := range c {
				var idx int
				if _, err := fmt.Sscanf(o.Object.GetName(), "o%d", &idx); err != nil {
					return nil, err
				}
				idxs = append(idxs, idx)
			}
			obs.Chunks = append(obs.Chunks, idxs)
		}
		return obs, nil
	})
}
