//go:build verif

package main

import (
	"context"
	"encoding/json"
	"errors"
	"fmt"
	"sort"
	"sync"
	"sync/atomic"
	"time"

	apierrors "k8s.io/apimachinery/pkg/api/errors"
	"k8s.io/apimachinery/pkg/api/meta"
	metav1 "k8s.io/apimachinery/pkg/apis/meta/v1"
	"k8s.io/apimachinery/pkg/apis/meta/v1/unstructured"
	"k8s.io/apimachinery/pkg/runtime/schema"
	"k8s.io/apimachinery/pkg/watch"
	"k8s.io/client-go/dynamic"
	"k8s.io/client-go/util/workqueue"
	"sigs.k8s.io/controller-runtime/pkg/client"
	"sigs.k8s.io/controller-runtime/pkg/event"
	"sigs.k8s.io/controller-runtime/pkg/reconcile"

	"package-operator.run/internal/dynamiccache"
)

// C12, mode cachereal: the real dynamiccache.Cache on top of the REAL InformerMap
// (informer_map.go) and real client-go shared informers; only the dynamic client is a
// fake: LIST can succeed, fail or hang per kind, WATCH streams are counted.
//
// Observable per kind: the number of open WATCH streams (= informers that got past
// their initial LIST and keep watching), the most ever open at the same time, and
// which registered controller handlers receive an event sent down the open streams.

type realOp struct {
	Op        string `json:"op"` // watch | free | get | list
	O         int    `json:"o"`
	G         int    `json:"g"`
	List      string `json:"list"`       // for watch: how the API behaves for kind g during the call: ok | hang | fail (LIST) | nomatch (the RESTMapper does not know the kind yet)
	Sns       *int   `json:"sns"`        // for watch: namespace of the sample object (index into realNamespaces; default 1)
	TimeoutMs int    `json:"timeout_ms"` // deadline of the call's context (0: 150 ms if LIST hangs/fails, else 5 s)
}

type realScenario struct {
	Handlers int      `json:"handlers"`
	Kinds    int      `json:"kinds"`
	Ops      []realOp `json:"ops"`
}

type realStepObs struct {
	Err       string   `json:"err"`       // none | notstarted | get (timeout/failed informer start) | other:<msg>
	Snap      []*[]int `json:"snap"`      // OwnersForGKV per kind after the op
	Streams   []int    `json:"streams"`   // open WATCH streams per kind once things settled after the op
	Delivered [][]int  `json:"delivered"` // per kind: handlers that received the event sent down its streams
	Entries   int      `json:"entries"`   // entries of the informer map (diagnostics only)
	// reads through the cache of the kind the operation addressed (watch/get/list), after it settled:
	// Get for every namespace x name of the battery, List for all namespaces and for one namespace.
	Gets  []realGet  `json:"gets"`
	Lists []realList `json:"lists"`
}

// namespaces and names are numbered: realNamespaces[0] = "" (none); names[2] never exists.
type realGet struct {
	G     int    `json:"g"`
	Ns    int    `json:"ns"`
	Name  int    `json:"name"`
	Class string `json:"class"`  // found | notfound | notstarted | other:<msg>
	GotNs int    `json:"got_ns"` // namespace / name of the returned object
	GotN  int    `json:"got_n"`
}

type realList struct {
	G     int      `json:"g"`
	Ns    int      `json:"ns"`
	Class string   `json:"class"` // ok | notstarted | other:<msg>
	Keys  [][2]int `json:"keys"`  // (namespace, name) of the returned objects, sorted
}

type realObs struct {
	Steps []realStepObs `json:"steps"`
	Scope []bool        `json:"scope"` // per kind: namespaced according to the API (RESTMapper)
	Store [][][2]int    `json:"store"` // per kind: (namespace, name) of the objects the API server serves
	Peak  []int         `json:"peak"`  // per kind: most WATCH streams ever open at the same time
	Lists []int         `json:"lists"` // per kind: LIST calls seen (diagnostics only)
}

// ---- fake dynamic client

type fakeDyn struct {
	mu       sync.Mutex
	kindOf   map[schema.GroupVersionResource]int
	behave   []string        // per kind: ok | hang | fail
	release  []chan struct{} // per kind: closed to let hanging LISTs return
	open     []map[*countedWatch]struct{}
	peak     []int
	lists    []int
	inflight int          // LIST calls that have not returned yet
	activity atomic.Int64 // bumped on every LIST/WATCH call, stream open/close
}

func newFakeDyn(kinds int) *fakeDyn {
	d := &fakeDyn{kindOf: map[schema.GroupVersionResource]int{}}
	for i := 0; i < kinds; i++ {
		d.behave = append(d.behave, "ok")
		d.release = append(d.release, make(chan struct{}))
		d.open = append(d.open, map[*countedWatch]struct{}{})
		d.peak = append(d.peak, 0)
		d.lists = append(d.lists, 0)
	}
	return d
}

func (d *fakeDyn) Resource(gvr schema.GroupVersionResource) dynamic.NamespaceableResourceInterface {
	return &fakeDynResource{d: d, gvr: gvr}
}

type fakeDynResource struct {
	dynamic.NamespaceableResourceInterface // nil: anything but List/Watch panics
	d                                      *fakeDyn
	gvr                                    schema.GroupVersionResource
}

var errListFails = errors.New("scripted: LIST fails")

func (r *fakeDynResource) List(ctx context.Context, _ metav1.ListOptions) (*unstructured.UnstructuredList, error) {
	d := r.d
	d.mu.Lock()
	k, ok := d.kindOf[r.gvr]
	if !ok {
		d.mu.Unlock()
		return nil, fmt.Errorf("harness: unknown resource %v", r.gvr)
	}
	d.lists[k]++
	d.inflight++
	mode, rel := d.behave[k], d.release[k]
	d.mu.Unlock()
	d.activity.Add(1)
	defer func() {
		d.mu.Lock()
		d.inflight--
		d.mu.Unlock()
		d.activity.Add(1)
	}()
	switch mode {
	case "hang":
		select {
		case <-rel:
		case <-ctx.Done():
			return nil, ctx.Err()
		}
	case "fail":
		return nil, errListFails
	}
	d.activity.Add(1)
	l := &unstructured.UnstructuredList{}
	gvk := kindGVK(k)
	l.SetAPIVersion(gvk.GroupVersion().String())
	l.SetKind(gvk.Kind + "List")
	l.SetResourceVersion("1")
	for _, key := range realStore(k) {
		u := unstructured.Unstructured{}
		u.SetGroupVersionKind(gvk)
		u.SetNamespace(realNamespaces[key[0]])
		u.SetName(realNames[key[1]])
		u.SetResourceVersion("1")
		l.Items = append(l.Items, u)
	}
	return l, nil
}

var (
	realNamespaces = []string{"", "ns-a", "ns-b", "ns-c"}
	realNames      = []string{"x", "y", "z"}
)

// realStore: what the fake API server serves for a kind: namespaced kinds have x in ns-a and
// ns-b and y in ns-a, cluster-scoped kinds have x and y; nothing is called z or lives in ns-c.
func realStore(k int) [][2]int {
	if kindNamespaced(k) {
		return [][2]int{{1, 0}, {1, 1}, {2, 0}}
	}
	return [][2]int{{0, 0}, {0, 1}}
}

func indexOf(xs []string, x string) int {
	for i, y := range xs {
		if x == y {
			return i
		}
	}
	return -1
}

// realOwner: owner 2 is cluster-scoped, all others are namespaced.
func realOwner(i int) client.Object {
	o := ownerObject(i)
	if i == 2 {
		o.SetNamespace("")
	}
	return o
}

// readBattery reads kind k through the cache in every way the battery knows.
func readBattery(c *dynamiccache.Cache, k int) ([]realGet, []realList) {
	bg := context.Background()
	var gets []realGet
	var lists []realList
	classify := func(err error, found string) string {
		var notStarted *dynamiccache.CacheNotStartedError
		switch {
		case err == nil:
			return found
		case apierrors.IsNotFound(err):
			return "notfound"
		case errors.As(err, &notStarted):
			return "notstarted"
		}
		return "other:" + err.Error()
	}
	for ns := range realNamespaces {
		for n := range realNames {
			// the out object carries the namespace too, as callers that fill in desired objects do
			out := kindObjectNS(k, realNamespaces[ns])
			out.SetName(realNames[n])
			err := c.Get(bg, client.ObjectKey{Namespace: realNamespaces[ns], Name: realNames[n]}, out)
			g := realGet{G: k, Ns: ns, Name: n, Class: classify(err, "found"), GotNs: -1, GotN: -1}
			if err == nil {
				g.GotNs, g.GotN = indexOf(realNamespaces, out.GetNamespace()), indexOf(realNames, out.GetName())
			}
			gets = append(gets, g)
		}
	}
	for _, ns := range []int{0, 1} {
		l := &unstructured.UnstructuredList{}
		gvk := kindGVK(k)
		gvk.Kind += "List"
		l.SetGroupVersionKind(gvk)
		var opts []client.ListOption
		if ns != 0 {
			opts = append(opts, client.InNamespace(realNamespaces[ns]))
		}
		err := c.List(bg, l, opts...)
		rl := realList{G: k, Ns: ns, Class: classify(err, "ok"), Keys: [][2]int{}}
		if err == nil {
			for _, it := range l.Items {
				if len(it.GetName()) > 3 && it.GetName()[:3] == "ev-" {
					continue // the probe events of this harness
				}
				rl.Keys = append(rl.Keys, [2]int{indexOf(realNamespaces, it.GetNamespace()), indexOf(realNames, it.GetName())})
			}
			sort.Slice(rl.Keys, func(i, j int) bool {
				if rl.Keys[i][0] != rl.Keys[j][0] {
					return rl.Keys[i][0] < rl.Keys[j][0]
				}
				return rl.Keys[i][1] < rl.Keys[j][1]
			})
		}
		lists = append(lists, rl)
	}
	return gets, lists
}

type countedWatch struct {
	d      *fakeDyn
	k      int
	ch     chan watch.Event
	once   sync.Once
	closed chan struct{}
}

func (w *countedWatch) ResultChan() <-chan watch.Event { return w.ch }

func (w *countedWatch) Stop() {
	w.once.Do(func() {
		w.d.mu.Lock()
		delete(w.d.open[w.k], w)
		w.d.mu.Unlock()
		close(w.closed)
		w.d.activity.Add(1)
	})
}

func (r *fakeDynResource) Watch(_ context.Context, _ metav1.ListOptions) (watch.Interface, error) {
	d := r.d
	d.mu.Lock()
	defer d.mu.Unlock()
	k, ok := d.kindOf[r.gvr]
	if !ok {
		return nil, fmt.Errorf("harness: unknown resource %v", r.gvr)
	}
	w := &countedWatch{d: d, k: k, ch: make(chan watch.Event), closed: make(chan struct{})}
	d.open[k][w] = struct{}{}
	if len(d.open[k]) > d.peak[k] {
		d.peak[k] = len(d.open[k])
	}
	d.activity.Add(1)
	return w, nil
}

func (d *fakeDyn) setBehave(k int, mode string) {
	d.mu.Lock()
	defer d.mu.Unlock()
	if d.behave[k] == "hang" && mode != "hang" {
		close(d.release[k])
		d.release[k] = make(chan struct{})
	}
	d.behave[k] = mode
}

func (d *fakeDyn) streams() []int {
	d.mu.Lock()
	defer d.mu.Unlock()
	out := make([]int, len(d.open))
	for k := range d.open {
		out[k] = len(d.open[k])
	}
	return out
}

// send delivers one Added event down every open stream of kind k.
func (d *fakeDyn) send(k int, seq int) {
	d.mu.Lock()
	ws := make([]*countedWatch, 0, len(d.open[k]))
	for w := range d.open[k] {
		ws = append(ws, w)
	}
	d.mu.Unlock()
	for _, w := range ws {
		u := &unstructured.Unstructured{}
		u.SetGroupVersionKind(kindGVK(k))
		u.SetNamespace("ns")
		u.SetName(fmt.Sprintf("ev-%d", seq))
		u.SetResourceVersion(fmt.Sprintf("%d", 10+seq))
		select {
		case w.ch <- watch.Event{Type: watch.Added, Object: u}:
		case <-w.closed:
		case <-time.After(500 * time.Millisecond):
		}
	}
}

// flakyMapper: a RESTMapper that can be told not to know a kind (yet), as before its CRD is installed.
type flakyMapper struct {
	meta.RESTMapper
	mu      sync.Mutex
	unknown map[schema.GroupVersionKind]bool
}

func (m *flakyMapper) RESTMapping(gk schema.GroupKind, versions ...string) (*meta.RESTMapping, error) {
	m.mu.Lock()
	for gvk, u := range m.unknown {
		if u && gvk.GroupKind() == gk && (len(versions) == 0 || versions[0] == gvk.Version) {
			m.mu.Unlock()
			return nil, &meta.NoKindMatchError{GroupKind: gk, SearchedVersions: versions}
		}
	}
	m.mu.Unlock()
	return m.RESTMapper.RESTMapping(gk, versions...)
}

func (m *flakyMapper) setUnknown(gvk schema.GroupVersionKind, u bool) {
	m.mu.Lock()
	defer m.mu.Unlock()
	m.unknown[gvk] = u
}

// ---- handlers that count what they receive

type countingHandler struct {
	id   int
	seen *sync.Map // "kind/name" -> map of handler ids (as *sync.Map)
}

func (h countingHandler) Create(_ context.Context, e event.CreateEvent, _ workqueue.TypedRateLimitingInterface[reconcile.Request]) {
	if e.Object == nil {
		return
	}
	key := e.Object.GetObjectKind().GroupVersionKind().Kind + "/" + e.Object.GetName()
	m, _ := h.seen.LoadOrStore(key, &sync.Map{})
	m.(*sync.Map).Store(h.id, true)
}

func (h countingHandler) Update(context.Context, event.UpdateEvent, workqueue.TypedRateLimitingInterface[reconcile.Request]) {
}

func (h countingHandler) Delete(context.Context, event.DeleteEvent, workqueue.TypedRateLimitingInterface[reconcile.Request]) {
}

func (h countingHandler) Generic(context.Context, event.GenericEvent, workqueue.TypedRateLimitingInterface[reconcile.Request]) {
}

func classifyRealErr(err error) string {
	var notStarted *dynamiccache.CacheNotStartedError
	switch {
	case err == nil, apierrors.IsNotFound(err):
		return "none"
	case errors.As(err, &notStarted):
		return "notstarted"
	case apierrors.IsTimeout(err), errors.Is(err, context.DeadlineExceeded), meta.IsNoMatchError(err):
		return "get"
	}
	return "other:" + err.Error()
}

// settle waits (at most `limit`) until no LIST is in flight, the fake API server saw no activity for
// `quiet`, and cond holds - the property's "eventually, within a bounded wait".
func (d *fakeDyn) settle(quiet, limit time.Duration, cond func() bool) {
	deadline := time.Now().Add(limit)
	last := d.activity.Load()
	since := time.Now()
	for time.Now().Before(deadline) {
		time.Sleep(5 * time.Millisecond)
		if cur := d.activity.Load(); cur != last {
			last, since = cur, time.Now()
			continue
		}
		d.mu.Lock()
		busy := d.inflight > 0
		d.mu.Unlock()
		if !busy && time.Since(since) >= quiet && cond() {
			return
		}
	}
}

func runReal(sc realScenario) (any, error) {
	d := newFakeDyn(sc.Kinds)
	mapper := meta.NewDefaultRESTMapper(nil)
	for i := 0; i < sc.Kinds; i++ {
		gvk := kindGVK(i)
		if kindNamespaced(i) {
			mapper.Add(gvk, meta.RESTScopeNamespace)
		} else {
			mapper.Add(gvk, meta.RESTScopeRoot)
		}
		m, err := mapper.RESTMapping(gvk.GroupKind(), gvk.Version)
		if err != nil {
			return nil, err
		}
		d.kindOf[m.Resource] = i
	}
	fm := &flakyMapper{RESTMapper: mapper, unknown: map[schema.GroupVersionKind]bool{}}
	c := dynamiccache.VerifNewCacheOnRealInformerMap(cacheScheme, fm, d)
	seen := &sync.Map{}
	bg := context.Background()
	for i := 0; i < sc.Handlers; i++ {
		if err := c.Source(countingHandler{id: i, seen: seen}).Start(bg, nil); err != nil {
			return nil, err
		}
	}
	if err := c.Start(bg); err != nil {
		return nil, err
	}
	obs := realObs{}
	seq := 0
	for _, op := range sc.Ops {
		if op.G < 0 || op.G >= sc.Kinds {
			return nil, fmt.Errorf("kind %d out of range", op.G)
		}
		to := time.Duration(op.TimeoutMs) * time.Millisecond
		if to == 0 {
			to = 5 * time.Second
			if op.Op == "watch" && (op.List == "hang" || op.List == "fail") {
				to = 150 * time.Millisecond
			}
		}
		ctx, cancel := context.WithTimeout(bg, to)
		var err error
		quiet := 60 * time.Millisecond
		switch op.Op {
		case "watch":
			mode := op.List
			if mode == "" {
				mode = "ok"
			}
			if mode == "nomatch" {
				fm.setUnknown(kindGVK(op.G), true)
			} else {
				d.setBehave(op.G, mode)
			}
			sns := 1
			if op.Sns != nil {
				sns = *op.Sns
			}
			err = c.Watch(ctx, realOwner(op.O), kindObjectNS(op.G, realNamespaces[sns]))
			// the API server recovers (the CRD gets installed) once the call is over
			d.setBehave(op.G, "ok")
			fm.setUnknown(kindGVK(op.G), false)
			if mode == "fail" {
				// a reflector whose LIST failed retries after its backoff (0.8 s, jittered up to 2x)
				quiet = 1800 * time.Millisecond
			}
		case "free":
			err = c.Free(ctx, realOwner(op.O))
		case "get":
			err = c.Get(ctx, client.ObjectKey{Name: "x", Namespace: "ns"}, kindObject(op.G))
		case "list":
			err = c.List(ctx, kindList(op.G))
		default:
			cancel()
			return nil, fmt.Errorf("unknown op %q", op.Op)
		}
		cancel()
		// bounded wait for: one open WATCH stream for every kind some owner references, none otherwise
		d.settle(quiet, quiet+2*time.Second, func() bool {
			st := d.streams()
			for k := 0; k < sc.Kinds; k++ {
				want := 0
				if len(c.OwnersForGKV(kindGVK(k))) > 0 {
					want = 1
				}
				if st[k] != want {
					return false
				}
			}
			return true
		})
		st := realStepObs{Err: classifyRealErr(err), Snap: make([]*[]int, sc.Kinds), Entries: c.VerifInformerMapLen(),
			Delivered: make([][]int, sc.Kinds), Gets: []realGet{}, Lists: []realList{}}
		for k := 0; k < sc.Kinds; k++ {
			st.Snap[k] = sortedOwners(c.OwnersForGKV(kindGVK(k)))
		}
		st.Streams = d.streams()
		if op.Op != "free" {
			st.Gets, st.Lists = readBattery(c, op.G)
		}
		// send one event down the open streams of every kind and see who gets it
		seq++
		for k := 0; k < sc.Kinds; k++ {
			st.Delivered[k] = []int{}
			if st.Streams[k] > 0 {
				d.send(k, seq)
			}
		}
		for k := 0; k < sc.Kinds; k++ {
			if st.Streams[k] == 0 {
				continue
			}
			key := kindGVK(k).Kind + "/" + fmt.Sprintf("ev-%d", seq)
			deadline := time.Now().Add(1 * time.Second)
			for {
				got := []int{}
				if m, ok := seen.Load(key); ok {
					m.(*sync.Map).Range(func(id, _ any) bool { got = append(got, id.(int)); return true })
				}
				sort.Ints(got)
				st.Delivered[k] = got
				if len(got) >= sc.Handlers || time.Now().After(deadline) {
					break
				}
				time.Sleep(5 * time.Millisecond)
			}
		}
		obs.Steps = append(obs.Steps, st)
	}
	d.mu.Lock()
	obs.Peak = append([]int{}, d.peak...)
	obs.Lists = append([]int{}, d.lists...)
	d.mu.Unlock()
	// let the informers go: free every owner (best effort) so goroutines do not pile up in the process
	for o := 0; o < 4; o++ {
		_ = c.Free(bg, realOwner(o))
	}
	for k := 0; k < sc.Kinds; k++ {
		obs.Scope = append(obs.Scope, kindNamespaced(k))
		obs.Store = append(obs.Store, realStore(k))
	}
	return obs, nil
}

func init() {
	register("cachereal", func(raw json.RawMessage) (any, error) {
		var sc realScenario
		if err := json.Unmarshal(raw, &sc); err != nil {
			return nil, err
		}
		return runReal(sc)
	})
}
