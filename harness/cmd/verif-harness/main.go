//go:build verif

// Command verif-harness runs package-operator code on scenarios for the
// /verif correspondence checks. It is injected into the module with
// `go build -overlay`; nothing is written to the repository.
//
// usage: verif-harness <mode> < scenarios.jsonl > observations.jsonl
// One JSON document per input line, one JSON document per output line.
package main

import (
	"bufio"
	"encoding/json"
	"fmt"
	"os"
	"runtime/debug"
	"sort"
)

// A mode turns one scenario (raw JSON) into one observation (any JSON value).
type modeFn func(raw json.RawMessage) (any, error)

var modes = map[string]modeFn{}

func register(name string, fn modeFn) { modes[name] = fn }

type outLine struct {
	Obs   any    `json:"obs,omitempty"`
	Err   string `json:"err,omitempty"`
	Panic string `json:"panic,omitempty"`
	Stack string `json:"stack,omitempty"`
}

func runOne(fn modeFn, raw json.RawMessage) (out outLine) {
	defer func() {
		if r := recover(); r != nil {
			out = outLine{Panic: fmt.Sprint(r), Stack: string(debug.Stack())}
		}
	}()
	obs, err := fn(raw)
	if err != nil {
		return outLine{Err: err.Error()}
	}
	return outLine{Obs: obs}
}

func main() {
	if len(os.Args) < 2 {
		names := make([]string, 0, len(modes))
		for n := range modes {
			names = append(names, n)
		}
		sort.Strings(names)
		fmt.Fprintln(os.Stderr, "modes:", names)
		os.Exit(2)
	}
	fn, ok := modes[os.Args[1]]
	if !ok {
		fmt.Fprintln(os.Stderr, "unknown mode", os.Args[1])
		os.Exit(2)
	}
	in := bufio.NewReaderSize(os.Stdin, 1<<20)
	w := bufio.NewWriterSize(os.Stdout, 1<<20)
	defer w.Flush()
	enc := json.NewEncoder(w)
	dec := json.NewDecoder(in)
	for {
		var raw json.RawMessage
		if err := dec.Decode(&raw); err != nil {
			break
		}
		if err := enc.Encode(runOne(fn, raw)); err != nil {
			fmt.Fprintln(os.Stderr, "encode:", err)
			os.Exit(3)
		}
	}
}
