//go:build verif

package main

import (
	"context"
	"crypto/sha256"
	"encoding/hex"
	"encoding/json"
	"errors"
	"fmt"
	"sort"
	"strings"
	"text/template"

	"github.com/Masterminds/sprig/v3"
	metav1 "k8s.io/apimachinery/pkg/apis/meta/v1"
	"k8s.io/apimachinery/pkg/apis/meta/v1/unstructured"
	"k8s.io/apimachinery/pkg/runtime"
	"k8s.io/apimachinery/pkg/util/validation/field"

	pkoapis "package-operator.run/apis"
	corev1alpha1 "package-operator.run/apis/core/v1alpha1"
	manifestsv1alpha1 "package-operator.run/apis/manifests/v1alpha1"
	"package-operator.run/internal/adapters"
	"package-operator.run/internal/apis/manifests"
	"package-operator.run/internal/imageprefix"
	"package-operator.run/internal/packages"
	"package-operator.run/internal/transform"
	"package-operator.run/internal/utils"
)

// render mode (C13): a package given as path->content is taken N times through the sequence of
// PackageDeployer.Deploy (packagedeploy/deployer.go:136-199, 216-243): LoadComponent, config admission,
// image resolution from the lock file, RenderPackageInstance with the deployer's validators,
// RenderObjectSetTemplateSpec. Every repetition starts from a fresh copy of the file map. On top of
// that the real Deploy is run `deploy_reps` times with a recording deployment reconciler.
type renderScenario struct {
	Files     map[string]string `json:"files"`
	Component string            `json:"component"`
	Package   struct {
		Name        string            `json:"name"`
		Namespace   string            `json:"namespace"`
		Labels      map[string]string `json:"labels"`
		Annotations map[string]string `json:"annotations"`
		Image       string            `json:"image"`
	} `json:"package"`
	Config      json.RawMessage `json:"config"`      // JSON object or absent
	Environment json.RawMessage `json:"environment"` // manifests.PackageEnvironment or absent
	Reps        int             `json:"reps"`
	DeployReps  int             `json:"deploy_reps"`
}

type renderObj struct {
	ID     string            `json:"id"` // kind/namespace/name
	Annos  map[string]string `json:"annos"`
	Labels map[string]string `json:"labels"`
	Keep   bool              `json:"keep"` // survived the CEL condition annotation
}

type renderFile struct {
	Path     string      `json:"path"`
	Excluded bool        `json:"excluded"` // dropped by a conditional path
	Objs     []renderObj `json:"objs"`
}

type renderOutObj struct {
	ID        string            `json:"id"`
	HasAnnos  bool              `json:"has_annos"` // metadata.annotations present at all
	Annos     map[string]string `json:"annos"`
	Labels    map[string]string `json:"labels"`
	Collision string            `json:"collision"`
	CondMaps  int               `json:"condmaps"`
}

type renderPhase struct {
	Name  string         `json:"name"`
	Class string         `json:"class"`
	Objs  []renderOutObj `json:"objs"`
}

// One group = all repetitions that produced exactly the same observation.
type renderGroup struct {
	Count    int           `json:"count"`
	Err      string        `json:"err"` // error class, "" if rendered
	Hash     string        `json:"hash"`
	JSONSum  string        `json:"json_sha256"`
	JSON     string        `json:"json"`
	Manifest []string      `json:"manifest_phases"`
	MName    string        `json:"manifest_name"`
	Files    []renderFile  `json:"files"`
	Phases   []renderPhase `json:"phases"`
	// pkg.Files (path -> content digest) before and after the template stage
	Before map[string]string `json:"files_before"`
	After  map[string]string `json:"files_after"`
}

type renderObs struct {
	Reps         int           `json:"reps"`
	AllIdentical bool          `json:"all_identical"` // over all stepwise and Deploy repetitions
	Outputs      int           `json:"distinct_outputs"`
	Groups       []renderGroup `json:"groups"`
	DeployReps   int           `json:"deploy_reps"`
	DeployOuts   []deployOut   `json:"deploy_outs"` // distinct (json sha, hash, rejected) of the Deploy runs
	// digest of the one render context shared by all stepwise repetitions: when built, after the last one
	CtxBefore    string `json:"ctx_before"`
	CtxAfter     string `json:"ctx_after"`
	CtxUnchanged bool   `json:"ctx_unchanged"`
}

type deployOut struct {
	Count    int    `json:"count"`
	Rejected bool   `json:"rejected"`
	Hash     string `json:"hash"`
	JSONSum  string `json:"json_sha256"`
}

var renderScheme = func() *runtime.Scheme {
	s := runtime.NewScheme()
	if err := pkoapis.AddToScheme(s); err != nil {
		panic(err)
	}
	return s
}()

func freshFiles(in map[string]string) packages.Files {
	out := packages.Files{}
	for k, v := range in {
		out[k] = []byte(v)
	}
	return out
}

func digestFiles(files packages.Files) map[string]string {
	out := map[string]string{}
	for p, c := range files {
		sum := sha256.Sum256(c)
		out[p] = hex.EncodeToString(sum[:8])
	}
	return out
}

func walkErr(err error, f func(error)) {
	if err == nil {
		return
	}
	f(err)
	switch x := err.(type) { //nolint:errorlint
	case interface{ Unwrap() []error }:
		for _, e := range x.Unwrap() {
			walkErr(e, f)
		}
	case interface{ Unwrap() error }:
		walkErr(x.Unwrap(), f)
	}
}

// renderErrClass maps an error to a class: the sorted set of violation reasons, else a coarse category.
func renderErrClass(err error) string {
	if err == nil {
		return ""
	}
	set := map[string]struct{}{}
	walkErr(err, func(e error) {
		switch v := e.(type) { //nolint:errorlint
		case packages.ViolationError:
			set["violation:"+string(v.Reason)] = struct{}{}
		case *packages.ViolationError:
			set["violation:"+string(v.Reason)] = struct{}{}
		}
	})
	if len(set) == 0 {
		msg := err.Error()
		switch {
		case strings.HasPrefix(msg, "parsing template"):
			set["template-parse"] = struct{}{}
		case strings.HasPrefix(msg, "executing template"):
			set["template-exec"] = struct{}{}
		case strings.Contains(msg, "CEL") || strings.Contains(msg, "conditionalPaths"):
			set["cel"] = struct{}{}
		case strings.HasPrefix(msg, "unmarshal config"):
			set["config-unmarshal"] = struct{}{}
		default:
			set["other"] = struct{}{}
		}
	}
	keys := make([]string, 0, len(set))
	for k := range set {
		keys = append(keys, k)
	}
	sort.Strings(keys)
	return strings.Join(keys, "|")
}

func objID(o *unstructured.Unstructured) string {
	return o.GetKind() + "/" + o.GetNamespace() + "/" + o.GetName()
}

func nz(m map[string]string) map[string]string {
	if m == nil {
		return map[string]string{}
	}
	return m
}

func (sc *renderScenario) apiPackage() *adapters.GenericPackage {
	p := &adapters.GenericPackage{Package: corev1alpha1.Package{
		ObjectMeta: metav1.ObjectMeta{
			Name: sc.Package.Name, Namespace: sc.Package.Namespace,
			Labels: sc.Package.Labels, Annotations: sc.Package.Annotations,
			UID: "verif-uid",
		},
		Spec: corev1alpha1.PackageSpec{Image: sc.Package.Image, Component: sc.Component},
	}}
	if len(sc.Config) > 0 && string(sc.Config) != "null" {
		p.Spec.Config = &runtime.RawExtension{Raw: append([]byte{}, sc.Config...)}
	}
	return p
}

func (sc *renderScenario) env() (manifests.PackageEnvironment, error) {
	env := manifests.PackageEnvironment{}
	if len(sc.Environment) > 0 && string(sc.Environment) != "null" {
		if err := json.Unmarshal(sc.Environment, &env); err != nil {
			return env, err
		}
	}
	return env, nil
}

// renderOnce follows Deploy step by step and additionally reports the objects per file the
// collection stage started from.
//
// The render context (Package metadata, admitted configuration, images, environment) is built once
// per scenario and the SAME object is handed to every repetition, as a caller that keeps its
// configuration around would do: rendering must treat it as an input only.
type renderShared struct {
	apiPkg *adapters.GenericPackage
	rctx   packages.PackageRenderContext
	built  bool
	before string // digest of rctx when it was built
}

func ctxDigest(rctx packages.PackageRenderContext) string {
	b, err := json.Marshal(rctx) // map keys are sorted
	if err != nil {
		return "unmarshalable"
	}
	sum := sha256.Sum256(b)
	return hex.EncodeToString(sum[:8])
}

// renderOnce renders with a context of its own (used by other modes as a reference render).
func renderOnce(ctx context.Context, sc *renderScenario) renderGroup {
	return renderOnceShared(ctx, sc, &renderShared{apiPkg: sc.apiPackage()})
}

func renderOnceShared(ctx context.Context, sc *renderScenario, sh *renderShared) (g renderGroup) {
	fail := func(err error) renderGroup { return renderGroup{Err: renderErrClass(err)} }
	apiPkg := sh.apiPkg
	env, err := sc.env()
	if err != nil {
		return renderGroup{Err: "scenario-environment"}
	}
	rawPkg := &packages.RawPackage{Files: freshFiles(sc.Files)}

	// deployer.go:142
	pkg, err := packages.DefaultStructuralLoader.LoadComponent(ctx, rawPkg, apiPkg.GetComponent())
	if err != nil {
		return fail(err)
	}
	if !sh.built {
		// deployer.go:157-173
		tmplCtx := apiPkg.TemplateContext()
		configuration := map[string]any{}
		if tmplCtx.Config != nil {
			if err := json.Unmarshal(tmplCtx.Config.Raw, &configuration); err != nil {
				return fail(fmt.Errorf("unmarshal config: %w", err))
			}
		}
		verrs, err := packages.AdmitPackageConfiguration(ctx, configuration, pkg.Manifest, field.NewPath("spec", "config"))
		if err != nil {
			return renderGroup{Err: "config-admission"}
		}
		if len(verrs) > 0 {
			return renderGroup{Err: "config-invalid"}
		}
		// deployer.go:174-185
		images := map[string]string{}
		if pkg.ManifestLock != nil {
			for _, pi := range pkg.ManifestLock.Spec.Images {
				resolved, err := packages.VerifImageWithDigest(imageprefix.Replace(pi.Image, nil), pi.Digest)
				if err != nil {
					return renderGroup{Err: "image-reference"}
				}
				images[pi.Name] = resolved
			}
		}
		sh.rctx = packages.PackageRenderContext{
			Package: tmplCtx.Package, Config: configuration, Images: images, Environment: env,
		}
		sh.before, sh.built = ctxDigest(sh.rctx), true
	}
	rctx := sh.rctx
	before := digestFiles(pkg.Files)
	// deployer.go:188-199
	inst, err := packages.RenderPackageInstance(ctx, pkg, rctx,
		packages.VerifNamespacedPackageValidators(), packages.DefaultObjectValidators)
	if err != nil {
		return fail(err)
	}

	// What the collection stage started from: pkg.Files now holds the template outputs, parse and
	// filter them once more (read-only on pkg.Files) to see objects per path and the filter verdicts.
	all, err := packages.RenderObjects(ctx, pkg, rctx, nil)
	if err != nil {
		return renderGroup{Err: "harness-reparse:" + renderErrClass(err)}
	}
	_, filtered, err := packages.VerifRenderObjectsWithFilterInfo(ctx, pkg, rctx, nil)
	if err != nil {
		return renderGroup{Err: "harness-refilter:" + renderErrClass(err)}
	}
	paths := make([]string, 0, len(all))
	for p := range all {
		paths = append(paths, p)
	}
	sort.Strings(paths)
	g.Files, g.Manifest = []renderFile{}, []string{}
	g.Before, g.After = before, digestFiles(pkg.Files)
	for _, p := range paths {
		rf := renderFile{Path: p, Objs: []renderObj{}}
		idxs, present := filtered[p]
		rf.Excluded = present && idxs == nil
		drop := map[int]bool{}
		for _, i := range idxs {
			drop[i] = true
		}
		for i := range all[p] {
			o := &all[p][i]
			rf.Objs = append(rf.Objs, renderObj{
				ID: objID(o), Annos: nz(o.GetAnnotations()), Labels: nz(o.GetLabels()), Keep: !drop[i],
			})
		}
		g.Files = append(g.Files, rf)
	}
	for _, ph := range pkg.Manifest.Spec.Phases {
		g.Manifest = append(g.Manifest, ph.Name)
	}
	g.MName = pkg.Manifest.Name

	// deployer.go:219-243
	labels := map[string]string{
		manifestsv1alpha1.PackageLabel:         inst.Manifest.Name,
		manifestsv1alpha1.PackageInstanceLabel: apiPkg.ClientObject().GetName(),
	}
	deploy := adapters.NewObjectDeployment(renderScheme)
	deploy.SetTemplateSpec(packages.RenderObjectSetTemplateSpec(inst))
	deploy.SetSelector(labels)
	fillOutput(&g, deploy)
	return g
}

func fillOutput(g *renderGroup, deploy adapters.ObjectDeploymentAccessor) {
	spec := deploy.GetTemplateSpec()
	b, err := json.Marshal(spec)
	if err != nil {
		g.Err = "harness-marshal"
		return
	}
	sum := sha256.Sum256(b)
	g.JSON, g.JSONSum = string(b), hex.EncodeToString(sum[:])
	// hash_reconciler.go:18-19 with a nil collision count
	g.Hash = utils.ComputeFNV32Hash(deploy.GetObjectSetTemplate(), nil)
	g.Phases = []renderPhase{}
	for _, ph := range spec.Phases {
		rp := renderPhase{Name: ph.Name, Class: ph.Class, Objs: []renderOutObj{}}
		for i := range ph.Objects {
			o := &ph.Objects[i]
			_, has, _ := unstructured.NestedFieldNoCopy(o.Object.Object, "metadata", "annotations")
			rp.Objs = append(rp.Objs, renderOutObj{
				ID: objID(&o.Object), HasAnnos: has, Annos: nz(o.Object.GetAnnotations()),
				Labels: nz(o.Object.GetLabels()), Collision: string(o.CollisionProtection),
				CondMaps: len(o.ConditionMappings),
			})
		}
		g.Phases = append(g.Phases, rp)
	}
}

func deployOnce(ctx context.Context, sc *renderScenario) deployOut {
	apiPkg := sc.apiPackage()
	env, err := sc.env()
	if err != nil {
		return deployOut{Rejected: true}
	}
	got, err := packages.VerifDeployCapture(ctx, renderScheme, apiPkg,
		&packages.RawPackage{Files: freshFiles(sc.Files)}, env, nil)
	if err != nil || got == nil {
		return deployOut{Rejected: true}
	}
	g := renderGroup{}
	fillOutput(&g, got)
	return deployOut{Hash: g.Hash, JSONSum: g.JSONSum}
}

func init() {
	register("render", func(raw json.RawMessage) (any, error) {
		var sc renderScenario
		if err := json.Unmarshal(raw, &sc); err != nil {
			return nil, err
		}
		if sc.Reps < 1 {
			sc.Reps = 1
		}
		ctx := context.Background()
		obs := renderObs{Reps: sc.Reps, DeployReps: sc.DeployReps}
		index := map[string]int{}
		outputs := map[string]struct{}{}
		sh := &renderShared{apiPkg: sc.apiPackage()}
		for i := 0; i < sc.Reps; i++ {
			g := renderOnceShared(ctx, &sc, sh)
			kb, err := json.Marshal(g)
			if err != nil {
				return nil, err
			}
			key := string(kb)
			if j, ok := index[key]; ok {
				obs.Groups[j].Count++
			} else {
				g.Count = 1
				index[key] = len(obs.Groups)
				obs.Groups = append(obs.Groups, g)
			}
			if g.Err != "" {
				outputs["rejected"] = struct{}{}
			} else {
				outputs[g.JSONSum+"/"+g.Hash] = struct{}{}
			}
		}
		dindex := map[deployOut]int{}
		for i := 0; i < sc.DeployReps; i++ {
			d := deployOnce(ctx, &sc)
			if j, ok := dindex[d]; ok {
				obs.DeployOuts[j].Count++
			} else {
				dindex[d] = len(obs.DeployOuts)
				d.Count = 1
				obs.DeployOuts = append(obs.DeployOuts, d)
			}
			if d.Rejected {
				outputs["rejected"] = struct{}{}
			} else {
				outputs[d.JSONSum+"/"+d.Hash] = struct{}{}
			}
		}
		if sh.built {
			obs.CtxBefore, obs.CtxAfter = sh.before, ctxDigest(sh.rctx)
		}
		obs.CtxUnchanged = obs.CtxBefore == obs.CtxAfter
		obs.Outputs = len(outputs)
		obs.AllIdentical = len(outputs) == 1 && len(obs.Groups) == 1
		return obs, nil
	})

	// render-funcs mode (C13 purity sweep): the names reachable from package templates.
	//  "table":  keys of the maps RenderTemplates installs (template.go:27-35): transform.SprigFuncs,
	//            transform.FileFuncs, the cel function; plus text/template's builtins
	//  "probed": every candidate name (all of sprig's table, the static table, scenario extras) for
	//            which `{{ if false }}{{ NAME }}{{ end }}` gets through the real RenderTemplates,
	//            i.e. text/template found the function at parse time
	register("render-funcs", func(raw json.RawMessage) (any, error) {
		var sc struct {
			Extra []string `json:"extra"`
		}
		if err := json.Unmarshal(raw, &sc); err != nil {
			return nil, err
		}
		table := map[string]struct{}{}
		t := template.New("pkg")
		for k := range transform.SprigFuncs(t) {
			table[k] = struct{}{}
		}
		for k := range transform.FileFuncs(map[string][]byte{}) {
			table[k] = struct{}{}
		}
		table["cel"] = struct{}{}
		builtins := []string{
			"and", "call", "html", "index", "slice", "js", "len", "not", "or", "print", "printf",
			"println", "urlquery", "eq", "ge", "gt", "le", "lt", "ne",
		}
		cand := map[string]struct{}{}
		for k := range table {
			cand[k] = struct{}{}
		}
		for k := range sprig.GenericFuncMap() {
			cand[k] = struct{}{}
		}
		for _, k := range builtins {
			cand[k] = struct{}{}
		}
		for _, k := range sc.Extra {
			cand[k] = struct{}{}
		}
		probed := []string{}
		ctx := context.Background()
		manifest := &manifests.PackageManifest{}
		for name := range cand {
			pkg := &packages.Package{
				Manifest: manifest,
				Files:    packages.Files{"probe.yaml.gotmpl": []byte("{{ if false }}{{ " + name + " }}{{ end }}")},
			}
			err := packages.RenderTemplates(ctx, pkg, packages.PackageRenderContext{})
			switch {
			case err == nil:
				probed = append(probed, name)
			case strings.Contains(err.Error(), "not defined"):
			default:
				return nil, fmt.Errorf("probe %q: %w", name, err)
			}
		}
		sort.Strings(probed)
		tbl := make([]string, 0, len(table))
		for k := range table {
			tbl = append(tbl, k)
		}
		sort.Strings(tbl)
		sort.Strings(builtins)
		if len(probed) == 0 {
			return nil, errors.New("no function probed as defined")
		}
		sprigAll := []string{}
		for k := range sprig.GenericFuncMap() {
			sprigAll = append(sprigAll, k)
		}
		sort.Strings(sprigAll)
		return map[string]any{
			"table": tbl, "probed": probed, "builtins": builtins, "sprig_all": sprigAll, "candidates": len(cand),
		}, nil
	})
}
