//go:build verif

package main

// deployment mode: runs the real (Cluster)ObjectDeployment controller's Reconcile against the recording
// server, optionally interleaved with passes of the real (Cluster)ObjectSet controller, template edits,
// pause toggles, status changes of ObjectSets and probe-relevant changes of member objects.
//
// ObjectSet names are "<deployment name>-<s>" and hash annotations are "<s>"; the scenario carries the sorted
// list of all strings <s> it uses (real template hashes for (template, collision count) pairs, obtained
// through op "hashes", plus hand-made names); a name / annotation is abstracted to 1 + its index in that
// list, so that the key order of List equals the numeric order.

import (
	"context"
	"encoding/json"
	"fmt"
	"reflect"
	"sort"
	"strconv"
	"strings"

	"github.com/go-logr/logr"
	"k8s.io/apimachinery/pkg/api/meta"
	metav1 "k8s.io/apimachinery/pkg/apis/meta/v1"
	"k8s.io/apimachinery/pkg/apis/meta/v1/unstructured"
	"k8s.io/apimachinery/pkg/runtime"
	"k8s.io/apimachinery/pkg/types"
	ctrl "sigs.k8s.io/controller-runtime"
	"sigs.k8s.io/controller-runtime/pkg/client"

	corev1alpha1 "package-operator.run/apis/core/v1alpha1"
	"package-operator.run/internal/controllers/objectdeployments"
	"package-operator.run/internal/controllers/objectsets"
	"package-operator.run/internal/utils"
)

const (
	depSelectorLabel         = "verif.example/deployment"
	pausedByParentAnnotation = "package-operator.run/paused-by-parent"
)

type aDCond [4]int64 // type, status, reason, observedGeneration

var dCondTypes = []string{"Available", "Progressing", "Paused"}
var dCondReasons = []string{"Available", "ObjectSetUnready", "Idle", "LatestRevisionPendingSuccess", "Progressing", "Paused"}

type aDep struct {
	aOID
	RV       int      `json:"rv"`
	Gen      int64    `json:"gen"`
	Paused   bool     `json:"paused"`
	Tmpl     int      `json:"tmpl"`  // digest: 1 + index in the alphabet; 0 = not in the alphabet
	Limit    *int32   `json:"limit"` // revisionHistoryLimit
	Hash     int      `json:"hash"`  // status.templateHash: 0 = empty
	CC       *int32   `json:"cc"`
	Conds    []aDCond `json:"conds"`
	Revision int64    `json:"revision"`
	CtrlOf   []int    `json:"ctrlof"`
}

type aDSet struct {
	aSet
	Hash    *int `json:"hash"`    // hash annotation
	PBP     bool `json:"pbp"`     // paused-by-parent annotation
	Sel     bool `json:"sel"`     // carries the labels the deployment selects
	Ctrl    int  `json:"ctrl"`    // uid of the controller reference, 0 = none
	CtrlSet bool `json:"ctrlset"` // status.controllerOf: [] stored explicitly
}

type depStep struct {
	Op     string  `json:"op"` // edit | pause | limit | dep | set | stat | member | race
	With   int     `json:"with,omitempty"` // race: the ObjectSet whose controller pass runs inside the pass of Name
	At     int     `json:"at,omitempty"`   // race: ... right before the At-th (0-based) non-dry-run write request of that pass
	Tmpl   int     `json:"tmpl,omitempty"`
	V      bool    `json:"v,omitempty"`
	Limit  *int32  `json:"limit,omitempty"`
	Stale  bool    `json:"stale,omitempty"`
	Fault  []any   `json:"fault,omitempty"` // [n, "err"|"lost"]
	Name   int     `json:"name,omitempty"`
	Force  bool    `json:"force,omitempty"`
	Conds  []aCond `json:"conds,omitempty"`
	CtrlOf []aKey  `json:"ctrlof,omitempty"`
	Key    *aKey   `json:"key,omitempty"`
	Avail  int     `json:"avail,omitempty"`
}

type depScenario struct {
	Op       string     `json:"op,omitempty"` // "" (run) | hashes
	Alphabet [][]aPhase `json:"alphabet"`     // templates; the digest of template i is i+1
	MaxCC    int        `json:"max_cc,omitempty"`
	Names    []string   `json:"names"`
	Dep      aDep       `json:"dep"`
	Sets     []aDSet    `json:"sets"`
	Foreign  []aDSet    `json:"foreign,omitempty"` // like-labelled ObjectSets of another namespace (ns2): never this deployment's
	Store    []aObj     `json:"store"`
	Slices   []aDSlice  `json:"slices,omitempty"` // ObjectSlices of the deployment's namespace
	NextRV   int64      `json:"next_rv"`
	NextUID  int64      `json:"next_uid"`
	Steps    []depStep  `json:"steps"`
}

// aDSlice: an ObjectSlice "sl<name>". A phase references slices through trailing pseudo objects of kind sliceRefGK
// (name = number of the slice), as coq/theories/Deployment.v encodes them.
type aDSlice struct {
	Name    int     `json:"name"`
	Objects []aPObj `json:"objects"`
}

const sliceRefGK = 9

// splitPhase: the real objects and the slice names of a phase of the scenario language.
func splitPhase(ph aPhase) (objs []aPObj, slices []string) {
	for _, o := range ph.Objects {
		if o.GK == sliceRefGK {
			slices = append(slices, "sl"+strconv.Itoa(o.Name))
		} else {
			objs = append(objs, o)
		}
	}
	return objs, slices
}

func refPObj(name string) aPObj { return aPObj{GK: sliceRefGK, Name: num("sl", name)} }

type depEvent struct {
	Kind   string   `json:"kind"` // create | update | delete | status | other:...
	Name   int      `json:"name,omitempty"`
	Res    string   `json:"res"` // ok | exists | notfound | err | lost | <error class>
	Phases []aPhase `json:"phases,omitempty"`
	Prev   []int    `json:"prev,omitempty"`
	Hash   int      `json:"hash,omitempty"`
	Life   int      `json:"life,omitempty"`
	PBP    bool     `json:"pbp,omitempty"`
	Sel    bool     `json:"sel,omitempty"`
	Ctrl   int      `json:"ctrl,omitempty"`
	Status *aDep    `json:"status,omitempty"`
	OtherNS bool    `json:"otherns,omitempty"` // the request names an ObjectSet outside the deployment's namespace
}

type depStepObs struct {
	Res      string     `json:"res"` // done | error | - (not a controller pass)
	ErrMsg   string     `json:"errmsg,omitempty"`
	Events   []depEvent `json:"events"`
	Requests []string   `json:"requests,omitempty"`
	Dep      aDep       `json:"dep"`
	Sets     []aDSet    `json:"sets"`
	Foreign  []aDSet    `json:"foreign,omitempty"`
	Post     []aObj     `json:"post"`
	NextRV   int64      `json:"next_rv"`
	NextUID  int64      `json:"next_uid"`
}

type depObs struct {
	Hashes [][3]any     `json:"hashes,omitempty"` // op hashes: [template index, cc|null, hash string]
	Steps  []depStepObs `json:"steps"`
}

// depCtx: naming and concretisation context of one scenario.
type depCtx struct {
	sc      *depScenario
	scheme  *runtime.Scheme
	cluster bool
	depName string
	ns      string
	rank    map[string]int
}

func (c *depCtx) nameOf(n int) string {
	if n >= 1 && n <= len(c.sc.Names) {
		return c.depName + "-" + c.sc.Names[n-1]
	}
	return c.depName + "-unknown" + strconv.Itoa(n)
}

func (c *depCtx) strOf(n int) string {
	if n >= 1 && n <= len(c.sc.Names) {
		return c.sc.Names[n-1]
	}
	return "unknown" + strconv.Itoa(n)
}

func (c *depCtx) rankOfStr(s string) int {
	if s == "" {
		return 0
	}
	if r, ok := c.rank[s]; ok {
		return r
	}
	return -1
}

func (c *depCtx) rankOfName(name string) int {
	if !strings.HasPrefix(name, c.depName+"-") {
		return -1
	}
	return c.rankOfStr(strings.TrimPrefix(name, c.depName+"-"))
}

func (c *depCtx) selectorLabels() map[string]string { return map[string]string{depSelectorLabel: c.depName} }

func (c *depCtx) template(i int) corev1alpha1.ObjectSetTemplate {
	t := corev1alpha1.ObjectSetTemplate{Metadata: metav1.ObjectMeta{Labels: c.selectorLabels()}}
	if i < 0 || i >= len(c.sc.Alphabet) {
		return t
	}
	for _, ph := range c.sc.Alphabet[i] {
		p := corev1alpha1.ObjectSetTemplatePhase{Name: "p" + strconv.Itoa(ph.Name)}
		if ph.Class {
			p.Class = "default"
		}
		objs, slices := splitPhase(ph)
		for _, o := range objs {
			p.Objects = append(p.Objects, o.concrete())
		}
		p.Slices = slices
		t.Spec.Phases = append(t.Spec.Phases, p)
	}
	t.Spec.AvailabilityProbes = scenarioProbes()
	return t
}

func (c *depCtx) depKey() storeKey {
	kind := "ObjectDeployment"
	if c.cluster {
		kind = "ClusterObjectDeployment"
	}
	return storeKey{corev1alpha1.GroupVersion.Group, kind, c.ns, c.depName}
}

func (c *depCtx) setKey(n int) storeKey {
	kind := "ObjectSet"
	if c.cluster {
		kind = "ClusterObjectSet"
	}
	return storeKey{corev1alpha1.GroupVersion.Group, kind, c.ns, c.nameOf(n)}
}

func dCondsConcrete(cs []aDCond) []metav1.Condition {
	var out []metav1.Condition
	for _, cd := range cs {
		out = append(out, metav1.Condition{Type: dCondTypes[cd[0]], Status: condStatus[cd[1]], Reason: dCondReasons[cd[2]],
			ObservedGeneration: cd[3], LastTransitionTime: metav1.Unix(1600000300, 0)})
	}
	return out
}

func (c *depCtx) concreteDep(a aDep) (map[string]any, error) {
	md := metav1.ObjectMeta{Name: c.depName, Namespace: c.ns, UID: types.UID("u" + strconv.Itoa(a.UID)),
		ResourceVersion: strconv.Itoa(a.RV), Generation: a.Gen, CreationTimestamp: metav1.Unix(1600000000, 0)}
	spec := corev1alpha1.ObjectDeploymentSpec{RevisionHistoryLimit: a.Limit, Paused: a.Paused,
		Selector: metav1.LabelSelector{MatchLabels: c.selectorLabels()}, Template: c.template(a.Tmpl - 1)}
	st := corev1alpha1.ObjectDeploymentStatus{Conditions: dCondsConcrete(a.Conds), CollisionCount: a.CC, Revision: a.Revision}
	if a.Hash != 0 {
		st.TemplateHash = c.strOf(a.Hash)
	}
	for _, n := range a.CtrlOf {
		kind := "ObjectSet"
		if c.cluster {
			kind = "ClusterObjectSet"
		}
		st.ControllerOf = append(st.ControllerOf, corev1alpha1.ControlledObjectReference{Kind: kind, Group: corev1alpha1.GroupVersion.Group, Name: c.nameOf(n), Namespace: c.ns})
	}
	var obj runtime.Object
	kind := "ObjectDeployment"
	if c.cluster {
		kind = "ClusterObjectDeployment"
		obj = &corev1alpha1.ClusterObjectDeployment{ObjectMeta: md, Spec: corev1alpha1.ClusterObjectDeploymentSpec(spec),
			Status: corev1alpha1.ClusterObjectDeploymentStatus(st)}
	} else {
		obj = &corev1alpha1.ObjectDeployment{ObjectMeta: md, Spec: spec, Status: st}
	}
	m, err := runtime.DefaultUnstructuredConverter.ToUnstructured(obj)
	if err != nil {
		return nil, err
	}
	m["apiVersion"] = corev1alpha1.GroupVersion.String()
	m["kind"] = kind
	return m, nil
}

func (c *depCtx) abstractDep(m map[string]any) (aDep, error) {
	a := aDep{Conds: []aDCond{}, CtrlOf: []int{}}
	var md metav1.ObjectMeta
	var spec corev1alpha1.ObjectDeploymentSpec
	var st corev1alpha1.ObjectDeploymentStatus
	if c.cluster {
		var o corev1alpha1.ClusterObjectDeployment
		if err := runtime.DefaultUnstructuredConverter.FromUnstructured(m, &o); err != nil {
			return a, err
		}
		md, spec, st = o.ObjectMeta, corev1alpha1.ObjectDeploymentSpec(o.Spec), corev1alpha1.ObjectDeploymentStatus(o.Status)
		a.Kind = 6
	} else {
		var o corev1alpha1.ObjectDeployment
		if err := runtime.DefaultUnstructuredConverter.FromUnstructured(m, &o); err != nil {
			return a, err
		}
		md, spec, st = o.ObjectMeta, o.Spec, o.Status
		a.Kind = 5
	}
	a.NS, a.Name, a.UID = num("ns", md.Namespace), num("n", md.Name), num("u", string(md.UID))
	a.RV, _ = strconv.Atoi(md.ResourceVersion)
	a.Gen = md.Generation
	a.Paused = spec.Paused
	a.Limit = spec.RevisionHistoryLimit
	for i := range c.sc.Alphabet {
		if reflect.DeepEqual(normalizeAny(c.template(i)), normalizeAny(spec.Template)) {
			a.Tmpl = i + 1
			break
		}
	}
	a.Hash = c.rankOfStr(st.TemplateHash)
	a.CC = st.CollisionCount
	a.Revision = st.Revision
	for _, cd := range st.Conditions {
		s := int64(2)
		switch cd.Status {
		case metav1.ConditionTrue:
			s = 0
		case metav1.ConditionFalse:
			s = 1
		}
		a.Conds = append(a.Conds, aDCond{idx(dCondTypes, cd.Type), s, idx(dCondReasons, cd.Reason), cd.ObservedGeneration})
	}
	for _, r := range st.ControllerOf {
		a.CtrlOf = append(a.CtrlOf, c.rankOfName(r.Name))
	}
	return a, nil
}

func normalizeAny(v any) any {
	b, _ := json.Marshal(v)
	var out any
	_ = json.Unmarshal(b, &out)
	return prune(out)
}

func (c *depCtx) concreteSet(a aDSet) (map[string]any, error) {
	base := a.aSet
	base.Prev = nil
	sliceNames := make([][]string, len(a.Phases))
	base.Phases = nil
	for i, ph := range a.Phases {
		objs, sl := splitPhase(ph)
		sliceNames[i] = sl
		base.Phases = append(base.Phases, aPhase{Name: ph.Name, Class: ph.Class, Objects: objs})
	}
	m, err := base.concrete(c.scheme)
	if err != nil {
		return nil, err
	}
	if phs, ok, _ := unstructured.NestedSlice(m, "spec", "phases"); ok {
		for i := range phs {
			if pm, ok := phs[i].(map[string]any); ok && i < len(sliceNames) && len(sliceNames[i]) > 0 {
				var sl []any
				for _, n := range sliceNames[i] {
					sl = append(sl, n)
				}
				pm["slices"] = sl
			}
		}
		_ = unstructured.SetNestedSlice(m, phs, "spec", "phases")
	}
	u := &unstructured.Unstructured{Object: m}
	u.SetName(c.nameOf(a.Name))
	u.SetCreationTimestamp(metav1.Unix(1600000000+int64(a.Name), 0))
	if len(a.Prev) > 0 {
		prev := []any{}
		for _, p := range a.Prev {
			prev = append(prev, map[string]any{"name": c.nameOf(p)})
		}
		_ = unstructured.SetNestedSlice(m, prev, "spec", "previous")
	}
	ann := map[string]string{}
	if a.Hash != nil {
		ann[objectdeployments.ObjectSetHashAnnotation] = c.strOf(*a.Hash)
	}
	if a.PBP {
		ann[pausedByParentAnnotation] = "true"
	}
	if len(ann) > 0 {
		u.SetAnnotations(ann)
	}
	lbl := u.GetLabels()
	if lbl == nil {
		lbl = map[string]string{}
	}
	if a.Sel {
		for k, v := range c.selectorLabels() {
			lbl[k] = v
		}
		lbl[objectdeployments.ObjectSetObjectDeploymentLabel] = c.depName
	}
	if len(lbl) > 0 {
		u.SetLabels(lbl)
	}
	if a.Ctrl != 0 {
		t := true
		kind := "ObjectDeployment"
		if c.cluster {
			kind = "ClusterObjectDeployment"
		}
		owner := c.depName
		if a.Ctrl != c.sc.Dep.UID {
			owner = "other" + strconv.Itoa(a.Ctrl)
		}
		u.SetOwnerReferences([]metav1.OwnerReference{{APIVersion: corev1alpha1.GroupVersion.String(), Kind: kind, Name: owner,
			UID: types.UID("u" + strconv.Itoa(a.Ctrl)), Controller: &t, BlockOwnerDeletion: &t}})
	}
	if a.CtrlSet && len(a.CtrlOf) == 0 {
		_ = unstructured.SetNestedSlice(m, []any{}, "status", "controllerOf")
	}
	return m, nil
}

func (c *depCtx) abstractDSet(m map[string]any) (aDSet, error) {
	s, err := abstractSet(m)
	if err != nil {
		return aDSet{aSet: s}, err
	}
	u := &unstructured.Unstructured{Object: m}
	s.Name = c.rankOfName(u.GetName())
	if phs, ok, _ := unstructured.NestedSlice(m, "spec", "phases"); ok {
		for i := range phs {
			pm, ok := phs[i].(map[string]any)
			if !ok || i >= len(s.Phases) {
				continue
			}
			sl, _, _ := unstructured.NestedStringSlice(pm, "slices")
			for _, n := range sl {
				s.Phases[i].Objects = append(s.Phases[i].Objects, refPObj(n))
			}
		}
	}
	s.Prev = []int{}
	prev, _, _ := unstructured.NestedSlice(m, "spec", "previous")
	for _, p := range prev {
		if pm, ok := p.(map[string]any); ok {
			n, _ := pm["name"].(string)
			s.Prev = append(s.Prev, c.rankOfName(n))
		}
	}
	a := aDSet{aSet: s}
	ann := u.GetAnnotations()
	if h, ok := ann[objectdeployments.ObjectSetHashAnnotation]; ok {
		r := c.rankOfStr(h)
		a.Hash = &r
	}
	a.PBP = ann[pausedByParentAnnotation] == "true"
	a.Sel = true
	for k, v := range c.selectorLabels() {
		if u.GetLabels()[k] != v {
			a.Sel = false
		}
	}
	if ref := metav1.GetControllerOf(u); ref != nil {
		a.Ctrl = num("u", string(ref.UID))
	}
	if co, ok, _ := unstructured.NestedSlice(m, "status", "controllerOf"); ok && len(co) == 0 {
		// present although empty: read back as a non-nil empty slice
		var typed corev1alpha1.ObjectSetStatus
		if st, ok := m["status"].(map[string]any); ok {
			_ = runtime.DefaultUnstructuredConverter.FromUnstructured(st, &typed)
		}
		a.CtrlSet = typed.ControllerOf != nil
	}
	return a, nil
}

func (c *depCtx) abstractDSets(s *Store) []aDSet { return c.abstractDSetsNS(s, false) }

func (c *depCtx) abstractDSetsNS(s *Store, foreign bool) []aDSet {
	out := []aDSet{}
	for _, k := range s.RawKeys() {
		if k.Group != corev1alpha1.GroupVersion.Group || (k.Kind != "ObjectSet" && k.Kind != "ClusterObjectSet") {
			continue
		}
		if (k.Namespace != c.ns) != foreign {
			continue
		}
		a, err := c.abstractDSet(s.RawGet(k))
		if err != nil {
			a.Kind = -1
		}
		out = append(out, a)
	}
	sort.SliceStable(out, func(i, j int) bool { return out[i].Name < out[j].Name })
	return out
}

// recClient wraps the recording server for the deployment controller: remembers what Create / Update sent
// (by request index) and can leave one ObjectSet out of List ("the create is not yet visible in the cache").
type recClient struct {
	*Store
	sent map[int]map[string]any
	hide string
}

func (c *recClient) remember(obj client.Object) {
	if u, err := c.Store.toUnstructured(obj); err == nil {
		c.sent[c.Store.nextReqIdx()] = u.Object
	}
}

func (c *recClient) Create(ctx context.Context, obj client.Object, opts ...client.CreateOption) error {
	c.remember(obj)
	return c.Store.Create(ctx, obj, opts...)
}

func (c *recClient) Update(ctx context.Context, obj client.Object, opts ...client.UpdateOption) error {
	c.remember(obj)
	return c.Store.Update(ctx, obj, opts...)
}

func (c *recClient) List(ctx context.Context, list client.ObjectList, opts ...client.ListOption) error {
	if err := c.Store.List(ctx, list, opts...); err != nil {
		return err
	}
	if c.hide == "" {
		return nil
	}
	items, err := meta.ExtractList(list)
	if err != nil {
		return err
	}
	kept := items[:0]
	for _, it := range items {
		if acc, err := meta.Accessor(it); err == nil && acc.GetName() == c.hide {
			continue
		}
		kept = append(kept, it)
	}
	return meta.SetList(list, kept)
}

func resOf(r *Request) string {
	switch {
	case r.Fault == "err":
		return "err"
	case r.Fault == "lost":
		return "lost"
	case r.Err == "":
		return "ok"
	case r.Err == "AlreadyExists":
		return "exists"
	case r.Err == "NotFound":
		return "notfound"
	default:
		return r.Err
	}
}

func (c *depCtx) eventsFromLog(rc *recClient, log []*Request) []depEvent {
	out := []depEvent{}
	isSet := func(k storeKey) bool {
		return k.Group == corev1alpha1.GroupVersion.Group && (k.Kind == "ObjectSet" || k.Kind == "ClusterObjectSet")
	}
	for _, r := range log {
		if r.Verb == "get" || r.Verb == "list" {
			continue
		}
		switch {
		case isSet(r.Key) && (r.Verb == "create" || r.Verb == "update"):
			e := depEvent{Kind: r.Verb, Name: c.rankOfName(r.Key.Name), Res: resOf(r), OtherNS: r.Key.Namespace != c.ns}
			sent := rc.sent[r.Idx]
			if sent == nil {
				e.Kind = "other:" + r.Verb + " without sent object"
				out = append(out, e)
				continue
			}
			a, err := c.abstractDSet(sent)
			if err != nil {
				e.Kind = "other:" + r.Verb + " unabstractable"
				out = append(out, e)
				continue
			}
			e.Life, e.PBP = a.Life, a.PBP
			if r.Verb == "create" {
				e.Phases, e.Prev, e.Sel, e.Ctrl = a.Phases, a.Prev, a.Sel, a.Ctrl
				if a.Hash != nil {
					e.Hash = *a.Hash
				}
			}
			out = append(out, e)
		case isSet(r.Key) && r.Verb == "delete":
			out = append(out, depEvent{Kind: "delete", Name: c.rankOfName(r.Key.Name), Res: resOf(r), OtherNS: r.Key.Namespace != c.ns})
		case r.Key == c.depKey() && r.Verb == "status-update":
			e := depEvent{Kind: "status", Res: resOf(r)}
			if r.Sent != nil {
				if a, err := c.abstractDep(r.Sent); err == nil {
					e.Status = &a
				}
			}
			out = append(out, e)
		default:
			out = append(out, depEvent{Kind: "other:" + r.Verb + " " + r.Key.String(), Res: resOf(r)})
		}
	}
	return out
}

func (c *depCtx) snapshot(s *Store, o *depStepObs) {
	d, err := c.abstractDep(s.RawGet(c.depKey()))
	if err != nil {
		d.Kind = -1
	}
	o.Dep = d
	o.Sets = c.abstractDSets(s)
	if f := c.abstractDSetsNS(s, true); len(f) > 0 {
		o.Foreign = f
	}
	o.Post = c.abstractStore(s)
	o.NextRV, o.NextUID = s.Counters()
}

// abstractStore: as the shared abstractStore, with owner references to ObjectSets named through the name table.
func (c *depCtx) abstractStore(s *Store) []aObj {
	out := abstractStore(s)
	for i := range out {
		gi := gkTable[out[i].GK]
		g := strings.TrimSuffix(strings.TrimSuffix(gi.apiVersion, "v1"), "/")
		m := s.RawGet(storeKey{g, gi.kind, nsName(out[i].NS), "n" + strconv.Itoa(out[i].Name)})
		if m == nil {
			continue
		}
		refs := (&unstructured.Unstructured{Object: m}).GetOwnerReferences()
		for j := range out[i].Owners {
			if j < len(refs) && (out[i].Owners[j][0] == 1 || out[i].Owners[j][0] == 2) {
				out[i].Owners[j][1] = c.rankOfName(refs[j].Name)
			}
		}
	}
	return out
}

// concreteObj: member object whose owner references to ObjectSets (kinds 1, 2) carry numbers of the name table.
func (c *depCtx) concreteObj(a aObj) map[string]any {
	m := a.concrete()
	refs, _, _ := unstructured.NestedSlice(m, "metadata", "ownerReferences")
	for j, r := range refs {
		if rm, ok := r.(map[string]any); ok && j < len(a.Owners) && (a.Owners[j][0] == 1 || a.Owners[j][0] == 2) {
			rm["name"] = c.nameOf(a.Owners[j][1])
		}
	}
	if len(refs) > 0 {
		_ = unstructured.SetNestedSlice(m, refs, "metadata", "ownerReferences")
	}
	return m
}

func init() {
	register("deployment", func(raw json.RawMessage) (any, error) {
		var sc depScenario
		if err := json.Unmarshal(raw, &sc); err != nil {
			return nil, err
		}
		scheme := newScheme()
		c := &depCtx{sc: &sc, scheme: scheme, cluster: sc.Dep.Kind == 6, depName: "n" + strconv.Itoa(sc.Dep.Name), ns: nsName(sc.Dep.NS),
			rank: map[string]int{}}
		for i, n := range sc.Names {
			c.rank[n] = i + 1
		}
		if sc.Op == "hashes" {
			obs := depObs{Steps: []depStepObs{}}
			for i := range sc.Alphabet {
				t := c.template(i)
				obs.Hashes = append(obs.Hashes, [3]any{i, nil, utils.ComputeFNV32Hash(t, nil)})
				for cc := int32(0); cc <= int32(sc.MaxCC); cc++ {
					v := cc
					obs.Hashes = append(obs.Hashes, [3]any{i, cc, utils.ComputeFNV32Hash(t, &v)})
				}
			}
			return obs, nil
		}
		s := NewStore(scheme, newMapper())
		for _, o := range sc.Store {
			s.RawPut(c.concreteObj(o), false)
		}
		for _, a := range sc.Sets {
			a.Kind = 1
			if c.cluster {
				a.Kind = 2
			}
			a.NS = sc.Dep.NS
			m, err := c.concreteSet(a)
			if err != nil {
				return nil, err
			}
			s.RawPut(m, false)
		}
		for _, a := range sc.Foreign {
			a.Kind = 1
			a.NS = 2
			m, err := c.concreteSet(a)
			if err != nil {
				return nil, err
			}
			s.RawPut(m, false)
		}
		for _, sl := range sc.Slices {
			kind := "ObjectSlice"
			if c.cluster {
				kind = "ClusterObjectSlice"
			}
			var objs []corev1alpha1.ObjectSetObject
			for _, o := range sl.Objects {
				objs = append(objs, o.concrete())
			}
			md := metav1.ObjectMeta{Name: "sl" + strconv.Itoa(sl.Name), Namespace: c.ns, UID: types.UID("u" + strconv.Itoa(9000+sl.Name)),
				ResourceVersion: "4", Generation: 1, CreationTimestamp: metav1.Unix(1600000000, 0)}
			var obj runtime.Object = &corev1alpha1.ObjectSlice{ObjectMeta: md, Objects: objs}
			if c.cluster {
				obj = &corev1alpha1.ClusterObjectSlice{ObjectMeta: md, Objects: objs}
			}
			sm, err := runtime.DefaultUnstructuredConverter.ToUnstructured(obj)
			if err != nil {
				return nil, err
			}
			sm["apiVersion"] = corev1alpha1.GroupVersion.String()
			sm["kind"] = kind
			s.RawPut(sm, false)
		}
		dm, err := c.concreteDep(sc.Dep)
		if err != nil {
			return nil, err
		}
		s.RawPut(dm, false)
		s.SetCounters(sc.NextRV, sc.NextUID)
		ctx := context.Background()
		rc := &recClient{Store: s, sent: map[int]map[string]any{}}
		var dc *objectdeployments.GenericObjectDeploymentController
		if c.cluster {
			dc = objectdeployments.NewClusterObjectDeploymentController(rc, logr.Discard(), scheme)
		} else {
			dc = objectdeployments.NewObjectDeploymentController(rc, logr.Discard(), scheme)
		}
		fresh := "" // name of the ObjectSet created by the latest deployment pass
		obs := depObs{Steps: []depStepObs{}}
		for _, st := range sc.Steps {
			so := depStepObs{Res: "-", Events: []depEvent{}}
			s.ResetPass()
			switch st.Op {
			case "edit", "pause", "limit":
				m := s.RawGet(c.depKey())
				u := &unstructured.Unstructured{Object: m}
				switch st.Op {
				case "edit":
					tm, err := runtime.DefaultUnstructuredConverter.ToUnstructured(ptrTo(c.template(st.Tmpl - 1)))
					if err != nil {
						return nil, err
					}
					_ = unstructured.SetNestedMap(m, tm, "spec", "template")
				case "pause":
					if st.V {
						_ = unstructured.SetNestedField(m, true, "spec", "paused")
					} else {
						unstructured.RemoveNestedField(m, "spec", "paused")
					}
				case "limit":
					if st.Limit != nil {
						_ = unstructured.SetNestedField(m, int64(*st.Limit), "spec", "revisionHistoryLimit")
					} else {
						unstructured.RemoveNestedField(m, "spec", "revisionHistoryLimit")
					}
				}
				if err := s.Update(ctx, u); err != nil {
					return nil, fmt.Errorf("step %s: %w", st.Op, err)
				}
			case "dep":
				rc.hide = ""
				if st.Stale {
					rc.hide = fresh
				}
				base := s.nextReqIdx()
				if len(st.Fault) == 2 {
					n, _ := st.Fault[0].(float64)
					k, _ := st.Fault[1].(string)
					s.Faults[base+int(n)] = k
				}
				_, err := dc.Reconcile(ctx, ctrl.Request{NamespacedName: types.NamespacedName{Namespace: c.ns, Name: c.depName}})
				for k := range s.Faults {
					delete(s.Faults, k)
				}
				so.Res = "done"
				if err != nil {
					so.Res = "error"
					so.ErrMsg = err.Error()
				}
				so.Events = c.eventsFromLog(rc, s.Log)
				so.Requests = requestSummary(s.Log)
				fresh = ""
				for _, r := range s.Log {
					if r.Verb == "create" && (r.Err == "" || r.Fault == "lost") {
						fresh = r.Key.Name
					}
				}
			case "set":
				cache := &fakeCache{s: s}
				var oc *objectsets.GenericObjectSetController
				if c.cluster {
					oc = objectsets.NewClusterObjectSetController(s, logr.Discard(), scheme, cache, s, nil, s.RESTMapper())
				} else {
					oc = objectsets.NewObjectSetController(s, logr.Discard(), scheme, cache, s, nil, s.RESTMapper())
				}
				k := c.setKey(st.Name)
				res, err := oc.Reconcile(ctx, ctrl.Request{NamespacedName: types.NamespacedName{Namespace: k.Namespace, Name: k.Name}})
				switch {
				case err != nil:
					so.Res = "error"
					so.ErrMsg = err.Error()
				case res.RequeueAfter > 0 || res.Requeue:
					so.Res = "requeue"
				default:
					so.Res = "done"
				}
				so.Requests = requestSummary(s.Log)
			case "race":
				// a pass of the ObjectSet controller for Name; between its reads and its At-th write the controller of With runs a full pass
				mk := func() *objectsets.GenericObjectSetController {
					cache := &fakeCache{s: s}
					if c.cluster {
						return objectsets.NewClusterObjectSetController(s, logr.Discard(), scheme, cache, s, nil, s.RESTMapper())
					}
					return objectsets.NewObjectSetController(s, logr.Discard(), scheme, cache, s, nil, s.RESTMapper())
				}
				outer, inner := mk(), mk()
				ki := c.setKey(st.With)
				fired := false
				s.WriteHook = func(n int) {
					if fired || n != st.At {
						return
					}
					fired = true
					hook := s.WriteHook
					s.WriteHook = nil
					_, _ = inner.Reconcile(ctx, ctrl.Request{NamespacedName: types.NamespacedName{Namespace: ki.Namespace, Name: ki.Name}})
					s.WriteHook = hook
				}
				k := c.setKey(st.Name)
				res, err := outer.Reconcile(ctx, ctrl.Request{NamespacedName: types.NamespacedName{Namespace: k.Namespace, Name: k.Name}})
				s.WriteHook = nil
				switch {
				case err != nil:
					so.Res = "error"
					so.ErrMsg = err.Error()
				case res.RequeueAfter > 0 || res.Requeue:
					so.Res = "requeue"
				default:
					so.Res = "done"
				}
				if !fired {
					so.ErrMsg += " (race hook not reached)"
				}
				so.Requests = requestSummary(s.Log)
			case "stat":
				k := c.setKey(st.Name)
				m := s.RawGet(k)
				if m == nil {
					break
				}
				tmp := aSet{Conds: st.Conds, CtrlOf: st.CtrlOf}
				_, _, status := tmp.spec()
				var cm []any
				for _, cd := range status.Conditions {
					x, _ := runtime.DefaultUnstructuredConverter.ToUnstructured(&cd)
					cm = append(cm, x)
				}
				var com []any
				for _, r := range status.ControllerOf {
					x, _ := runtime.DefaultUnstructuredConverter.ToUnstructured(&r)
					com = append(com, x)
				}
				stm, _ := m["status"].(map[string]any)
				if stm == nil {
					stm = map[string]any{}
				}
				if len(cm) > 0 {
					stm["conditions"] = cm
				} else {
					delete(stm, "conditions")
				}
				if len(com) > 0 {
					stm["controllerOf"] = com
				} else {
					delete(stm, "controllerOf")
				}
				m["status"] = stm
				if err := s.Status().Update(ctx, &unstructured.Unstructured{Object: m}); err != nil {
					return nil, fmt.Errorf("step stat: %w", err)
				}
			case "member":
				gi := gkTable[st.Key.GK]
				g := strings.TrimSuffix(strings.TrimSuffix(gi.apiVersion, "v1"), "/")
				k := storeKey{g, gi.kind, nsName(st.Key.NS), "n" + strconv.Itoa(st.Key.Name)}
				m := s.RawGet(k)
				if m == nil {
					break
				}
				stm, _ := m["status"].(map[string]any)
				if stm == nil {
					stm = map[string]any{}
				}
				switch st.Avail {
				case 0:
					delete(stm, "conditions")
				case 1:
					stm["conditions"] = []any{map[string]any{"type": "Available", "status": "True"}}
				default:
					stm["conditions"] = []any{map[string]any{"type": "Available", "status": "False"}}
				}
				if len(stm) > 0 {
					m["status"] = stm
				} else {
					delete(m, "status")
				}
				if err := s.Update(ctx, &unstructured.Unstructured{Object: m}); err != nil {
					return nil, fmt.Errorf("step member: %w", err)
				}
			default:
				return nil, fmt.Errorf("unknown step %q", st.Op)
			}
			c.snapshot(s, &so)
			obs.Steps = append(obs.Steps, so)
		}
		if len(sc.Steps) == 0 {
			so := depStepObs{Res: "-", Events: []depEvent{}}
			c.snapshot(s, &so)
			obs.Steps = append(obs.Steps, so)
		}
		return obs, nil
	})
}

func ptrTo[T any](v T) *T { return &v }
