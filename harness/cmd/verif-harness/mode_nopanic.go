//go:build verif

package main

// nopanic mode (C19): one scenario = one input to one sub-target of the real code. The observation
// is only the outcome class (ok | err + coarse error class); a panic is turned into {"panic","stack"}
// by main.go's recover. Runaway recursion / time is caught by the driver's watchdog (process limits);
// the stack limit is lowered here so that unbounded recursion dies quickly and recognisably.
//
//	pipeline             files -> LoadComponent -> config admission -> RenderPackageInstance (deployer's
//	                     validators) -> RenderObjectSetTemplateSpec; with "deploy": also the real Deploy
//	oci                  layer bytes -> go-containerregistry image -> packages.FromOCI
//	probe                ObjectSetProbe specs x object -> internal/probing.Parse -> Probe
//	mapconditions        controllers.mapConditions on an arbitrary object
//	template-conditions  objecttemplate.updateStatusConditionsFromOwnedObject on an arbitrary object
//	template-source      objecttemplate.copySourceItems
//	template-reconcile   the real ObjectTemplate controller Reconcile against the in-memory API server
//	ownerannotation      real PhaseReconciler with the annotation owner strategy (multi-cluster
//	                     ObjectSetPhase wiring) and a given owners annotation on the cluster / desired object
//	cli                  internal/cmd Tree.RenderPackage (from a temp dir) and Validate.ValidatePackage
//	controller           the real NewPackageController / NewClusterPackageController (hence the real
//	                     NewPackageDeployer / NewClusterPackageDeployer wiring of the manager) with a scripted
//	                     image puller: Reconcile of a (Cluster)Package next to 0..n other packages of the same manifest
//	include              transform.SprigFuncs (the function table of package templates and ObjectTemplates) on a
//	                     template whose helpers call the harness functions enter / leave: the observation carries
//	                     the deepest nesting of helper bodies; a nesting beyond the scenario's bound aborts the render

import (
	"bytes"
	"context"
	"encoding/base64"
	"encoding/json"
	"errors"
	"fmt"
	"io"
	"os"
	"path/filepath"
	"runtime/debug"
	"strings"
	"sync"
	"text/template"
	"time"

	"github.com/go-logr/logr"
	"github.com/google/go-containerregistry/pkg/crane"
	containerregistrypkgv1 "github.com/google/go-containerregistry/pkg/v1"
	"github.com/google/go-containerregistry/pkg/v1/empty"
	ggcrmutate "github.com/google/go-containerregistry/pkg/v1/mutate"
	"github.com/google/go-containerregistry/pkg/v1/static"
	"github.com/google/go-containerregistry/pkg/v1/tarball"
	ggcrtypes "github.com/google/go-containerregistry/pkg/v1/types"
	metav1 "k8s.io/apimachinery/pkg/apis/meta/v1"
	"k8s.io/apimachinery/pkg/apis/meta/v1/unstructured"
	"k8s.io/apimachinery/pkg/runtime"
	"k8s.io/apimachinery/pkg/runtime/schema"
	"k8s.io/apimachinery/pkg/types"
	"k8s.io/apimachinery/pkg/util/validation/field"
	"k8s.io/client-go/util/workqueue"
	"pkg.package-operator.run/boxcutter/ownerhandling"
	ctrl "sigs.k8s.io/controller-runtime"
	"sigs.k8s.io/controller-runtime/pkg/client"
	"sigs.k8s.io/controller-runtime/pkg/event"
	"sigs.k8s.io/controller-runtime/pkg/handler"
	"sigs.k8s.io/controller-runtime/pkg/predicate"
	"sigs.k8s.io/controller-runtime/pkg/reconcile"
	"sigs.k8s.io/controller-runtime/pkg/source"

	corev1alpha1 "package-operator.run/apis/core/v1alpha1"
	"package-operator.run/internal/adapters"
	"package-operator.run/internal/apis/manifests"
	"package-operator.run/internal/cmd"
	"package-operator.run/internal/constants"
	"package-operator.run/internal/controllers"
	"package-operator.run/internal/controllers/objecttemplate"
	pkgcontroller "package-operator.run/internal/controllers/packages"
	"package-operator.run/internal/dynamiccache"
	"package-operator.run/internal/imageprefix"
	"package-operator.run/internal/packages"
	internalprobing "package-operator.run/internal/probing"
	"package-operator.run/internal/transform"
)

type npScenario struct {
	Target string `json:"target"`

	// pipeline / cli
	Render *renderScenario `json:"render,omitempty"`
	Deploy bool            `json:"deploy,omitempty"`
	Cmd    string          `json:"cmd,omitempty"` // tree | validate

	// oci: each layer is base64 of the layer stream; Compressed => the bytes are what a registry
	// would serve (gzip), else the bytes are the uncompressed tar stream
	Layers     []string `json:"layers,omitempty"`
	Compressed bool     `json:"compressed,omitempty"`

	// probe / mapconditions / template-*: objects as JSON documents
	Probes     json.RawMessage `json:"probes,omitempty"`
	Object     json.RawMessage `json:"object,omitempty"`
	Mappings   json.RawMessage `json:"mappings,omitempty"`
	Generation int64           `json:"generation,omitempty"`
	Items      json.RawMessage `json:"items,omitempty"`

	// template-reconcile
	Template json.RawMessage   `json:"template,omitempty"` // the ObjectTemplate object
	Store    []json.RawMessage `json:"store,omitempty"`    // further cluster objects

	// controller: Render.Files is the image content, Cluster selects ClusterPackage; Others = number of other
	// (Cluster)Packages carrying the manifest label ManifestName; Passes = number of Reconcile calls
	Others       int    `json:"others,omitempty"`
	ManifestName string `json:"manifest_name,omitempty"`
	Passes       int    `json:"passes,omitempty"`

	// include
	Text     string          `json:"text,omitempty"`
	Data     json.RawMessage `json:"data,omitempty"`
	MaxDepth int             `json:"max_depth,omitempty"` // abort when helper bodies nest deeper than this

	// ownerannotation
	Annotation string `json:"annotation,omitempty"`
	Where      string `json:"where,omitempty"` // cluster | desired
	Op         string `json:"op,omitempty"`    // reconcile | teardown | event
	Cluster    bool   `json:"cluster,omitempty"`
}

type npObs struct {
	Class string `json:"class"`           // ok | err
	Stage string `json:"stage,omitempty"` // where the error was returned
	Err   string `json:"err,omitempty"`   // coarse error class
	Info  string `json:"info,omitempty"`
}

func npErr(stage string, err error) npObs {
	msg := err.Error()
	if len(msg) > 160 {
		msg = msg[:160]
	}
	return npObs{Class: "err", Stage: stage, Err: renderErrClass(err), Info: msg}
}

var npOnce sync.Once

func npDecodeObject(raw json.RawMessage) (*unstructured.Unstructured, error) {
	m := map[string]any{}
	d := json.NewDecoder(bytes.NewReader(raw))
	if err := d.Decode(&m); err != nil {
		return nil, fmt.Errorf("scenario object: %w", err)
	}
	// what a client decoding from the API server hands out: integers as int64, the rest float64
	return &unstructured.Unstructured{Object: normJSON(m).(map[string]any)}, nil
}

func normJSON(v any) any {
	switch x := v.(type) {
	case map[string]any:
		for k, e := range x {
			x[k] = normJSON(e)
		}
		return x
	case []any:
		for i, e := range x {
			x[i] = normJSON(e)
		}
		return x
	case float64:
		if x == float64(int64(x)) && x < 1e15 && x > -1e15 {
			return int64(x)
		}
		return x
	default:
		return v
	}
}

// ------------------------------------------------------------------ pipeline

func npPipeline(ctx context.Context, sc *renderScenario, alsoDeploy bool) npObs {
	apiPkg := sc.apiPackage()
	env, err := sc.env()
	if err != nil {
		return npObs{Class: "err", Stage: "scenario", Err: "environment"}
	}
	out := func() npObs {
		rawPkg := &packages.RawPackage{Files: freshFiles(sc.Files)}
		pkg, err := packages.DefaultStructuralLoader.LoadComponent(ctx, rawPkg, apiPkg.GetComponent())
		if err != nil {
			return npErr("load", err)
		}
		tmplCtx := apiPkg.TemplateContext()
		configuration := map[string]any{}
		if tmplCtx.Config != nil {
			if err := json.Unmarshal(tmplCtx.Config.Raw, &configuration); err != nil {
				return npErr("config", fmt.Errorf("unmarshal config: %w", err))
			}
		}
		verrs, err := packages.AdmitPackageConfiguration(ctx, configuration, pkg.Manifest, field.NewPath("spec", "config"))
		if err != nil {
			return npObs{Class: "err", Stage: "config", Err: "config-admission"}
		}
		if len(verrs) > 0 {
			return npObs{Class: "err", Stage: "config", Err: "config-invalid"}
		}
		images := map[string]string{}
		if pkg.ManifestLock != nil {
			for _, pi := range pkg.ManifestLock.Spec.Images {
				resolved, err := packages.VerifImageWithDigest(imageprefix.Replace(pi.Image, nil), pi.Digest)
				if err != nil {
					return npObs{Class: "err", Stage: "images", Err: "image-reference"}
				}
				images[pi.Name] = resolved
			}
		}
		rctx := packages.PackageRenderContext{
			Package: tmplCtx.Package, Config: configuration, Images: images, Environment: env,
		}
		inst, err := packages.RenderPackageInstance(ctx, pkg, rctx,
			packages.VerifNamespacedPackageValidators(), packages.DefaultObjectValidators)
		if err != nil {
			return npErr("render", err)
		}
		spec := packages.RenderObjectSetTemplateSpec(inst)
		n := 0
		for _, p := range spec.Phases {
			n += len(p.Objects)
		}
		return npObs{Class: "ok", Info: fmt.Sprintf("phases=%d objects=%d", len(spec.Phases), n)}
	}()
	if alsoDeploy {
		got, err := packages.VerifDeployCapture(ctx, renderScheme, sc.apiPackage(),
			&packages.RawPackage{Files: freshFiles(sc.Files)}, env, nil)
		switch {
		case err != nil:
			out.Info += " deploy=err"
		case got == nil:
			out.Info += " deploy=invalid"
		default:
			out.Info += " deploy=ok"
		}
	}
	return out
}

// ------------------------------------------------------------------ cli

func npCLI(ctx context.Context, sc *npScenario) (npObs, error) {
	switch sc.Cmd {
	case "validate":
		pull := func(context.Context, string, ...crane.Option) (*packages.RawPackage, error) {
			return &packages.RawPackage{Files: freshFiles(sc.Render.Files)}, nil
		}
		v := cmd.NewValidate(renderScheme, cmd.WithPuller{Pull: pull})
		if err := v.ValidatePackage(ctx, cmd.WithRemoteReference("registry.example/verif/pkg:v1")); err != nil {
			return npErr("validate", err), nil
		}
		return npObs{Class: "ok"}, nil
	default: // tree (kubectl package tree <dir>): reads the package from a directory
		dir, err := os.MkdirTemp("", "verif-c19-")
		if err != nil {
			return npObs{}, err
		}
		defer os.RemoveAll(dir)
		for p, content := range sc.Render.Files {
			clean := filepath.Join(dir, filepath.FromSlash(p))
			if rel, err := filepath.Rel(dir, clean); err != nil || strings.HasPrefix(rel, "..") {
				return npObs{Class: "err", Stage: "scenario", Err: "path-escapes"}, nil
			}
			if err := os.MkdirAll(filepath.Dir(clean), 0o755); err != nil {
				return npObs{Class: "err", Stage: "scenario", Err: "mkdir"}, nil
			}
			if err := os.WriteFile(clean, []byte(content), 0o644); err != nil {
				return npObs{Class: "err", Stage: "scenario", Err: "write"}, nil
			}
		}
		t := cmd.NewTree(renderScheme)
		out, err := t.RenderPackage(ctx, dir, cmd.WithClusterScope(sc.Cluster))
		if err != nil {
			return npErr("tree", err), nil
		}
		// one line per object: "<group>/<version>, Kind=<kind> <namespace>/<name>"
		return npObs{Class: "ok", Info: fmt.Sprintf("objects=%d tree-bytes=%d", strings.Count(out, ", Kind="), len(out))}, nil
	}
}

// ------------------------------------------------------------------ oci

func npImage(sc *npScenario) (containerregistrypkgv1.Image, error) {
	image, err := ggcrmutate.ConfigFile(empty.Image, &containerregistrypkgv1.ConfigFile{
		RootFS: containerregistrypkgv1.RootFS{Type: "layers"},
	})
	if err != nil {
		return nil, err
	}
	for _, l64 := range sc.Layers {
		b, err := base64.StdEncoding.DecodeString(l64)
		if err != nil {
			return nil, err
		}
		var layer containerregistrypkgv1.Layer
		if sc.Compressed {
			layer, err = tarball.LayerFromOpener(func() (io.ReadCloser, error) {
				return io.NopCloser(bytes.NewReader(b)), nil
			})
			if err != nil {
				return nil, fmt.Errorf("layer: %w", err)
			}
		} else {
			layer = static.NewLayer(b, ggcrtypes.OCIUncompressedLayer)
		}
		image, err = ggcrmutate.AppendLayers(image, layer)
		if err != nil {
			return nil, fmt.Errorf("append: %w", err)
		}
	}
	return image, nil
}

func npOCI(ctx context.Context, sc *npScenario) npObs {
	image, err := npImage(sc)
	if err != nil {
		// the registry client already refuses the image
		return npObs{Class: "err", Stage: "image", Err: "image-build", Info: err.Error()}
	}
	raw, err := packages.FromOCI(ctx, image)
	if err != nil {
		return npErr("import", err)
	}
	return npObs{Class: "ok", Info: fmt.Sprintf("files=%d", len(raw.Files))}
}

// ------------------------------------------------------------------ probing / conditions

func npProbe(ctx context.Context, sc *npScenario) (npObs, error) {
	var probes []corev1alpha1.ObjectSetProbe
	if err := json.Unmarshal(sc.Probes, &probes); err != nil {
		return npObs{Class: "err", Stage: "decode-spec", Err: "json"}, nil
	}
	obj, err := npDecodeObject(sc.Object)
	if err != nil {
		return npObs{}, err
	}
	prober, err := internalprobing.Parse(ctx, probes)
	if err != nil {
		return npErr("parse", err), nil
	}
	ok, msgs := prober.Probe(obj)
	return npObs{Class: "ok", Info: fmt.Sprintf("success=%v msgs=%d", ok, len(msgs))}, nil
}

func npMapConditions(ctx context.Context, sc *npScenario) (npObs, error) {
	var mappings []corev1alpha1.ConditionMapping
	if err := json.Unmarshal(sc.Mappings, &mappings); err != nil {
		return npObs{Class: "err", Stage: "decode-spec", Err: "json"}, nil
	}
	obj, err := npDecodeObject(sc.Object)
	if err != nil {
		return npObs{}, err
	}
	owner := &simpleOwner{obj: &corev1alpha1.ObjectSetPhase{ObjectMeta: metav1.ObjectMeta{
		Name: "owner", Namespace: "ns1", UID: "u1", Generation: sc.Generation,
	}}}
	if err := controllers.VerifMapConditions(ctx, owner, mappings, obj); err != nil {
		return npErr("mapconditions", err), nil
	}
	return npObs{Class: "ok", Info: fmt.Sprintf("conditions=%d", len(owner.conds))}, nil
}

func npTemplateConditions(ctx context.Context, sc *npScenario) (npObs, error) {
	obj, err := npDecodeObject(sc.Object)
	if err != nil {
		return npObs{}, err
	}
	ot := &adapters.GenericObjectTemplate{ObjectTemplate: corev1alpha1.ObjectTemplate{ObjectMeta: metav1.ObjectMeta{
		Name: "t", Namespace: "ns1", UID: "u1", Generation: sc.Generation,
	}}}
	if err := objecttemplate.VerifUpdateStatusConditionsFromOwnedObject(ctx, ot, obj); err != nil {
		return npErr("template-conditions", err), nil
	}
	return npObs{Class: "ok", Info: fmt.Sprintf("conditions=%d", len(ot.Status.Conditions))}, nil
}

func npTemplateSource(_ context.Context, sc *npScenario) (npObs, error) {
	var items []corev1alpha1.ObjectTemplateSourceItem
	if err := json.Unmarshal(sc.Items, &items); err != nil {
		return npObs{Class: "err", Stage: "decode-spec", Err: "json"}, nil
	}
	obj, err := npDecodeObject(sc.Object)
	if err != nil {
		return npObs{}, err
	}
	cfg := map[string]any{}
	if err := objecttemplate.VerifCopySourceItems(items, obj, cfg); err != nil {
		return npErr("template-source", err), nil
	}
	return npObs{Class: "ok", Info: fmt.Sprintf("keys=%d", len(cfg))}, nil
}

// npCache: dynamic cache of the ObjectTemplate controller over the in-memory server.
type npCache struct{ fakeCache }

func (c *npCache) Source(handler.EventHandler, ...predicate.Predicate) source.Source { return nil }
func (c *npCache) OwnersForGKV(schema.GroupVersionKind) []dynamiccache.OwnerReference {
	return nil
}

func npTemplateReconcile(ctx context.Context, sc *npScenario) (npObs, error) {
	scheme := newScheme()
	s := NewStore(scheme, newMapper())
	tm, err := npDecodeObject(sc.Template)
	if err != nil {
		return npObs{}, err
	}
	// admission: the object must decode into the API type (what the API server's schema accepts
	// structurally); anything else is not an input of the controller
	typed := &corev1alpha1.ObjectTemplate{}
	if err := s.fromMap(tm.Object, typed); err != nil {
		return npObs{Class: "err", Stage: "admission", Err: "schema"}, nil
	}
	s.RawPut(tm.Object, false)
	for _, raw := range sc.Store {
		o, err := npDecodeObject(raw)
		if err != nil {
			return npObs{}, err
		}
		s.RawPut(o.Object, false)
	}
	cache := &npCache{fakeCache{s: s}}
	c := objecttemplate.NewObjectTemplateController(s, s, logr.Discard(), cache, scheme, s.RESTMapper(),
		objecttemplate.ControllerConfig{OptionalResourceRetryInterval: time.Second, ResourceRetryInterval: time.Second})
	c.SetEnvironment(&manifests.PackageEnvironment{
		Kubernetes: manifests.PackageEnvironmentKubernetes{Version: "v1.29.0"},
	})
	_, err = c.Reconcile(ctx, ctrl.Request{NamespacedName: types.NamespacedName{Namespace: tm.GetNamespace(), Name: tm.GetName()}})
	if err != nil {
		return npErr("reconcile", err), nil
	}
	got := s.RawGet(storeKey{corev1alpha1.GroupVersion.Group, "ObjectTemplate", tm.GetNamespace(), tm.GetName()})
	conds, _, _ := unstructured.NestedSlice(got, "status", "conditions")
	invalid := false
	for _, c := range conds {
		if m, ok := c.(map[string]any); ok && m["type"] == corev1alpha1.ObjectTemplateInvalid && m["status"] == "True" {
			invalid = true
		}
	}
	return npObs{Class: "ok", Info: fmt.Sprintf("invalid=%v", invalid)}, nil
}

// ------------------------------------------------------------------ annotation owner strategy

func npOwnerAnnotation(ctx context.Context, sc *npScenario) (npObs, error) {
	scheme := newScheme()
	s := NewStore(scheme, newMapper())
	flavor := "multiphase"
	ownerKind := 3
	if sc.Cluster {
		flavor, ownerKind = "multiclusterphase", 4
	}
	strategy, checker := flavorParts(flavor, scheme, s)
	if _, ok := strategy.(*ownerhandling.OwnerStrategyAnnotation); !ok {
		return npObs{}, errors.New("flavor does not use the annotation strategy")
	}
	md := map[string]any{"name": "n1", "namespace": "ns1", "labels": map[string]any{constants.DynamicCacheLabel: "True"}}
	desiredMD := map[string]any{"name": "n1", "namespace": "ns1"}
	switch sc.Where {
	case "desired":
		desiredMD["annotations"] = map[string]any{constants.OwnerStrategyAnnotationKey: sc.Annotation}
	default:
		md["annotations"] = map[string]any{constants.OwnerStrategyAnnotationKey: sc.Annotation}
	}
	s.RawPut(map[string]any{"apiVersion": "v1", "kind": "ConfigMap", "metadata": md, "data": map[string]any{"k": "old"}}, false)
	ns := 1
	if sc.Cluster {
		ns = 0
	}
	owner := buildOwner(scheme, aOwner{aOID: aOID{Kind: ownerKind, NS: ns, Name: 7, UID: 7}, Rev: 2})
	phase := corev1alpha1.ObjectSetTemplatePhase{Name: "p", Objects: []corev1alpha1.ObjectSetObject{{
		Object: unstructured.Unstructured{Object: map[string]any{
			"apiVersion": "v1", "kind": "ConfigMap", "metadata": desiredMD, "data": map[string]any{"k": "new"},
		}},
		CollisionProtection: corev1alpha1.CollisionProtectionNone,
	}}}
	if sc.Op == "event" {
		// objectsetphase_controller.go:328: the strategy's event handler sees every event of a watched object
		// (informer goroutine: a panic here is not recovered by controller-runtime)
		h := strategy.(*ownerhandling.OwnerStrategyAnnotation).EnqueueRequestForOwner(owner.ClientObject(), s.RESTMapper(), false)
		q := workqueue.NewTypedRateLimitingQueue(workqueue.DefaultTypedControllerRateLimiter[reconcile.Request]())
		defer q.ShutDown()
		obj := &unstructured.Unstructured{Object: s.RawGet(storeKey{"", "ConfigMap", "ns1", "n1"})}
		h.Create(ctx, event.CreateEvent{Object: obj}, q)
		return npObs{Class: "ok", Info: fmt.Sprintf("requests=%d", q.Len())}, nil
	}
	pr := controllers.NewPhaseReconciler(scheme, s, &fakeCache{s: s}, s, strategy, checker)
	if sc.Op == "teardown" {
		done, err := pr.TeardownPhase(ctx, owner, phase)
		if err != nil {
			return npErr("teardown", err), nil
		}
		return npObs{Class: "ok", Info: fmt.Sprintf("done=%v", done)}, nil
	}
	probe, err := internalprobing.Parse(ctx, nil)
	if err != nil {
		return npObs{}, err
	}
	_, _, err = pr.ReconcilePhase(ctx, owner, phase, probe, nil)
	if err != nil {
		return npErr("reconcile", err), nil
	}
	return npObs{Class: "ok"}, nil
}

// ------------------------------------------------------------------ package controllers

type npPuller struct{ files map[string]string }

func (p *npPuller) Pull(context.Context, string) (*packages.RawPackage, error) {
	return &packages.RawPackage{Files: freshFiles(p.files)}, nil
}

func npController(ctx context.Context, sc *npScenario) (npObs, error) {
	scheme := newScheme()
	s := NewStore(scheme, newMapper())
	env := manifests.PackageEnvironment{Kubernetes: manifests.PackageEnvironmentKubernetes{Version: "v1.29.0"}}
	if e, err := sc.Render.env(); err == nil && len(sc.Render.Environment) > 0 {
		env = e
	}
	ns := sc.Render.Package.Namespace
	if sc.Cluster {
		ns = ""
	} else if ns == "" {
		ns = "ns1"
	}
	name := sc.Render.Package.Name
	if name == "" {
		name = "p"
	}
	spec := corev1alpha1.PackageSpec{Image: "registry.example/verif/pkg:v1", Component: sc.Render.Component}
	if len(sc.Render.Config) > 0 && string(sc.Render.Config) != "null" {
		spec.Config = &runtime.RawExtension{Raw: append([]byte{}, sc.Render.Config...)}
	}
	mk := func(n string, labels map[string]string) client.Object {
		md := metav1.ObjectMeta{Name: n, Namespace: ns, Labels: labels}
		if sc.Cluster {
			return &corev1alpha1.ClusterPackage{ObjectMeta: md, Spec: spec}
		}
		return &corev1alpha1.Package{ObjectMeta: md, Spec: spec}
	}
	for i := 0; i < sc.Others; i++ {
		if err := s.Create(ctx, mk(fmt.Sprintf("other%d", i), map[string]string{"package-operator.run/package": sc.ManifestName})); err != nil {
			return npObs{}, err
		}
	}
	if err := s.Create(ctx, mk(name, sc.Render.Package.Labels)); err != nil {
		return npObs{Class: "err", Stage: "admission", Err: "create"}, nil
	}
	puller := &npPuller{files: sc.Render.Files}
	var c *pkgcontroller.GenericPackageController
	if sc.Cluster {
		c = pkgcontroller.NewClusterPackageController(s, s, logr.Discard(), scheme, puller, nil, nil, nil)
	} else {
		c = pkgcontroller.NewPackageController(s, s, logr.Discard(), scheme, puller, nil, nil, nil)
	}
	c.SetEnvironment(&env)
	passes := sc.Passes
	if passes < 1 {
		passes = 1
	}
	var lastErr error
	for i := 0; i < passes; i++ {
		_, lastErr = c.Reconcile(ctx, ctrl.Request{NamespacedName: types.NamespacedName{Namespace: ns, Name: name}})
	}
	kind := "Package"
	if sc.Cluster {
		kind = "ClusterPackage"
	}
	got := s.RawGet(storeKey{corev1alpha1.GroupVersion.Group, kind, ns, name})
	conds, _, _ := unstructured.NestedSlice(got, "status", "conditions")
	invalid := ""
	for _, cd := range conds {
		if m, ok := cd.(map[string]any); ok && m["type"] == corev1alpha1.PackageInvalid && m["status"] == "True" {
			invalid, _ = m["reason"].(string)
		}
	}
	if lastErr != nil {
		o := npErr("reconcile", lastErr)
		o.Info = "invalid=" + invalid + " " + o.Info
		return o, nil
	}
	return npObs{Class: "ok", Info: "invalid=" + invalid}, nil
}

// ------------------------------------------------------------------ template function table (include guard)

var errNpRunaway = errors.New("verif: helper bodies nested deeper than the scenario's bound")

func npInclude(sc *npScenario) (npObs, error) {
	depth, maxSeen, enters := 0, 0, 0
	tmpl := template.New("pkg").Option("missingkey=error")
	tmpl = tmpl.Funcs(transform.SprigFuncs(tmpl)).Funcs(template.FuncMap{
		"enter": func() (string, error) {
			depth++
			enters++
			if depth > maxSeen {
				maxSeen = depth
			}
			if sc.MaxDepth > 0 && depth > sc.MaxDepth {
				return "", errNpRunaway
			}
			return "", nil
		},
		"leave": func() string { depth--; return "" },
	})
	if _, err := tmpl.Parse(sc.Text); err != nil {
		return npObs{Class: "err", Stage: "parse", Err: "template-parse"}, nil
	}
	var data any
	if len(sc.Data) > 0 {
		if err := json.Unmarshal(sc.Data, &data); err != nil {
			return npObs{}, err
		}
	}
	var buf bytes.Buffer
	err := tmpl.Execute(&buf, data)
	info := fmt.Sprintf("depth=%d enters=%d", maxSeen, enters)
	switch {
	case err == nil:
		return npObs{Class: "ok", Info: info}, nil
	case errors.Is(err, errNpRunaway):
		return npObs{Class: "runaway", Stage: "execute", Err: "nesting-bound", Info: info}, nil
	case errors.Is(err, transform.ErrExceededIncludeRecursion):
		return npObs{Class: "err", Stage: "execute", Err: "include-recursion-guard", Info: info}, nil
	default:
		msg := err.Error()
		if len(msg) > 120 {
			msg = msg[:120]
		}
		return npObs{Class: "err", Stage: "execute", Err: "template-exec", Info: info + " " + msg}, nil
	}
}

func init() {
	register("nopanic", func(raw json.RawMessage) (any, error) {
		npOnce.Do(func() { debug.SetMaxStack(256 << 20) })
		var sc npScenario
		if err := json.Unmarshal(raw, &sc); err != nil {
			return nil, err
		}
		ctx, cancel := context.WithTimeout(context.Background(), 20*time.Second)
		defer cancel()
		switch sc.Target {
		case "pipeline":
			if sc.Render == nil {
				return nil, errors.New("render missing")
			}
			return npPipeline(ctx, sc.Render, sc.Deploy), nil
		case "cli":
			if sc.Render == nil {
				return nil, errors.New("render missing")
			}
			return npCLI(ctx, &sc)
		case "oci":
			return npOCI(ctx, &sc), nil
		case "controller":
			if sc.Render == nil {
				return nil, errors.New("render missing")
			}
			return npController(ctx, &sc)
		case "include":
			return npInclude(&sc)
		case "probe":
			return npProbe(ctx, &sc)
		case "mapconditions":
			return npMapConditions(ctx, &sc)
		case "template-conditions":
			return npTemplateConditions(ctx, &sc)
		case "template-source":
			return npTemplateSource(ctx, &sc)
		case "template-reconcile":
			return npTemplateReconcile(ctx, &sc)
		case "ownerannotation":
			return npOwnerAnnotation(ctx, &sc)
		default:
			return nil, fmt.Errorf("unknown target %q", sc.Target)
		}
	})
}
