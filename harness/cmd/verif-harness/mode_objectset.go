//go:build verif

package main

// objectset mode: runs the real (Cluster)ObjectSet controller's Reconcile for one ObjectSet against the
// recording server and reports the requests (member writes and writes on the ObjectSet itself, in order)
// and the post state of members and ObjectSets.

import (
	"context"
	"encoding/json"
	"fmt"
	"os"
	"regexp"
	"sort"
	"strconv"

	"github.com/go-logr/logr"
	metav1 "k8s.io/apimachinery/pkg/apis/meta/v1"
	"k8s.io/apimachinery/pkg/apis/meta/v1/unstructured"
	"k8s.io/apimachinery/pkg/runtime"
	"k8s.io/apimachinery/pkg/types"
	ctrl "sigs.k8s.io/controller-runtime"
	"sigs.k8s.io/controller-runtime/pkg/handler"
	"sigs.k8s.io/controller-runtime/pkg/predicate"
	"sigs.k8s.io/controller-runtime/pkg/source"

	corev1alpha1 "package-operator.run/apis/core/v1alpha1"
	"package-operator.run/internal/constants"
	"package-operator.run/internal/controllers/objectsets"
)

type aPhase struct {
	Name    int     `json:"name"`
	Class   bool    `json:"class"`
	Objects []aPObj `json:"objects"`
}

type aCond [4]int64 // type, status, reason, observedGeneration

type aSet struct {
	aOID
	RV       int      `json:"rv"`
	Gen      int64    `json:"gen"`
	Deleting bool     `json:"deleting"`
	Fin      bool     `json:"fin"`
	Orphan   bool     `json:"orphan"`
	Pkg      int      `json:"pkg"`
	Life     int      `json:"life"` // 0 active, 1 paused, 2 archived
	Phases   []aPhase `json:"phases"`
	Prev     []int    `json:"prev"`
	Revision int64    `json:"revision"`
	Conds    []aCond  `json:"conds"`
	CtrlOf   []aKey   `json:"ctrlof"`
	Remotes  [][2]int `json:"remotes"`
}

var condTypes = []string{"Available", "InTransition", "Succeeded", "Paused", "Archived"}
var condStatus = []metav1.ConditionStatus{metav1.ConditionTrue, metav1.ConditionFalse, metav1.ConditionUnknown}
var condReasons = []string{"Available", "ProbeFailure", "PreflightError", "CollisionDetected", "InTransition", "RolloutSuccess",
	"Paused", "PartiallyPaused", "Archived", "ArchivalInProgress"}

func idx(list []string, s string) int64 {
	for i, x := range list {
		if x == s {
			return int64(i)
		}
	}
	return int64(len(list))
}

func lifeState(n int) corev1alpha1.ObjectSetLifecycleState {
	switch n {
	case 1:
		return corev1alpha1.ObjectSetLifecycleStatePaused
	case 2:
		return corev1alpha1.ObjectSetLifecycleStateArchived
	default:
		return corev1alpha1.ObjectSetLifecycleStateActive
	}
}

func lifeNum(s corev1alpha1.ObjectSetLifecycleState) int {
	switch s {
	case corev1alpha1.ObjectSetLifecycleStatePaused:
		return 1
	case corev1alpha1.ObjectSetLifecycleStateArchived:
		return 2
	default:
		return 0
	}
}

func gkGroupKind(gk int) (string, string) {
	gi := gkTable[gk]
	gv := gi.apiVersion
	g := ""
	if gv != "v1" {
		g = gv[:len(gv)-3]
	}
	return g, gi.kind
}

func (a aSet) spec() (corev1alpha1.ObjectSetSpec, metav1.ObjectMeta, corev1alpha1.ObjectSetStatus) {
	md := metav1.ObjectMeta{Name: setNameStr(a.Name), Namespace: nsName(a.NS), UID: types.UID("u" + strconv.Itoa(a.UID)),
		ResourceVersion: strconv.Itoa(a.RV), Generation: a.Gen, CreationTimestamp: metav1.Unix(1600000000+int64(a.Name%1000), 0)}
	if a.Fin {
		md.Finalizers = append(md.Finalizers, constants.CachedFinalizer)
	}
	if a.Orphan {
		md.Finalizers = append(md.Finalizers, "orphan")
	}
	if a.Deleting {
		ts := metav1.Unix(1600000200, 0)
		md.DeletionTimestamp = &ts
	}
	if a.Pkg != 0 {
		md.Labels = map[string]string{pkgLabel: pkgLabelValue(a.Pkg)}
	}
	spec := corev1alpha1.ObjectSetSpec{LifecycleState: lifeState(a.Life)}
	for _, ph := range a.Phases {
		p := corev1alpha1.ObjectSetTemplatePhase{Name: phaseNameStr(ph.Name)}
		if ph.Class {
			p.Class = "default"
		}
		for _, o := range ph.Objects {
			p.Objects = append(p.Objects, o.concrete())
		}
		spec.Phases = append(spec.Phases, p)
	}
	spec.AvailabilityProbes = scenarioProbes()
	for _, n := range a.Prev {
		spec.Previous = append(spec.Previous, corev1alpha1.PreviousRevisionReference{Name: setNameStr(n)})
	}
	st := corev1alpha1.ObjectSetStatus{Revision: a.Revision}
	for _, c := range a.Conds {
		st.Conditions = append(st.Conditions, metav1.Condition{
			Type: condTypes[c[0]], Status: condStatus[c[1]], Reason: condReasons[c[2]], ObservedGeneration: c[3],
			LastTransitionTime: metav1.Unix(1600000300, 0),
		})
	}
	for _, k := range a.CtrlOf {
		g, kind := gkGroupKind(k.GK)
		st.ControllerOf = append(st.ControllerOf, corev1alpha1.ControlledObjectReference{Group: g, Kind: kind, Namespace: nsName(k.NS), Name: "n" + strconv.Itoa(k.Name)})
	}
	for _, r := range a.Remotes {
		st.RemotePhases = append(st.RemotePhases, corev1alpha1.RemotePhaseReference{Name: setNameStr(r[0]), UID: types.UID("u" + strconv.Itoa(r[1]))})
	}
	return spec, md, st
}

func (a aSet) concrete(scheme *runtime.Scheme) (map[string]any, error) {
	spec, md, st := a.spec()
	var obj runtime.Object
	if a.Kind == 2 {
		obj = &corev1alpha1.ClusterObjectSet{ObjectMeta: md, Spec: corev1alpha1.ClusterObjectSetSpec{
			LifecycleState: spec.LifecycleState, Previous: spec.Previous,
			ObjectSetTemplateSpec: corev1alpha1.ObjectSetTemplateSpec{Phases: spec.Phases, AvailabilityProbes: spec.AvailabilityProbes},
		}, Status: corev1alpha1.ClusterObjectSetStatus{Revision: st.Revision, Conditions: st.Conditions, ControllerOf: st.ControllerOf, RemotePhases: st.RemotePhases}}
	} else {
		spec.ObjectSetTemplateSpec = corev1alpha1.ObjectSetTemplateSpec{Phases: spec.Phases, AvailabilityProbes: spec.AvailabilityProbes}
		obj = &corev1alpha1.ObjectSet{ObjectMeta: md, Spec: spec, Status: st}
	}
	m, err := runtime.DefaultUnstructuredConverter.ToUnstructured(obj)
	if err != nil {
		return nil, err
	}
	kind := "ObjectSet"
	if a.Kind == 2 {
		kind = "ClusterObjectSet"
	}
	m["apiVersion"] = corev1alpha1.GroupVersion.String()
	m["kind"] = kind
	return m, nil
}

func abstractPObj(o corev1alpha1.ObjectSetObject) aPObj {
	u := o.Object
	p := aPObj{GK: gkOf(u.GetAPIVersion(), u.GetKind()), NS: num("ns", u.GetNamespace()), Name: num("n", u.GetName())}
	if v, ok, _ := unstructured.NestedString(u.Object, "spec", "v"); ok {
		p.Body = num("", v)
	}
	for i, c := range cpNames {
		if o.CollisionProtection == c {
			p.CP = i
		}
	}
	p.OwnerRefs = len(u.GetOwnerReferences()) > 0
	p.DryReject = u.GetAnnotations()[dryRejectAnnotation] != ""
	return p
}

func abstractSet(m map[string]any) (aSet, error) {
	u := &unstructured.Unstructured{Object: m}
	a := aSet{Phases: []aPhase{}, Prev: []int{}, Conds: []aCond{}, CtrlOf: []aKey{}, Remotes: [][2]int{}}
	var md metav1.ObjectMeta
	var life corev1alpha1.ObjectSetLifecycleState
	var phases []corev1alpha1.ObjectSetTemplatePhase
	var prev []corev1alpha1.PreviousRevisionReference
	var conds []metav1.Condition
	var ctrlof []corev1alpha1.ControlledObjectReference
	var remotes []corev1alpha1.RemotePhaseReference
	if u.GetKind() == "ClusterObjectSet" {
		var o corev1alpha1.ClusterObjectSet
		if err := runtime.DefaultUnstructuredConverter.FromUnstructured(m, &o); err != nil {
			return a, err
		}
		a.Kind = 2
		md, life, phases, prev = o.ObjectMeta, o.Spec.LifecycleState, o.Spec.Phases, o.Spec.Previous
		a.Revision, conds, ctrlof, remotes = o.Status.Revision, o.Status.Conditions, o.Status.ControllerOf, o.Status.RemotePhases
	} else {
		var o corev1alpha1.ObjectSet
		if err := runtime.DefaultUnstructuredConverter.FromUnstructured(m, &o); err != nil {
			return a, err
		}
		a.Kind = 1
		md, life, phases, prev = o.ObjectMeta, o.Spec.LifecycleState, o.Spec.Phases, o.Spec.Previous
		a.Revision, conds, ctrlof, remotes = o.Status.Revision, o.Status.Conditions, o.Status.ControllerOf, o.Status.RemotePhases
	}
	a.NS, a.Name, a.UID = num("ns", md.Namespace), setNameNum(md.Name), num("u", string(md.UID))
	a.RV, _ = strconv.Atoi(md.ResourceVersion)
	a.Gen = md.Generation
	a.Deleting = md.DeletionTimestamp != nil
	for _, f := range md.Finalizers {
		if f == constants.CachedFinalizer {
			a.Fin = true
		}
		if f == "orphan" {
			a.Orphan = true
		}
	}
	a.Pkg = pkgLabelNum(md.Labels[pkgLabel])
	a.Life = lifeNum(life)
	for _, ph := range phases {
		ap := aPhase{Name: phaseNameNum(ph.Name), Class: ph.Class != "", Objects: []aPObj{}}
		for _, o := range ph.Objects {
			ap.Objects = append(ap.Objects, abstractPObj(o))
		}
		a.Phases = append(a.Phases, ap)
	}
	for _, p := range prev {
		a.Prev = append(a.Prev, setNameNum(p.Name))
	}
	for _, c := range conds {
		st := int64(2)
		switch c.Status {
		case metav1.ConditionTrue:
			st = 0
		case metav1.ConditionFalse:
			st = 1
		}
		a.Conds = append(a.Conds, aCond{idx(condTypes, c.Type), st, idx(condReasons, c.Reason), c.ObservedGeneration})
	}
	for _, r := range ctrlof {
		av := r.Group + "/v1"
		if r.Group == "" {
			av = "v1"
		}
		a.CtrlOf = append(a.CtrlOf, aKey{gkOf(av, r.Kind), num("ns", r.Namespace), num("n", r.Name)})
	}
	for _, r := range remotes {
		a.Remotes = append(a.Remotes, [2]int{setNameNum(r.Name), num("u", string(r.UID))})
	}
	return a, nil
}

func abstractSets(s *Store) []aSet {
	out := []aSet{}
	for _, k := range s.RawKeys() {
		if k.Group != corev1alpha1.GroupVersion.Group || (k.Kind != "ObjectSet" && k.Kind != "ClusterObjectSet") {
			continue
		}
		a, err := abstractSet(s.RawGet(k))
		if err != nil {
			a.Kind = -1
		}
		out = append(out, a)
	}
	sort.Slice(out, func(i, j int) bool {
		if out[i].Kind != out[j].Kind {
			return out[i].Kind < out[j].Kind
		}
		if out[i].NS != out[j].NS {
			return out[i].NS < out[j].NS
		}
		return out[i].Name < out[j].Name
	})
	return out
}

// Source: the ObjectSet controller only needs it in SetupWithManager.
func (c *fakeCache) Source(handler.EventHandler, ...predicate.Predicate) source.Source { return nil }

type aMetaEvent struct {
	Kind   string  `json:"kind"` // member | finalizer | status
	Member *aEvent `json:"member,omitempty"`
	Added  bool    `json:"added,omitempty"`
	OK     bool    `json:"ok"`
	Err    string  `json:"err,omitempty"`
	Set    *aSet   `json:"set,omitempty"`   // the ObjectSet as sent (status requests) / as stored after (finalizer)
	Phase  *aPEv   `json:"phase,omitempty"` // kind "phase": a request on an ObjectSetPhase object
	FPh    *int    `json:"fph,omitempty"`   // phase named in the ProbeFailure message of the status sent
}

type objectsetScenario struct {
	Force   bool   `json:"force"`
	Store   []aObj `json:"store"`
	Sets    []aSet `json:"sets"`
	NextRV  int64  `json:"next_rv"`
	NextUID int64  `json:"next_uid"`
	Target  aOID   `json:"target"`
	// ObjectSetPhase objects and environment Namespace objects (number, terminating) of the world; optional
	Phases []aOSP            `json:"phases,omitempty"`
	NSs    [][2]int          `json:"nss,omitempty"`
	Faults map[string]string `json:"faults,omitempty"`
	// Passes: number of consecutive Reconcile passes of the target (fresh controller and cache each; default 1).
	// The observation of pass i+1 is reported in More[i]; its pre-state is the post-state of pass i.
	Passes int `json:"passes,omitempty"`
	// Reuse: all passes run on ONE controller instance (a long-lived manager process) instead of a fresh one per pass.
	Reuse bool `json:"reuse,omitempty"`
}

type objectsetObs struct {
	More     []objectsetObs `json:"more,omitempty"`
	Res      string         `json:"res"` // nothing | done | requeue | error
	ErrMsg   string         `json:"errmsg,omitempty"`
	Events   []aMetaEvent   `json:"events"`
	Post     []aObj         `json:"post"`
	Sets     []aSet         `json:"sets"`
	Phases   []aOSP         `json:"phases"`
	NextRV   int64          `json:"next_rv"`
	NextUID  int64          `json:"next_uid"`
	Requests []string       `json:"requests"`
	Watches  []string       `json:"watches"`
}

func setEventsFromLog(s *Store, log []*Request, target storeKey) []aMetaEvent {
	out := []aMetaEvent{}
	for _, r := range log {
		if r.DryRun {
			continue
		}
		if r.Key == target {
			switch r.Verb {
			case "patch-merge":
				e := aMetaEvent{Kind: "finalizer", OK: r.Err == "", Err: r.Err}
				pre := &unstructured.Unstructured{Object: r.Pre}
				post := &unstructured.Unstructured{Object: r.Post}
				had, has := false, false
				if r.Pre != nil {
					for _, f := range pre.GetFinalizers() {
						had = had || f == constants.CachedFinalizer
					}
				}
				if r.Post != nil {
					for _, f := range post.GetFinalizers() {
						has = has || f == constants.CachedFinalizer
					}
				}
				e.Added = !had && has || (r.Err != "" && !had)
				out = append(out, e)
			case "status-update":
				e := aMetaEvent{Kind: "status", OK: r.Err == "", Err: r.Err}
				if r.Sent != nil {
					if a, err := abstractSet(r.Sent); err == nil {
						e.Set = &a
					}
					e.FPh = failedPhaseOf(r.Sent)
				}
				out = append(out, e)
			case "get":
			default:
				out = append(out, aMetaEvent{Kind: "other:" + r.Verb, OK: r.Err == "", Err: r.Err})
			}
			continue
		}
		if isPhaseKey(r.Key) {
			// requests of the remote phase reconciler (and of areRemotePhasesPaused) on ObjectSetPhase objects
			if e := phaseEvent(r, true); e != nil {
				out = append(out, aMetaEvent{Kind: "phase", Phase: e, OK: e.OK})
			}
			continue
		}
		evs := eventsFromLogX([]*Request{r})
		for i := range evs {
			out = append(out, aMetaEvent{Kind: "member", Member: &evs[i], OK: true})
		}
		if len(evs) == 0 && r.Verb != "get" && r.Verb != "list" {
			out = append(out, aMetaEvent{Kind: "other:" + r.Verb + " " + r.Key.String(), OK: r.Err == "", Err: r.Err})
		}
	}
	return out
}

var failedPhaseRe = regexp.MustCompile(`^Phase "(p[0-9p-]+)" failed`)

// failedPhaseOf: the phase the Available=False/ProbeFailure condition names in its message, if any.
func failedPhaseOf(m map[string]any) *int {
	conds, _, _ := unstructured.NestedSlice(m, "status", "conditions")
	for _, c := range conds {
		cm, ok := c.(map[string]any)
		if !ok || cm["type"] != "Available" || cm["reason"] != "ProbeFailure" {
			continue
		}
		msg, _ := cm["message"].(string)
		if mm := failedPhaseRe.FindStringSubmatch(msg); mm != nil {
			n := phaseNameNum(mm[1])
			return &n
		}
	}
	return nil
}

func setKey(o aOID) storeKey {
	kind := "ObjectSet"
	if o.Kind == 2 {
		kind = "ClusterObjectSet"
	}
	return storeKey{corev1alpha1.GroupVersion.Group, kind, nsName(o.NS), setNameStr(o.Name)}
}

func loadWorld(s *Store, scheme *runtime.Scheme, store []aObj, sets []aSet, rv, uid int64) error {
	for _, o := range store {
		s.RawPut(denormRefs(o.concrete()), false)
	}
	for _, a := range sets {
		m, err := a.concrete(scheme)
		if err != nil {
			return err
		}
		s.RawPut(m, false)
	}
	s.SetCounters(rv, uid)
	return nil
}

func init() {
	register("objectset", func(raw json.RawMessage) (any, error) {
		var sc objectsetScenario
		if err := json.Unmarshal(raw, &sc); err != nil {
			return nil, err
		}
		scheme := newScheme()
		s := NewStore(scheme, newMapper())
		if err := loadWorld(s, scheme, sc.Store, sc.Sets, sc.NextRV, sc.NextUID); err != nil {
			return nil, err
		}
		for _, p := range sc.Phases {
			m, err := p.concrete()
			if err != nil {
				return nil, err
			}
			s.RawPut(m, false)
		}
		putNamespaces(s, sc.NSs)
		s.SetCounters(sc.NextRV, sc.NextUID)
		if sc.Force {
			os.Setenv(constants.ForceAdoptionEnvironmentVariable, "1")
		} else {
			os.Unsetenv(constants.ForceAdoptionEnvironmentVariable)
		}
		for k, v := range sc.Faults {
			n, _ := strconv.Atoi(k)
			s.Faults[n] = v
		}
		var shared *objectsets.GenericObjectSetController
		sharedCache := &fakeCache{s: s}
		runPass := func() objectsetObs {
			cache := &fakeCache{s: s}
			var c *objectsets.GenericObjectSetController
			if sc.Reuse && shared != nil {
				// one long-lived controller instance for all passes: whatever it keeps in memory between passes is in the run
				c, cache = shared, sharedCache
			} else {
				if sc.Reuse {
					cache = sharedCache
				}
				if sc.Target.Kind == 2 {
					c = objectsets.NewClusterObjectSetController(s, logr.Discard(), scheme, cache, s, nil, s.RESTMapper())
				} else {
					c = objectsets.NewObjectSetController(s, logr.Discard(), scheme, cache, s, nil, s.RESTMapper())
				}
				shared = c
			}
			s.ResetPass()
			key := setKey(sc.Target)
			res, err := c.Reconcile(context.Background(), ctrl.Request{NamespacedName: types.NamespacedName{Namespace: key.Namespace, Name: key.Name}})
			obs := objectsetObs{}
			nonRead := 0
			for _, r := range s.Log {
				if !r.DryRun && r.Verb != "get" && r.Verb != "list" {
					nonRead++
				}
			}
			switch {
			case err != nil:
				obs.Res = "error"
				obs.ErrMsg = err.Error()
			case res.RequeueAfter > 0 || res.Requeue:
				obs.Res = "requeue"
			case nonRead == 0:
				obs.Res = "nothing"
			default:
				obs.Res = "done"
			}
			obs.Events = setEventsFromLog(s, s.Log, key)
			obs.Requests = requestSummary(s.Log)
			obs.Post = abstractStoreX(s)
			obs.Sets = abstractSets(s)
			obs.Phases = abstractPhases(s)
			obs.NextRV, obs.NextUID = s.Counters()
			obs.Watches = cache.Watches
			return obs
		}
		obs := runPass()
		for i := 1; i < sc.Passes; i++ {
			obs.More = append(obs.More, runPass())
		}
		_ = fmt.Sprint
		return obs, nil
	})
}
