//go:build verif

package main

import (
	"context"
	"encoding/json"
	"fmt"
	"os"
	"regexp"
	"runtime"
	"sort"
	"strconv"
	"strings"
	"sync"
	"time"

	"package-operator.run/internal/packages"
)

// reqmgr mode (C20): drives the real RequestManager.Pull from goroutines through a
// schedule of linearised steps.
//
//	{"op":"req","caller":i,"image":"a"}            caller i calls Pull("a") in a new goroutine
//	{"op":"done","image":"a","result":"ok"|"err"}  the oldest running scripted pull of "a" returns
//
// A step is over when the receiver count / entry (read through the accessor under
// inFlightLock) has changed as the step requires and every goroutine created by the
// scenario is parked in a channel receive (callers inside Pull, scripted pulls at
// their gate). Nothing in the harness depends on the model: it reports what it saw.
type rmStep struct {
	Op     string `json:"op"`
	Caller int    `json:"caller"`
	Image  string `json:"image"`
	Result string `json:"result,omitempty"`
}

type rmScenario struct {
	Steps []rmStep `json:"steps"`
	// Unsync: callers mutate the package they got without any harness lock, so that
	// the race detector sees shared memory between callers (used in -race runs).
	Unsync bool   `json:"unsync,omitempty"`
	Tag    string `json:"tag,omitempty"`
}

type rmEv struct {
	K      string `json:"k"` // "pull" | "resp"
	Caller int    `json:"caller"`
	Image  string `json:"image"`
	Pull   int    `json:"pull"`          // global number of the scripted pull call (for resp: whose result)
	Res    string `json:"res,omitempty"` // resp: "ok" | "err" | "none"
	req    int
}

type rmPending struct {
	Image   string `json:"image"`
	Callers []int  `json:"callers"`
}

type rmObs struct {
	Events  [][]rmEv    `json:"events"`  // per step (scenario steps, then drain steps)
	Counts  []int       `json:"counts"`  // receivers registered for the step's image after the step
	Drain   []rmStep    `json:"drain"`   // done steps appended by the harness to complete running pulls
	Pending []rmPending `json:"pending"` // per image: callers whose Pull never returned
	Alias   [][2]int    `json:"alias"`   // (request step + 1, request step + 1); 0 = the pull function's original
	Flags   []string    `json:"flags"`   // linearisation problems: timeout@k, nopull@k, notregistered@k, entryleft@k
}

type rmPull struct {
	n     int
	image string
	gate  chan string
	orig  *packages.RawPackage
}

type rmReq struct {
	step, caller int
	image        string
	answered     bool
	pkg          *packages.RawPackage
}

type rmHarness struct {
	mu      sync.Mutex
	mutMu   sync.Mutex
	pullSeq int
	running map[string][]*rmPull
	all     []*rmPull
	cur     []rmEv
	reqs    []*rmReq
	base    map[int]bool
	flags   []string
}

var goroutineHdr = regexp.MustCompile(`(?m)^goroutine (\d+) \[([^\]]*)\]:$`)

func goroutineStates() map[int]string {
	buf := make([]byte, 1<<16)
	for {
		n := runtime.Stack(buf, true)
		if n < len(buf) {
			buf = buf[:n]
			break
		}
		buf = make([]byte, 2*len(buf))
	}
	out := map[int]string{}
	for _, m := range goroutineHdr.FindAllSubmatch(buf, -1) {
		id, _ := strconv.Atoi(string(m[1]))
		out[id] = string(m[2])
	}
	return out
}

// quiescent: every goroutine born during this scenario is parked in a channel receive.
func (h *rmHarness) quiescent() bool {
	for id, st := range goroutineStates() {
		if h.base[id] {
			continue
		}
		if !strings.HasPrefix(st, "chan receive") {
			return false
		}
	}
	return true
}

const rmStepTimeout = 2 * time.Second

// waitFor polls until cond() holds in a quiescent state. If the system is quiescent
// but cond() is false nothing can change any more: report that without waiting.
func (h *rmHarness) waitFor(cond func() bool) (ok, timedOut bool) {
	deadline := time.Now().Add(rmStepTimeout)
	for i := 0; ; i++ {
		if h.quiescent() {
			// cond is evaluated after quiescence was seen: it is stable.
			return cond(), false
		}
		if time.Now().After(deadline) {
			return false, true
		}
		if i < 20 {
			runtime.Gosched()
		} else {
			time.Sleep(20 * time.Microsecond)
		}
	}
}

func pristine(image string, n int) *packages.RawPackage {
	return &packages.RawPackage{Files: packages.Files{
		"data": []byte("Data"),
		"gone": []byte("x"),
		"id":   []byte(fmt.Sprintf("%s#%d", image, n)),
	}}
}

// mutate changes the caller's package in every way a Files map can be changed.
func mutate(pkg *packages.RawPackage, step int) {
	if b, ok := pkg.Files["data"]; ok && len(b) > 0 {
		b[0] = byte(step + 1) // in place: visible through a shallow copy of the map
	}
	pkg.Files[fmt.Sprintf("mut-%d", step)] = []byte{1}
	delete(pkg.Files, "gone")
}

func pullNoOf(s string) int {
	i := strings.LastIndexByte(s, '#')
	if i < 0 {
		return -1
	}
	n, err := strconv.Atoi(s[i+1:])
	if err != nil {
		return -1
	}
	return n
}

var rmScenarioNo int

func init() {
	register("reqmgr", func(raw json.RawMessage) (any, error) {
		var sc rmScenario
		if err := json.Unmarshal(raw, &sc); err != nil {
			if err2 := json.Unmarshal(raw, &sc.Steps); err2 != nil {
				return nil, err
			}
		}
		rmScenarioNo++
		if os.Getenv("VERIF_MARK") != "" {
			fmt.Fprintf(os.Stderr, "VERIF-SCENARIO %d %s\n", rmScenarioNo, sc.Tag)
		}
		h := &rmHarness{running: map[string][]*rmPull{}, base: map[int]bool{}}
		for id := range goroutineStates() {
			h.base[id] = true
		}
		rm := packages.NewVerifRequestManager(func(_ context.Context, ref string) (*packages.RawPackage, error) {
			h.mu.Lock()
			rec := &rmPull{n: h.pullSeq, image: ref, gate: make(chan string, 1)}
			rec.orig = pristine(ref, rec.n)
			h.pullSeq++
			h.running[ref] = append(h.running[ref], rec)
			h.all = append(h.all, rec)
			h.cur = append(h.cur, rmEv{K: "pull", Image: ref, Pull: rec.n})
			h.mu.Unlock()
			if res := <-rec.gate; res == "err" {
				return nil, fmt.Errorf("scripted:%s#%d", ref, rec.n)
			}
			return rec.orig, nil
		})
		obs := rmObs{Events: [][]rmEv{}, Counts: []int{}, Drain: []rmStep{}, Pending: []rmPending{}, Alias: [][2]int{}, Flags: []string{}}
		count := func(image string) int {
			n, present := rm.VerifReceivers(image)
			if !present {
				return 0
			}
			return n
		}
		endStep := func(image string) {
			h.mu.Lock()
			evs := append([]rmEv{}, h.cur...)
			h.cur = nil
			h.mu.Unlock()
			sort.SliceStable(evs, func(i, j int) bool {
				if evs[i].K != evs[j].K {
					return evs[i].K == "pull"
				}
				if evs[i].K == "pull" {
					return evs[i].Pull < evs[j].Pull
				}
				return evs[i].req < evs[j].req
			})
			obs.Events = append(obs.Events, evs)
			obs.Counts = append(obs.Counts, count(image))
		}
		doReq := func(k int, st rmStep) {
			before := count(st.Image)
			req := &rmReq{step: k, caller: st.Caller, image: st.Image}
			h.mu.Lock()
			h.reqs = append(h.reqs, req)
			h.mu.Unlock()
			go func() {
				pkg, err := rm.Pull(context.Background(), st.Image)
				ev := rmEv{K: "resp", Caller: st.Caller, Image: st.Image, Pull: -1, Res: "none", req: k}
				switch {
				case pkg != nil:
					ev.Res = "ok"
					if !sc.Unsync {
						h.mutMu.Lock()
					}
					ev.Pull = pullNoOf(string(pkg.Files["id"]))
					mutate(pkg, k)
					if !sc.Unsync {
						h.mutMu.Unlock()
					}
				case err != nil:
					ev.Res = "err"
					ev.Pull = pullNoOf(err.Error())
				}
				h.mu.Lock()
				req.answered, req.pkg = true, pkg
				h.cur = append(h.cur, ev)
				h.mu.Unlock()
			}()
			// the receiver is registered when the count read under inFlightLock went up
			ok, to := h.waitFor(func() bool { return count(st.Image) > before })
			if to {
				obs.Flags = append(obs.Flags, fmt.Sprintf("timeout@%d", k))
			} else if !ok {
				obs.Flags = append(obs.Flags, fmt.Sprintf("notregistered@%d", k))
			}
			endStep(st.Image)
		}
		doDone := func(k int, st rmStep) {
			h.mu.Lock()
			var rec *rmPull
			if l := h.running[st.Image]; len(l) > 0 {
				rec, h.running[st.Image] = l[0], l[1:]
			}
			h.mu.Unlock()
			if rec == nil {
				obs.Flags = append(obs.Flags, fmt.Sprintf("nopull@%d", k))
				endStep(st.Image)
				return
			}
			res := st.Result
			if res != "err" {
				res = "ok"
			}
			rec.gate <- res
			// the broadcast is over when the entry is deleted (read under inFlightLock)
			ok, to := h.waitFor(func() bool { _, present := rm.VerifReceivers(st.Image); return !present })
			if to {
				obs.Flags = append(obs.Flags, fmt.Sprintf("timeout@%d", k))
			} else if !ok {
				obs.Flags = append(obs.Flags, fmt.Sprintf("entryleft@%d", k))
			}
			endStep(st.Image)
		}
		images := map[string]bool{}
		for k, st := range sc.Steps {
			images[st.Image] = true
			switch st.Op {
			case "req":
				doReq(k, st)
			case "done":
				doDone(k, st)
			default:
				return nil, fmt.Errorf("unknown op %q", st.Op)
			}
		}
		// drain: complete every pull that is still running, oldest first, images in order
		for k := len(sc.Steps); k < len(sc.Steps)+1000; k++ {
			h.mu.Lock()
			var imgs []string
			for img, l := range h.running {
				if len(l) > 0 {
					imgs = append(imgs, img)
				}
			}
			h.mu.Unlock()
			if len(imgs) == 0 {
				break
			}
			sort.Strings(imgs)
			st := rmStep{Op: "done", Image: imgs[0], Result: "ok"}
			obs.Drain = append(obs.Drain, st)
			doDone(k, st)
		}
		// who never returned
		names := make([]string, 0, len(images))
		for img := range images {
			names = append(names, img)
		}
		sort.Strings(names)
		h.mu.Lock()
		defer h.mu.Unlock()
		for _, img := range names {
			p := rmPending{Image: img, Callers: []int{}}
			for _, r := range h.reqs {
				if r.image == img && !r.answered {
					p.Callers = append(p.Callers, r.caller)
				}
			}
			obs.Pending = append(obs.Pending, p)
		}
		// aliasing: every returned package must show its own mutation only, every original none
		alias := map[[2]int]bool{}
		for _, r := range h.reqs {
			if !r.answered || r.pkg == nil {
				continue
			}
			own := fmt.Sprintf("mut-%d", r.step)
			for key := range r.pkg.Files {
				if strings.HasPrefix(key, "mut-") && key != own {
					j, _ := strconv.Atoi(key[4:])
					alias[[2]int{r.step + 1, j + 1}] = true
				}
			}
			if b := r.pkg.Files["data"]; len(b) != 4 || b[0] != byte(r.step+1) {
				j := 0
				if len(b) > 0 && b[0] != 'D' {
					j = int(b[0])
				}
				alias[[2]int{r.step + 1, j}] = true
			}
			if _, ok := r.pkg.Files[own]; !ok {
				alias[[2]int{r.step + 1, r.step + 1}] = true
			}
		}
		for _, p := range h.all {
			for key := range p.orig.Files {
				if strings.HasPrefix(key, "mut-") {
					j, _ := strconv.Atoi(key[4:])
					alias[[2]int{0, j + 1}] = true
				}
			}
			b := p.orig.Files["data"]
			_, gone := p.orig.Files["gone"]
			if string(b) != "Data" || !gone || len(p.orig.Files) != 3 {
				j := 0
				if len(b) > 0 && b[0] != 'D' {
					j = int(b[0])
				}
				alias[[2]int{0, j}] = true
			}
		}
		for a := range alias {
			obs.Alias = append(obs.Alias, a)
		}
		sort.Slice(obs.Alias, func(i, j int) bool {
			if obs.Alias[i][0] != obs.Alias[j][0] {
				return obs.Alias[i][0] < obs.Alias[j][0]
			}
			return obs.Alias[i][1] < obs.Alias[j][1]
		})
		obs.Flags = append(obs.Flags, h.flags...)
		return obs, nil
	})
}
