//go:build verif

package main

import (
	"bytes"
	"context"
	"encoding/json"
	"errors"
	"fmt"
	"os"
	"regexp"
	"runtime"
	"sort"
	"strconv"
	"strings"
	"sync"
	"time"
	"unsafe"

	"package-operator.run/internal/packages"
)

// reqmgr mode (C20): drives the real RequestManager.Pull from goroutines through a
// schedule of linearised steps.
//
//	{"op":"req","caller":i,"image":"a"}            caller i calls Pull("a") in a new goroutine
//	{"op":"done","image":"a","result":"ok"|"err"}  the oldest running scripted pull of "a" returns
//	{"op":"badreq","caller":i,"ref":"quay.io/Bad/Ref:v1"}
//	    caller i calls Pull with a reference that matches the registry host override of the manager
//	    but cannot be rewritten: Pull must return (nil, err) at once and start nothing
//	{"op":"cancel","caller":i}                     the context of caller i's waiting Pull is cancelled
//	{"op":"overlap","image":"a","result":..,"caller":i}
//	    as done, but the broadcast of handleResponse is stalled on an extra unbuffered receiver
//	    (put at the head of the entry through the export shim); while it is stalled caller i calls
//	    Pull("a") and the harness waits until that goroutine is parked too (on the mutex, or in its
//	    channel receive if it could register); only then the stall is released.
//
// A step is over when the receiver count / entry (read through the accessor under
// inFlightLock) has changed as the step requires and every goroutine created by the
// scenario is parked in a channel receive (callers inside Pull, scripted pulls at
// their gate). Nothing in the harness depends on the model: it reports what it saw.
//
// Watchdog: the harness never takes inFlightLock blockingly (TryLock accessor only). When
// every goroutine of the scenario is blocked (channel send/receive, mutex) but not all in a
// channel receive, nothing can move any more: the schedule is aborted and reported as
// "stuck"; if in addition inFlightLock cannot be taken, as "blocked" (a broadcast blocked
// while holding the lock: nobody registered behind it is answered, no later Pull can start).
type rmStep struct {
	Op     string `json:"op"`
	Caller int    `json:"caller"`
	Image  string `json:"image"`
	Result string `json:"result,omitempty"`
	Ref    string `json:"ref,omitempty"`
}

type rmScenario struct {
	Steps []rmStep `json:"steps"`
	// Unsync: callers mutate the package they got without any harness lock, so that
	// the race detector sees shared memory between callers (used in -race runs).
	Unsync bool `json:"unsync,omitempty"`
	// Override: every image x of the scenario is requested as quay.io/pko/x:v1, which the manager's
	// registry host override (quay.io -> localhost:123) rewrites to localhost:123/pko/x:v1 before the
	// request machine; the scripted pull and the accessors then see the rewritten name.
	Override bool   `json:"override,omitempty"`
	Tag      string `json:"tag,omitempty"`
}

type rmEv struct {
	K      string `json:"k"` // "pull" | "resp" | "early" (Pull returned before the request machine)
	Caller int    `json:"caller"`
	Image  string `json:"image"`
	Pull   int    `json:"pull"`          // global number of the scripted pull call (for resp: whose result)
	Res    string `json:"res,omitempty"` // resp: "ok" | "err" | "none"
	req    int
}

type rmPending struct {
	Image   string `json:"image"`
	Callers []int  `json:"callers"`
}

type rmObs struct {
	Events  [][]rmEv    `json:"events"`  // per step (scenario steps, then drain steps)
	Counts  []int       `json:"counts"`  // receivers registered for the step's image after the step
	Drain   []rmStep    `json:"drain"`   // done steps appended by the harness to complete running pulls
	Pending []rmPending `json:"pending"` // per image: callers whose Pull never returned
	Alias   [][2]int    `json:"alias"`   // (request step + 1, request step + 1); 0 = the pull function's original
	Flags   []string    `json:"flags"`   // linearisation problems: timeout@k, nopull@k, notregistered@k, entryleft@k, nostall@k
	Overlap []string    `json:"overlap"` // per overlap step: what the overlapping Pull did while the broadcast was stalled
	Stuck   int         `json:"stuck"`   // -1, or the step after which nothing could move any more (schedule aborted there)
	Blocked bool        `json:"blocked"` // stuck and inFlightLock is held: a broadcast is blocked holding the lock
	Probe   string      `json:"probe,omitempty"`
}

type rmPull struct {
	n     int
	image string
	gate  chan string
	orig  *packages.RawPackage
}

type rmReq struct {
	cancel       context.CancelFunc
	step, caller int
	image        string
	answered     bool
	pkg          *packages.RawPackage
}

type rmHarness struct {
	mu       sync.Mutex
	mutMu    sync.Mutex
	pullSeq  int
	running  map[string][]*rmPull
	all      []*rmPull
	cur      []rmEv
	reqs     []*rmReq
	base     map[int]bool
	flags    []string
	stuck    bool // structural: every goroutine blocked, not all at rest (two consecutive snapshots)
	timedOut bool // a wait ran into rmStepTimeout: the schedule is abandoned, no verdict
}

var goroutineHdr = regexp.MustCompile(`(?m)^goroutine (\d+) \[([^\]]*)\]:$`)

func goroutineStates() map[int]string {
	buf := make([]byte, 1<<16)
	for {
		n := runtime.Stack(buf, true)
		if n < len(buf) {
			buf = buf[:n]
			break
		}
		buf = make([]byte, 2*len(buf))
	}
	out := map[int]string{}
	for _, m := range goroutineHdr.FindAllSubmatch(buf, -1) {
		id, _ := strconv.Atoi(string(m[1]))
		out[id] = string(m[2])
	}
	return out
}

// quiescent: every goroutine born during this scenario is parked in a channel receive (or select).
func (h *rmHarness) quiescent() bool { return h.parked(restStates...) }

// snapshot evaluates, on ONE goroutine dump, whether every goroutine of the scenario is parked in a
// channel receive (quiescent) and whether every one is blocked at all (send, receive or mutex).
func (h *rmHarness) snapshot() (quiescent, allBlocked bool) {
	quiescent, allBlocked = true, true
	for id, st := range goroutineStates() {
		if h.base[id] {
			continue
		}
		rest := false
		for _, a := range restStates {
			rest = rest || strings.HasPrefix(st, a)
		}
		if !rest {
			quiescent = false
		}
		ok := false
		for _, a := range blockedStates {
			ok = ok || strings.HasPrefix(st, a)
		}
		if !ok {
			allBlocked = false
		}
	}
	return quiescent, allBlocked
}

// confirmStuck: three more snapshots, spaced out, all showing every goroutine blocked and not all at rest.
func (h *rmHarness) confirmStuck() bool {
	for j := 0; j < 3; j++ {
		time.Sleep(200 * time.Microsecond)
		if q, b := h.snapshot(); q || !b {
			return false
		}
	}
	return true
}

// parked: every goroutine born during this scenario is blocked in one of the given states.
func (h *rmHarness) parked(allowed ...string) bool {
	for id, st := range goroutineStates() {
		if h.base[id] {
			continue
		}
		ok := false
		for _, a := range allowed {
			ok = ok || strings.HasPrefix(st, a)
		}
		if !ok {
			return false
		}
	}
	return true
}

// waitParked polls until parked(allowed...) holds; false on timeout.
func (h *rmHarness) waitParked(allowed ...string) bool {
	deadline := time.Now().Add(rmStepTimeout)
	for i := 0; ; i++ {
		if h.parked(allowed...) {
			return true
		}
		if i > rmMinPolls && time.Now().After(deadline) {
			h.flags = append(h.flags, "states:"+h.describe())
			return false
		}
		pause(i)
	}
}

func (h *rmHarness) countState(prefixes ...string) int {
	n := 0
	for id, st := range goroutineStates() {
		if h.base[id] {
			continue
		}
		for _, a := range prefixes {
			if strings.HasPrefix(st, a) {
				n++
				break
			}
		}
	}
	return n
}

// Only a fallback: a schedule that is really stuck is recognised structurally (snapshot), not by time.
// A wait only times out after the wall-clock limit AND a minimum number of polls made by this process
// (a process frozen by the OS / CPU throttling makes no polls, so it cannot time out by being frozen).
const (
	rmStepTimeout = 20 * time.Second
	rmMinPolls    = 5000
)

// describe lists the states of the scenario's goroutines (diagnostics for a timeout).
func (h *rmHarness) describe() string {
	var l []string
	for id, st := range goroutineStates() {
		if !h.base[id] {
			l = append(l, st)
		}
	}
	sort.Strings(l)
	return strings.Join(l, "|")
}

// A caller waiting in Pull is parked in "chan receive" (current code) or in "select" (a Pull that
// also watches its context); a scripted pull at its gate in "chan receive".
var (
	restStates = []string{"chan receive", "select"}
	// NOT "semacquire": that is also the state of a goroutine that wants to start a GC cycle and waits
	// for the world semaphore, which runtime.Stack(all) of this very harness holds while it dumps.
	blockedStates = []string{"chan receive", "select", "chan send", "sync.Mutex.Lock"}
)

// pause backs off between polls so that goroutines waiting for the world semaphore (GC start) are
// not starved by the stop-the-world goroutine dumps of the polling loop.
func pause(i int) {
	switch {
	case i < 10:
		runtime.Gosched()
	case i < 200:
		time.Sleep(20 * time.Microsecond)
	default:
		time.Sleep(500 * time.Microsecond)
	}
}

// waitFor polls until cond() holds in a quiescent state. If the system is quiescent
// but cond() is false nothing can change any more: report that without waiting.
func (h *rmHarness) waitFor(cond func() bool) (ok, timedOut bool) {
	deadline := time.Now().Add(rmStepTimeout)
	for i := 0; ; i++ {
		q, allBlocked := h.snapshot()
		if q {
			// cond is evaluated after quiescence was seen: it is stable.
			return cond(), false
		}
		if allBlocked && h.confirmStuck() {
			// everybody is blocked, but not everybody in a channel receive: a send nobody
			// receives, or a mutex nobody releases. Nothing will change.
			h.stuck = true
			return false, true
		}
		if i > rmMinPolls && time.Now().After(deadline) {
			h.timedOut = true // inconclusive (overloaded machine, or code that spins): never a verdict by itself
			h.flags = append(h.flags, "states:"+h.describe())
			return false, true
		}
		pause(i)
	}
}

// pristineFiles is what every scripted pull returns (plus "id"). It contains what
// io.ReadAll produces for package files: slices with spare capacity, and zero-length
// slices with spare capacity for empty files.
func pristineFiles() map[string][]byte {
	return map[string][]byte{
		"data":  []byte("Data"),
		"gone":  []byte("x"),
		"empty": make([]byte, 0, 64),
		"spare": append(make([]byte, 0, 64), "Spare"...),
		"nil":   nil,
	}
}

func pristine(image string, n int) *packages.RawPackage {
	f := packages.Files(pristineFiles())
	f["id"] = []byte(fmt.Sprintf("%s#%d", image, n))
	return &packages.RawPackage{Files: f}
}

// mutate changes the caller's package in every way a Files map can be changed.
func mutate(pkg *packages.RawPackage, step int) {
	if b, ok := pkg.Files["data"]; ok && len(b) > 0 {
		b[0] = byte(step + 1) // in place: visible through a shallow copy of the map
	}
	for key, b := range pkg.Files {
		if key == "id" {
			continue
		}
		// append in place: lands in the spare capacity of the backing array if there is any
		pkg.Files[key] = append(b, byte(step+1), 0xEE, byte(step+1))
	}
	pkg.Files[fmt.Sprintf("mut-%d", step)] = []byte{1}
	delete(pkg.Files, "gone")
}

// expectAfterMutate is the content a private copy must have after mutate(step).
func expectAfterMutate(key string, step int) []byte {
	b := append([]byte{}, pristineFiles()[key]...)
	if key == "data" {
		b[0] = byte(step + 1)
	}
	return append(b, byte(step+1), 0xEE, byte(step+1))
}

// backing returns the address of the backing array of b (nil when cap is 0: all
// zero-size allocations share one address).
func backing(b []byte) *byte {
	if cap(b) == 0 {
		return nil
	}
	return unsafe.SliceData(b[:cap(b)])
}

// foreignByte finds, in the whole backing array of b, a byte written by another caller's
// mutate (step+1 markers); 0 if none.
func foreignByte(b []byte, own int) int {
	full := b[:cap(b)]
	for i := 0; i+2 < len(full); i++ {
		if full[i+1] == 0xEE && full[i] == full[i+2] && full[i] != 0 && int(full[i]) != own {
			return int(full[i])
		}
	}
	return 0
}

func pullNoOf(s string) int {
	i := strings.LastIndexByte(s, '#')
	if i < 0 {
		return -1
	}
	n, err := strconv.Atoi(s[i+1:])
	if err != nil {
		return -1
	}
	return n
}

var rmScenarioNo int

func init() {
	register("reqmgr", func(raw json.RawMessage) (any, error) {
		var sc rmScenario
		if err := json.Unmarshal(raw, &sc); err != nil {
			if err2 := json.Unmarshal(raw, &sc.Steps); err2 != nil {
				return nil, err
			}
		}
		rmScenarioNo++
		if os.Getenv("VERIF_MARK") != "" {
			fmt.Fprintf(os.Stderr, "VERIF-SCENARIO %d %s\n", rmScenarioNo, sc.Tag)
		}
		h := &rmHarness{running: map[string][]*rmPull{}, base: map[int]bool{}}
		for id := range goroutineStates() {
			h.base[id] = true
		}
		refOf := func(img string) string {
			if sc.Override {
				return "quay.io/pko/" + img + ":v1"
			}
			return img
		}
		keyOf := func(img string) string {
			if sc.Override {
				return "localhost:123/pko/" + img + ":v1"
			}
			return img
		}
		imgOf := func(key string) string {
			if sc.Override && strings.HasPrefix(key, "localhost:123/pko/") && strings.HasSuffix(key, ":v1") {
				return strings.TrimSuffix(strings.TrimPrefix(key, "localhost:123/pko/"), ":v1")
			}
			return key
		}
		overrides := map[string]string{"quay.io": "localhost:123"}
		rm := packages.NewVerifRequestManagerWithOverrides(overrides, func(_ context.Context, ref string) (*packages.RawPackage, error) {
			ref = imgOf(ref)
			h.mu.Lock()
			rec := &rmPull{n: h.pullSeq, image: ref, gate: make(chan string, 1)}
			rec.orig = pristine(ref, rec.n)
			h.pullSeq++
			h.running[ref] = append(h.running[ref], rec)
			h.all = append(h.all, rec)
			h.cur = append(h.cur, rmEv{K: "pull", Image: ref, Pull: rec.n})
			h.mu.Unlock()
			if res := <-rec.gate; res == "err" {
				return nil, fmt.Errorf("scripted:%s#%d", ref, rec.n)
			}
			return rec.orig, nil
		})
		obs := rmObs{Events: [][]rmEv{}, Counts: []int{}, Drain: []rmStep{}, Pending: []rmPending{}, Alias: [][2]int{}, Flags: []string{}, Overlap: []string{}, Stuck: -1}
		// count never blocks on inFlightLock: TryLock, retried for a short while
		count := func(image string) int {
			deadline := time.Now().Add(2 * time.Second)
			for {
				n, present, locked := rm.VerifTryReceivers(keyOf(image))
				if locked {
					if !present {
						return 0
					}
					return n
				}
				if time.Now().After(deadline) {
					if _, b := h.snapshot(); b {
						h.stuck = true // everybody is blocked and one of them holds the lock
					} else {
						h.timedOut = true
					}
					return 0
				}
				time.Sleep(50 * time.Microsecond)
			}
		}
		present := func(image string) bool {
			deadline := time.Now().Add(2 * time.Second)
			for {
				_, p, locked := rm.VerifTryReceivers(keyOf(image))
				if locked {
					return p
				}
				if time.Now().After(deadline) {
					if _, b := h.snapshot(); b {
						h.stuck = true
					} else {
						h.timedOut = true
					}
					return true
				}
				time.Sleep(50 * time.Microsecond)
			}
		}
		endStep := func(image string) {
			h.mu.Lock()
			evs := append([]rmEv{}, h.cur...)
			h.cur = nil
			h.mu.Unlock()
			sort.SliceStable(evs, func(i, j int) bool {
				if evs[i].K != evs[j].K {
					return evs[i].K == "pull"
				}
				if evs[i].K == "pull" {
					return evs[i].Pull < evs[j].Pull
				}
				return evs[i].req < evs[j].req
			})
			obs.Events = append(obs.Events, evs)
			if image == "" || h.stuck || h.timedOut {
				obs.Counts = append(obs.Counts, 0)
			} else {
				obs.Counts = append(obs.Counts, count(image))
			}
		}
		var spawnReq func(k int, st rmStep)
		doReq := func(k int, st rmStep) {
			before := count(st.Image)
			spawnReq(k, st)
			// the receiver is registered when the count read under inFlightLock went up
			ok, to := h.waitFor(func() bool { return count(st.Image) > before })
			if to {
				obs.Flags = append(obs.Flags, fmt.Sprintf("timeout@%d", k))
			} else if !ok {
				obs.Flags = append(obs.Flags, fmt.Sprintf("notregistered@%d", k))
			}
			endStep(st.Image)
		}
		spawnReq = func(k int, st rmStep) {
			ctx, cancel := context.WithCancel(context.Background())
			req := &rmReq{step: k, caller: st.Caller, image: st.Image, cancel: cancel}
			h.mu.Lock()
			h.reqs = append(h.reqs, req)
			h.mu.Unlock()
			go func() {
				pkg, err := rm.Pull(ctx, refOf(st.Image))
				ev := rmEv{K: "resp", Caller: st.Caller, Image: st.Image, Pull: -1, Res: "none", req: k}
				switch {
				case pkg != nil && err != nil:
					ev.Res = "both" // a package AND an error
				case pkg != nil:
					ev.Res = "ok"
					if !sc.Unsync {
						h.mutMu.Lock()
					}
					ev.Pull = pullNoOf(string(pkg.Files["id"]))
					mutate(pkg, k)
					if !sc.Unsync {
						h.mutMu.Unlock()
					}
				case errors.Is(err, context.Canceled):
					ev.Res = "cancelled" // Pull gave up because its context was cancelled
				case err != nil:
					ev.Res = "err"
					ev.Pull = pullNoOf(err.Error())
				}
				h.mu.Lock()
				req.answered, req.pkg = true, pkg
				h.cur = append(h.cur, ev)
				h.mu.Unlock()
			}()
		}
		doDone := func(k int, st rmStep) {
			h.mu.Lock()
			var rec *rmPull
			if l := h.running[st.Image]; len(l) > 0 {
				rec, h.running[st.Image] = l[0], l[1:]
			}
			h.mu.Unlock()
			if rec == nil {
				obs.Flags = append(obs.Flags, fmt.Sprintf("nopull@%d", k))
				endStep(st.Image)
				return
			}
			res := st.Result
			if res != "err" {
				res = "ok"
			}
			rec.gate <- res
			// the broadcast is over when the entry is deleted (read under inFlightLock)
			ok, to := h.waitFor(func() bool { return !present(st.Image) })
			if to {
				obs.Flags = append(obs.Flags, fmt.Sprintf("timeout@%d", k))
			} else if !ok {
				obs.Flags = append(obs.Flags, fmt.Sprintf("entryleft@%d", k))
			}
			endStep(st.Image)
		}
		doOverlap := func(k int, st rmStep) {
			release, ok := rm.VerifStallBroadcast(keyOf(st.Image))
			if !ok { // no entry to stall on: run the two operations one after the other
				obs.Flags = append(obs.Flags, fmt.Sprintf("nostall@%d", k))
				obs.Overlap = append(obs.Overlap, "nostall")
				doDone(k, st)
				// merge the two halves into one step of the observation
				evs := obs.Events[len(obs.Events)-1]
				obs.Events, obs.Counts = obs.Events[:len(obs.Events)-1], obs.Counts[:len(obs.Counts)-1]
				h.mu.Lock()
				h.cur = append(evs, h.cur...)
				h.mu.Unlock()
				doReq(k, st)
				return
			}
			h.mu.Lock()
			var rec *rmPull
			if l := h.running[st.Image]; len(l) > 0 {
				rec, h.running[st.Image] = l[0], l[1:]
			}
			h.mu.Unlock()
			if rec == nil {
				obs.Flags = append(obs.Flags, fmt.Sprintf("nopull@%d", k))
				obs.Overlap = append(obs.Overlap, "nopull")
				release(0)
				endStep(st.Image)
				return
			}
			res := st.Result
			if res != "err" {
				res = "ok"
			}
			rec.gate <- res
			// 1. the broadcast is stalled on the first (unbuffered) send
			stalled := h.waitParked("chan receive", "select", "chan send", "sync.Mutex.Lock") && h.countState("chan send") == 1
			if !stalled {
				obs.Flags = append(obs.Flags, fmt.Sprintf("nostall-reached@%d", k))
			}
			// 2. overlapping request: wait until its goroutine is parked as well
			spawnReq(k, st)
			if !h.waitParked(blockedStates...) {
				obs.Flags = append(obs.Flags, fmt.Sprintf("timeout-overlap@%d", k))
			}
			what := "other"
			if h.countState("sync.Mutex.Lock") > 0 {
				what = "blocked-on-lock"
			} else if _, _, locked := rm.VerifTryReceivers(keyOf(st.Image)); locked {
				what = "registered-during-broadcast"
			}
			obs.Overlap = append(obs.Overlap, what)
			// 3. let the broadcast go on
			if d := rmStepTimeout; !release(map[bool]time.Duration{true: d, false: 0}[stalled]) && stalled {
				obs.Flags = append(obs.Flags, fmt.Sprintf("timeout-release@%d", k))
			}
			if _, to := h.waitFor(func() bool { return true }); to {
				obs.Flags = append(obs.Flags, fmt.Sprintf("timeout@%d", k))
			}
			endStep(st.Image)
		}
		doBadReq := func(k int, st rmStep) {
			var (
				mu       sync.Mutex
				returned bool
				res      = "pending"
			)
			go func() {
				pkg, err := rm.Pull(context.Background(), st.Ref)
				mu.Lock()
				defer mu.Unlock()
				returned = true
				switch {
				case pkg != nil && err != nil:
					res = "both"
				case pkg != nil:
					res = "ok"
				case err != nil:
					res = "err"
				default:
					res = "none" // neither the package nor an error
				}
			}()
			if _, to := h.waitFor(func() bool { return true }); to {
				obs.Flags = append(obs.Flags, fmt.Sprintf("timeout@%d", k))
			}
			mu.Lock()
			_ = returned
			ev := rmEv{K: "early", Caller: st.Caller, Image: st.Ref, Pull: -1, Res: res, req: k}
			mu.Unlock()
			h.mu.Lock()
			h.cur = append(h.cur, ev)
			h.mu.Unlock()
			endStep("")
		}
		doCancel := func(k int, st rmStep) {
			h.mu.Lock()
			var target *rmReq
			for _, r := range h.reqs {
				if r.caller == st.Caller && !r.answered {
					target = r
				}
			}
			h.mu.Unlock()
			if target != nil {
				target.cancel()
			}
			if _, to := h.waitFor(func() bool { return true }); to {
				obs.Flags = append(obs.Flags, fmt.Sprintf("timeout@%d", k))
			}
			endStep("")
		}
		checkStuck := func(k int) bool {
			if h.timedOut && !h.stuck {
				obs.Flags = append(obs.Flags, fmt.Sprintf("aborted-timeout@%d", k))
				return true
			}
			if !h.stuck {
				return false
			}
			obs.Stuck = k
			_, _, locked := rm.VerifTryReceivers("")
			obs.Blocked = !locked
			if obs.Blocked {
				// what a later request experiences: it must start a fresh pull, not wait forever
				before := h.countState("sync.Mutex.Lock")
				go func() { _, _ = rm.Pull(context.Background(), "probe-image") }()
				h.waitParked(blockedStates...)
				if h.countState("sync.Mutex.Lock") > before {
					obs.Probe = "a later Pull (of any image) blocks on inFlightLock forever: no fresh pull"
				} else {
					obs.Probe = "a later Pull was not seen blocked"
				}
			}
			return true
		}
		images := map[string]bool{}
		for k, st := range sc.Steps {
			if st.Op != "cancel" && st.Op != "badreq" {
				images[st.Image] = true
			}
			switch st.Op {
			case "badreq":
				doBadReq(k, st)
			case "cancel":
				doCancel(k, st)
			case "req":
				doReq(k, st)
			case "done":
				doDone(k, st)
			case "overlap":
				doOverlap(k, st)
			default:
				return nil, fmt.Errorf("unknown op %q", st.Op)
			}
			if checkStuck(k) {
				break
			}
		}
		// drain: complete every pull that is still running, oldest first, images in order
		for k := len(sc.Steps); k < len(sc.Steps)+1000 && !h.stuck && !h.timedOut; k++ {
			h.mu.Lock()
			var imgs []string
			for img, l := range h.running {
				if len(l) > 0 {
					imgs = append(imgs, img)
				}
			}
			h.mu.Unlock()
			if len(imgs) == 0 {
				break
			}
			sort.Strings(imgs)
			st := rmStep{Op: "done", Image: imgs[0], Result: "ok"}
			obs.Drain = append(obs.Drain, st)
			doDone(k, st)
			checkStuck(k)
		}
		// who never returned
		names := make([]string, 0, len(images))
		for img := range images {
			names = append(names, img)
		}
		sort.Strings(names)
		h.mu.Lock()
		defer h.mu.Unlock()
		for _, img := range names {
			p := rmPending{Image: img, Callers: []int{}}
			for _, r := range h.reqs {
				if r.image == img && !r.answered {
					p.Callers = append(p.Callers, r.caller)
				}
			}
			obs.Pending = append(obs.Pending, p)
		}
		// aliasing: every returned package must show its own mutation only, every original none,
		// and no two of them may share a backing array
		alias := map[[2]int]bool{}
		type arr struct {
			owner int // request step + 1, 0 = an original
			p     *byte
		}
		var arrays []arr
		for _, r := range h.reqs {
			if !r.answered || r.pkg == nil {
				continue
			}
			me := r.step + 1
			own := fmt.Sprintf("mut-%d", r.step)
			want := map[string]bool{own: true, "id": true}
			for key := range pristineFiles() {
				if key != "gone" {
					want[key] = true
				}
			}
			for key, b := range r.pkg.Files {
				if strings.HasPrefix(key, "mut-") && key != own {
					j, _ := strconv.Atoi(key[4:])
					alias[[2]int{me, j + 1}] = true
					continue
				}
				if !want[key] {
					alias[[2]int{me, me}] = true
					continue
				}
				if p := backing(b); p != nil {
					arrays = append(arrays, arr{me, p})
				}
				if key == own || key == "id" {
					continue
				}
				if !bytes.Equal(b, expectAfterMutate(key, r.step)) {
					alias[[2]int{me, foreignByte(b, me)}] = true
				} else if j := foreignByte(b, me); j != 0 {
					alias[[2]int{me, j}] = true
				}
			}
			for key := range want {
				if _, ok := r.pkg.Files[key]; !ok {
					alias[[2]int{me, me}] = true
				}
			}
		}
		for _, p := range h.all {
			prist := pristineFiles()
			prist["id"] = []byte(fmt.Sprintf("%s#%d", p.image, p.n))
			if len(p.orig.Files) != len(prist) {
				alias[[2]int{0, 0}] = true
			}
			for key, b := range p.orig.Files {
				if strings.HasPrefix(key, "mut-") {
					j, _ := strconv.Atoi(key[4:])
					alias[[2]int{0, j + 1}] = true
					continue
				}
				if q := backing(b); q != nil {
					arrays = append(arrays, arr{0, q})
				}
				w, ok := prist[key]
				if !ok || !bytes.Equal(b, w) {
					alias[[2]int{0, foreignByte(b, 0)}] = true
					continue
				}
				// spare capacity of the original must be untouched
				for _, x := range b[len(b):cap(b)] {
					if x != 0 {
						alias[[2]int{0, foreignByte(b, 0)}] = true
						break
					}
				}
			}
		}
		seen := map[*byte]int{}
		for _, a := range arrays {
			if o, dup := seen[a.p]; dup {
				lo, hi := o, a.owner
				if lo > hi {
					lo, hi = hi, lo
				}
				alias[[2]int{lo, hi}] = true
			} else {
				seen[a.p] = a.owner
			}
		}
		for a := range alias {
			obs.Alias = append(obs.Alias, a)
		}
		sort.Slice(obs.Alias, func(i, j int) bool {
			if obs.Alias[i][0] != obs.Alias[j][0] {
				return obs.Alias[i][0] < obs.Alias[j][0]
			}
			return obs.Alias[i][1] < obs.Alias[j][1]
		})
		obs.Flags = append(obs.Flags, h.flags...)
		return obs, nil
	})
}
