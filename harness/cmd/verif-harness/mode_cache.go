//go:build verif

package main

import (
	"bytes"
	"context"
	"encoding/json"
	"errors"
	"fmt"
	goruntime "runtime"
	"sort"
	"strconv"
	"strings"
	"sync"
	"time"

	corev1 "k8s.io/api/core/v1"
	apierrors "k8s.io/apimachinery/pkg/api/errors"
	metav1 "k8s.io/apimachinery/pkg/apis/meta/v1"
	"k8s.io/apimachinery/pkg/apis/meta/v1/unstructured"
	"k8s.io/apimachinery/pkg/runtime"
	"k8s.io/apimachinery/pkg/runtime/schema"
	"k8s.io/apimachinery/pkg/types"
	toolscache "k8s.io/client-go/tools/cache"
	"k8s.io/client-go/util/workqueue"
	"sigs.k8s.io/controller-runtime/pkg/client"
	"sigs.k8s.io/controller-runtime/pkg/event"
	"sigs.k8s.io/controller-runtime/pkg/reconcile"

	"package-operator.run/internal/constants"
	"package-operator.run/internal/controllers"
	"package-operator.run/internal/dynamiccache"
)

// C12: drives the real dynamiccache.Cache, wired to a scripted informer map,
// through sequences of Watch/Free/Get/List/OwnersForGKV.
//
// modes:
//   cache      one op sequence -> per-op observations (JSON)
//   cachetree  all continuations of a prefix over an alphabet up to a depth -> compact ints
//   cacherace  several programs run by concurrent goroutines on one Cache -> per-op errors + final state
//   cacheoverlap  call A is held inside one of its informer-map / informer calls while other calls are
//              started on their own goroutines -> per-call results + final state (judged by linearizability)

type cacheOp struct {
	Op string `json:"op"` // watch | free | get | list | owners | finalize | ensure
	// finalize: controllers.FreeCacheAndRemoveFinalizer(owner o), ensure: controllers.EnsureCachedFinalizer(owner o)
	Patch string `json:"patch"` // how the API server answers the finalizer patch: ok | notfound | conflict | internal | lost
	Fin   bool   `json:"fin"`   // the owner object in hand carries the cached finalizer
	O     int    `json:"o"`     // owner index
	G     int    `json:"g"`     // kind index
	Out   string `json:"out"`   // ok | get | sync | hf | del
	K     int    `json:"k"`     // index of the failing AddEventHandler call for out == hf
}

type cacheEvent struct {
	T  string `json:"t"` // get | start | add | delete | stop
	G  int    `json:"g"`
	H  int    `json:"h"`
	OK bool   `json:"ok"`
}

type cacheStepObs struct {
	Err    string       `json:"err"` // none | notstarted | get | handler | delete | other:<msg>
	Events []cacheEvent `json:"ev"`
	// Res: result of OwnersForGKV when that was the op: {"nil":true} or {"owners":[..]}
	Res  *ownersRes `json:"res,omitempty"`
	Snap []*[]int   `json:"snap"` // OwnersForGKV of every kind after the op; null = nil slice
	// finalize / ensure only
	Sent *bool  `json:"sent,omitempty"` // a finalizer patch reached the API server
	Ret  string `json:"ret,omitempty"`  // nil | free (error from Cache.Free) | patch (error from the patch)
}

// patchClient is a client.Client whose Patch is scripted; nothing else is used by the finalizer helpers.
type patchClient struct {
	client.Client
	outcome string
	sent    bool
	body    string
}

var errLostResponse = errors.New("scripted: connection reset while reading the patch response")

func (p *patchClient) Patch(_ context.Context, obj client.Object, patch client.Patch, _ ...client.PatchOption) error {
	p.sent = true
	if b, err := patch.Data(obj); err == nil {
		p.body = string(b)
	}
	gr := schema.GroupResource{Resource: "configmaps"}
	switch p.outcome {
	case "notfound":
		return apierrors.NewNotFound(gr, obj.GetName())
	case "conflict":
		return apierrors.NewConflict(gr, obj.GetName(), errors.New("resourceVersion changed"))
	case "internal":
		return apierrors.NewInternalError(errors.New("etcd leader changed"))
	case "lost":
		return errLostResponse
	}
	return nil
}

// finalizerStep runs the real finalizer helper of internal/controllers for owner o.
func (r *cacheRig) finalizerStep(op cacheOp) (string, bool, error) {
	owner := ownerObject(op.O)
	if op.Fin {
		owner.SetFinalizers([]string{constants.CachedFinalizer})
	}
	owner.SetResourceVersion("7")
	pc := &patchClient{outcome: op.Patch}
	ctx := context.Background()
	var err error
	switch op.Op {
	case "finalize":
		err = controllers.FreeCacheAndRemoveFinalizer(ctx, pc, owner, r.c)
	case "ensure":
		err = controllers.EnsureCachedFinalizer(ctx, pc, owner)
	}
	ret := "nil"
	switch {
	case err == nil:
	case errors.Is(err, errScriptedDelete):
		ret = "free"
	case pc.sent:
		ret = "patch"
	default:
		return "", false, fmt.Errorf("finalizer helper failed in an unexpected way: %w", err)
	}
	if pc.sent {
		has := strings.Contains(pc.body, constants.CachedFinalizer)
		if (op.Op == "finalize") == has {
			return "", false, fmt.Errorf("unexpected finalizer patch body %s", pc.body)
		}
	}
	return ret, pc.sent, nil
}

type ownersRes struct {
	Nil    bool  `json:"nil"`
	Owners []int `json:"owners"`
}

var (
	errScriptedGet    = errors.New("scripted: informerMap.Get fails")
	errScriptedAdd    = errors.New("scripted: AddEventHandler fails")
	errScriptedDelete = errors.New("scripted: informerMap.Delete fails")
)

var cacheScheme = func() *runtime.Scheme {
	s := runtime.NewScheme()
	if err := corev1.AddToScheme(s); err != nil {
		panic(err)
	}
	return s
}()

// kind 0 and 1 are typed core kinds (the converted path of ensureUnstructured),
// all others are unstructured custom kinds.
func kindGVK(i int) schema.GroupVersionKind {
	switch i {
	case 0:
		return schema.GroupVersionKind{Version: "v1", Kind: "Secret"}
	case 1:
		return schema.GroupVersionKind{Version: "v1", Kind: "ConfigMap"}
	case 2:
		return schema.GroupVersionKind{Group: "verif.package-operator.run", Version: "v1", Kind: "Widget"}
	case 3: // the same kind as 2 in another API version
		return schema.GroupVersionKind{Group: "verif.package-operator.run", Version: "v1beta1", Kind: "Widget"}
	case 4: // cluster-scoped
		return schema.GroupVersionKind{Group: "verif.package-operator.run", Version: "v1", Kind: "ClusterWidget"}
	}
	return schema.GroupVersionKind{Group: "verif.package-operator.run", Version: "v1", Kind: "K" + strconv.Itoa(i)}
}

// kindNamespaced: the scope the API (RESTMapper) declares for the kind.
func kindNamespaced(i int) bool { return i != 4 }

func kindObject(i int) client.Object { return kindObjectNS(i, "ns") }

// kindObjectNS: a sample object of the kind with the given namespace ("" = none).
func kindObjectNS(i int, ns string) client.Object {
	switch i {
	case 0:
		return &corev1.Secret{ObjectMeta: metav1.ObjectMeta{Name: "x", Namespace: ns}}
	case 1:
		return &corev1.ConfigMap{ObjectMeta: metav1.ObjectMeta{Name: "x", Namespace: ns}}
	}
	u := &unstructured.Unstructured{}
	u.SetGroupVersionKind(kindGVK(i))
	u.SetName("x")
	u.SetNamespace(ns)
	return u
}

func kindList(i int) client.ObjectList {
	switch i {
	case 0:
		return &corev1.SecretList{}
	case 1:
		return &corev1.ConfigMapList{}
	}
	u := &unstructured.UnstructuredList{}
	gvk := kindGVK(i)
	gvk.Kind += "List"
	u.SetGroupVersionKind(gvk)
	return u
}

// ownerObject: owners 2k and 2k+1 are two incarnations of the same-named object (an old, terminating one
// and its re-created successor): same kind, namespace and name, different UID. Owners of different
// pairs differ in name as well.
func ownerObject(i int) client.Object {
	return &corev1.ConfigMap{ObjectMeta: metav1.ObjectMeta{
		Name: "o" + strconv.Itoa(i&^1), Namespace: "owners", UID: types.UID("uid-o" + strconv.Itoa(i)),
	}}
}

// ownerIndex identifies an owner reference by its UID; a reference without UID can only be told apart
// by name, i.e. it is reported as the first incarnation of that name.
func ownerIndex(ref dynamiccache.OwnerReference) int {
	if u := string(ref.UID); strings.HasPrefix(u, "uid-o") {
		if n, err := strconv.Atoi(strings.TrimPrefix(u, "uid-o")); err == nil {
			return n
		}
	}
	n, err := strconv.Atoi(strings.TrimPrefix(ref.Name, "o"))
	if err != nil {
		return -1
	}
	return n
}

// recHandler is a controller event handler that records that it was called.
type recHandler struct {
	id   int
	sink *int
}

func (h recHandler) Create(context.Context, event.CreateEvent, workqueue.TypedRateLimitingInterface[reconcile.Request]) {
	*h.sink = h.id
}

func (h recHandler) Update(context.Context, event.UpdateEvent, workqueue.TypedRateLimitingInterface[reconcile.Request]) {
}

func (h recHandler) Delete(context.Context, event.DeleteEvent, workqueue.TypedRateLimitingInterface[reconcile.Request]) {
}

func (h recHandler) Generic(context.Context, event.GenericEvent, workqueue.TypedRateLimitingInterface[reconcile.Request]) {
}

// scriptedMap implements the informerMap interface of the Cache with the
// semantics of the real InformerMap (Get returns the informer of a kind and
// starts one on demand, Delete stops it) and scripted failures.
type scriptedMap struct {
	mu        sync.Mutex
	kinds     map[schema.GroupVersionKind]int
	informers map[int]*fakeInformer
	log       []cacheEvent
	// armed for the current op
	failGet    string // "", "early" (nothing started), "sync" (started, then error)
	failAdd    int    // index of the AddEventHandler call that fails, -1: none
	failDelete bool
	addCount   int
	// handler identification
	idMu sync.Mutex
	sink int
	// overlapping calls (mode cacheoverlap); nil otherwise
	overlap *overlapCtl
}

// overlapCtl: call slot 0 ("A") is held inside its hookCall-th informer-map / informer call
// (before or after the call's effect) while the other calls are started.
type overlapCtl struct {
	mu       sync.Mutex
	slots    map[int64]int // goroutine id -> call slot
	logs     [][]cacheEvent
	aCalls   int
	hookCall int
	hookWhen string // pre | post
	fired    bool
	launch   func()
}

func goid() int64 {
	var buf [64]byte
	n := goruntime.Stack(buf[:], false)
	// "goroutine 123 [running]:"
	f := bytes.Fields(buf[:n])
	if len(f) < 2 {
		return -1
	}
	id, err := strconv.ParseInt(string(f[1]), 10, 64)
	if err != nil {
		return -1
	}
	return id
}

// goroutineBlockedOnLock reports whether the goroutine is parked in a sync.Mutex / sync.RWMutex.
func goroutineBlockedOnLock(id int64) bool {
	buf := make([]byte, 1<<16)
	for {
		n := goruntime.Stack(buf, true)
		if n < len(buf) {
			buf = buf[:n]
			break
		}
		buf = make([]byte, 2*len(buf))
	}
	head := []byte("goroutine " + strconv.FormatInt(id, 10) + " [")
	i := bytes.Index(buf, head)
	if i < 0 {
		return false
	}
	rest := buf[i+len(head):]
	j := bytes.IndexByte(rest, ']')
	if j < 0 {
		return false
	}
	state := string(rest[:j])
	return strings.Contains(state, "Lock") || strings.Contains(state, "semacquire")
}

// slot of the calling goroutine: -1 outside the overlap mode.
func (m *scriptedMap) slot() int {
	o := m.overlap
	if o == nil {
		return -1
	}
	id := goid()
	o.mu.Lock()
	defer o.mu.Unlock()
	if s, ok := o.slots[id]; ok {
		return s
	}
	return -1
}

// enter numbers the hookable calls of slot 0.
func (m *scriptedMap) enter(slot int) int {
	o := m.overlap
	if o == nil || slot != 0 {
		return -1
	}
	o.mu.Lock()
	defer o.mu.Unlock()
	o.aCalls++
	return o.aCalls - 1
}

// hook must be called without m.mu held: the calls it starts use the scripted map themselves.
func (m *scriptedMap) hook(slot, idx int, when string) {
	o := m.overlap
	if o == nil || slot != 0 {
		return
	}
	o.mu.Lock()
	fire := !o.fired && idx == o.hookCall && when == o.hookWhen
	if fire {
		o.fired = true
	}
	o.mu.Unlock()
	if fire {
		o.launch()
	}
}

// armed: scripted failures belong to slot 0 when calls overlap.
func (m *scriptedMap) armed(slot int) bool { return m.overlap == nil || slot == 0 }

// logEv is called with m.mu held.
func (m *scriptedMap) logEv(slot int, ev cacheEvent) {
	m.log = append(m.log, ev)
	if o := m.overlap; o != nil && slot >= 0 {
		o.mu.Lock()
		o.logs[slot] = append(o.logs[slot], ev)
		o.mu.Unlock()
	}
}

type fakeInformer struct {
	toolscache.SharedIndexInformer // nil: any other method panics
	m                              *scriptedMap
	kind                           int
	attached                       []int
}

type fakeReader struct{}

func (fakeReader) Get(context.Context, client.ObjectKey, client.Object, ...client.GetOption) error {
	return nil
}
func (fakeReader) List(context.Context, client.ObjectList, ...client.ListOption) error { return nil }

func (m *scriptedMap) Get(
	_ context.Context, gvk schema.GroupVersionKind, _ runtime.Object,
) (toolscache.SharedIndexInformer, client.Reader, error) {
	slot := m.slot()
	idx := m.enter(slot)
	m.hook(slot, idx, "pre")
	inf, rd, err := m.get(slot, gvk)
	m.hook(slot, idx, "post")
	return inf, rd, err
}

func (m *scriptedMap) get(slot int, gvk schema.GroupVersionKind) (toolscache.SharedIndexInformer, client.Reader, error) {
	m.mu.Lock()
	defer m.mu.Unlock()
	k, ok := m.kinds[gvk]
	if !ok {
		return nil, nil, fmt.Errorf("harness: unknown gvk %v", gvk)
	}
	mode := ""
	if m.armed(slot) {
		mode = m.failGet
		m.failGet = ""
	}
	if mode == "early" {
		m.logEv(slot, cacheEvent{T: "get", G: k, OK: false})
		return nil, nil, errScriptedGet
	}
	m.logEv(slot, cacheEvent{T: "get", G: k, OK: mode == ""})
	inf, ok := m.informers[k]
	if !ok {
		inf = &fakeInformer{m: m, kind: k}
		m.informers[k] = inf
		m.logEv(slot, cacheEvent{T: "start", G: k})
	}
	if mode == "sync" {
		return nil, nil, errScriptedGet
	}
	return inf, fakeReader{}, nil
}

func (m *scriptedMap) Delete(_ context.Context, gvk schema.GroupVersionKind) error {
	slot := m.slot()
	idx := m.enter(slot)
	m.hook(slot, idx, "pre")
	err := m.delete(slot, gvk)
	m.hook(slot, idx, "post")
	return err
}

func (m *scriptedMap) delete(slot int, gvk schema.GroupVersionKind) error {
	m.mu.Lock()
	defer m.mu.Unlock()
	k, ok := m.kinds[gvk]
	if !ok {
		return fmt.Errorf("harness: unknown gvk %v", gvk)
	}
	if m.failDelete && m.armed(slot) {
		m.logEv(slot, cacheEvent{T: "delete", G: k, OK: false})
		return errScriptedDelete
	}
	m.logEv(slot, cacheEvent{T: "delete", G: k, OK: true})
	if _, ok := m.informers[k]; ok {
		delete(m.informers, k)
		m.logEv(slot, cacheEvent{T: "stop", G: k})
	}
	return nil
}

// AddEventHandler finds out which registered controller handler is behind the
// given informer handler by delivering a probe event to it.
func (f *fakeInformer) AddEventHandler(h toolscache.ResourceEventHandler) (toolscache.ResourceEventHandlerRegistration, error) {
	m := f.m
	m.idMu.Lock()
	m.sink = -1
	probe := &unstructured.Unstructured{}
	probe.SetGroupVersionKind(kindGVK(f.kind))
	probe.SetName("probe")
	h.OnAdd(probe, false)
	id := m.sink
	m.idMu.Unlock()

	slot := m.slot()
	idx := m.enter(slot)
	m.hook(slot, idx, "pre")
	err := f.add(slot, id)
	m.hook(slot, idx, "post")
	return nil, err
}

func (f *fakeInformer) add(slot, id int) error {
	m := f.m
	m.mu.Lock()
	defer m.mu.Unlock()
	fail := false
	if m.armed(slot) {
		fail = m.failAdd >= 0 && m.addCount == m.failAdd
		m.addCount++
	}
	if fail {
		m.logEv(slot, cacheEvent{T: "add", G: f.kind, H: id, OK: false})
		return errScriptedAdd
	}
	f.attached = append(f.attached, id)
	m.logEv(slot, cacheEvent{T: "add", G: f.kind, H: id, OK: true})
	return nil
}

type cacheRig struct {
	c      *dynamiccache.Cache
	m      *scriptedMap
	nkinds int
}

func newCacheRig(handlers, kinds int) (*cacheRig, error) {
	m := &scriptedMap{kinds: map[schema.GroupVersionKind]int{}, informers: map[int]*fakeInformer{}, failAdd: -1}
	for i := 0; i < kinds; i++ {
		m.kinds[kindGVK(i)] = i
	}
	c := dynamiccache.VerifNewCache(cacheScheme, m)
	ctx := context.Background()
	// the path controllers take: Cache.Source(handler) at setup, source.Start(ctx, queue) when the
	// controller starts, Cache.Start when the manager starts
	for i := 0; i < handlers; i++ {
		src := c.Source(recHandler{id: i, sink: &m.sink})
		if err := src.Start(ctx, nil); err != nil {
			return nil, err
		}
	}
	if err := c.Start(ctx); err != nil {
		return nil, err
	}
	return &cacheRig{c: c, m: m, nkinds: kinds}, nil
}

func classifyCacheErr(err error) string {
	var notStarted *dynamiccache.CacheNotStartedError
	switch {
	case err == nil:
		return "none"
	case errors.As(err, &notStarted):
		return "notstarted"
	case errors.Is(err, errScriptedGet):
		return "get"
	case errors.Is(err, errScriptedAdd):
		return "handler"
	case errors.Is(err, errScriptedDelete):
		return "delete"
	}
	return "other:" + err.Error()
}

func sortedOwners(refs []dynamiccache.OwnerReference) *[]int {
	if refs == nil {
		return nil
	}
	out := make([]int, 0, len(refs))
	for _, r := range refs {
		out = append(out, ownerIndex(r))
	}
	sort.Ints(out)
	return &out
}

func (r *cacheRig) snapshot() []*[]int {
	out := make([]*[]int, r.nkinds)
	for i := 0; i < r.nkinds; i++ {
		out[i] = sortedOwners(r.c.OwnersForGKV(kindGVK(i)))
	}
	return out
}

// call runs one operation on the real Cache and returns its error class and,
// for OwnersForGKV, the result.
func (r *cacheRig) call(op cacheOp) (string, *ownersRes, error) {
	ctx := context.Background()
	if op.G < 0 || op.G >= r.nkinds {
		return "", nil, fmt.Errorf("kind %d out of range", op.G)
	}
	switch op.Op {
	case "watch":
		return classifyCacheErr(r.c.Watch(ctx, ownerObject(op.O), kindObject(op.G))), nil, nil
	case "free":
		return classifyCacheErr(r.c.Free(ctx, ownerObject(op.O))), nil, nil
	case "get":
		return classifyCacheErr(r.c.Get(ctx, client.ObjectKey{Name: "x", Namespace: "ns"}, kindObject(op.G))), nil, nil
	case "list":
		return classifyCacheErr(r.c.List(ctx, kindList(op.G))), nil, nil
	case "owners":
		res := sortedOwners(r.c.OwnersForGKV(kindGVK(op.G)))
		if res == nil {
			return "none", &ownersRes{Nil: true, Owners: []int{}}, nil
		}
		return "none", &ownersRes{Owners: *res}, nil
	}
	return "", nil, fmt.Errorf("unknown op %q", op.Op)
}

// step runs one operation with its scripted outcome and observes it.
// arm scripts the outcome of the next operation.
func (r *cacheRig) arm(op cacheOp) error {
	m := r.m
	m.mu.Lock()
	defer m.mu.Unlock()
	m.log = nil
	m.addCount = 0
	m.failGet, m.failAdd, m.failDelete = "", -1, false
	switch op.Out {
	case "get":
		m.failGet = "early"
	case "sync":
		m.failGet = "sync"
	case "hf":
		m.failAdd = op.K
	case "del":
		m.failDelete = true
	case "ok", "":
	default:
		return fmt.Errorf("unknown outcome %q", op.Out)
	}
	return nil
}

func (r *cacheRig) step(op cacheOp) (cacheStepObs, error) {
	m := r.m
	if err := r.arm(op); err != nil {
		return cacheStepObs{}, err
	}

	var (
		cls  string
		res  *ownersRes
		err  error
		sent *bool
		ret  string
	)
	if op.Op == "finalize" || op.Op == "ensure" {
		var s bool
		ret, s, err = r.finalizerStep(op)
		cls, sent = "none", &s
	} else {
		cls, res, err = r.call(op)
	}
	if err != nil {
		return cacheStepObs{}, err
	}

	m.mu.Lock()
	evs := append([]cacheEvent{}, m.log...)
	m.failGet, m.failAdd, m.failDelete = "", -1, false
	m.mu.Unlock()
	return cacheStepObs{Err: cls, Events: evs, Res: res, Snap: r.snapshot(), Sent: sent, Ret: ret}, nil
}

type cacheScenario struct {
	Handlers int       `json:"handlers"`
	Kinds    int       `json:"kinds"`
	Ops      []cacheOp `json:"ops"`
}

type cacheObs struct {
	Steps []cacheStepObs `json:"steps"`
}

// ---- compact encoding for the tree mode

var opTags = map[string]int{"watch": 0, "free": 1, "get": 2, "list": 3, "owners": 4}
var outTags = map[string]int{"": 0, "ok": 0, "get": 1, "sync": 2, "hf": 3, "del": 4}
var errTags = map[string]int{"none": 0, "notstarted": 1, "get": 2, "handler": 3, "delete": 4}
var evTags = map[string]int{"get": 0, "start": 1, "add": 2, "delete": 3, "stop": 4}

func b2i(b bool) int {
	if b {
		return 1
	}
	return 0
}

func encOp(w *[]int, op cacheOp) {
	*w = append(*w, opTags[op.Op], op.O, op.G, outTags[op.Out], op.K)
}

func encObs(w *[]int, o cacheStepObs) error {
	e, ok := errTags[o.Err]
	if !ok {
		return fmt.Errorf("unexpected error class %q", o.Err)
	}
	*w = append(*w, e, len(o.Events))
	for _, ev := range o.Events {
		*w = append(*w, evTags[ev.T], ev.G, ev.H, b2i(ev.OK))
	}
	switch {
	case o.Res == nil:
		*w = append(*w, 0)
	case o.Res.Nil:
		*w = append(*w, 1)
	default:
		*w = append(*w, 2+len(o.Res.Owners))
		*w = append(*w, o.Res.Owners...)
	}
	for _, s := range o.Snap {
		if s == nil {
			*w = append(*w, 0)
		} else {
			*w = append(*w, 1+len(*s))
			*w = append(*w, *s...)
		}
	}
	return nil
}

type cacheTreeScenario struct {
	Handlers int       `json:"handlers"`
	Kinds    int       `json:"kinds"`
	Prefix   []cacheOp `json:"prefix"`
	Depth    int       `json:"depth"`
	Alphabet []cacheOp `json:"alphabet"`
}

// runPath runs a whole path on a fresh Cache and returns the observation of every op.
func runPath(handlers, kinds int, ops []cacheOp) ([]cacheStepObs, error) {
	rig, err := newCacheRig(handlers, kinds)
	if err != nil {
		return nil, err
	}
	out := make([]cacheStepObs, 0, len(ops))
	for _, op := range ops {
		o, err := rig.step(op)
		if err != nil {
			return nil, err
		}
		out = append(out, o)
	}
	return out, nil
}

type cacheRaceScenario struct {
	Handlers int         `json:"handlers"`
	Kinds    int         `json:"kinds"`
	Programs [][]cacheOp `json:"programs"`
}

type cacheRaceObs struct {
	Errs      [][]string `json:"errs"`      // per program, per op: error class
	Snap      []*[]int   `json:"snap"`      // final OwnersForGKV per kind
	Informers []*[]int   `json:"informers"` // final informers per kind: attached handlers, null = none
	Starts    []int      `json:"starts"`    // per kind: number of informers started
	Stops     []int      `json:"stops"`
}

type cacheOverlapScenario struct {
	Handlers int       `json:"handlers"`
	Kinds    int       `json:"kinds"`
	Prefix   []cacheOp `json:"prefix"`
	Calls    []cacheOp `json:"calls"` // calls[0] is held inside a call, the others are started meanwhile
	HookCall int       `json:"hook_call"`
	HookWhen string    `json:"hook_when"` // pre | post
}

type cacheCallObs struct {
	Err    string       `json:"err"`
	Events []cacheEvent `json:"ev"`
	Res    *ownersRes   `json:"res,omitempty"`
	Inside bool         `json:"inside"` // returned while calls[0] was held
}

type cacheOverlapObs struct {
	Pre       []cacheStepObs `json:"pre"`
	Calls     []cacheCallObs `json:"calls"`
	Fired     bool           `json:"fired"` // calls[0] reached the hook
	Hung      bool           `json:"hung"`  // some call did not return
	Snap      []*[]int       `json:"snap"`
	Informers []*[]int       `json:"informers"` // per kind: handlers attached to the running informer, in order
}

const (
	overlapWindow = 50 * time.Millisecond
	overlapHang   = 5 * time.Second
)

func runOverlap(sc cacheOverlapScenario) (any, error) {
	if len(sc.Calls) == 0 {
		return nil, errors.New("no calls")
	}
	rig, err := newCacheRig(sc.Handlers, sc.Kinds)
	if err != nil {
		return nil, err
	}
	obs := cacheOverlapObs{Pre: []cacheStepObs{}, Calls: make([]cacheCallObs, len(sc.Calls))}
	for _, op := range sc.Prefix {
		o, err := rig.step(op)
		if err != nil {
			return nil, err
		}
		obs.Pre = append(obs.Pre, o)
	}
	if err := rig.arm(sc.Calls[0]); err != nil {
		return nil, err
	}
	n := len(sc.Calls)
	ctl := &overlapCtl{slots: map[int64]int{goid(): 0}, logs: make([][]cacheEvent, n),
		hookCall: sc.HookCall, hookWhen: sc.HookWhen}
	done := make([]chan struct{}, n)
	var callErr error
	var errMu sync.Mutex
	run := func(i int) {
		cls, res, err := rig.call(sc.Calls[i])
		if err != nil {
			errMu.Lock()
			callErr = err
			errMu.Unlock()
		}
		obs.Calls[i].Err, obs.Calls[i].Res = cls, res
	}
	ctl.launch = func() {
		// start the other calls one after the other; each gets the chance to return or to block
		for i := 1; i < n; i++ {
			done[i] = make(chan struct{})
			ready := make(chan int64)
			go func(i int) {
				id := goid()
				ctl.mu.Lock()
				ctl.slots[id] = i
				ctl.mu.Unlock()
				ready <- id
				run(i)
				close(done[i])
			}(i)
			id := <-ready
			deadline := time.Now().Add(overlapWindow)
			seen := 0
		wait:
			for {
				select {
				case <-done[i]:
					obs.Calls[i].Inside = true
					break wait
				default:
				}
				if time.Now().After(deadline) {
					break
				}
				if goroutineBlockedOnLock(id) {
					seen++
					if seen >= 2 {
						break
					}
				} else {
					seen = 0
				}
				time.Sleep(100 * time.Microsecond)
			}
		}
	}
	rig.m.mu.Lock()
	rig.m.overlap = ctl
	rig.m.mu.Unlock()

	run(0)

	ctl.mu.Lock()
	obs.Fired = ctl.fired
	ctl.mu.Unlock()
	if obs.Fired {
		for i := 1; i < n; i++ {
			select {
			case <-done[i]:
			case <-time.After(overlapHang):
				obs.Hung = true
			}
		}
	} else {
		// calls[0] never reached the hook: run the others after it, one by one
		for i := 1; i < n; i++ {
			ctl.mu.Lock()
			ctl.slots[goid()] = i
			ctl.mu.Unlock()
			run(i)
		}
	}
	if obs.Hung {
		return obs, nil
	}
	errMu.Lock()
	defer errMu.Unlock()
	if callErr != nil {
		return nil, callErr
	}
	obs.Snap = rig.snapshot()
	rig.m.mu.Lock()
	defer rig.m.mu.Unlock()
	obs.Informers = make([]*[]int, sc.Kinds)
	for k, inf := range rig.m.informers {
		att := append([]int{}, inf.attached...)
		obs.Informers[k] = &att
	}
	ctl.mu.Lock()
	defer ctl.mu.Unlock()
	for i := range obs.Calls {
		obs.Calls[i].Events = append([]cacheEvent{}, ctl.logs[i]...)
	}
	return obs, nil
}

func init() {
	register("cacheoverlap", func(raw json.RawMessage) (any, error) {
		var sc cacheOverlapScenario
		if err := json.Unmarshal(raw, &sc); err != nil {
			return nil, err
		}
		return runOverlap(sc)
	})

	register("cache", func(raw json.RawMessage) (any, error) {
		var sc cacheScenario
		if err := json.Unmarshal(raw, &sc); err != nil {
			return nil, err
		}
		steps, err := runPath(sc.Handlers, sc.Kinds, sc.Ops)
		if err != nil {
			return nil, err
		}
		return cacheObs{Steps: steps}, nil
	})

	// Output: one string of space-separated integers:
	//   handlers kinds nprefix (op)* depth nalpha (op)* (obs of each prefix op)* subtree
	//   subtree(d) = for each letter of the alphabet: obs, then subtree(d-1) if d > 1
	register("cachetree", func(raw json.RawMessage) (any, error) {
		var sc cacheTreeScenario
		if err := json.Unmarshal(raw, &sc); err != nil {
			return nil, err
		}
		w := make([]int, 0, 1<<16)
		w = append(w, sc.Handlers, sc.Kinds, len(sc.Prefix))
		for _, op := range sc.Prefix {
			encOp(&w, op)
		}
		w = append(w, sc.Depth, len(sc.Alphabet))
		for _, op := range sc.Alphabet {
			encOp(&w, op)
		}
		pre, err := runPath(sc.Handlers, sc.Kinds, sc.Prefix)
		if err != nil {
			return nil, err
		}
		for _, o := range pre {
			if err := encObs(&w, o); err != nil {
				return nil, err
			}
		}
		// Every node re-runs its whole path on a fresh Cache. Free visits the kinds in Go's map
		// iteration order, so a re-run may legitimately take another branch than the run that
		// produced the parent's observation; re-run until the observations of the shared prefix
		// are the ones already printed, so that every root-to-leaf path is one consistent run.
		path := append([]cacheOp{}, sc.Prefix...)
		seen := make([][]int, 0, len(sc.Prefix)+sc.Depth)
		for _, o := range pre {
			var e []int
			if err := encObs(&e, o); err != nil {
				return nil, err
			}
			seen = append(seen, e)
		}
		same := func(a, b []int) bool {
			if len(a) != len(b) {
				return false
			}
			for i := range a {
				if a[i] != b[i] {
					return false
				}
			}
			return true
		}
		var rec func(d int) error
		rec = func(d int) error {
			if d == 0 {
				return nil
			}
			for _, op := range sc.Alphabet {
				path = append(path, op)
				var last []int
				for try := 0; ; try++ {
					if try == 2000 {
						return fmt.Errorf("no run reproduces the observations of the prefix of %v", path)
					}
					obs, err := runPath(sc.Handlers, sc.Kinds, path)
					if err != nil {
						return err
					}
					okPrefix := true
					for i := range seen {
						var e []int
						if err := encObs(&e, obs[i]); err != nil {
							return err
						}
						if !same(e, seen[i]) {
							okPrefix = false
							break
						}
					}
					if !okPrefix {
						continue
					}
					last = nil
					if err := encObs(&last, obs[len(obs)-1]); err != nil {
						return err
					}
					break
				}
				w = append(w, last...)
				seen = append(seen, last)
				if err := rec(d - 1); err != nil {
					return err
				}
				seen = seen[:len(seen)-1]
				path = path[:len(path)-1]
			}
			return nil
		}
		if err := rec(sc.Depth); err != nil {
			return nil, err
		}
		var sb strings.Builder
		sb.Grow(len(w) * 3)
		for i, x := range w {
			if i > 0 {
				sb.WriteByte(' ')
			}
			sb.WriteString(strconv.Itoa(x))
		}
		return sb.String(), nil
	})

	// Concurrent callers: every program is run by its own goroutine on one shared Cache, `rounds`
	// times over; no scripted failures. The race detector (harness built with -race) watches.
	register("cacherace", func(raw json.RawMessage) (any, error) {
		var sc cacheRaceScenario
		if err := json.Unmarshal(raw, &sc); err != nil {
			return nil, err
		}
		rig, err := newCacheRig(sc.Handlers, sc.Kinds)
		if err != nil {
			return nil, err
		}
		obs := cacheRaceObs{Errs: make([][]string, len(sc.Programs))}
		var wg sync.WaitGroup
		start := make(chan struct{})
		errCh := make(chan error, len(sc.Programs))
		for i, prog := range sc.Programs {
			wg.Add(1)
			go func(i int, prog []cacheOp) {
				defer wg.Done()
				<-start
				for _, op := range prog {
					cls, _, err := rig.call(op)
					if err != nil {
						errCh <- err
						return
					}
					obs.Errs[i] = append(obs.Errs[i], cls)
				}
			}(i, prog)
		}
		close(start)
		wg.Wait()
		select {
		case err := <-errCh:
			return nil, err
		default:
		}
		obs.Snap = rig.snapshot()
		rig.m.mu.Lock()
		defer rig.m.mu.Unlock()
		obs.Informers = make([]*[]int, sc.Kinds)
		obs.Starts = make([]int, sc.Kinds)
		obs.Stops = make([]int, sc.Kinds)
		for k, inf := range rig.m.informers {
			att := append([]int{}, inf.attached...)
			sort.Ints(att)
			obs.Informers[k] = &att
		}
		for _, ev := range rig.m.log {
			switch ev.T {
			case "start":
				obs.Starts[ev.G]++
			case "stop":
				obs.Stops[ev.G]++
			}
		}
		return obs, nil
	})
}
