//go:build verif

package main

// C17, the callers of the prober.
//
// probephase mode: the real controllers.PhaseReconciler.ReconcilePhase (with the real boxcutter owner
// strategy and preflight checkers, against the recording store) reconciles one phase whose objects already
// exist with a given status; the prober is built by the real internal/probing.Parse from the scenario's
// ObjectSetProbes. Reported: for every object what was probed (the object ReconcilePhase returned), whether
// the ProbingResult names it, the number of FailedProbes entries and whether the result is zero.
//
// probehistory mode: ONE real ObjectSet controller (objectsets.NewObjectSetController) lives through a
// history of steps on the same store: ObjectSets are created (new UID every time, names are reused),
// reconciled, deleted (normally or with the `orphan` finalizer) or archived. Every reconcile step reports
// the verdict the controller wrote into the ObjectSet's status, to be compared with the model's verdict for
// the probes of THAT ObjectSet.

import (
	"context"
	"encoding/json"
	"fmt"
	"reflect"
	"strconv"
	"strings"

	"github.com/go-logr/logr"
	metav1 "k8s.io/apimachinery/pkg/apis/meta/v1"
	"k8s.io/apimachinery/pkg/apis/meta/v1/unstructured"
	"k8s.io/apimachinery/pkg/runtime"
	"k8s.io/apimachinery/pkg/types"
	ctrl "sigs.k8s.io/controller-runtime"

	corev1alpha1 "package-operator.run/apis/core/v1alpha1"
	"package-operator.run/internal/adapters"
	"package-operator.run/internal/constants"
	"package-operator.run/internal/controllers"
	"package-operator.run/internal/controllers/objectsets"
	internalprobing "package-operator.run/internal/probing"
	"package-operator.run/pkg/probing"
)

const probeNS = "ns1"

type probeItem struct {
	// Missing: ReconcilePhase did not return the object (its lookup ended in NotFound, RecordMissingObject)
	Missing bool       `json:"missing,omitempty"`
	Object  any        `json:"object"` // the object as probed; float64 values are tagged {"$f": "<value>"}
	Failed  bool       `json:"failed"` // some FailedProbes entry names this object
	Entry   string     `json:"entry,omitempty"`
	CEL     []probeCEL `json:"cel"`
	// the real prober run directly on a copy of the probed object (diagnostics)
	DirectOK   bool `json:"directOK"`
	DirectMsgs int  `json:"directMsgs"`
}

type probePassObs struct {
	ParseErr     *probeParseErr `json:"parseErr,omitempty"`
	Res          string         `json:"res"` // ok | err
	Err          string         `json:"err,omitempty"`
	Items        []probeItem    `json:"items"`
	NFailed      int            `json:"nfailed"`      // len(ProbingResult.FailedProbes) / entries in the status message
	Unattributed int            `json:"unattributed"` // entries naming none of the objects
	Zero         bool           `json:"zero"`         // ProbingResult.IsZero() / ObjectSet reported Available
	PhaseName    string         `json:"phaseName,omitempty"`
	// history only
	Step      int      `json:"step"`    // index of the reconcile step
	Created   int      `json:"created"` // index of the create step of the ObjectSet that was reconciled
	UID       string   `json:"uid,omitempty"`
	Condition string   `json:"condition,omitempty"` // Available status/reason as written
	Message   string   `json:"message,omitempty"`
	Requests  []string `json:"requests,omitempty"` // the API requests of the pass (diagnostics)
}

type probePhaseScenario struct {
	Probes  []corev1alpha1.ObjectSetProbe `json:"probes"`
	Objects []json.RawMessage             `json:"objects"`
	Paused  bool                          `json:"paused"`
	// Uncached: indices of objects that are not in the dynamic cache (paused owners only look there:
	// the lookup ends in NotFound and the object is recorded as missing)
	Uncached []int `json:"uncached,omitempty"`
	// Absent: indices of objects that do not exist yet: the pass creates them from the phase (without status)
	Absent []int `json:"absent,omitempty"`
}

// tagFloats makes float64 values survive the JSON round trip to the check (2.0 would be printed as 2).
func tagFloats(v any) any {
	switch x := v.(type) {
	case float64:
		return map[string]any{"$f": strconv.FormatFloat(x, 'g', -1, 64)}
	case map[string]any:
		out := make(map[string]any, len(x))
		for k, e := range x {
			out[k] = tagFloats(e)
		}
		return out
	case []any:
		out := make([]any, len(x))
		for i, e := range x {
			out[i] = tagFloats(e)
		}
		return out
	default:
		return v
	}
}

// the entry recordingProbe.recordForObj writes for an object starts with this (phase_reconciler.go:136-137)
func entryPrefix(u *unstructured.Unstructured) string {
	gvk := u.GroupVersionKind()
	return fmt.Sprintf("%s %s %s/%s: ", gvk.Group, gvk.Kind, u.GetNamespace(), u.GetName())
}

// desiredOf: what a package author writes into the phase for an object that exists on the cluster.
func desiredOf(m *unstructured.Unstructured) corev1alpha1.ObjectSetObject {
	d := map[string]any{
		"apiVersion": m.GetAPIVersion(), "kind": m.GetKind(),
		"metadata": map[string]any{"name": m.GetName(), "namespace": m.GetNamespace()},
	}
	if spec, ok := m.Object["spec"]; ok {
		d["spec"] = runtime.DeepCopyJSONValue(spec)
	}
	return corev1alpha1.ObjectSetObject{Object: unstructured.Unstructured{Object: d}, CollisionProtection: corev1alpha1.CollisionProtectionNone}
}

func itemFor(ctx context.Context, probes []corev1alpha1.ObjectSetProbe, actual *unstructured.Unstructured) (probeItem, error) {
	it := probeItem{Object: tagFloats(actual.Object)}
	pure := true
	run := func(p probing.Prober) (bool, []string) {
		holder := actual.DeepCopy()
		ok, msgs, _ := safeProbe(p, holder)
		if !reflect.DeepEqual(holder.Object, actual.Object) {
			pure = false
		}
		return ok, msgs
	}
	it.CEL = celOracle(probes, actual)
	p, err := internalprobing.Parse(ctx, probes)
	if err != nil {
		return it, err
	}
	ok, msgs := run(p)
	it.DirectOK, it.DirectMsgs = ok, len(msgs)
	if !pure {
		return it, fmt.Errorf("probing changed the object")
	}
	return it, nil
}

// attribute the FailedProbes entries to the objects by their prefix.
func attribute(entries []string, objs []*unstructured.Unstructured, items []probeItem) (unattributed int) {
	for _, e := range entries {
		found := false
		for i, o := range objs {
			if strings.HasPrefix(e, entryPrefix(o)) && !items[i].Failed {
				items[i].Failed, items[i].Entry, found = true, e, true
				break
			}
		}
		if !found {
			unattributed++
		}
	}
	return unattributed
}

func init() {
	register("probephase", func(raw json.RawMessage) (any, error) {
		var sc probePhaseScenario
		if err := json.Unmarshal(raw, &sc); err != nil {
			return nil, err
		}
		ctx := context.Background()
		obs := probePassObs{Items: []probeItem{}}
		probe, err := internalprobing.Parse(ctx, sc.Probes)
		if err != nil {
			obs.ParseErr = classifyParseErr(err)
			return obs, nil
		}
		scheme := newScheme()
		s := NewStore(scheme, newMapper())
		putNamespaces(s, [][2]int{{1, 0}})
		phase := corev1alpha1.ObjectSetTemplatePhase{Name: "p1"}
		for _, r := range sc.Objects {
			m, err := decodeObject(r)
			if err != nil {
				return nil, err
			}
			uncached := false
			for _, u := range sc.Uncached {
				uncached = uncached || u == len(phase.Objects)
			}
			if sc.Paused && !uncached {
				// a paused owner only looks its objects up in the dynamic cache
				ls, _, _ := unstructured.NestedMap(m.Object, "metadata", "labels")
				if ls == nil {
					ls = map[string]any{}
				}
				ls[constants.DynamicCacheLabel] = "True"
				if err := unstructured.SetNestedMap(m.Object, ls, "metadata", "labels"); err != nil {
					return nil, err
				}
			}
			absent := false
			for _, a := range sc.Absent {
				absent = absent || a == len(phase.Objects)
			}
			if !absent {
				s.RawPut(m.Object, false)
			}
			phase.Objects = append(phase.Objects, desiredOf(m))
		}
		strategy, checker := flavorParts("objectset", scheme, s)
		cache := &fakeCache{s: s}
		pr := controllers.NewPhaseReconciler(scheme, s, cache, s, strategy, checker)
		owner := &adapters.ObjectSetAdapter{ObjectSet: corev1alpha1.ObjectSet{
			ObjectMeta: metav1.ObjectMeta{Name: "owner", Namespace: probeNS, UID: types.UID("u-owner"), Generation: 1},
		}}
		owner.Status.Revision = 1
		if sc.Paused {
			owner.Spec.LifecycleState = corev1alpha1.ObjectSetLifecycleStatePaused
		}
		s.ResetPass()
		actual, res, err := pr.ReconcilePhase(ctx, owner, phase, probe, nil)
		if err != nil {
			obs.Res, obs.Err = "err", err.Error()
			return obs, nil
		}
		obs.Res = "ok"
		// ReconcilePhase returns the objects it found, in phase order; the others were recorded as missing
		objs := []*unstructured.Unstructured{}
		next := 0
		for _, d := range phase.Objects {
			if next < len(actual) && actual[next].GetName() == d.Object.GetName() {
				u := actual[next].(*unstructured.Unstructured)
				next++
				it, err := itemFor(ctx, sc.Probes, u)
				if err != nil {
					return nil, err
				}
				objs = append(objs, u)
				obs.Items = append(obs.Items, it)
				continue
			}
			du := d.Object.DeepCopy()
			objs = append(objs, du)
			// no object, no oracle results; the compile classes of the rules are still needed to parse the list
			obs.Items = append(obs.Items, probeItem{Missing: true, CEL: celOracle(sc.Probes, du)})
		}
		if next != len(actual) {
			obs.Res, obs.Err = "err", fmt.Sprintf("%d objects returned, %d matched with the phase", len(actual), next)
			return obs, nil
		}
		obs.NFailed = len(res.FailedProbes)
		obs.Unattributed = attribute(res.FailedProbes, objs, obs.Items)
		obs.Zero = res.IsZero()
		obs.PhaseName = res.PhaseName
		return obs, nil
	})
}

// ---------------------------------------------------------------- history

type histStep struct {
	Op     string                        `json:"op"` // create | reconcile | delete | archive
	Name   string                        `json:"name"`
	Probes []corev1alpha1.ObjectSetProbe `json:"probes,omitempty"` // create
	Orphan bool                          `json:"orphan,omitempty"` // delete
}

type histScenario struct {
	Members []json.RawMessage `json:"members"`
	Steps   []histStep        `json:"steps"`
}

type histObs struct {
	Passes []probePassObs `json:"passes"`
	Err    string         `json:"err,omitempty"`
	Trace  []string       `json:"trace"`
}

func objectSetKey(name string) storeKey {
	return storeKey{corev1alpha1.GroupVersion.Group, "ObjectSet", probeNS, name}
}

func init() {
	register("probehistory", func(raw json.RawMessage) (any, error) {
		var sc histScenario
		if err := json.Unmarshal(raw, &sc); err != nil {
			return nil, err
		}
		ctx := context.Background()
		scheme := newScheme()
		s := NewStore(scheme, newMapper())
		putNamespaces(s, [][2]int{{1, 0}})
		members := []*unstructured.Unstructured{}
		for _, r := range sc.Members {
			m, err := decodeObject(r)
			if err != nil {
				return nil, err
			}
			members = append(members, m)
		}
		memberKey := func(m *unstructured.Unstructured) storeKey { return s.keyOf(m) }
		// ONE controller and ONE dynamic cache for the whole history.
		cache := &fakeCache{s: s}
		c := objectsets.NewObjectSetController(s, logr.Discard(), scheme, cache, s, nil, s.RESTMapper())
		reconcile := func(name string) error {
			s.ResetPass()
			_, err := c.Reconcile(ctx, ctrl.Request{NamespacedName: types.NamespacedName{Namespace: probeNS, Name: name}})
			return err
		}
		obs := histObs{Passes: []probePassObs{}, Trace: []string{}}
		created := map[string]int{} // uid -> create step
		for i, st := range sc.Steps {
			key := objectSetKey(st.Name)
			switch st.Op {
			case "create":
				if s.RawGet(key) != nil {
					return nil, fmt.Errorf("step %d: ObjectSet %s exists", i, st.Name)
				}
				// the objects of the phase exist on the cluster (again) with their status
				for _, m := range members {
					if s.RawGet(memberKey(m)) == nil {
						s.RawPut(m.Object, false)
					}
				}
				os := &corev1alpha1.ObjectSet{ObjectMeta: metav1.ObjectMeta{Name: st.Name, Namespace: probeNS, Generation: 1}}
				ph := corev1alpha1.ObjectSetTemplatePhase{Name: "p1"}
				for _, m := range members {
					ph.Objects = append(ph.Objects, desiredOf(m))
				}
				os.Spec.Phases = []corev1alpha1.ObjectSetTemplatePhase{ph}
				os.Spec.AvailabilityProbes = st.Probes
				m, err := runtime.DefaultUnstructuredConverter.ToUnstructured(os)
				if err != nil {
					return nil, err
				}
				m["apiVersion"], m["kind"] = corev1alpha1.GroupVersion.String(), "ObjectSet"
				delete(m["metadata"].(map[string]any), "creationTimestamp")
				s.RawPut(m, false)
				uid := string((&unstructured.Unstructured{Object: s.RawGet(key)}).GetUID())
				created[uid] = i
				obs.Trace = append(obs.Trace, fmt.Sprintf("%d create %s uid=%s", i, st.Name, uid))
			case "reconcile":
				cur := s.RawGet(key)
				if cur == nil {
					return nil, fmt.Errorf("step %d: no ObjectSet %s", i, st.Name)
				}
				uid := string((&unstructured.Unstructured{Object: cur}).GetUID())
				po := probePassObs{Items: []probeItem{}, Step: i, Created: created[uid], UID: uid, Res: "ok"}
				var probes []corev1alpha1.ObjectSetProbe
				{
					var typed corev1alpha1.ObjectSet
					if err := runtime.DefaultUnstructuredConverter.FromUnstructured(cur, &typed); err != nil {
						return nil, err
					}
					probes = typed.Spec.AvailabilityProbes
				}
				if err := reconcile(st.Name); err != nil {
					po.Res, po.Err = "err", err.Error()
					obs.Passes = append(obs.Passes, po)
					continue
				}
				po.Requests = requestSummary(s.Log)
				// the verdict of the pass = the status the controller SENT (the store does not count a changed
				// condition message as a change, so its copy may carry the message of an earlier pass)
				var sent map[string]any
				for _, r := range s.Log {
					if r.Verb == "status-update" && r.Key == key && r.Err == "" {
						sent = r.Sent
					}
				}
				if sent == nil {
					po.Res, po.Err = "err", "the pass sent no status update"
					obs.Passes = append(obs.Passes, po)
					continue
				}
				conds, _, _ := unstructured.NestedSlice(sent, "status", "conditions")
				for _, ci := range conds {
					cm, ok := ci.(map[string]any)
					if !ok || cm["type"] != corev1alpha1.ObjectSetAvailable {
						continue
					}
					po.Condition = fmt.Sprintf("%v/%v", cm["status"], cm["reason"])
					po.Message, _ = cm["message"].(string)
				}
				switch po.Condition {
				case "True/Available":
					po.Zero = true
				case "False/ProbeFailure":
				default:
					po.Res, po.Err = "err", "unexpected Available condition "+po.Condition+": "+po.Message
					obs.Passes = append(obs.Passes, po)
					continue
				}
				// the objects as they are on the cluster after the pass = what the pass probed
				objs := []*unstructured.Unstructured{}
				for _, m := range members {
					u := &unstructured.Unstructured{Object: deepCopyMap(s.RawGet(memberKey(m)))}
					if u.Object == nil {
						po.Res, po.Err = "err", "member missing after the pass"
						break
					}
					it, err := itemFor(ctx, probes, u)
					if err != nil {
						return nil, err
					}
					objs = append(objs, u)
					po.Items = append(po.Items, it)
				}
				if po.Res == "ok" && !po.Zero {
					// `Phase "p1" failed: <entry>, <entry>...` (ProbingResult.String, phase_reconciler.go:166-173)
					msg := po.Message
					prefix := `Phase "p1" failed: `
					if !strings.HasPrefix(msg, prefix) {
						po.Res, po.Err = "err", "unexpected ProbeFailure message: "+msg
					} else {
						msg = msg[len(prefix):]
						for j, o := range objs {
							n := strings.Count(msg, entryPrefix(o))
							po.NFailed += n
							if n > 0 {
								po.Items[j].Failed = true
							}
						}
					}
				}
				obs.Passes = append(obs.Passes, po)
			case "delete", "archive":
				cur := s.RawGet(key)
				if cur == nil {
					return nil, fmt.Errorf("step %d: no ObjectSet %s", i, st.Name)
				}
				u := &unstructured.Unstructured{Object: deepCopyMap(cur)}
				if st.Op == "delete" {
					ts := metav1.Unix(1600000200+int64(i), 0)
					u.SetDeletionTimestamp(&ts)
					if st.Orphan {
						// kubectl delete --cascade=orphan
						u.SetFinalizers(append(u.GetFinalizers(), "orphan"))
					}
				} else {
					if err := unstructured.SetNestedField(u.Object, string(corev1alpha1.ObjectSetLifecycleStateArchived), "spec", "lifecycleState"); err != nil {
						return nil, err
					}
					u.SetGeneration(u.GetGeneration() + 1)
				}
				s.RawPut(u.Object, true)
				done := false
				for pass := 0; pass < 6 && !done; pass++ {
					if err := reconcile(st.Name); err != nil {
						obs.Err = fmt.Sprintf("step %d: %v", i, err)
						return obs, nil
					}
					now := s.RawGet(key)
					if now == nil {
						done = true
						break
					}
					nu := &unstructured.Unstructured{Object: now}
					if st.Op == "delete" {
						hasCached := false
						for _, f := range nu.GetFinalizers() {
							hasCached = hasCached || f == constants.CachedFinalizer
						}
						done = !hasCached
					} else {
						conds, _, _ := unstructured.NestedSlice(now, "status", "conditions")
						for _, ci := range conds {
							if cm, ok := ci.(map[string]any); ok && cm["type"] == corev1alpha1.ObjectSetArchived && cm["status"] == "True" {
								done = true
							}
						}
					}
				}
				if !done {
					obs.Err = fmt.Sprintf("step %d: %s of %s did not finish", i, st.Op, st.Name)
					return obs, nil
				}
				// the garbage collector: with the `orphan` finalizer it strips the ownerReferences to the ObjectSet from
				// its dependents and removes the finalizer; an archived ObjectSet is deleted by its owner
				goneUID := (&unstructured.Unstructured{Object: cur}).GetUID()
				for _, m := range members {
					mo := s.RawGet(memberKey(m))
					if mo == nil {
						continue
					}
					mu := &unstructured.Unstructured{Object: deepCopyMap(mo)}
					refs := []metav1.OwnerReference{}
					for _, r := range mu.GetOwnerReferences() {
						if r.UID != goneUID {
							refs = append(refs, r)
						}
					}
					if len(refs) != len(mu.GetOwnerReferences()) {
						mu.SetOwnerReferences(refs)
						s.RawPut(mu.Object, true)
					}
				}
				s.RawDelete(key)
				obs.Trace = append(obs.Trace, fmt.Sprintf("%d %s %s orphan=%v", i, st.Op, st.Name, st.Orphan))
			default:
				return nil, fmt.Errorf("step %d: unknown op %q", i, st.Op)
			}
		}
		return obs, nil
	})
}
