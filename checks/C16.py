"""C16: only valid, admissible packages roll out; unchanged packages are left alone.

Theorems: props/C16.v (pass-level stage theorems for all oracle outcomes / stored states / API request
outcomes, history invariant, F-C16 refutation + repaired model).
Run-time part: the real GenericPackageController (real unpack reconciler, PackageDeployer, deployment
reconciler, status reconciler) runs against the recording API server with a scripted image puller on
generated packages (valid; every invalidity class; constraints met / unmet against generated
environments) and generated histories (spec edits incl. no-ops and reverts, pull failures, API faults
per request number, concurrent writers that update the ObjectDeployment right before a request so
that the controller's Update gets a Conflict).  The stage outcomes the scenario was BUILT to produce are the oracle of the Coq
model; `C16Corr.judge` evaluates model agreement (request by request) and the property monitor."""
import json

import vlib
from vlib import cN, cB, cL, cO

IMPORTS = "From PKO Require Import Package.\nFrom PKOCorr Require Import C16Corr."

# (the identity of the defect fixed by cb58cda, kept in known_findings.json as a record, was
#  "C16 unmet manifest constraint does not block deployment (validateConstraints returns nil)")
ID_CONS = "C16 unmet manifest constraint does not block the deployment or is not shown in the Invalid condition"
IDS = [
    "C16 pull failure changes the ObjectDeployment or is not shown as Unpacked=False",
    "C16 load failure changes the ObjectDeployment or is not shown in the Invalid condition",
    ID_CONS,
    "C16 configuration violating the manifest's schema does not block deployment",
    "C16 package failing validation (or with unusable constraints / image references) is deployed",
    "C16 unchanged Package is re-pulled, re-rendered or its ObjectDeployment rewritten",
    "C16 changed spec does not result in an ObjectDeployment template equal to a fresh render",
    "C16 stored ObjectDeployment template is not the render of a valid, admissible spec",
    "C16 status.unpackedHash records a spec whose render is not what the ObjectDeployment stores",
]
ID_SCOPE = ("C16 uniqueInScope is judged against every (Cluster)Package of the cluster "
            "(validateUnique drops its label selector and does not restrict the List to the namespace)")
ID_PANIC = "C16 package controller panics"
ID_FIT = "C16 at quiescence the ObjectDeployment template is not the render of the current spec"
ID_REVERT = ("C16 spec reverted to the last unpacked one after a failed pass that already wrote the ObjectDeployment: "
             "the hash short cut keeps the aborted spec's template")

# ------------------------------------------------------------------ packages
SCHEMA = """  config:
    openAPIV3Schema:
      type: object
      properties:
        x:
          type: string
          default: dflt
          maxLength: 8
        count:
          type: integer
"""


def manifest(name, scopes="[Namespaced, Cluster]", phases=("deploy",), schema=True, constraints=None, components=False,
             images=None):
    m = ["apiVersion: manifests.package-operator.run/v1alpha1", "kind: PackageManifest", "metadata:",
         "  name: %s" % name, "spec:", "  scopes: %s" % scopes, "  phases:"]
    m += ["  - name: %s" % p for p in phases]
    if components:
        m.append("  components: {}")
    text = "\n".join(m) + "\n"
    if schema:
        text += SCHEMA
    if images:
        text += "  images:\n" + "".join("  - name: %s\n    image: \"%s\"\n" % (n, i) for n, i in images)
    if constraints:
        text += "  constraints:\n"
        for c in constraints:
            if c[0] == "platform":
                text += "  - platform: [%s]\n" % c[1]
            elif c[0] == "version":
                text += "  - platformVersion:\n      name: %s\n      range: \"%s\"\n" % (c[1], c[2])
            elif c[0] == "unique":
                text += "  - uniqueInScope: {}\n"
    return text


def configmap(marker, phase="deploy", anno=True, schema=True):
    t = ["apiVersion: v1", "kind: ConfigMap", "metadata:", "  name: cm-%s" % marker]
    if anno:
        t += ["  annotations:", "    package-operator.run/phase: %s" % phase]
    t += ["data:", "  marker: %s" % marker, "  image: \"{{ .package.image }}\""]
    if schema:  # without a schema the whole configuration is pruned
        t += ["  x: \"{{ .config.x }}\"", "  count: \"{{ get .config \"count\" }}\""]
    return "\n".join(t) + "\n"


DIGEST = "sha256:" + "ab" * 32


def lock(images):
    t = ("apiVersion: manifests.package-operator.run/v1alpha1\nkind: PackageManifestLock\nmetadata:\n"
         "  creationTimestamp: \"2023-01-01T00:00:00Z\"\nspec:\n  images:\n")
    for n, i in images:
        t += "  - name: %s\n    image: \"%s\"\n    digest: %s\n" % (n, i, DIGEST)
    return t


class Image:
    """An image class: its files and what the generator built it to do at each stage."""

    def __init__(self, name, files, load=True, render=True, images=True, schema=True, constraints=(),
                 components=None, mname="demo", scopes=("Namespaced", "Cluster"), large=False):
        self.name, self.files = name, files
        self.large = large  # a phase exceeds the ObjectSlice chunk limit: its objects live in ObjectSlices
        self.load, self.render, self.images, self.schema = load, render, images, schema
        self.scopes = scopes  # installing in another scope is rejected by the deployer's scope validator
        self.constraints = list(constraints)
        self.components = components  # None = single-component package, else list of component names
        self.mname = mname


def image_pool():
    pool = []

    def single(name, **kw):
        mk = dict(kw)
        man = manifest("demo", schema=mk.pop("schema", True), constraints=mk.pop("constraints", None),
                       scopes=mk.pop("scopes", "[Namespaced, Cluster]"), phases=mk.pop("phases", ("deploy",)),
                       images=mk.get("imgs"))
        files = {"manifest.yaml": man, "cm.yaml.gotmpl": configmap(name, phase=mk.pop("objphase", "deploy"),
                                                                   anno=mk.pop("anno", True), schema=kw.get("schema", True))}
        if mk.get("imgs"):
            files["manifest.lock.yaml"] = lock(mk["imgs"])
        return files

    # valid
    pool.append(Image("good", single("good")))
    pool.append(Image("good2", single("good2")))
    pool.append(Image("noschema", single("noschema", schema=False), schema=False))
    pool.append(Image("locked", single("locked", imgs=[("app", "quay.io/example/app:v1")])))
    # multi-component
    mfiles = {"manifest.yaml": manifest("demo", components=True), "cm.yaml.gotmpl": configmap("multi-root")}
    for comp in ("a", "b"):
        mfiles["components/%s/manifest.yaml" % comp] = manifest(comp)
        mfiles["components/%s/cm.yaml.gotmpl" % comp] = configmap("multi-" + comp)
    pool.append(Image("multi", mfiles, components=["a", "b"]))
    # load errors
    pool.append(Image("nomanifest", {"cm.yaml.gotmpl": configmap("nomanifest")}, load=False))
    pool.append(Image("badyaml", {"manifest.yaml": "apiVersion: [unclosed\nkind: {", "cm.yaml": configmap("x")}, load=False))
    pool.append(Image("badkind", {"manifest.yaml": "apiVersion: v1\nkind: ConfigMap\nmetadata:\n  name: x\n",
                                  "cm.yaml.gotmpl": configmap("badkind")}, load=False))
    # structural / object validation errors (render stage)
    pool.append(Image("noanno", single("noanno", anno=False), render=False))
    pool.append(Image("missingphase", single("missingphase", objphase="nope"), render=False))
    pool.append(Image("clusteronly", single("clusteronly", scopes="[Cluster]"), scopes=("Cluster",)))
    pool.append(Image("nsonly", single("nsonly", scopes="[Namespaced]"), scopes=("Namespaced",)))
    pool.append(Image("dupphase", single("dupphase", phases=("deploy", "deploy")), render=False))
    # duplicate objects: twice in one file, in two files of the same phase, in two files of different phases
    two = manifest("demo", phases=("deploy", "later"))
    dup = configmap("dup").replace("{{ .package.image }}", "x").replace("{{ .config.x }}", "x").replace('{{ get .config "count" }}', "")
    dup_later = dup.replace("package-operator.run/phase: deploy", "package-operator.run/phase: later")
    pool.append(Image("dup-samefile", {"manifest.yaml": two, "a.yaml": dup + "---\n" + dup, "cm.yaml.gotmpl": configmap("d1")}, render=False))
    pool.append(Image("dup-crossfile", {"manifest.yaml": two, "a.yaml": dup, "sub/b.yaml": dup, "cm.yaml.gotmpl": configmap("d2")}, render=False))
    pool.append(Image("dup-crossphase", {"manifest.yaml": two, "a.yaml": dup, "b.yaml": dup_later, "cm.yaml.gotmpl": configmap("d3")}, render=False))
    pool.append(Image("dup-tmpl", {"manifest.yaml": two, "a.yaml": dup, "b.yaml.gotmpl": dup_later, "cm.yaml.gotmpl": configmap("d4")}, render=False))
    pool.append(Image("nodup", {"manifest.yaml": two, "a.yaml": dup, "b.yaml": dup_later.replace("cm-dup", "cm-other"), "cm.yaml.gotmpl": configmap("d5")}))
    # objects without kind, without apiVersion, without both - as first, middle and last object of a file
    def obj(name, head):
        return head + "metadata:\n  name: %s\n  annotations:\n    package-operator.run/phase: deploy\ndata:\n  k: v\n" % name
    full = "apiVersion: v1\nkind: ConfigMap\n"
    for tag, head in (("nokind", "apiVersion: v1\n"), ("noapiversion", "kind: ConfigMap\n"), ("nogvk", "")):
        for pos in range(3):
            docs = [obj("o%d" % i, head if i == pos else full) for i in range(3)]
            pool.append(Image("%s-%d" % (tag, pos), {"manifest.yaml": manifest("demo"), "objs.yaml": "---\n".join(docs),
                                                      "cm.yaml.gotmpl": configmap("%s%d" % (tag, pos))}, render=False))
        pool.append(Image("%s-only" % tag, {"manifest.yaml": manifest("demo"), "o.yaml": obj("o", head)}, render=False))
    # large packages: the phase `deploy` exceeds the 1 MiB chunk limit of the default (binpack) chunker
    def big(name, kib):
        return ("apiVersion: v1\nkind: ConfigMap\nmetadata:\n  name: %s\n  annotations:\n    package-operator.run/phase: deploy\n"
                "data:\n  payload: %s\n" % (name, "x" * (kib * 1024)))
    for lname, sizes in (("large", [400] * 5), ("large2", [300, 300, 300, 600, 100]), ("large3", [1100, 10, 1100])):
        files = {"manifest.yaml": manifest("demo", phases=("deploy", "later")), "cm.yaml.gotmpl": configmap(lname, phase="later")}
        for i, kib in enumerate(sizes):
            files["big/%02d.yaml" % i] = big("%s-%d" % (lname, i), kib)
        pool.append(Image(lname, files, large=True))
    # unusable lock file image reference
    pool.append(Image("badlock", single("badlock", imgs=[("app", "Not A Reference!!")]), images=False))
    # constraints
    pool.append(Image("c-platform", single("c-platform", constraints=[("platform", "OpenShift")]),
                      constraints=[("platform", "OpenShift")]))
    pool.append(Image("c-kube", single("c-kube", constraints=[("version", "Kubernetes", ">=1.30.0")]),
                      constraints=[("version", "Kubernetes", ">=1.30.0")]))
    pool.append(Image("c-kube-lo", single("c-kube-lo", constraints=[("version", "Kubernetes", ">=1.20.0")]),
                      constraints=[("version", "Kubernetes", ">=1.20.0")]))
    pool.append(Image("c-ocp", single("c-ocp", constraints=[("version", "OpenShift", ">=4.14.0")]),
                      constraints=[("version", "OpenShift", ">=4.14.0")]))
    pool.append(Image("c-both", single("c-both", constraints=[("platform", "OpenShift"), ("version", "Kubernetes", ">=1.30.0")]),
                      constraints=[("platform", "OpenShift"), ("version", "Kubernetes", ">=1.30.0")]))
    pool.append(Image("c-unique", single("c-unique", constraints=[("unique",)]), constraints=[("unique",)]))
    pool.append(Image("c-unique-ocp", single("c-unique-ocp", constraints=[("unique",), ("platform", "OpenShift")]),
                      constraints=[("unique",), ("platform", "OpenShift")]))
    pool.append(Image("c-badrange", single("c-badrange", constraints=[("version", "Kubernetes", "not a range")]), render=False,
                      constraints=[("version", "Kubernetes", "not a range")]))
    # constraint unmet AND a later stage failing
    pool.append(Image("c-platform-noanno", single("c-platform-noanno", constraints=[("platform", "OpenShift")], anno=False),
                      constraints=[("platform", "OpenShift")], render=False))
    return {i.name: i for i in pool}


POOL = image_pool()

# ordered constraint lists: Km / Ku Kubernetes version range met / unmet on 1.27.3; On an OpenShift version range (not
# applicable on plain Kubernetes, unmet on 4.12.5, met on 4.15.1); Pm / Pu platform Kubernetes / OpenShift; U uniqueInScope
ENTRY = {"Km": ("version", "Kubernetes", ">=1.20.0"), "Ku": ("version", "Kubernetes", ">=1.30.0"),
         "On": ("version", "OpenShift", ">=4.14.0"), "Pm": ("platform", "Kubernetes"), "Pu": ("platform", "OpenShift"),
         "U": ("unique",)}


def cons_image(codes):
    """The image whose manifest lists the constraints `codes` in that order (registered on first use)."""
    name = "cl-" + "-".join(codes)
    if name not in POOL:
        cons = [ENTRY[c] for c in codes]
        files = {"manifest.yaml": manifest("demo", constraints=cons), "cm.yaml.gotmpl": configmap(name)}
        POOL[name] = Image(name, files, constraints=cons)
    return name


def constraint_lists(maxlen, r=None, sample=None):
    import itertools
    out = []
    for n in range(1, maxlen + 1):
        out += list(itertools.permutations(sorted(ENTRY), n))
    if sample is not None and len(out) > sample:
        short = [c for c in out if len(c) <= 2]
        out = short + r.sample([c for c in out if len(c) > 2], sample - len(short))
    return out
VALID = ["good", "good2", "noschema", "locked", "multi", "nodup"]
INVALID = ["nomanifest", "badyaml", "badkind", "noanno", "missingphase", "clusteronly", "nsonly", "dupphase", "badlock",
           "dup-samefile", "dup-crossfile", "dup-crossphase", "dup-tmpl"] + \
          ["%s-%s" % (t, p) for t in ("nokind", "noapiversion", "nogvk") for p in (0, 1, 2, "only")]
LARGE = ["large", "large2", "large3"]
CONS = ["c-platform", "c-kube", "c-kube-lo", "c-ocp", "c-both", "c-unique", "c-unique-ocp", "c-badrange", "c-platform-noanno"]

# no {}: the recording server does not see an edit between an absent and an empty config as a spec change
CONFIGS = [None, {"x": "a"}, {"x": "b"}, {"x": "a", "count": 2}, {"x": "a", "junk": 1}, {"x": 1}, {"count": "str"},
           {"x": "muchtoolongvalue"}, [1]]
CONFIGS_OK = [None, {"x": "a"}, {"x": "b"}, {"x": "a", "count": 2}, {"x": "a", "junk": 1}]


def parse_ver(s):
    if not s or not s[0].isdigit():
        return None
    try:
        return tuple(int(x) for x in s.split("."))
    except ValueError:
        return None


def config_class(cfg, schema):
    if cfg is not None and not isinstance(cfg, dict):
        return "CfgErr"
    if not schema or cfg is None:
        return "CfgOk"
    if "x" in cfg and (not isinstance(cfg["x"], str) or len(cfg["x"]) > 8):
        return "CfgViolation"
    if "count" in cfg and not isinstance(cfg["count"], int):
        return "CfgViolation"
    return "CfgOk"


def oracle(sc, spec, pull_fail):
    """The stage outcomes this scenario was built to produce for `spec`."""
    img = POOL.get(spec["image"])
    o = {"pull": not pull_fail and img is not None, "load": True, "range_ok": True, "unmet": [], "unique": None,
         "config": "CfgOk", "images": True, "render": True, "cs": []}
    if img is None:
        return o
    comp = spec.get("component") or ""
    o["load"] = img.load and (comp == "" or (img.components is not None and comp in img.components))
    mname = comp if comp else img.mname
    env = sc["environment"]
    ocp = env.get("openShift")
    cons = img.constraints if comp == "" else []
    # entry by entry, as the Coq model's constraint_loop takes them (C16_constraint_list_conjunction)
    entries, stop = [], False
    for c in cons:
        if c[0] == "platform":
            met = not (c[1] == "OpenShift" and ocp is None)
            entries.append("CPlatform %s" % cB(met))
            if not met and not stop:
                o["unmet"].append("KPlatform")
        elif c[0] == "version":
            kind = "KKubeVersion" if c[1] == "Kubernetes" else "KOpenShiftVersion"
            lo = parse_ver(c[2][2:]) if c[2].startswith(">=") else None
            applies = c[1] == "Kubernetes" or ocp is not None
            v = parse_ver(env["kubernetes"]["version"] if c[1] == "Kubernetes" else ocp["version"]) if applies else None
            parses = lo is not None and (v is not None or not applies)
            met = bool(parses and applies and v >= lo)
            entries.append("CVersion %s %s %s %s" % (kind, cB(parses), cB(applies), cB(met)))
            if not parses:
                o["range_ok"] = False
                stop = True  # checkConstraints returns the error
            elif applies and not met and not stop:
                o["unmet"].append(kind)
        elif c[0] == "unique":
            entries.append("CUniqueInScope")
    o["cs"] = entries
    if not o["range_ok"]:
        o["unmet"] = []
    if any(c[0] == "unique" for c in cons):
        # what the constraint says: the (Cluster)Packages carrying the manifest's package label in the scope of the
        # Package, itself included if labelled.  (The Coq model computes the number the List returns from the peers.)
        ps = sc["peers"]
        o["unique"] = ps["same"] + (1 if ps["labelled"] else 0)
    o["config"] = config_class(spec.get("config"), img.schema)
    o["images"] = img.images
    o["render"] = img.render and ("Cluster" if sc.get("cluster") else "Namespaced") in img.scopes
    return o


# Which (Cluster)Packages validateUnique's List returns in the implementation under test: True = the labelled ones
# of the scope; False = all of them (the code as it is).  Decided per run from a witness scenario (see check()).
SCOPED = False


def stage_of(o):
    """Name of the first failing stage (in Deploy order) or ok."""
    if not o["pull"]:
        return "pull"
    if not o["load"]:
        return "load"
    if not o["range_ok"] or o["unique"] == 0:
        return "cons-err"
    unmet = bool(o["unmet"]) or (o["unique"] or 0) >= 2
    rest = "ok"
    if o["config"] != "CfgOk":
        rest = "config"
    elif not o["images"]:
        rest = "images"
    elif not o["render"]:
        rest = "render"
    return ("unmet+" + rest) if unmet else rest


# ------------------------------------------------------------------ scenarios
ENVS = [{"kubernetes": {"version": "1.27.3"}},
        {"kubernetes": {"version": "1.31.0"}},
        {"kubernetes": {"version": "1.27.3"}, "openShift": {"version": "4.12.5"}},
        {"kubernetes": {"version": "1.31.0"}, "openShift": {"version": "4.15.1"}},
        {"kubernetes": {"version": "v1.29.0"}}]  # what the discovery API reports (GitVersion)


def spec(image, config=None, component="", paused=False):
    s = {"image": image, "component": component, "paused": paused}
    if config is not None:
        s["config"] = config
    return s


def scenario(env, first, steps, labelled=True, others=0, elsewhere=0, unrelated=0, cluster=False):
    """others: other (Cluster)Packages carrying the label of manifest `demo` in the same scope; elsewhere: the same in
    another namespace (Package flavour only); unrelated: other (Cluster)Packages without that label."""
    used = {first["image"]} | {s["image"] for s in steps if s["op"] == "edit"}
    if cluster:
        elsewhere = 0
    lab = {"package-operator.run/package": "demo"}
    peers = ([{"name": "same%d" % i, "namespace": "ns", "labels": lab} for i in range(others)] +
             [{"name": "else%d" % i, "namespace": "elsewhere", "labels": lab} for i in range(elsewhere)] +
             [{"name": "unrel%d" % i, "namespace": "ns" if i % 2 == 0 else "elsewhere",
               "labels": {"package-operator.run/package": "another"} if i % 2 else {}} for i in range(unrelated)])
    sc = {"cluster": cluster,
          "images": {n: {"files": POOL[n].files} for n in sorted(used) if n in POOL},
          "environment": env,
          "others": peers,
          "peers": {"same": others, "elsewhere": elsewhere, "unrelated": unrelated, "labelled": labelled},
          "package": dict(name="p", namespace="" if cluster else "ns", labels=lab if labelled else {}, **first),
          "steps": steps}
    return sc


def edit(s):
    return dict(op="edit", **s)


PASS = {"op": "pass"}
PULLFAIL = {"op": "pass", "pull_fail": True}


def fault(n, kind="err"):
    return {"op": "fault", "n": n, "kind": kind}


def touch(n):
    """A third party updates the ObjectDeployment right before request number n of the next pass."""
    return {"op": "touch", "n": n}


WITNESS = scenario(ENVS[0], spec("c-both", {"x": "a"}), [PASS, PASS])


def classes():
    """Every image class, two passes (the second shows retry or short cut): both flavours on the plain Kubernetes
    environment, the constraint classes on every environment."""
    out = []
    for cluster in (False, True):
        for name in VALID + INVALID + CONS:
            out.append(scenario(ENVS[0], spec(name, {"x": "a"}), [PASS, PASS], cluster=cluster))
    for env in ENVS[1:]:
        for name in CONS:
            out.append(scenario(env, spec(name, {"x": "a"}), [PASS, PASS]))
            if env is not ENVS[4]:
                out.append(scenario(env, spec(name, {"x": "a"}), [PASS], cluster=True))
        for name in VALID[:2] + INVALID[:2]:
            out.append(scenario(env, spec(name, {"x": "a"}), [PASS, PASS]))
    return out


def unique_sweep():
    """uniqueInScope (alone and together with a platform constraint) against 0 / 1 / 2 other packages of the same
    manifest in the same scope, 0 / 1 / 2 in another namespace, 0 / 1 strangers, Package labelled or not; both flavours;
    an API fault on the List and at every other request of such a deployment."""
    out = []
    e0, e2 = ENVS[0], ENVS[2]
    for cluster in (False, True):
        for name, env in (("c-unique", e0), ("c-unique-ocp", e0), ("c-unique-ocp", e2)):
            for labelled in (True, False):
                for same in (0, 1, 2):
                    for elsewhere in ((0,) if cluster else (0, 1, 2)):
                        for unrelated in (0, 1):
                            if name != "c-unique" and (elsewhere == 2 or (not labelled and unrelated)):
                                continue
                            out.append(scenario(env, spec(name, None), [PASS, PASS], labelled=labelled, others=same,
                                                elsewhere=elsewhere, unrelated=unrelated, cluster=cluster))
        for kind in ("err", "lost"):
            for n in range(13):
                out.append(scenario(e0, spec("c-unique", None), [fault(n, kind), PASS, PASS], cluster=cluster))
            out.append(scenario(e0, spec("c-unique", None), [fault(2, kind), PASS, PASS], others=1, cluster=cluster))
        # a valid deployment, then a second package of the same manifest appears only for the next spec
        out.append(scenario(e0, spec("good", None), [PASS, edit(spec("c-unique", None)), PASS, PASS], others=1, cluster=cluster))
    return out


def constraint_list_sweep(r, tier):
    """Ordered constraint lists of length 1-4 over {version met, version unmet, version of another platform, platform
    met, platform unmet, uniqueInScope} in every order: on plain Kubernetes (the OpenShift range does not apply), and a
    sample on OpenShift 4.12.5 / 4.15.1 (it applies: unmet / met), with and without a second package of the manifest."""
    out = []
    lists = constraint_lists(4, r, 260 if tier == "quick" else None)
    for i, codes in enumerate(lists):
        name = cons_image(codes)
        out.append(scenario(ENVS[0], spec(name, None), [PASS], cluster=(i % 4 == 3)))
    more = lists if tier != "quick" else r.sample(lists, 60)
    for i, codes in enumerate(more):
        name = cons_image(codes)
        out.append(scenario(ENVS[2 + i % 2], spec(name, None), [PASS, PASS], others=(i // 2) % 2, cluster=(i % 5 == 4)))
    return out


def component_sweep():
    """ONLY spec.component is edited after a successful unpack of a multi-component package (image and config stay):
    every ordered pair of root / a / b, to and from a component that does not exist, and a round trip; both flavours."""
    out = []
    e0 = ENVS[0]
    m = lambda comp: spec("multi", {"x": "a"}, comp)  # noqa: E731
    for cluster in (False, True):
        for c1 in ("", "a", "b"):
            for c2 in ("", "a", "b", "zz"):
                if c1 != c2:
                    out.append(scenario(e0, m(c1), [PASS, edit(m(c2)), PASS, PASS], cluster=cluster))
        out.append(scenario(e0, m("zz"), [PASS, edit(m("a")), PASS, PASS], cluster=cluster))
        out.append(scenario(e0, m("a"), [PASS, PASS, edit(m("b")), PASS, edit(m("a")), PASS, edit(m("")), PASS, PASS], cluster=cluster))
    return out


def large_sweep():
    """Packages whose phase crosses the chunk limit: first deployment, unchanged second pass, edits between large
    packages (slices replaced and garbage collected), to and from a small package, config edit; both flavours.  No
    faults: requests on ObjectSlices are outside the model's vocabulary and are dropped from the trace."""
    out = []
    e0 = ENVS[0]
    for cluster in (False, True):
        for name in LARGE:
            out.append(scenario(e0, spec(name, {"x": "a"}), [PASS, PASS], cluster=cluster))
        out.append(scenario(e0, spec("large", {"x": "a"}), [PASS, edit(spec("large2", {"x": "a"})), PASS, PASS,
                                                           edit(spec("good", {"x": "a"})), PASS, edit(spec("large3", {"x": "b"})), PASS, PASS],
                            cluster=cluster))
    out.append(scenario(e0, spec("good", {"x": "a"}), [PASS, edit(spec("large", {"x": "a"})), PASS, edit(spec("large", {"x": "b"})), PASS, PASS]))
    out.append(scenario(e0, spec("large2", None), [PULLFAIL, PASS, edit(spec("large2", None, paused=True)), PASS, edit(spec("large2", None)), PASS]))
    return out


def faults_after_pull():
    """An err / lost API fault at every request of a first deployment and of an update, both flavours, followed by
    clean passes: whatever the pass persisted must fit what it stored."""
    out = []
    e0 = ENVS[0]
    g, g2 = spec("good", {"x": "a"}), spec("good2", {"x": "a"})
    for cluster in (False, True):
        for kind in ("err", "lost"):
            for n in range(12):
                out.append(scenario(e0, g, [fault(n, kind), PASS, PASS, PASS], cluster=cluster))
                if n < 9:
                    out.append(scenario(e0, g, [PASS, edit(g2), fault(n, kind), PASS, PASS], cluster=cluster))
                    # ... and the user goes back to the old spec before the retry (C16_hash_fit_refuted: for n = 4 the
                    # short cut keeps the new spec's render under the old spec's hash; model and code agree on it)
                    out.append(scenario(e0, g, [PASS, edit(g2), fault(n, kind), PASS, edit(g), PASS, PASS], cluster=cluster))
    return out


def corpus():
    out = []
    e0, e3 = ENVS[0], ENVS[3]
    # every config on a valid package, then a valid one
    for cfg in CONFIGS:
        out.append(scenario(e0, spec("good", cfg), [PASS, edit(spec("good", {"x": "b"})), PASS, PASS]))
        out.append(scenario(e0, spec("noschema", cfg), [PASS]))
    # components
    for comp in ("", "a", "b", "zz"):
        out.append(scenario(e0, spec("multi", {"x": "a"}, comp), [PASS, edit(spec("multi", {"x": "a"}, "a")), PASS]))
    out.append(scenario(e0, spec("good", None, "a"), [PASS]))
    # edits: no-op, revert, valid -> invalid -> valid, unmet -> met
    g, g2 = spec("good", {"x": "a"}), spec("good2", {"x": "a"})
    out.append(scenario(e0, g, [PASS, edit(g), PASS, edit(g2), PASS, edit(g), PASS, PASS]))
    for bad in INVALID + ["c-platform", "c-kube", "c-badrange"]:
        out.append(scenario(e0, g, [PASS, edit(spec(bad, {"x": "a"})), PASS, PASS, edit(g2), PASS]))
        out.append(scenario(e0, spec(bad, {"x": "a"}), [PASS, edit(g), PASS, edit(spec(bad, {"x": "a"})), PASS]))
    out.append(scenario(e0, g, [PASS, edit(spec("good", {"x": 1})), PASS, edit(spec("good", {"x": "a", "junk": 1})), PASS]))
    out.append(scenario(e3, spec("c-both", None), [PASS, edit(spec("c-ocp", None)), PASS]))
    # pull failures
    out.append(scenario(e0, g, [PULLFAIL, PULLFAIL, PASS, PASS]))
    out.append(scenario(e0, g, [PASS, edit(g2), PULLFAIL, PASS]))
    out.append(scenario(e0, spec("doesnotexist", None), [PASS, edit(g), PASS]))
    out.append(scenario(e0, spec("nomanifest", None), [PULLFAIL, PASS, PASS]))
    # pausing
    gp = spec("good", {"x": "a"}, paused=True)
    out.append(scenario(e0, gp, [PASS, edit(g), PASS, edit(gp), PASS, PASS, edit(g), PASS]))
    out.append(scenario(e0, g, [PASS, edit(spec("good2", {"x": "a"}, paused=True)), PASS, edit(g2), PASS]))
    out.append(scenario(e0, g, [PASS, edit(spec("noanno", None, paused=True)), PASS, edit(spec("noanno", None)), PASS]))
    # an API fault at every request of a first deployment, an update, a short-cut pass and a unique-constrained deployment
    for kind in ("err", "lost"):
        for n in range(12):
            out.append(scenario(e0, g, [fault(n, kind), PASS, PASS, PASS]))
            out.append(scenario(e0, g, [PASS, edit(g2), fault(n, kind), PASS, PASS]))
        for n in range(5):
            out.append(scenario(e0, g, [PASS, fault(n, kind), PASS, PASS]))
            out.append(scenario(e0, g, [fault(n, kind), PULLFAIL, PASS]))
            out.append(scenario(e0, spec("nomanifest", None), [fault(n, kind), PASS, PASS]))
            out.append(scenario(e0, g, [PASS, edit(gp), fault(n, kind), PASS, PASS]))
        for n in range(13):
            out.append(scenario(e0, spec("multi", {"x": "a"}, "a"), [fault(n, kind), PASS, PASS], cluster=True))
            out.append(scenario(e0, spec("c-platform", None), [fault(n, kind), PASS, PASS]))
    return out


def touch_sweep():
    """A concurrent writer before every request number of the passes that write the ObjectDeployment."""
    out = []
    e0 = ENVS[0]
    g, g2 = spec("good", {"x": "a"}), spec("good2", {"x": "a"})
    gp = spec("good", {"x": "a"}, paused=True)
    u, u2 = spec("c-unique", None), spec("c-unique", {"x": "b"})
    for n in range(13):
        out.append(scenario(e0, g, [touch(n), PASS, PASS]))                                   # first deployment
        out.append(scenario(e0, g, [PASS, edit(g2), touch(n), PASS, PASS]))                   # changed spec over an existing one
        out.append(scenario(e0, g, [PASS, edit(gp), PASS, edit(g2), touch(n), PASS, PASS]))   # unpause + changed spec
        out.append(scenario(e0, u, [PASS, edit(u2), touch(n), PASS, PASS]))                   # with the uniqueness List
        out.append(scenario(e0, g, [PASS, edit(g2), touch(n), PASS, PASS], cluster=True))     # ClusterPackage
        out.append(scenario(e0, g, [PASS, edit(g2), touch(n), touch(n + 2), PASS, PASS]))     # two Conflicts in a row
        out.append(scenario(e0, g, [PASS, edit(gp), touch(n), PASS, PASS]))                   # pause propagation
    # retry budget: 4 Conflicts (fifth attempt succeeds), 5 Conflicts (given up), then a clean pass
    for k in (3, 4, 5, 6):
        out.append(scenario(e0, g, [PASS, edit(g2)] + [touch(3 + 2 * i) for i in range(k)] + [PASS, PASS]))
    out.append(scenario(e0, g, [touch(4), touch(6), PASS, PASS]))
    return out


def touch_fault_sweep():
    """Every pair (concurrent writer before request i, err / lost fault at request j) on an update and on a first deployment."""
    out = []
    e0 = ENVS[0]
    g, g2 = spec("good", {"x": "a"}), spec("good2", {"x": "a"})
    for kind in ("err", "lost"):
        for i in range(11):
            for j in range(13):
                out.append(scenario(e0, g, [PASS, edit(g2), touch(i), fault(j, kind), PASS, PASS]))
                if i >= 2 and (i + j) % 2 == 0:
                    out.append(scenario(e0, g, [touch(i), fault(j, kind), PASS, PASS]))
    return out


def random_scenario(r):
    env = r.choice(ENVS[:4] if r.random() < 0.9 else ENVS)

    def rspec(prev=None):
        k = r.random()
        if prev is not None and k < 0.15:
            return dict(prev)  # no-op edit
        name = r.choice(VALID) if k < 0.6 else r.choice(CONS) if k < 0.8 else r.choice(INVALID)
        cfg = r.choice(CONFIGS_OK) if r.random() < 0.8 else r.choice(CONFIGS)
        comp = ""
        if name == "multi":
            comp = r.choice(["", "a", "b", "a", "zz"])
        elif r.random() < 0.03:
            comp = "a"
        s = spec(name, cfg, comp, paused=r.random() < 0.08)
        if prev is not None and r.random() < 0.25:  # change one field only
            s = dict(prev)
            f = r.choice(["image", "config", "paused"])
            if f == "image":
                s["image"] = name
                if name != "multi":
                    s["component"] = ""
            elif f == "config":
                s.pop("config", None)
                if cfg is not None:
                    s["config"] = cfg
            else:
                s["paused"] = not s.get("paused", False)
        return s

    first = rspec()
    history, cur, steps = [first], first, []
    for _ in range(r.randint(3, 9)):
        k = r.random()
        if k < 0.35:
            nxt = r.choice(history) if r.random() < 0.25 else rspec(cur)  # revert or new
            steps.append(edit(nxt))
            history.append(nxt)
            cur = nxt
        else:
            if r.random() < 0.2:
                steps.append(fault(r.randint(0, 12), r.choice(["err", "lost"])))
            if r.random() < 0.2:
                steps += [touch(n) for n in sorted(r.sample(range(13), r.choice([1, 1, 2, 3])))]
            steps.append(PULLFAIL if r.random() < 0.12 else PASS)
    if not any(s["op"] == "pass" for s in steps):
        steps.append(PASS)
    return scenario(env, first, steps, labelled=r.random() < 0.8, others=r.choice([0, 0, 0, 1, 2]),
                    elsewhere=r.choice([0, 0, 1]), unrelated=r.choice([0, 0, 1]), cluster=r.random() < 0.3)


def gen(seed, tier):
    r = vlib.rng(seed, "C16")
    fixed = ([WITNESS] + classes() + unique_sweep() + faults_after_pull() + touch_sweep() + constraint_list_sweep(r, tier)
             + large_sweep() + component_sweep())
    rest = corpus()
    if tier == "quick":
        out = fixed + r.sample(rest, min(len(rest), 60))
        n = len(out) + 60
    else:
        out = fixed + rest + touch_fault_sweep()
        n = max(4600, len(out) + 1500)
    while len(out) < n:
        out.append(random_scenario(r))
    return out


# ------------------------------------------------------------------ Coq terms
REQ = {("get", "ClusterPackage"): "KGetPkg", ("get", "ClusterObjectDeployment"): "KGetOD",
       ("update", "ClusterObjectDeployment"): "KUpdateOD", ("list", "ClusterPackage"): "KListPkg",
       ("create", "ClusterObjectDeployment"): "KCreateOD", ("list", "ClusterObjectSet"): "KListSet",
       ("list", "ClusterObjectSlice"): "KListSlice", ("status-update", "ClusterPackage"): "KStatus",
       ("get", "Package"): "KGetPkg", ("get", "ObjectDeployment"): "KGetOD", ("update", "ObjectDeployment"): "KUpdateOD",
       ("list", "Package"): "KListPkg", ("create", "ObjectDeployment"): "KCreateOD", ("list", "ObjectSet"): "KListSet",
       ("list", "ObjectSlice"): "KListSlice", ("status-update", "Package"): "KStatus"}
# the recording server reports a fault injected before the effect as Internal, a lost response as InjectedFault
ROUT = {"": "OOk", None: "OOk", "NotFound": "ONotFound", "InjectedFault": "OFault", "Internal": "OFault",
        "Conflict": "OConflict"}
CTYPE = {"Unpacked": "CUnpacked", "Invalid": "CInvalid"}
CREASON = {"ImagePullBackOff": "RImagePullBackOff", "UnpackSuccess": "RUnpackSuccess", "LoadError": "RLoadError",
           "ConstraintsFailed": "RConstraintsFailed"}


class Unrepresentable(Exception):
    pass


class Names:
    """Numbers for images, configs, components and template digests of one scenario."""

    def __init__(self):
        self.img, self.cfg, self.comp, self.dig = {}, {}, {"": 0}, {}

    @staticmethod
    def _id(table, key, base=1):
        if key not in table:
            table[key] = len(table) + base
        return table[key]

    def spec(self, s):
        cfg = json.dumps(s.get("config"), sort_keys=True) if s.get("config") is not None else "null"
        return (self._id(self.img, s["image"]), self._id(self.cfg, cfg), self._id(self.comp, s.get("component") or "", 0),
                bool(s.get("paused")))

    def digest(self, t):
        return self._id(self.dig, t)


def c_spec(t):
    return "(Build_spec %d %d %d %s)" % (t[0], t[1], t[2], cB(t[3]))


def c_oracle(o):
    # range_ok / unmet / unique of the Coq oracle are computed by the model from the entry list
    return "(mk_oracle %s %s %s %s %s %s)" % (
        cB(o["pull"]), cB(o["load"]), cL(o["cs"]), o["config"], cB(o["images"]), cB(o["render"]))


def build_case(sc, obs):
    """Coq term of the case plus bookkeeping for the report; raises Unrepresentable."""
    names = Names()
    cur = {k: sc["package"][k] for k in ("image", "config", "component", "paused") if k in sc["package"]}
    first = names.spec(cur)
    passes = obs["passes"]
    hashes = {}      # spec hash string -> spec tuple
    dtable = {}      # (i, c, k) -> digest number
    steps, obss, oracles, info = [], [], [], []
    pi = 0
    for st in sc["steps"]:
        if st["op"] == "edit":
            cur = {k: st[k] for k in ("image", "config", "component", "paused") if k in st}
            steps.append("SEdit %s" % c_spec(names.spec(cur)))
        elif st["op"] == "fault":
            steps.append("SFault %d %s" % (st["n"], "SErr" if st["kind"] == "err" else "SLost"))
        elif st["op"] == "touch":
            steps.append("SDisturb %d" % st["n"])
        else:
            if pi >= len(passes):
                raise Unrepresentable("missing pass observation")
            p = passes[pi]
            pi += 1
            t = names.spec(cur)
            hashes[p["spec_hash"]] = t
            o = oracle(sc, cur, st.get("pull_fail", False))
            oracles.append(o)
            steps.append("SPass %s" % c_oracle(o))
            if p["ref_err"] == "":
                dtable[t[:3]] = names.digest(p["ref_tmpl"])
            # observation
            evs, nslice = [], 0
            for e in p["events"]:
                if e["t"] == "pull":
                    evs.append("EPull %d" % names._id(names.img, e["image"]))
                elif e["t"] == "deploy":
                    evs.append("EDeploy")
                elif e["kind"] in ("ObjectSlice", "ClusterObjectSlice") and e["verb"] in ("create", "get", "delete", "update"):
                    # writes and reads of single ObjectSlices (chunking of a large phase, slice garbage collection) are outside
                    # the model's vocabulary: dropped from the trace; the template is judged with the slices inlined
                    nslice += 1
                else:
                    k = REQ.get((e["verb"], e["kind"]))
                    r = ROUT.get(e.get("err", ""))
                    if k is None or r is None:
                        raise Unrepresentable("unexpected request %s %s -> %r" % (e["verb"], e["kind"], e.get("err")))
                    evs.append("EReq %s %s" % (k, r))
            conds = []
            for c in p["conds"]:
                if c["type"] not in CTYPE or c["reason"] not in CREASON or c["status"] not in ("True", "False"):
                    raise Unrepresentable("unexpected condition %r" % (c,))
                conds.append("Build_cond %s %s %s %d" % (CTYPE[c["type"]], cB(c["status"] == "True"), CREASON[c["reason"]], c["gen"]))
            if p["unpacked_hash"] == "":
                h = None
            elif p["unpacked_hash"] in hashes:
                h = c_spec(hashes[p["unpacked_hash"]])
            else:
                raise Unrepresentable("unpackedHash is the hash of no spec the Package ever had")
            od = None
            if p["od"] is not None:
                if p["od"]["slices"] and not any(POOL[n].large for n in sc["images"] if n in POOL):
                    raise Unrepresentable("a phase of a small package was sliced")
                tm = "None" if p["od"]["empty"] else "(Some %d)" % names.digest(p["od"]["tmpl"])
                od = "(Build_od %s %s %d)" % (tm, cB(p["od"]["paused"]), p["od"]["gen"])
            obss.append("Build_obs %s %s %s %s %s %s %d" % (
                cL(evs), cB(p["err"] != ""), cB(p["requeue"]), cO(h), cL(conds), cO(od), p["pulls"]))
            info.append((t, o, p))
    dt = cL(["(%d, %d, %d, %d)" % (k[0], k[1], k[2], d) for k, d in sorted(dtable.items())])
    ps = sc["peers"]
    peers = "(Build_peers %d %d %d %s)" % (ps["same"], ps["elsewhere"], ps["unrelated"], cB(ps["labelled"]))
    term = "((%s, %s, %s, %s, %s, %s) : case)" % (cB(SCOPED), dt, c_spec(first), peers, cL(steps), cL(obss))
    return term, info


REF_STAGE = {"config-invalid": "config", "config-unmarshal": "config", "config-admission": "config",
             "image-reference": "images"}


def intent_mismatch(info):
    """The generator's stage outcomes against the reference render (loader, admission, renderer; no
    constraints, no pull)."""
    for t, o, p in info:
        if p["ref_err"] == "no-image":
            continue
        want_ok = o["load"] and o["config"] == "CfgOk" and o["images"] and o["render"]
        if want_ok != (p["ref_err"] == ""):
            return {"spec": p["spec"], "intended": o, "reference": p["ref_err"]}
        st = REF_STAGE.get(p["ref_err"])
        if st == "config" and (not o["load"] or o["config"] == "CfgOk"):
            return {"spec": p["spec"], "intended": o, "reference": p["ref_err"]}
        if st == "images" and (not o["load"] or o["config"] != "CfgOk" or o["images"]):
            return {"spec": p["spec"], "intended": o, "reference": p["ref_err"]}
    return None


# An unlabelled Package with a uniqueInScope constraint and no other Package: by validateUnique's own contract
# no Package matches the label selector (ErrNonExisting); if the pass succeeds the selector is not applied.
WITNESS_SELECTOR = None


def check(run, tier, seed, replay=None):
    run.assumptions += [
        "spec hash (SHA-256 of PackageSpec) is collision free: the model compares specs",
        "stage outcomes (pull, load, constraints, config admission, image references, render+validation) are oracles: "
        "what the generated package was built to do, cross-checked against a reference render through the real "
        "loader / admission / renderer per pass",
        "small packages produce no ObjectSlices (checked per case); the ObjectDeployment controller does not run, so the "
        "ObjectDeployment has no status conditions; the Package is never deleted; no HyperShift environment",
        "template identity = sha256 of the canonical JSON of spec.template.spec, compared with the reference render",
        "client and uncachedClient are the same recording API server (no stale cache)",
        "large packages (a phase above the chunk limit): reads and writes of single ObjectSlices are dropped from the compared "
        "request trace, the template is compared with its ObjectSlices inlined in order; these scenarios carry no API faults",
        "uniqueInScope is judged by the property over the (Cluster)Packages that carry the manifest's package label in the scope "
        "of the Package (its namespace / the cluster), the Package itself included if labelled: 0 = cannot be evaluated, 1 = met, "
        ">= 2 = unmet; all unique-constrained manifests of a scenario are named `demo`",
    ]
    vlib.std_proof_stage(run, "C16")
    ok, blog = vlib.build_harness()
    if not ok:
        run.violation("corr:harness-build", {"correspondence": "harness no longer builds against the tree", "log": blog[-4000:]}, False)
        return
    global SCOPED
    ws = vlib.run_harness("package", [scenario(ENVS[0], spec("c-unique", None), [PASS], labelled=False)])[0]
    if "obs" not in ws:
        run.violation("corr:C16/witness harness error", {"out": ws}, False)
        return
    SCOPED = ws["obs"]["passes"][0]["err"] != ""
    run.notes.append("validateUnique's List %s (witness: unlabelled Package with uniqueInScope, no other Package -> %s)" % (
        "applies the package label selector" if SCOPED else
        "ignores the package label selector: labels.Selector.Add returns a new selector and deployer.go drops it, so "
        "uniqueness is judged against every Package of the cluster", "ErrNonExisting" if SCOPED else "pass succeeds"))
    scs = [json.load(open(replay))["replay"]["scenario"]] if replay else gen(seed, tier)
    outs = vlib.run_harness("package", scs, par=8)
    terms, idx, infos, mismatches = [], [], {}, {}
    for i, (sc, o) in enumerate(zip(scs, outs)):
        if "panic" in o:
            run.violation(ID_PANIC, {"scenario": sc, "panic": o["panic"], "stack": o.get("stack", "")[-3000:]}, True)
            continue
        if "obs" not in o:
            run.violation("corr:C16/package harness error", {"scenario": sc, "out": o}, False)
            continue
        try:
            term, info = build_case(sc, o["obs"])
        except Unrepresentable as e:
            run.violation("corr:C16/observation outside the model's vocabulary",
                          {"correspondence": str(e), "scenario": sc, "impl": o["obs"]}, False)
            continue
        mm = intent_mismatch(info)
        if mm is not None:
            # judged all the same: if the implementation rolls out what the scenario was built to have rejected (or the
            # other way round) the monitor says so concretely; only otherwise is this a problem of the generator
            mismatches[i] = mm
        if any(p["unconsumed_faults"] for _, _, p in info):
            pass  # a fault armed beyond the last request of the pass is dropped by harness and model alike
        terms.append(term)
        idx.append(i)
        infos[i] = info
    res, logs = vlib.judge_cases("C16", IMPORTS, "judge2", terms, 14, shard=100)
    for l in logs:
        run.violation("corr:C16/coq-eval", {"correspondence": "coq evaluation failed", "log": l}, False)
    run.cov["evaluations"] = len(terms)
    npass = nconf = nrev = 0
    stages = {}
    for i, r in zip(idx, res):
        if r is None:
            continue
        sc, obs, info = scs[i], outs[i]["obs"], infos[i]
        npass += len(info)
        sig = tuple((stage_of(o), p["spec"].get("paused", False), p["unpacked_hash"] == p["spec_hash"], p["err"] != "", p["requeue"],
                     None if p["od"] is None else (p["od"]["empty"], p["od"]["tmpl"] == p["ref_tmpl"]),
                     tuple(e.get("err", "") for e in p["events"] if e.get("err")))
                    for _, o, p in info)
        for _, o, p in info:
            stages[stage_of(o)] = stages.get(stage_of(o), 0) + 1
            nconf += any(e.get("err") == "Conflict" for e in p["events"])
        if len(info) >= 2 or any(stage_of(o) != "ok" for _, o, _ in info):
            run.classes.add(sig)
        agree, mons, unscoped_ok, fit, fit_unscoped, reverted = r[0], list(r[1:10]), r[10], r[11], r[12], r[13]
        concrete = False
        if not fit and agree and reverted and all(mons):
            # F-C16c and nothing else: the implementation does what the model does, every other clause holds, and the
            # history shows the pattern (C16Corr.revert_hit): a failed pass wrote the ObjectDeployment without moving
            # unpackedHash, then the spec was edited to the spec behind the stored hash
            concrete = True
            nrev += 1
            run.violation(ID_REVERT, {"scenario": sc, "impl": obs, "oracles": [o for _, o, _ in info]}, True)
            fit = True
        if not (all(mons) and fit) and unscoped_ok and fit_unscoped:
            # every clause holds once uniqueness is judged the way the implementation judges it (over every
            # (Cluster)Package): the verdict is due to the scope of validateUnique's List and nothing else
            concrete = True
            run.violation(ID_SCOPE, {"scenario": sc, "impl": obs, "oracles": [o for _, o, _ in info],
                                     "failing_clauses": [IDS[k] for k, okk in enumerate(mons) if not okk] + ([] if fit else [ID_FIT])}, True)
            mons, fit = [True] * 9, True
        if not fit and all(mons[k] for k in (2, 3, 4, 6, 8)):
            # (when another clause about the same pass fails, that clause names the defect)
            concrete = True
            run.violation(ID_FIT, {"scenario": sc, "impl": obs, "oracles": [o for _, o, _ in info],
                                   "reverted_pattern": reverted, "agree": agree}, True)
        for k, okk in enumerate(mons):
            if okk:
                continue
            if k == 7 and not (mons[2] and mons[3] and mons[4] and mons[6] and mons[8]):
                continue  # the stored template is the one another failing clause let through: reported once
            concrete = True
            run.violation(IDS[k], {"scenario": sc, "impl": obs, "oracles": [o for _, o, _ in info]}, True)
        if i in mismatches and not concrete:
            run.violation("corr:C16/generator intent and reference render disagree",
                          {"correspondence": "oracle of the scenario vs real loader/admission/renderer",
                           "detail": mismatches[i], "scenario": sc}, False)
        elif not agree and not concrete:
            run.violation("corr:C16/package model and implementation differ",
                          {"correspondence": "C16Corr.agree",
                           "scenario": sc, "impl": obs, "oracles": [o for _, o, _ in info]}, False)
    if not replay:
        # additive: the real chunkers against the chunk laws (machinery and theorems of C14, props/C14.v): the slices
        # the deployment reconciler writes for a large phase are lossless and in order
        import C14
        nchunk, _ = C14.chunk_stage(run, C14.gen(seed, "quick"))
        run.cov["chunker_cases_C14"] = nchunk
    run.cov["passes"] = npass
    run.cov["passes_by_intended_stage"] = stages
    run.cov["passes_with_conflict"] = nconf
    run.cov["histories_with_revert_pattern_and_misfit"] = nrev
    run.cov["rule"] = ("fixed corpus (witness; every image class x every environment; uniqueness counts; every config; "
                       "components; no-op/revert edits; pull failures; pausing; an err/lost API fault at every request number of "
                       "first deployment / update / short cut / pull failure / load failure / unique-constrained deployment; a concurrent "
                       "writer before every request number of first deployment / update / unpause+update / unique-constrained update, "
                       "two and five of them in a row, thorough: every pair (writer before request i, err/lost fault at request j)) + random "
                       "histories of 3-9 steps; Package and ClusterPackage flavour (real NewPackageController / "
                       "NewClusterPackageController); uniqueInScope x {0,1,2} labelled peers in scope x {0,1,2} elsewhere x {0,1} strangers "
                       "x own label, with List faults; err/lost fault at every request of first deployment and update in both flavours; "
                       "non-trivial = at least two passes or a failing stage; distinct = per-pass tuple "
                       "(intended first failing stage, paused, hash short cut, error, requeue, ObjectDeployment empty/equals "
                       "reference render, failed requests)")
    run.cov["samples"] = [{"scenario": {k: v for k, v in scs[i].items() if k != "images"},
                           "images": sorted(scs[i]["images"]),
                           "impl": [{k: p[k] for k in ("events", "err", "requeue", "conds", "od", "pulls")} for _, _, p in infos[i]]}
                          for i in idx[:2]]
