"""C11 preflight gate and namespace bound: theorems in props/C11.v."""
import itertools
import setcheck, phasecheck as pc, phaselib as pl, vlib


def violation_table(tier):
    """Each violating kind at every position of a 3-object phase, all flavours, namespaced and cluster owners, rollout and teardown."""
    out = []
    kinds = ["apimissing", "ownerrefs", "foreignns", "clusterkind", "clusterkind-ns", "dryreject", "none", "none-applydry404"]
    for flavor in ("objectset", "samephase", "sameclusterphase", "multiphase", "multiclusterphase"):
        for okind in pl.flavor_owner_kind(flavor):
            ons = 0 if okind in (2, 4) else 1
            for bad, pos, op in itertools.product(kinds, (0, 1, 2), ("reconcile", "teardown")):
                objs = [pl.mk_pobj(1, 0 if ons else 1, i + 1, body=2) for i in range(3)]
                o = objs[pos]
                if bad == "apimissing":
                    o["gk"] = 4
                elif bad == "ownerrefs":
                    o["ownerrefs"] = True
                elif bad == "foreignns":
                    o["ns"] = 2
                elif bad == "clusterkind":
                    o["gk"], o["ns"] = 3, 0
                elif bad == "clusterkind-ns":
                    o["gk"], o["ns"] = 3, 1
                elif bad == "dryreject":
                    o["dryreject"] = True
                if bad.endswith("applydry404"):
                    # valid objects whose dry-run apply answers NotFound: preflight must fall back to a DRY-RUN create
                    for x in objs:
                        x["applydry404"] = True
                annot = pl.is_annot(flavor)
                store = []
                for i, p in enumerate(objs):
                    if op == "teardown" or i == 2:
                        gk = p["gk"] if p["gk"] != 4 else 1
                        m = pl.mk_obj(gk, (p["ns"] or ons) if gk != 3 else 0, p["name"], 7 + 2 * i, 8 + 2 * i, rev=5, body=1)
                        m["aowners" if annot else "owners"] = [[okind, 10, 100, 1]]
                        store.append(m)
                out.append({"flavor": flavor, "force": False, "owner": pl.mk_owner(okind, ons, 10, 100, 5), "prev": [],
                            "store": store, "next_rv": 50, "next_uid": 60, "op": op, "objects": objs})
    return out


DLG_ID = ("C11 same-cluster ObjectSetPhase controller: write although an object of the phase violates preflight, or write outside "
          "the ObjectSetPhase's namespace / on a cluster-scoped kind, or the violation is not reported as Available=False/PreflightError")


def phase_controller_violations():
    """Each violating kind at every position of the 3 objects of an ObjectSetPhase, through the real same-cluster
    (Cluster)ObjectSetPhase controller (and the ObjectSet controller that relays it)."""
    import dlglib as dl, setlib as sl
    out = []
    for (okind, ons, pkind) in ((1, 1, 3), (2, 0, 4)):
        for bad, pos in itertools.product(["foreignns", "clusterkind", "clusterkind-ns", "apimissing", "ownerrefs", "dryreject", "none"], (0, 1, 2)):
            objs = [pl.mk_pobj(1, 0 if ons else 1, i + 1, body=2) for i in range(3)]
            o = objs[pos]
            if bad == "apimissing":
                o["gk"] = 4
            elif bad == "ownerrefs":
                o["ownerrefs"] = True
            elif bad == "foreignns":
                o["ns"] = 2
            elif bad == "clusterkind":
                o["gk"], o["ns"] = 3, 0
            elif bad == "clusterkind-ns":
                o["gk"], o["ns"] = 3, 1
            elif bad == "dryreject":
                o["dryreject"] = True
            pname = dl.join_name(10, 1)
            t = sl.mk_set(okind, ons, 10, 100, rv=5, phases=[{"name": 1, "class": True, "objects": objs}], revision=1)
            t["remotes"] = [[pname, 301]]
            po = dl.mk_phase_obj(pkind, ons, pname, 301, rv=20, gen=1, owners=[[okind, 10, 100, 1]], objects=objs, revision=1)
            ptgt = {"kind": pkind, "ns": ons, "name": pname, "uid": 301}
            out.append({"family": "c11-phase-controller", "force": False, "strategy": "native", "store": [], "sets": [t], "phases": [po],
                        "nss": [[1, 0], [2, 0]] if ons else [], "next_rv": 50, "next_uid": 400, "kubelet": False,
                        "stages": [{"targets": [dl.tgt(t)], "policy": "explicit",
                                    "explicit": [{"actor": "phase", "target": ptgt}, {"actor": "set", "target": dl.tgt(t)}, {"actor": "phase", "target": ptgt}]}],
                        "twin": False})
    return out


def check(run, tier, seed, replay=None):
    if replay:
        import json
        rsc = json.load(open(replay))["replay"]["scenario"]
        if "stages" in rsc:
            import C15 as dlg
            vlib.std_proof_stage(run, "C11")
            n, passes, _, _ = dlg.delegation_stage(run, "C11", [rsc], id_mon=DLG_ID, id_twin=DLG_ID, id_own=DLG_ID)
            run.cov["evaluations"] = n
            run.cov["rule"] = "replay"
            return
    pscs = violation_table(tier) + pc.random_phases(seed + 11, 300 if tier == "quick" else 6000) + pc.random_teardowns(seed + 12, 200 if tier == "quick" else 4000)
    setcheck.set_check(run, "C11", tier, seed, replay, 800, 12000, "judge11",
                       "C11 write although preflight fails / duplicate object written / write outside the owner's namespace",
                       "violating kind x position x flavour x owner scope x rollout/teardown table through the real PhaseReconciler, random phases, "
                       "and random ObjectSets (incl. duplicates across phases with and without explicit namespace) through the real controller",
                       phase_judge="judge11p", phase_scs=pscs)
    if not replay:
        import C15 as dlg
        n, passes, _, _ = dlg.delegation_stage(run, "C11", phase_controller_violations(), id_mon=DLG_ID, id_twin=DLG_ID, id_own=DLG_ID)
        run.cov["evaluations"] += n
        run.cov["phase_controller_stage"] = {"scenarios": n, "controller_passes": passes}
