"""C11 preflight gate and namespace bound: theorems in props/C11.v."""
import itertools
import setcheck, phasecheck as pc, phaselib as pl, vlib


def violation_table(tier):
    """Each violating kind at every position of a 3-object phase, all flavours, namespaced and cluster owners, rollout and teardown."""
    out = []
    kinds = ["apimissing", "ownerrefs", "foreignns", "clusterkind", "clusterkind-ns", "dryreject", "none", "none-applydry404"]
    for flavor in ("objectset", "samephase", "sameclusterphase", "multiphase", "multiclusterphase"):
        for okind in pl.flavor_owner_kind(flavor):
            ons = 0 if okind in (2, 4) else 1
            for bad, pos, op in itertools.product(kinds, (0, 1, 2), ("reconcile", "teardown")):
                objs = [pl.mk_pobj(1, 0 if ons else 1, i + 1, body=2) for i in range(3)]
                o = objs[pos]
                if bad == "apimissing":
                    o["gk"] = 4
                elif bad == "ownerrefs":
                    o["ownerrefs"] = True
                elif bad == "foreignns":
                    o["ns"] = 2
                elif bad == "clusterkind":
                    o["gk"], o["ns"] = 3, 0
                elif bad == "clusterkind-ns":
                    o["gk"], o["ns"] = 3, 1
                elif bad == "dryreject":
                    o["dryreject"] = True
                if bad.endswith("applydry404"):
                    # valid objects whose dry-run apply answers NotFound: preflight must fall back to a DRY-RUN create
                    for x in objs:
                        x["applydry404"] = True
                annot = pl.is_annot(flavor)
                store = []
                for i, p in enumerate(objs):
                    if op == "teardown" or i == 2:
                        gk = p["gk"] if p["gk"] != 4 else 1
                        m = pl.mk_obj(gk, (p["ns"] or ons) if gk != 3 else 0, p["name"], 7 + 2 * i, 8 + 2 * i, rev=5, body=1)
                        m["aowners" if annot else "owners"] = [[okind, 10, 100, 1]]
                        store.append(m)
                out.append({"flavor": flavor, "force": False, "owner": pl.mk_owner(okind, ons, 10, 100, 5), "prev": [],
                            "store": store, "next_rv": 50, "next_uid": 60, "op": op, "objects": objs})
    return out


def check(run, tier, seed, replay=None):
    pscs = violation_table(tier) + pc.random_phases(seed + 11, 300 if tier == "quick" else 6000) + pc.random_teardowns(seed + 12, 200 if tier == "quick" else 4000)
    setcheck.set_check(run, "C11", tier, seed, replay, 800, 12000, "judge11",
                       "C11 write although preflight fails / duplicate object written / write outside the owner's namespace",
                       "violating kind x position x flavour x owner scope x rollout/teardown table through the real PhaseReconciler, random phases, "
                       "and random ObjectSets (incl. duplicates across phases with and without explicit namespace) through the real controller",
                       phase_judge="judge11p", phase_scs=pscs)
