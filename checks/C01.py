"""C01 collision protection: theorems in props/C01.v; exhaustive adoption table through the real
PhaseReconciler.ReconcilePhase + random multi-object phases with third-party interference; plus handovers from
delegated previous revisions through the real ObjectSet / ObjectSetPhase controllers (permitted adoption carried out)."""
import json
import phasecheck as pc
import vlib, dlglib as dl, C15 as dlg

HANDOVER_ID = ("C01 permitted adoption from a declared previous revision with delegated phases is not carried out "
               "(handover differs from the same handover with in-process phases)")


CONTROLLER_ID = ("C01 (Cluster)ObjectSet controller: member written without permitted adoption, uncontrolled object touched, "
                 "or CollisionDetected reported although every listed object may be adopted")


def handovers(seed, tier):
    """Handovers whose previous revisions delegated phases: two revisions (both directions), three revisions with a
    revision without remote phases listed first, and previous revisions whose phase objects were re-created."""
    r = vlib.rng(seed, "C01h")
    scs = []
    for m in ([True], [True, False], [False, True]):
        scs.append(dl.scenario_handover(r, m, None, nph=len(m), policy="rr"))
        scs.append(dl.scenario_handover3(r, mask_mid=m, policy="rr"))
        scs.append(dl.scenario_recreated(r, mask_old=m, policy="rr"))
    for i in range(4 if tier == "quick" else 80):
        scs.append(dl.scenario_handover3(r, strategy="annot" if i % 4 == 3 else "native"))
        scs.append(dl.scenario_recreated(r, mask_old=[True] + [r.random() < 0.5 for _ in range(r.choice([0, 1]))]))
    return [dl.place(sc) for sc in scs]


def check(run, tier, seed, replay=None):
    rsc = json.load(open(replay))["replay"]["scenario"] if replay else None
    if rsc is not None and "target" in rsc and "stages" not in rsc:
        import setcheck, vlib as _v
        _v.std_proof_stage(run, "C01")
        setcheck.controller_stage(run, "C01", tier, seed, "judge01s", CONTROLLER_ID, replay_sc=rsc)
        return
    dlg_replay = rsc is not None and "stages" in rsc
    scs = [] if dlg_replay else pc.table(tier) + pc.random_phases(seed, 300 if tier == "quick" else 6000) + pc.random_teardowns(seed, 100 if tier == "quick" else 1500)
    pc.phase_check(run, "C01", tier, seed, None if dlg_replay else replay, scs, "C01Corr.judge_r",
                   lambda sc, obs: "C01 write or ownership change without permitted adoption, or adoption/refusal not carried out",
                   "exhaustive abstract adoption table (strategy x already-controller x revision relation x collisionProtection x "
                   "controller state x force x pko-label x cache visibility x order of the previous-revision list) through the real "
                   "ReconcilePhase, plus seeded random multi-object phases and teardowns with a third-party op between read and write "
                   "and one or two previous revisions (with / without remote phases, garbage collected); plus handovers from delegated "
                   "previous revisions (two and three revisions, re-created phase objects) through the real controllers, compared "
                   "with the same handover with in-process phases", faults=True, fault_judge="C01Corr.judge")
    if replay and not dlg_replay:
        return
    if not replay:
        # the dry run of an object fails (500, webhook, 409, timeout, lost response): preflight has not accepted it, and
        # whatever the checker does about it, no object the owner may not adopt is touched (m2) and every write is justified (m1)
        base = pc.run_cases(run, pc.table(tier)[::3] + pc.random_phases(seed + 5, 150 if tier == "quick" else 2000), "C01Corr.judge", 2)
        pc.dryrun_fault_stage(run, "C01", tier, seed, base, "C01 write or ownership change without permitted adoption, or adoption/refusal not carried out",
                              judge="C01Corr.judge")
    hs = [rsc] if dlg_replay else handovers(seed, tier)
    n, passes, _, _ = dlg.delegation_stage(run, "C01", hs, id_mon=HANDOVER_ID, id_twin=HANDOVER_ID, id_own=HANDOVER_ID)
    run.cov["evaluations"] += n
    run.cov["controller_passes"] = passes
    if not replay:
        import setcheck
        setcheck.controller_stage(run, "C01", tier, seed, "judge01s", CONTROLLER_ID)
