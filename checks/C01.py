"""C01 collision protection: theorems in props/C01.v; exhaustive adoption table through the real
PhaseReconciler.ReconcilePhase + random multi-object phases with third-party interference."""
import phasecheck as pc


def check(run, tier, seed, replay=None):
    scs = pc.table(tier) + pc.random_phases(seed, 300 if tier == "quick" else 6000) + pc.random_teardowns(seed, 100 if tier == "quick" else 1500)
    pc.phase_check(run, "C01", tier, seed, replay, scs, "C01Corr.judge",
                   lambda sc, obs: "C01 write or ownership change without permitted adoption, or adoption/refusal not carried out",
                   "exhaustive abstract adoption table (strategy x already-controller x revision relation x collisionProtection x "
                   "controller state x force x pko-label x cache visibility) through the real ReconcilePhase, plus seeded random "
                   "multi-object phases and teardowns with a third-party op between read and write", faults=True)
