"""C06 status claims: theorems in props/C06.v; every status request of the real controller judged against the same pass."""
import setcheck


ID_DLG = ("C06 the status of an ObjectSet with a delegated phase claims more than is true: Available relayed from an ObjectSetPhase that "
          "reports it although its objects fail their probes (delegated run differs from the in-process twin)")


def check(run, tier, seed, replay=None):
    if replay:
        import json
        rsc = json.load(open(replay))["replay"].get("scenario", {})
        if "family" in rsc:
            import vlib, C03
            vlib.std_proof_stage(run, "C06")
            vlib.build_harness()
            C03.delegated_stage(run, tier, seed, rsc, pid="C06", ident=ID_DLG)
            return
    setcheck.set_check(run, "C06", tier, seed, replay, 1500, 25000, "judge06g",
                       "C06 status claims more than the pass observed (Available/controllerOf/Succeeded/InTransition/Archived)",
                       "seeded random worlds over all lifecycle states with stored conditions for older generations, Succeeded already set, "
                       "stale controllerOf; every status request compared with the members' states after the same pass")
    if not replay:
        # the gate / the Available condition rest on what the phase reconciler records from the prober (machinery of C17)
        import C17
        C17.probe_stage(run, "C06", tier, seed, "C06 Available=True can be reported although a probe fails: the phase reconciler does not record a failing probe (e.g. one with an empty message)")
        # the Available condition of a delegated phase is the ObjectSetPhase controller's claim (machinery and theorems of C15)
        import C03
        C03.delegated_stage(run, tier, seed, pid="C06", ident=ID_DLG)
