"""C10 convergence (PARTIAL): per-request idempotence lemmas in props/C10.v; fault enumeration and drift on the
real ObjectSet controller: every request of every pass as an injection point (error before effect, effect
with lost response), every pass with a fresh controller and cache (restart anywhere), third-party drift,
then fair rounds to quiescence; end state compared with the undisturbed reference run."""
import copy, json
import vlib, phaselib as pl, setlib as sl


def base_worlds(r, n):
    """Fixed desired states: fresh rollout, partially present members, handover, teardown, archival, collision,
    previous revisions that no longer exist."""
    out = []
    kinds = ["fresh", "partial", "handover", "teardown", "archive", "paused", "collision", "prevgone"]
    fixed = kinds + ["teardown+fin", "archive+fin"]
    for wi in range(n):
        # every kind at least once (teardown / archival once finishing within the faulted prefix, once delayed by member
        # finalizers), then seeded random
        kind = fixed[wi] if wi < len(fixed) else r.choice(kinds)
        p_fin = 0.3
        if wi < len(fixed):
            p_fin = 1.0 if kind.endswith("+fin") else 0.0
        kind = kind.split("+")[0]
        cluster = r.random() < 0.2
        okind, ons = (2, 0) if cluster else (1, 1)
        nph = r.choice([1, 2, 3])
        phases, store, uid, name = [], [], 7, 1
        for pi in range(1, nph + 1):
            objs = []
            for _ in range(r.choice([1, 1, 2])):
                objs.append(pl.mk_pobj(r.choice([1, 1, 2]), r.choice([0, 1]) if ons else 1, name, body=2, cp=r.choice([0, 0, 1, 2])))
                name += 1
            phases.append({"name": pi, "class": False, "objects": objs})
        allobjs = [o for ph in phases for o in ph["objects"]]
        sets = []
        target = sl.mk_set(okind, ons, 10, 100, rv=5, phases=phases, revision=2, fin=True)
        targets = [{"kind": okind, "ns": ons, "name": 10, "uid": 100}]
        def member(o, owners, rev, body=2):
            nonlocal uid
            m = pl.mk_obj(o["gk"], 1, o["name"], uid, uid + 1, rev=rev, body=body, avail=1, obsgen=1)
            m["owners"] = owners
            uid += 2
            return m
        if kind == "fresh":
            target["revision"], target["fin"] = 0, False
        elif kind == "partial":
            for o in allobjs:
                if r.random() < 0.5:
                    store.append(member(o, [[okind, 10, 100, 1]], 2, body=r.choice([1, 2])))
        elif kind == "prevgone":
            # spec.previous still names revisions that no longer exist (revision history limit, or deleted by a third party)
            target["prev"] = [8] if r.random() < 0.5 else [7, 8]
            for o in allobjs:
                if r.random() < 0.6:
                    store.append(member(o, [[okind, 10, 100, 1]], 2, body=r.choice([1, 2])))
        elif kind == "handover":
            prev = sl.mk_set(okind, ons, 9, 90, rv=6, phases=copy.deepcopy(phases), revision=1, fin=True,
                             conds=[[0, 0, 0, 1], [2, 0, 5, 1]])
            for o in allobjs:
                store.append(member(o, [[okind, 9, 90, 1]], 1, body=1))
            prev["ctrlof"] = [{"gk": o["gk"], "ns": 1, "name": o["name"]} for o in allobjs]
            target["prev"] = [9]
            sets.append(prev)
            targets.append({"kind": okind, "ns": ons, "name": 9, "uid": 90})
        elif kind in ("teardown", "archive"):
            for o in allobjs:
                store.append(member(o, [[okind, 10, 100, 1]], 2))
            if kind == "teardown":
                target["deleting"] = True
            else:
                target["life"] = 2
            for m in store:
                if r.random() < p_fin:
                    m["fin"] = True
        elif kind == "paused":
            target["life"] = 1
            for oi, o in enumerate(allobjs):
                # the fixed paused world has a member missing (a paused ObjectSet only observes; its pass must still succeed)
                if r.random() < 0.7 and not (wi < len(fixed) and oi == 0):
                    store.append(member(o, [[okind, 10, 100, 1]], 2))
        elif kind == "collision":
            for o in allobjs:
                store.append(member(o, [[9, 50, 500, 1]] if r.random() < 0.4 else [[okind, 10, 100, 1]], 2))
        sets.append(target)
        out.append({"force": False, "store": store, "sets": sl.sort_sets(sets), "next_rv": 50, "next_uid": 60,
                    "targets": targets,
                    # teardown and archival need up to four passes (delete, confirm gone, finalizer patch, status): all of them are
                    # inside the prefix whose requests are injection points
                    "schedule": [i % len(targets) for i in range((4 if kind in ("teardown", "archive") else 2) * len(targets))],
                    "faults": [], "drift": [], "max_rounds": 40, "_kind": kind})
    return out


def drift_ops(r, world):
    """A third-party edit of a member the ObjectSets manage (owner references are left alone).
    Worlds whose desired state forbids repair are skipped: a paused ObjectSet must not touch its members (C09), and a rollout
    stopped by a collision never reaches the later phases (C01/C03)."""
    if world.get("_kind") in ("paused", "collision"):
        return None
    objs = [o for st in world["sets"] for ph in st["phases"] for o in ph["objects"]]
    if not objs:
        return None
    o = r.choice(objs)
    k = {"gk": o["gk"], "ns": (o["ns"] or 1), "name": o["name"]}
    # stripping the owner references is repaired only where re-adopting an unowned object is permitted
    # (collisionProtection IfNoController / None); under Prevent it is refused by design (C01)
    ch = r.choice(["delete", "body", "label", "status"] + (["strip", "strip"] if o["cp"] in (1, 2) and world.get("_kind") in ("partial", "fresh") else []))
    e = {"key": k}
    if ch == "strip":
        e["strip_owners"] = True
        return [e]
    if ch == "delete":
        e["delete"] = True
    elif ch == "body":
        e["body"] = 9
    elif ch == "label":
        e["uncache"] = True
    else:
        e["unavail"] = True
    return [e]


def strip(sc):
    return {k: v for k, v in sc.items() if not k.startswith("_")}


DLG_ID = ("C10 after third-party deletion / re-creation of ObjectSetPhase objects the system does not reach the end state of the "
          "undisturbed in-process run (handover blocked, objects missing, or revision not archived)")


def check(run, tier, seed, replay=None):
    run.level = "proof"
    run.assumptions += [
        "PARTIAL: the theorems are per-request idempotence of the API operations PKO issues; convergence itself is explored by fault "
        "enumeration on the real controller, which is testing, not proof",
        "drift = third-party delete / content edit / cache-label removal / status change of members; stripping ownerReferences is excluded "
        "(re-adoption of an unowned object is refused by collision protection, C01)",
        "workload controllers eventually report Available for the current generation; pending deletions complete",
        "multi-revision convergence under the ObjectDeployment controller is covered by the C07/C08 checks' histories",
    ]
    vlib.std_proof_stage(run, "C10")
    ok, blog = vlib.build_harness()
    if not ok:
        run.violation("corr:harness-build", {"correspondence": "harness no longer builds against the tree", "log": blog[-4000:]}, False)
        return
    r = vlib.rng(seed, "C10")
    if replay:
        d = json.load(open(replay))["replay"]
        if "stages" in d["scenario"]:
            import C15 as dlg
            n, passes, _, _ = dlg.delegation_stage(run, "C10", [d["scenario"]], id_mon=DLG_ID, id_twin=DLG_ID, id_own=DLG_ID)
            run.cov["evaluations"] = n
            run.cov["rule"] = "replay"
            return
        worlds = [d["scenario"]]
    else:
        worlds = base_worlds(r, 14 if tier == "quick" else 80)
    refs = vlib.run_harness("converge", [strip(w) for w in worlds], par=8)
    scs, meta = [], []
    for w, ref in zip(worlds, refs):
        if "obs" not in ref:
            run.violation("C10 reference run crashed", {"scenario": strip(w), "out": ref}, True)
            continue
        ro = ref["obs"]
        if not ro["converged"] or ro["quiet_writes"] != 0:
            run.violation("C10 undisturbed run does not reach quiescence (controllers keep writing)",
                          {"scenario": strip(w), "impl": ro}, True)
            continue
        if ro.get("quiet_errors"):
            run.violation("C10 at quiescence a controller pass still fails (%s world, undisturbed)" % w.get("_kind"),
                          {"scenario": strip(w), "impl": ro, "errors": ro["quiet_errors"][:3]}, True)
            continue
        # every request of every pass of the disturbed prefix x {err, lost}
        for p, nreq in enumerate(ro["pass_requests"]):
            for q in range(nreq):
                for kind in ("err", "lost"):
                    s = strip(w)
                    s["faults"] = [{"pass": p, "req": q, "kind": kind}]
                    scs.append(s)
                    meta.append((w, ro, "fault"))
        # drift before each pass
        for p in range(len(w["schedule"]) + 1):
            for _ in range(2 if tier == "quick" else 4):
                ops = drift_ops(r, w)
                if ops:
                    s = strip(w)
                    s["schedule"] = w["schedule"] + [0]
                    s["drift"] = [{"before_pass": p, "edits": ops}]
                    scs.append(s)
                    meta.append((w, ro, "drift"))
        if tier == "thorough":
            for _ in range(30):
                s = strip(w)
                s["faults"] = []
                for _ in range(2):
                    p = r.randrange(len(ro["pass_requests"]))
                    if ro["pass_requests"][p]:
                        s["faults"].append({"pass": p, "req": r.randrange(ro["pass_requests"][p]), "kind": r.choice(["err", "lost"])})
                ops = drift_ops(r, w)
                if ops and r.random() < 0.5:
                    s["drift"] = [{"before_pass": r.randrange(len(w["schedule"])), "edits": ops}]
                scs.append(s)
                meta.append((w, ro, "pair"))
    outs = vlib.run_harness("converge", scs, par=12)
    run.cov["evaluations"] = len(outs)
    for s, (w, ro, what), o in zip(scs, meta, outs):
        if "obs" not in o:
            run.violation("C10 disturbed run crashed", {"scenario": s, "out": o}, True)
            continue
        ob = o["obs"]
        run.classes.add((w["_kind"] if "_kind" in w else "replay", what, ob["converged"], ob["rounds"]))
        if not ob["converged"] or ob["quiet_writes"] != 0:
            run.violation("C10 no quiescence after disturbance (%s world, %s)" % (w.get("_kind"), what), {"scenario": s, "impl": ob, "reference": ro["end"]}, True)
        elif ob.get("quiet_errors"):
            # no write is left to do, yet a pass still returns an error: the workqueue retries it forever and whatever the
            # pass would report (status, Paused, Available) is never written
            run.violation("C10 at quiescence a controller pass still fails (%s world, %s)" % (w.get("_kind"), what),
                          {"scenario": s, "impl": ob, "errors": ob["quiet_errors"][:3]}, True)
        elif ob["end"] != ro["end"]:
            diff = {"members": [m for m in ob["end"]["members"] if m not in ro["end"]["members"]],
                    "sets": [x for x in ob["end"]["sets"] if x not in ro["end"]["sets"]]}
            run.violation("C10 end state after disturbance differs from the undisturbed run (%s world, %s)" % (w.get("_kind"), what),
                          {"scenario": s, "impl_end": ob["end"], "reference_end": ro["end"], "diff": diff}, True)
    run.cov["rule"] = ("worlds (fresh / partial / handover / teardown / archive / paused / collision / previous revision gone) x every request index of every pass of the "
                       "first rounds x {error before effect, lost response}, every pass on a fresh controller+cache, drift before every pass; "
                       "distinct = (world kind, disturbance kind, converged, rounds)")
    run.cov["samples"] = [{"scenario": scs[0] if scs else None}]
    if not replay:
        # delegated phases: drift = out-of-band deletion of the phase objects (garbage collecting their members) and
        # re-creation under new uids, followed by a handover; quiescence must reach the end state of the same history
        # with every phase in-process (the all-local twin run)
        import dlglib as dl, C15 as dlg
        r2 = vlib.rng(seed, "C10d")
        hs = []
        for m in ([True], [True, False], [False, True]):
            hs.append(dl.scenario_recreated(r2, mask_old=m, policy="rr"))
            hs.append(dl.scenario_handover(r2, m, None, nph=len(m), policy="rr"))
        for _ in range(2 if tier == "quick" else 60):
            hs.append(dl.scenario_recreated(r2, mask_old=[True] + [r2.random() < 0.5 for _ in range(r2.choice([0, 1]))]))
        ident = DLG_ID
        n, passes, _, _ = dlg.delegation_stage(run, "C10", hs, id_mon=ident, id_twin=ident, id_own=ident)
        run.cov["evaluations"] += n
        run.cov["delegated_drift_stage"] = {"scenarios": n, "controller_passes": passes}
