"""C09 paused: theorems in props/C09.v; paused ObjectSets (controller level) and paused phase owners (all flavours)."""
import setcheck, phasecheck as pc


def check(run, tier, seed, replay=None):
    pscs = [s for s in pc.random_phases(seed + 9, 1500 if tier == "quick" else 20000)]
    for i, s in enumerate(pscs):
        s["owner"]["paused"] = (i % 3 != 0)
    setcheck.set_check(run, "C09", tier, seed, replay, 1000, 15000, "judge09",
                       "C09 write on a member of a paused ObjectSet / phase",
                       "seeded random worlds with paused ObjectSets (members missing, modified, foreign-owned, uncached) through the real "
                       "controller, and paused owners of all five phase-controller flavours through the real PhaseReconciler",
                       phase_judge="judge09p", phase_scs=pscs,
                       extra_identities=("C09 pause not handed to a delegated phase behind an incomplete earlier phase",))
