"""C09 paused: theorems in props/C09.v; paused ObjectSets (controller level) and paused phase owners (all flavours)."""
import setcheck, phasecheck as pc


def deployment_stage(run, tier, seed, replay_sc=None):
    """The ObjectDeployment half of C09 on the real (Cluster)ObjectDeployment controller (model Deployment.v, theorems
    C09_deployment_paused(_exact), C09_unpause_sound/_exact in props/C08.v): corpus + pause-heavy histories, judged by the
    paused / unpause monitors of C08Corr."""
    import deplib as dl, depgen, depcheck as dc, C08
    if replay_sc is not None:
        pairs = [(dl.Ctx(replay_sc["alphabet"], cluster=replay_sc["dep"]["kind"] == 6), replay_sc)]
    else:
        pairs = depgen.corpus() + depgen.histories(seed, 120 if tier == "quick" else 1500, salt="C09")
    res = dl.run_cases(run, pairs, "judge08", 7, "From PKOCorr Require Import C08Corr.", shard=200)
    n = 0
    for ctx, sc, obs, r in res:
        if r is None:
            continue
        n += 1
        mons = dict(zip(C08.NAMES, r[1:]))
        for name in ("paused", "unpause"):
            if not mons[name]:
                run.violation(C08.WHAT[name], {"scenario": dl.slim(sc), "impl": dc.slim_obs(obs), "monitor": name}, True)
    run.cov["deployment_stage"] = {"histories": n}
    run.cov["evaluations"] = run.cov.get("evaluations", 0) + n


def check(run, tier, seed, replay=None):
    if replay:
        import json
        rsc = json.load(open(replay))["replay"]["scenario"]
        if "alphabet" in rsc:
            import vlib
            vlib.std_proof_stage(run, "C09")
            vlib.build_harness()
            deployment_stage(run, tier, seed, replay_sc=rsc)
            return
    pscs = [s for s in pc.random_phases(seed + 9, 1500 if tier == "quick" else 20000)]
    for i, s in enumerate(pscs):
        s["owner"]["paused"] = (i % 3 != 0)
    setcheck.set_check(run, "C09", tier, seed, replay, 1000, 15000, "judge09g",
                       "C09 write on a member of a paused ObjectSet / phase, or a paused pass that does not end with what the cache holds (actual / failed objects)",
                       "seeded random worlds with paused ObjectSets (members missing, modified, foreign-owned, uncached) through the real "
                       "controller, and paused owners of all five phase-controller flavours through the real PhaseReconciler",
                       phase_judge="judge09p", phase_scs=pscs,
                       extra_identities=("C09 pause not handed to a delegated phase behind an incomplete earlier phase",
                                         "C09 a paused ObjectSet stops probing / reporting: the pass fails instead of reporting what it sees through the status"))
    if not replay:
        deployment_stage(run, tier, seed)
        # "yet keeps probing them": a paused owner reads through the dynamic cache only, so the cache must return what
        # its informer holds whoever watched the kind first (real dynamiccache.Cache + real InformerMap, checks/C12.py)
        import C12
        C12.read_stage(run, "C09", tier, seed,
                       "C09 paused owners probe through the dynamic cache: a read of a watched kind misses an object the informer holds")
