"""C08 rollouts never archive or delete what is still serving (+ deployment half of C09): theorems in props/C08.v; exhaustive
kernel of revision chains through the real archive reconciler, histories with the real ObjectSet controller for the handover."""
import json
import vlib, deplib as dl, depgen, depcheck as dc

NAMES = ["archive", "gc", "paused", "unpause", "shared", "archive_inline"]
WHAT = {"archive": "C08 revision archived against the rule (not confirmed paused / newest / no newer Available and still controlling "
                   "objects of the next newer revision)",
        "gc": "C08 history pruning deleted a revision that is not among the oldest beyond revisionHistoryLimit",
        "paused": "C09 paused ObjectDeployment created / archived / deleted a revision or left a revision unpaused",
        "unpause": "C09 unpausing released a revision the parent had not paused (or kept one it had)",
        "shared": "C08 object present in the outgoing and the incoming revision deleted during the handover"}


def check(run, tier, seed, replay=None):
    run.assumptions += [
        "ObjectSets of a like-labelled deployment in a second namespace (corpus entries with 'foreign' ObjectSets: same / other template "
        "hashes, higher / lower revisions) are not part of the model's world; that no request of a deployment pass names them, that they "
        "stay unchanged and never appear in spec.previous is judged on the observed requests and stored objects (depcheck.namespace_violations)",
        "pass-level atomicity; List returns ObjectSets in key order and sort.Sort is stable (insertion sort) for at most 12 ObjectSets",
        "objects of a revision = objects inlined in its phases + objects of the ObjectSlices its phases name (ObjectSlices of the scenario "
        "are never written); controllerOf as stored in status (nil and [] are told apart only where a third party stored [])",
        "API-server semantics of the harness's recording server (resourceVersion conflicts, finalizer-delayed deletion, no-op writes); "
        "condition messages / transition times not compared",
        "the handover clause is judged on passes of the real ObjectSet controller for unsliced outgoing revisions, atomic or with the "
        "incoming revision's pass run between the outgoing teardown's read and delete (Store.WriteHook); the interleaved pass is not modelled",
        "the archive rule reads status.controllerOf of the older revision: ObjectSets of the deployment histories have local phases only "
        "(no ObjectSetPhase objects); that an ObjectSet with delegated phases relays the controllerOf its ObjectSetPhases report is C15's "
        "claim and checked there",
    ]
    vlib.std_proof_stage(run, "C08")
    ok, blog = vlib.build_harness()
    if not ok:
        run.violation("corr:harness-build", {"correspondence": "harness no longer builds against the tree", "log": blog[-4000:]}, False)
        return
    dc.note_shapes(run)
    if replay:
        d = json.load(open(replay))["replay"]
        ctx = dl.Ctx(d["scenario"]["alphabet"], cluster=d["scenario"]["dep"]["kind"] == 6)
        pairs = [(ctx, d["scenario"])]
        nk = 0
    else:
        kern = depgen.kernel(seed, tier)
        nk = len(kern)
        pairs = depgen.corpus() + kern + depgen.histories(seed, 100 if tier == "quick" else 1000, salt="C08")
    res = dl.run_cases(run, pairs, "judge08", 7, "From PKOCorr Require Import C08Corr.", shard=200)
    for ctx, sc, obs, r in res:
        if r is None:
            continue
        cls = (tuple((s["revision"], s["life"], tuple(c[0] for c in s["conds"] if c[1] == 0), len(s["ctrlof"]), s["ctrlset"],
                      any(o["gk"] == 9 for p in s["phases"] for o in p["objects"])) for s in sc["sets"]),
               tuple(dc.pass_class(st, so) for st, so in zip(sc["steps"], obs["steps"])))
        if any(c[0] == "dep" and any(e[0] != "status" for e in c[4]) for c in cls[1]):
            run.classes.add(cls)
        agree, mons = r[0], dict(zip(NAMES, r[1:]))
        if dc.ID_NS_REQ in dc.namespace_violations(sc, obs):
            run.violation(dc.ID_NS_REQ, {"scenario": dl.slim(sc), "impl": dc.slim_obs(obs), "monitor": "namespace"}, True)
        concrete = False
        for name in ("archive", "gc", "paused", "unpause", "shared"):
            if mons[name]:
                continue
            concrete = True
            ident = WHAT[name]
            if name == "archive" and mons["archive_inline"] and dc.has_slices(sc):
                ident = dc.ID_C08M if dc.has_missing_slice(sc) else dc.ID_C08
            if name == "archive" and ident == WHAT["archive"] and dc.archived_unreported(sc, obs):
                ident = dc.ID_C08U
            if name == "shared" and dc.has_slices(sc):
                ident = dc.ID_C08S
            elif name == "shared":
                ident = dc.handover_identity(sc, obs) or ident
            run.violation(ident, {"scenario": dl.slim(sc), "impl": dc.slim_obs(obs), "monitor": name}, True)
        if not agree and not concrete:
            run.violation("corr:C08/deployment model and implementation differ",
                          {"correspondence": "DeployCorr.agree", "scenario": dl.slim(sc),
                           "impl": dc.slim_obs(obs)}, False)
    run.cov["evaluations"] = len(res)
    run.cov["kernel_rows"] = nk
    run.cov["exhaustive"] = True
    run.cov["rule"] = ("exhaustive kernel: chains of 1-3 (quick) / 1-4 (thorough) revisions; every earlier revision ranges over "
                       "{Available, not} x {active, spec-paused, status-paused, archived} x controllerOf in {nil, [] stored, own objects only, "
                       "objects shared with the next revision}; newest {Available, not}; template orders with pairwise overlapping, disjoint and "
                       "sliced (fully / partly in ObjectSlices, or referencing a slice that does not exist) revisions; revisionHistoryLimit in {unset, 0, 1, 2, 10} (all for chains <= 2, "
                       "cycled for longer chains in quick); one pass of the real controller per row; + the C07 corpus and random histories with real "
                       "ObjectSet controller passes (handover, pause toggles, limit changes, faults); non-trivial = a deployment pass sends a "
                       "request besides its status; distinct = (chain flags, per-step requests with results)")
    run.cov["samples"] = [{"scenario": dl.slim(sc), "impl": dc.slim_obs(obs)} for _, sc, obs, _ in res[20:21]]
