"""C15 delegation preserves behaviour: theorems in props/C15.v (DelegationProofs.v); the real (Cluster)ObjectSet
controller and the real (Cluster)ObjectSetPhase controllers (same-cluster = native owner references, multi-cluster
constructors on the same server = owner annotation; class "default") run pass by pass against one recording
server on generated worlds, compared step by step with ObjectSet.v / PhaseController.v, judged by the monitors of
coq/corr/C15Corr.v, and compared with the all-local twin of the same scenario."""
import json
import vlib, phaselib as pl, dlglib as dl

IMPORTS = ("From PKO Require Import Base Owner Api Phase ObjectSet PhaseController.\n"
           "From PKOCorr Require Import PhaseCorr SetCorr C15Corr.")

ID_MON = "C15 delegated phase: phase object not carrying the phase / relayed Available not for the current generation / gate or teardown order broken / foreign class reconciled"
ID_TWIN = "C15 delegated phase behaves differently from the in-process phase (member objects at quiescence, first-write order or teardown progress differ)"
ID_OWN = ("C15 ObjectSet relays or records an ObjectSetPhase it does not control (status / status.remotePhases), or drops the "
          "controllerOf a controlled phase object reports")
PARTS = ["agree", "agree-twin", "m_carries", "m_relay", "m_gate", "m_teardown", "m_class", "m_final",
         "twin-store", "twin-write-order", "twin-sets", "m_own", "m_remotes", "m_relay_ctrlof", "m_handover", "m_phase_teardown", "m_set_revision", "m_phase_orphan"]


def step_sig(run):
    out = []
    for st in run["steps"]:
        kinds = []
        for e in st["events"]:
            k = e["kind"]
            if k == "member":
                k = "m:" + e["member"]["verb"]
            elif k == "phase":
                k = "p:" + e["phase"]["op"]
            if not kinds or kinds[-1] != k:
                kinds.append(k)
        out.append((st["actor"], st["res"], tuple(kinds)))
    return tuple(out)


def delegation_stage(run, pid, scs, id_mon=ID_MON, id_twin=ID_TWIN, id_own=ID_OWN):
    """Runs delegation scenarios through the real controllers, judges them (C15Corr.judge) and files violations for
    property [pid]. Returns (number of evaluated scenarios, controller passes, indices, outputs)."""
    outs = vlib.run_harness("delegation", scs)
    terms, idx = [], []
    for i, (sc, o) in enumerate(zip(scs, outs)):
        if "obs" not in o:
            run.violation("corr:%s/harness error or panic" % pid, {"correspondence": "harness", "scenario": sc, "out": o}, False)
            continue
        try:
            terms.append(dl.c_tcase(sc, o["obs"]))
            idx.append(i)
        except pl.Unrepresentable as e:
            run.violation("corr:%s/observation outside the model's event language: %s" % (pid, e),
                          {"correspondence": "C15Corr event language", "scenario": sc, "impl": o["obs"]}, False)
    res, logs = vlib.judge_cases(pid, IMPORTS, "judge", terms, 5, shard=40, tag="dlg")
    for l in logs:
        run.violation("corr:%s/coq-eval" % pid, {"correspondence": "coq evaluation failed", "log": l}, False)
    bad = [(k, i) for k, (i, r) in enumerate(zip(idx, res)) if r is not None and not all(r)]
    detail = {}
    if bad:
        pres, _ = vlib.judge_cases(pid, IMPORTS, "judge_parts", [terms[k] for k, _ in bad[:40]], len(PARTS), shard=10, tag="parts")
        for (k, i), pr in zip(bad, pres):
            if pr is not None:
                detail[i] = [n for n, v in zip(PARTS, pr) if not v]
    passes = 0
    for i, r in zip(idx, res):
        sc, obs = scs[i], outs[i]["obs"]
        passes += len(obs["d"]["steps"]) + (len(obs["l"]["steps"]) if obs.get("l") else 0)
        if r is None:
            continue
        nd = sum(1 for s in sc["sets"] for ph in s["phases"] if ph["class"])
        if nd > 0:
            run.classes.add((sc["family"], sc["strategy"], step_sig(obs["d"])))
        agree_d, agree_l, mon, twin, own = r
        info = {"scenario": sc, "impl": {"d": {k: obs["d"][k] for k in ("steps", "post", "sets", "phases", "quiet")}}, "failed": detail.get(i)}
        concrete = False
        if not mon:
            run.violation(id_mon, info, True)
            concrete = True
        if not twin:
            info2 = dict(info)
            info2["impl"] = dict(info["impl"], l={k: obs["l"][k] for k in ("steps", "post", "sets", "quiet")})
            run.violation(id_twin, info2, True)
            concrete = True
        if not own:
            run.violation(id_own, info, True)
            concrete = True
        if not concrete and (not agree_d or not agree_l):
            run.violation("corr:%s/controller models and implementation differ (%s run)" % (pid, "delegated" if not agree_d else "local twin"),
                          {"correspondence": "C15Corr.agree", **info}, False)
    return len(idx), passes, idx, outs


def check(run, tier, seed, replay=None):
    run.assumptions += [
        "pass-level atomicity: one controller pass at a time against the store (interleavings = orders of whole passes, round-robin and seeded random, "
        "run to quiescence), cache reads as fresh as the store",
        "API-server semantics of coq/theories/Api.v / ObjectSet.v / PhaseController.v as implemented by the harness's recording server "
        "(status subresource with resourceVersion conflicts, generation bump on spec change, finalizer-delayed deletion); condition messages, "
        "transition times and mapped conditions are not compared",
        "availability probe of the scenarios: kind Widget, condition Available=True, observedGeneration current or absent; the phase object's probes "
        "are compared by the harness (a phase object with other probes is outside the model)",
        "phase object names: <objectset>-<phase> with names written as base-1000 numerals (ObjectSet.join_name), so that clashes are expressible",
        "the Namespace consulted by remotePhase.Teardown is an environment object of the scenario (present / terminating / absent)",
        "the differential clause (delegated vs in-process) is judged for the built-in same-cluster flavour only; the multi-cluster (annotation) "
        "flavour runs no namespace-escalation check by design",
    ]
    vlib.std_proof_stage(run, "C15")
    ok, blog = vlib.build_harness()
    if not ok:
        run.violation("corr:harness-build", {"correspondence": "harness no longer builds against the tree", "log": blog[-4000:]}, False)
        return
    if replay:
        scs = [json.load(open(replay))["replay"]["scenario"]]
    else:
        import C11
        # + each preflight-violating kind at every position of a delegated phase through the real phase controller
        # (the in-process phase reports PreflightError and writes nothing; the delegated one must behave the same)
        scs = dl.gen(seed, tier) + C11.phase_controller_violations()
    n, passes, idx, outs = delegation_stage(run, "C15", scs)
    run.cov["evaluations"] = n
    run.cov["controller_passes"] = passes
    run.cov["rule"] = ("fixed corpus (name clash), every subset of 1-3 phases delegated x both owner strategies x round-robin / seeded random "
                       "schedules to quiescence with lifecycle changes (pause, unpause, archive, delete, orphan delete), handovers between two "
                       "revisions for every pair of delegation masks, handovers over three revisions (previous list with a revision without "
                       "remote phases first) and from phase objects deleted out-of-band and re-created under new uids, random rollouts / "
                       "handovers, and single ObjectSets with pre-existing phase "
                       "objects in arbitrary states (stale / current status, paused mismatch, deleting, foreign controller, other class, "
                       "terminating namespace) under short explicit schedules; non-trivial = at least one delegated phase; distinct = (family, "
                       "strategy, per-pass (controller, outcome, request kinds) sequence)")
    run.cov["samples"] = [{"scenario": scs[i], "impl_steps": [(s["actor"], s["target"]["name"], s["res"], [e["kind"] for e in s["events"]])
                                                              for s in outs[i]["obs"]["d"]["steps"][:12]]} for i in idx[1:3]]
