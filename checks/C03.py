"""C03 rollout gating: theorems in props/C03.v; real (Cluster)ObjectSet controller on generated worlds."""
import setcheck


def check(run, tier, seed, replay=None):
    setcheck.set_check(run, "C03", tier, seed, replay, 1200, 20000, "judge03",
                       "C03 object of a later phase written although an earlier phase is incomplete, or wrong phase named as failing",
                       "seeded random worlds: ObjectSets with 1-4 phases x 0-3 objects (ConfigMaps and probed Widgets), members in "
                       "all ownership / status states (ready, failing, stale observedGeneration, absent, uncached), active/paused/new/"
                       "deleting/archived lifecycle, previous revisions present/absent, through the real controller's Reconcile")
