"""C03 rollout gating: theorems in props/C03.v; real (Cluster)ObjectSet controller on generated worlds."""
import json
import setcheck


def check(run, tier, seed, replay=None):
    if replay and "sliced" in json.load(open(replay))["replay"]["scenario"]:
        import vlib, C14
        vlib.std_proof_stage(run, "C03")
        vlib.build_harness()
        C14.sliced_extra(run, tier, seed, "missing", ID_SLICE, replay)
        return
    setcheck.set_check(run, "C03", tier, seed, replay, 1200, 20000, "judge03g",
                       "C03 object of a later phase written although an earlier phase is incomplete, or wrong phase named as failing",
                       "seeded random worlds: ObjectSets with 1-4 phases x 0-3 objects (ConfigMaps and probed Widgets), members in "
                       "all ownership / status states (ready, failing, stale observedGeneration, absent, uncached), active/paused/new/"
                       "deleting/archived lifecycle, previous revisions present/absent, through the real controller's Reconcile")
    # additive: phases whose objects live in ObjectSlices (machinery and theorems of C14, props/C14.v C14_missing_slice_no_rollout)
    import C14
    C14.sliced_extra(run, tier, seed, "missing", ID_SLICE)
    if not replay:
        # the gate / the Available condition rest on what the phase reconciler records from the prober (machinery of C17)
        import C17
        C17.probe_stage(run, "C03", tier, seed, "C03 the gate opens although a probe of an object of an earlier phase fails: the phase reconciler does not record a failing probe (e.g. one with an empty message)")


ID_SLICE = ("C03 a phase is rolled out (or availability reported) although the slice holding an earlier phase's objects "
            "could not be loaded")
