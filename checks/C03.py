"""C03 rollout gating: theorems in props/C03.v; real (Cluster)ObjectSet controller on generated worlds."""
import json
import setcheck


def check(run, tier, seed, replay=None):
    if replay and "family" in json.load(open(replay))["replay"].get("scenario", {}):
        import vlib
        vlib.std_proof_stage(run, "C03")
        vlib.build_harness()
        delegated_stage(run, tier, seed, json.load(open(replay))["replay"]["scenario"])
        return
    if replay and "sliced" in json.load(open(replay))["replay"]["scenario"]:
        import vlib, C14
        vlib.std_proof_stage(run, "C03")
        vlib.build_harness()
        C14.sliced_extra(run, tier, seed, "missing", ID_SLICE, replay)
        return
    setcheck.set_check(run, "C03", tier, seed, replay, 1200, 20000, "judge03g",
                       "C03 object of a later phase written although an earlier phase is incomplete, or wrong phase named as failing",
                       "seeded random worlds: ObjectSets with 1-4 phases x 0-3 objects (ConfigMaps and probed Widgets), members in "
                       "all ownership / status states (ready, failing, stale observedGeneration, absent, uncached), active/paused/new/"
                       "deleting/archived lifecycle, previous revisions present/absent, through the real controller's Reconcile")
    # additive: phases whose objects live in ObjectSlices (machinery and theorems of C14, props/C14.v C14_missing_slice_no_rollout)
    import C14
    C14.sliced_extra(run, tier, seed, "missing", ID_SLICE)
    if not replay:
        # the gate / the Available condition rest on what the phase reconciler records from the prober (machinery of C17)
        import C17
        C17.probe_stage(run, "C03", tier, seed, "C03 the gate opens although a probe of an object of an earlier phase fails: the phase reconciler does not record a failing probe (e.g. one with an empty message)")
        delegated_stage(run, tier, seed)


ID_DLG = ("C03 an earlier phase delegated to an ObjectSetPhase does not gate the rollout like the in-process phase (reported Available "
          "while its objects fail their probes / later phase written early / wrong phase named)")


def delegated_stage(run, tier, seed, replay_sc=None, pid="C03", ident=None):
    """The gate when the earlier phase is delegated: real ObjectSet + ObjectSetPhase controllers (machinery and theorems of
    C15, props/C15.v; DelegationProofs.v), every delegation mask of 2-3 phases plus seeded random rollouts."""
    import vlib, dlglib as dl, C15 as dlg
    if replay_sc is not None:
        scs = [replay_sc]
    else:
        r = vlib.rng(seed, pid + "-dlg")
        scs = []
        for nph in (2, 3):
            for m in dl.masks(nph):
                if any(m):
                    # with and without the actor that makes Widgets ready: without it the in-process twin stays gated
                    for kubelet in (True, False):
                        sc = dl.scenario_rollout(r, mask=m, nph=nph, strategy="native", policy="rr")
                        sc["kubelet"] = kubelet
                        scs.append(sc)
        for i in range(10 if tier == "quick" else 300):
            scs.append(dl.scenario_rollout(r, strategy="annot" if i % 4 == 3 else "native"))
        scs = [dl.place(sc) for sc in scs]
    ident = ident or ID_DLG
    n, passes, _, _ = dlg.delegation_stage(run, pid, scs, id_mon=ident, id_twin=ident, id_own=ident)
    run.cov["evaluations"] = run.cov.get("evaluations", 0) + n
    run.cov["delegated_rollouts"] = n


ID_SLICE = ("C03 a phase is rolled out (or availability reported) although the slice holding an earlier phase's objects "
            "could not be loaded")
