"""C18 ObjectTemplates track their sources and stay within bounds: theorems in props/C18.v; the real
ObjectTemplate / ClusterObjectTemplate controllers are run over generated histories (harness mode
"template": recording API server, real dynamiccache.Cache with scripted informers, real
EnqueueWatchingObjects) and compared step by step with coq/theories/Template.v; the property's monitor
(coq/corr/C18Corr.v, proved sound for the model) is evaluated on the implementation's observations."""
import json
import vlib
from vlib import cN, cB, cL, cP, cO

IMPORTS = "From PKO Require Import Template.\nFrom PKOCorr Require Import C18Corr."

CLAUSES = ["render", "required", "optional", "unparsable", "nsbound", "delete", "tracks", "quiescent", "enqueue"]
IDENT = {
    "render": "C18 target written with something else than the template rendered with the source values read in that pass and the current environment of its namespace, or not written although it should be",
    "required": "C18 missing required source: target written, or not reported through the Invalid condition, or not requeued",
    "optional": "C18 missing optional source: not retried, or target not written from the remaining sources",
    "unparsable": "C18 unparsable template: target written or Invalid condition missing",
    "nsbound": "C18 source or target outside the template's namespace is read, label-patched or written, or not reported through Invalid",
    "delete": "C18 deleting the ObjectTemplate does not free its watches before the finalizer goes, or writes the target",
    "tracks": "C18 after a successful pass the template does not watch every source kind (or a source is left without cache label)",
    "quiescent": "C18 after a successful pass the target differs from the render of the current sources",
    "enqueue": "C18 a change of a watched, labelled source object does not enqueue the ObjectTemplate",
}
# identity of the former finding F-C18 (fixed by aa47ee3); a recurrence is reported under the same string
ID_ROOTOWN = ("C18 namespaced ObjectTemplate: a cluster-scoped source or target named with the template's own namespace "
              "passes the namespace check (source is read and label-patched, target is not reported through Invalid)")


# ------------------------------------------------------------------ Coq term printers
class Unrep(Exception):
    pass


def n(x):
    if not isinstance(x, int) or isinstance(x, bool) or x < 0:
        raise Unrep("number outside the model's language: %r" % (x,))
    return cN(x)


def c_key(k):
    return cP(n(k[0]), n(k[1]), n(k[2]))


def c_data(d):
    return cL([cP(n(a), n(b)) for a, b in d])


def c_cond(c):
    return "{| c_type := %s; c_status := %s; c_obsgen := %s; c_ok := %s |}" % (
        n(c["type"]), n(c["status"]), n(c["obsgen"]), cB(not c.get("bare", False)))


def c_label(label, lother):
    if label:
        return "LTrue"
    return "(LOther %s)" % n(lother) if lother else "LAbsent"


def c_obj(o):
    return "{| o_data := %s; o_lbl := %s; o_ctrl := %s; o_gen := %s; o_sobs := %s; o_conds := %s |}" % (
        c_data(o["data"]), c_label(o["label"], o.get("lother", 0)), n(o["ctrl"]), n(o["gen"]), cO(None if o.get("sobs") is None else n(o["sobs"])),
        cL([c_cond(c) for c in o.get("conds") or []]))


def c_source(s):
    return "{| s_kind := %s; s_ns := %s; s_name := %s; s_opt := %s; s_items := %s |}" % (
        n(s["kind"]), n(s["ns"]), n(s["name"]), cB(s["opt"]), cL([cP(n(a), n(b)) for a, b in s["items"]]))


def c_code(c):
    return "{| tc_form := %s; tc_kind := %s; tc_ns := %s; tc_name := %s; tc_pick := %s; tc_orefs := %s |}" % (
        n(c["form"]), n(c["kind"]), n(c["ns"]), n(c["name"]), cL([n(x) for x in c["pick"]]), cB(c["orefs"]))


def c_tmpl(tns, spec, st):
    return ("{| t_ns := %s; t_sources := %s; t_code := %s; t_gen := %s; t_fin := %s; t_del := %s; t_invalid := %s; "
            "t_conds := %s; t_ctrlof := %s |}") % (
        n(tns), cL([c_source(s) for s in spec[0]]), c_code(spec[1]), n(st["gen"]), cB(st["fin"]), cB(st["del"]), n(st["invalid"]),
        cL([cP(n(a), n(b)) for a, b in st["conds"]]), cO(None if st.get("ctrlof") is None else c_key(st["ctrlof"])))


def hval(hs, hcs, ns):
    """The HyperShift part of the environment GetEnvironment must return for a namespace (Template.hval)."""
    if not hs:
        return 0
    return 10 + ns if ns != 0 and ns in hcs else 1


def c_world(tns, spec, snap, env):
    """env = (version, HyperShift section present?) as last handed to the sink; the HostedClusters are the ones observed on
    the API server. w_env is computed here, freshly, from these and the template's namespace."""
    ver, hs = env
    hcs = snap.get("hcs") or []
    return ("{| w_store := %s; w_tmpl := %s; w_watch := %s; w_env := %s; "
            "w_sink := {| sk_ver := %s; sk_hs := %s; sk_hcs := %s; sk_ns := %s |}; w_pending := %s |}") % (
        cL([cP(c_key(o["key"]), c_obj(o)) for o in snap["store"]]),
        cO(None if snap["tmpl"] is None else c_tmpl(tns, spec, snap["tmpl"])),
        cL([cP(n(a), n(b)) for a, b in snap["watch"]]), n(ver + 1000 * hval(hs, hcs, tns)),
        n(ver), cB(hs), cL([n(x) for x in hcs]), n(tns), cB(snap.get("pending", False)))


RES = {"ok": "WOk", "AlreadyExists": "WAlreadyExists", "BadRequest": "WBadRequest"}


def c_ev(e):
    k = e["e"]
    if k == "watch":
        return "(EWatch %s)" % n(e["kind"])
    if k == "free":
        return "EFree"
    if k in ("fin-add", "fin-rm") and e.get("res") != "ok":
        return "(EFail 6)"
    if k == "status" and e.get("res") != "ok":
        return "(EFail 9)"
    if k == "patch-label" and e.get("res") != "ok":
        return "(EPatchFail %s)" % c_key(e["key"])
    if k == "cache-hit":
        return "(ECacheHit %s %s)" % (c_key(e["key"]), c_data(e.get("data") or []))
    if k == "fin-add":
        return "EFinAdd"
    if k == "fin-rm":
        return "EFinRm"
    if k == "status":
        return "EStatus"
    if k == "patch-label":
        return "(EPatchLabel %s %s)" % (c_key(e["key"]), c_data(e.get("data") or []))
    if k in ("create", "update"):
        if e.get("note"):
            return "EOther"
        return "(%s %s %s %s)" % ("ECreate" if k == "create" else "EUpdate", c_key(e["key"]), c_data(e.get("data") or []), RES.get(e["res"], "WOther"))
    return "EOther"


def c_step(st):
    op = st["op"]
    if op == "put":
        return "(SPut %s %s %s)" % (c_key(st["key"]), c_data(st["data"]), c_label(st.get("label", False), st.get("lother", 0)))
    if op == "del":
        return "(SDel %s)" % c_key(st["key"])
    if op == "poke":
        return "(SPoke %s %s %s)" % (c_key(st["key"]), cO(None if st.get("sobs") is None else n(st["sobs"])),
                                     cL([c_cond(c) for c in st.get("conds") or []]))
    if op == "tedit":
        return "(SEdit %s %s)" % (cL([c_source(s) for s in st["sources"]]), c_code(st["code"]))
    if op == "tdel":
        return "STDel"
    if op == "env":
        return "(SEnv %s)" % n(st["env"])
    if op == "pass":
        return "SPass"
    if op == "drain":
        return "SDrain"
    if op == "hyper":
        return "(SHyper %s)" % cB(st["b"])
    if op == "hc":
        return "(SHc %s %s)" % (n(st["ns"]), cB(st["b"]))
    if op == "aux":
        return "(SAux %s)" % n(st["ns"])
    if op == "passx":
        return "(SPassX %s)" % cL([cP(n(a["n"]), c_act(a)) for a in st.get("adv") or []])
    raise Unrep(op)


def c_act(a):
    if a["op"] == "del":
        return "(ADel %s)" % c_key(a["key"])
    if a["op"] == "put":
        return "(APut %s %s)" % (c_key(a["key"]), c_data(a["data"]))
    return "(AFault %s)" % ("FNotFound" if a["fault"] == "NotFound" else "FOther")


def reads_of(evs, nsources):
    """Per attempted source, in order: the data the pass read AND labelled (cache hit, or answer of a successful label
    patch), None if it has neither. A source is attempted when the pass asks the cache to watch its kind."""
    segs = []
    for e in evs:
        if e["e"] == "watch":
            segs.append(None)
        elif segs and segs[-1] is None and (e["e"] == "cache-hit" or (e["e"] == "patch-label" and e.get("res") == "ok")):
            segs[-1] = e.get("data") or []
    return segs[:nsources]


def c_sobs(so, step=None, nsources=0):
    if so["kind"] == "aux":
        return "(OAux %s)" % n(so["aux"])
    if so["kind"] == "pass" and step is not None and step["op"] == "passx":
        evs = so.get("evs") or []
        return "(OPassX {| p_evs := %s; p_requeue := %s; p_err := %s |} %s)" % (
            cL([c_ev(e) for e in evs]), n(so["requeue"]), n(so["err"]),
            cL([cO(None if d is None else c_data(d)) for d in reads_of(evs, nsources)]))
    if so["kind"] == "pass":
        return "(OPass {| p_evs := %s; p_requeue := %s; p_err := %s |})" % (cL([c_ev(e) for e in so.get("evs") or []]), n(so["requeue"]), n(so["err"]))
    if so["kind"] == "enq":
        return "(OEnq %s)" % cB(so["enq"])
    return "ONone"


DEFAULT_CODE = {"form": 0, "kind": 1, "ns": 0, "name": 100, "pick": [], "orefs": False}


def init_snap(sc):
    t = sc["tmpl"]
    return {"store": sc["store"], "watch": sc["watch"], "hcs": sorted(sc.get("hcs") or []),
            "tmpl": None if t is None else {k: t[k] for k in ("gen", "fin", "del", "invalid", "conds", "ctrlof")}}


def c_case(sc, obs):
    tns, t = sc["tns"], sc["tmpl"]
    spec = (t["sources"], t["code"]) if t else ([], DEFAULT_CODE)
    env = (sc["env"], sc.get("hs", False))
    spec0, env0 = spec, env
    outs = []
    for st, so in zip(sc["steps"], obs["steps"]):
        o = c_sobs(so, st, len(spec[0]))
        if st["op"] == "tedit":
            spec = (st["sources"], st["code"])
        if st["op"] == "env":
            env = (st["env"], env[1])
        if st["op"] == "hyper":
            env = (env[0], st["b"])
        outs.append(cP(o, c_world(tns, spec, so["snap"], env)))
    ref = obs["ref"]
    if ref["status"].startswith("harness"):
        raise Unrep(ref["status"])
    r = cO(None if ref["status"] != "ok" else cP(c_key(ref["key"]), c_data(ref.get("data") or [])))
    return ("{| cc_ivres := %s; cc_ivopt := %s; cc_init := %s; cc_steps := %s; cc_init_obs := %s; cc_obs := %s; cc_ref := %s |}" % (
        n(sc["iv_res"]), n(sc["iv_opt"]), c_world(tns, spec0, init_snap(sc), env0), cL([c_step(s) for s in sc["steps"]]),
        c_world(tns, spec0, obs["init"], env0), cL(outs), r))


# ------------------------------------------------------------------ scenario construction
def S(kind, ns, name, opt=False, items=((1, 1),)):
    return {"kind": kind, "ns": ns, "name": name, "opt": opt, "items": [list(i) for i in items]}


def code(form=0, kind=1, ns=0, name=100, pick=(), orefs=False):
    return {"form": form, "kind": kind, "ns": ns, "name": name, "pick": list(pick), "orefs": orefs}


def T(ns, sources, c, **kw):
    d = {"ns": ns, "sources": sources, "code": c, "gen": 1, "fin": False, "del": False, "invalid": 0, "conds": [], "ctrlof": None}
    d.update(kw)
    return d


def O(key, data, label=False, ctrl=0, gen=1, sobs=None, conds=(), lother=0):
    return {"key": list(key), "data": [list(x) for x in data], "label": label, "lother": 0 if label else lother, "ctrl": ctrl, "gen": gen,
            "sobs": sobs, "conds": list(conds)}


P = {"op": "pass"}


D = {"op": "drain"}


def put(key, data, label=False, lother=0):
    return {"op": "put", "key": list(key), "data": [list(x) for x in data], "label": label, "lother": 0 if label else lother}


def scen(tns, tmpl, store, steps, watch=(), env=1, iv=(30, 60), hs=False, hcs=(), desc=False):
    return {"iv_res": iv[0], "iv_opt": iv[1], "tns": tns, "tmpl": tmpl, "store": store, "watch": [list(w) for w in watch],
            "env": env, "hs": hs, "hcs": list(hcs), "desc": desc, "steps": steps}


def passx(*adv):
    return {"op": "passx", "adv": list(adv)}


def a_del(i, key):
    return {"n": i, "op": "del", "key": list(key)}


def a_put(i, key, data):
    return {"n": i, "op": "put", "key": list(key), "data": [list(x) for x in data]}


def a_fault(i, f):
    return {"n": i, "op": "fault", "fault": f}


def corpus():
    cm1 = O((1, 1, 1), [(1, 5)])
    out = [
        # create, source edit, re-render, source deleted, template deleted
        scen(1, T(1, [S(1, 0, 1)], code()), [cm1], [P, put((1, 1, 1), [(1, 6)]), P, {"op": "del", "key": [1, 1, 1]}, P, {"op": "tdel"}, P]),
        # former witness of F-C18 (fixed by aa47ee3): cluster-scoped source named with the template's own namespace; must be rejected
        scen(1, T(1, [S(3, 1, 1)], code()), [O((3, 0, 1), [(1, 7)])], [P, P]),
        # former witness, target side: cluster-scoped target rendered with the template's own namespace; must be reported through Invalid
        scen(1, T(1, [S(1, 0, 1)], code(kind=3, ns=1)), [cm1], [P]),
        # source in another namespace; cluster-scoped source without namespace; unregistered source
        scen(1, T(1, [S(1, 2, 1)], code()), [O((1, 2, 1), [(1, 5)])], [P]),
        scen(1, T(1, [S(1, 0, 1), S(3, 0, 1)], code()), [cm1, O((3, 0, 1), [(1, 7)])], [P]),
        scen(1, T(1, [S(4, 0, 1)], code()), [], [P]),
        # target in another namespace / cluster-scoped without namespace / with owner references
        scen(1, T(1, [S(1, 0, 1)], code(ns=2)), [cm1], [P]),
        scen(1, T(1, [S(1, 0, 1)], code(kind=3)), [cm1], [P]),
        scen(1, T(1, [S(1, 0, 1)], code(orefs=True)), [cm1], [P]),
        # optional source missing, created later without label, picked up by the retry
        scen(1, T(1, [S(1, 0, 1), S(2, 0, 2, opt=True, items=((1, 2),))], code()), [cm1], [P, put((2, 1, 2), [(1, 9)]), P]),
        scen(1, T(1, [S(2, 0, 2, opt=True, items=((1, 2),))], code(form=1, pick=(2,))), [], [P, put((2, 1, 2), [(1, 9)]), P]),
        scen(1, T(1, [S(2, 0, 2, opt=True, items=((1, 2),))], code(form=2, pick=(2, 3))), [], [P, put((2, 1, 2), [(1, 9)]), P], iv=(30, 0)),
        # required source missing, then created
        scen(1, T(1, [S(1, 0, 1)], code()), [], [P, put((1, 1, 1), [(1, 3)]), P], iv=(30, 60)),
        scen(1, T(1, [S(1, 0, 1)], code()), [], [P], iv=(0, 60)),
        # key missing in the source
        scen(1, T(1, [S(1, 0, 1, items=((2, 1),))], code()), [cm1], [P, put((1, 1, 1), [(1, 5), (2, 6)]), P]),
        # unparsable template; template whose output is not YAML
        scen(1, T(1, [S(1, 0, 1)], code(form=4)), [cm1], [P]),
        scen(1, T(1, [S(1, 0, 1)], code(form=5)), [cm1], [P]),
        # cluster-scoped template, cluster-scoped target, environment
        scen(0, T(0, [S(1, 1, 1), S(3, 0, 2, items=((2, 2),))], code(form=3, kind=3)), [cm1, O((3, 0, 2), [(2, 4)])],
             [P, P, {"op": "env", "env": 8}, P], watch=[(1, 2)], env=7),
        scen(0, T(0, [S(1, 0, 1)], code(kind=3)), [cm1], [P]),
        scen(0, T(0, [S(1, 1, 1)], code(kind=1, ns=0)), [cm1], [P]),
        scen(0, T(0, [S(1, 1, 1)], code(kind=1, ns=2)), [cm1], [P, P]),
        # existing target: not in the cache (AlreadyExists), in the cache but foreign, with status conditions
        scen(1, T(1, [S(1, 0, 1)], code()), [cm1, O((1, 1, 100), [(1, 1)])], [P]),
        scen(1, T(1, [S(1, 0, 1)], code()), [cm1, O((1, 1, 100), [(1, 1)], label=True, ctrl=2)], [P]),
        scen(1, T(1, [S(1, 0, 1)], code(), gen=3), [cm1, O((1, 1, 100), [(1, 5)], label=True, ctrl=1, gen=2, sobs=3,
             conds=[{"type": 1, "status": 1, "obsgen": 2}, {"type": 2, "status": 0, "obsgen": 1}])], [P, P]),
        # cache label present with another value than "True" ("true", "False", ""): invisible to the informers; the pass must
        # re-patch it, and the later edit / deletion must reach the template through the queue alone (drain steps)
        scen(1, T(1, [S(1, 0, 1)], code()), [O((1, 1, 1), [(1, 5)], lother=2)], [P, put((1, 1, 1), [(1, 6)]), D, D]),
        scen(1, T(1, [S(1, 0, 1), S(2, 0, 2, items=((1, 2),))], code()),
             [O((1, 1, 1), [(1, 5)], lother=3), O((2, 1, 2), [(1, 8)], lother=4)],
             [P, put((2, 1, 2), [(1, 9)]), D, {"op": "del", "key": [1, 1, 1]}, D]),
        scen(0, T(0, [S(3, 0, 1)], code(kind=3)), [O((3, 0, 1), [(1, 5)], lother=2)], [P, put((3, 0, 1), [(1, 6)]), D]),
        scen(1, T(1, [S(1, 0, 1, opt=True)], code(form=2, pick=(1,))), [], [P, put((1, 1, 1), [(1, 4)], lother=3), P, put((1, 1, 1), [(1, 5)]), D]),
        # third party edits / deletes the target: the template is enqueued and restores it
        scen(1, T(1, [S(1, 0, 1)], code()), [cm1], [P, put((1, 1, 100), [(1, 9)]), D, {"op": "del", "key": [1, 1, 100]}, D]),
        # existing target carrying the label key with another value: not in the cache, create fails with AlreadyExists
        scen(1, T(1, [S(1, 0, 1)], code()), [cm1, O((1, 1, 100), [(1, 1)], lother=2)], [P, D]),
        # idle worker
        scen(1, T(1, [S(1, 0, 1)], code()), [cm1], [D, P, D]),
        # third parties and faults INSIDE a pass (requests: 0 Get template, 1 finalizer patch, 2 uncached Get, 3 label patch,
        # 4 create/update, 5 status): a required source deleted between the uncached Get and the label patch, with a template
        # that tolerates the missing key - nothing may be written
        scen(1, T(1, [S(1, 0, 1)], code(form=2, pick=(1,))), [cm1], [passx(a_del(3, (1, 1, 1))), P]),
        scen(1, T(1, [S(1, 0, 1)], code(form=2, pick=(1,))), [cm1], [passx(a_fault(3, "NotFound")), P]),
        scen(1, T(1, [S(1, 0, 1)], code(form=0), fin=True), [cm1], [passx(a_del(2, (1, 1, 1)))]),
        scen(1, T(1, [S(1, 0, 1), S(2, 0, 2, items=((1, 2),))], code(form=2, pick=(1, 2))), [cm1, O((2, 1, 2), [(1, 8)])],
             [passx(a_del(5, (2, 1, 2))), passx()]),
        # ... modified between Get and patch: the pass goes on with what the patch returned
        scen(1, T(1, [S(1, 0, 1)], code()), [cm1], [passx(a_put(3, (1, 1, 1), [(1, 9)])), P]),
        # ... deleted after it was read: the write is legitimate
        scen(1, T(1, [S(1, 0, 1)], code()), [cm1], [passx(a_del(4, (1, 1, 1))), P]),
        # ... optional source: NotFound from the uncached Get skips it
        scen(1, T(1, [S(1, 0, 1, opt=True)], code(form=2, pick=(1,))), [cm1], [passx(a_fault(2, "NotFound")), P]),
    ] + [
        scen(1, T(1, [S(1, 0, 1)], code(form=2, pick=(1,))), [cm1], [passx(a_fault(i, f)), P])
        for i in range(6) for f in ("NotFound", "Conflict", "Internal")
    ] + [
        scen(1, T(1, [S(1, 0, 1)], code(), fin=True, **{"del": True}), [cm1], [passx(a_fault(1, "Internal")), P], watch=[(1, 1)]),
        # HyperShift: the environment of a render is the sink's environment amended with the HostedCluster of the template's
        # namespace NOW; other templates of the same controller (aux, in other namespaces) and earlier lookups leave no trace
        scen(1, T(1, [S(1, 0, 1)], code(form=6)), [cm1], [{"op": "aux", "ns": 2}, P, {"op": "aux", "ns": 1}, {"op": "aux", "ns": 3}],
             hs=True, hcs=(2,)),
        scen(1, T(1, [S(1, 0, 1)], code(form=6)), [cm1],
             [P, {"op": "hc", "ns": 1, "b": False}, P, {"op": "aux", "ns": 2}, P, {"op": "hc", "ns": 1, "b": True}, P], hs=True, hcs=(1, 2)),
        scen(2, T(2, [], code(form=6)), [], [P, {"op": "hyper", "b": True}, P, {"op": "aux", "ns": 3}, P, {"op": "hyper", "b": False}, P], hcs=(3,)),
        scen(0, T(0, [], code(form=6, kind=3)), [], [P, {"op": "hc", "ns": 1, "b": True}, P], hs=True),
        # labels and annotations templated from a source: after the target exists, a source edit must reach data, labels AND
        # annotations (rendered keys win); label / annotation keys only the existing target has are kept
        scen(1, T(1, [S(1, 0, 1)], code(form=7)), [cm1], [P, put((1, 1, 1), [(1, 6)]), D, P]),
        scen(1, T(1, [S(1, 0, 1), S(2, 0, 2, items=((1, 2),))], code(form=7)), [cm1, O((2, 1, 2), [(1, 8)])],
             [P, put((2, 1, 2), [(1, 9)]), P, put((1, 1, 1), [(1, 4)]), P]),
        scen(1, T(1, [S(1, 0, 1)], code(form=7)), [cm1, O((1, 1, 100), [(1, 1), (1001, 2), (1007, 3), (2001, 2), (2008, 4)], label=True, ctrl=1)],
             [P, put((1, 1, 1), [(1, 6)]), P]),
        scen(1, T(1, [S(1, 0, 1)], code(form=7)), [cm1],
             [P, {"op": "tedit", "sources": [S(1, 0, 1, items=((1, 2),))], "code": code(form=7)}, P, put((1, 1, 100), [(2, 5), (1002, 9), (2002, 9)]), D]),
        # the source kind is also watched by owners of other kinds (owner 3: the cluster-scoped / namespaced sibling kind) and by
        # another template of the same kind (owner 2), in both orders of the owner list the enqueue handler sees
    ] + [
        scen(tns, T(tns, [S(1, 0 if tns else 1, 1)], code(kind=1, ns=0 if tns else 1)), [cm1], [P, put((1, 1, 1), [(1, 6)]), D, {"op": "del", "key": [1, 1, 1]}, D],
             watch=w, desc=desc)
        for tns in (1, 0) for desc in (False, True) for w in ([(1, 3)], [(1, 2), (1, 3)], [(1, 3), (2, 3)])
    ] + [
        # a missing OPTIONAL source listed BEFORE other sources: the collection must go on - the later (present) source is read,
        # a later missing required source still stops the pass; both template scopes, range / index|default / label templates
    ] + [
        scen(tns, T(tns, [S(2, ns, 2, opt=True, items=((1, 2),)), S(1, ns, 1, opt=opt2)] + extra, c), store,
             [P, P, put((2, 1, 2), [(1, 9)]), P])
        for tns, ns in ((1, 0), (0, 1))
        for c in (code(form=0, ns=0 if tns else 1), code(form=2, pick=(1, 2, 3), ns=0 if tns else 1), code(form=7, ns=0 if tns else 1))
        for opt2 in (False, True)
        for extra, store in (([], [cm1]), ([S(1, ns, 3, items=((1, 3),))], [cm1]),
                             ([S(1, ns, 3, items=((1, 3),))], [cm1, O((1, 1, 3), [(1, 7)], label=True)]), ([], []))
    ] + [
        # empty destination in a source item (was a panic before a818a7e): SourceError
        scen(1, T(1, [S(1, 0, 1, items=((1, 0),))], code()), [cm1], [P, P]),
        scen(1, T(1, [S(1, 0, 1, items=((1, 1), (1, 0)))], code()), [cm1], [P]),
        # malformed condition on the existing target (was a panic before a818a7e): plain error; outdated malformed one: ignored
        scen(1, T(1, [S(1, 0, 1)], code()), [cm1, O((1, 1, 100), [(1, 5)], label=True, ctrl=1, gen=1,
             conds=[{"type": 1, "status": 1, "obsgen": 1, "bare": True}])], [P, {"op": "poke", "key": [1, 1, 100], "sobs": None, "conds": []}, P]),
        scen(1, T(1, [S(1, 0, 1)], code()), [cm1, O((1, 1, 100), [(1, 5)], label=True, ctrl=1, gen=2,
             conds=[{"type": 1, "status": 1, "obsgen": 1, "bare": True}, {"type": 2, "status": 0, "obsgen": 2}])], [P]),
        # deletion with other owners watching, and a second deletion pass
        scen(1, T(1, [S(1, 0, 1)], code(), fin=True, **{"del": True}), [cm1], [P, P], watch=[(1, 1), (1, 2), (2, 1)]),
        # template edit changes sources and target
        scen(1, T(1, [S(1, 0, 1)], code()), [cm1, O((2, 1, 2), [(1, 8)], label=True)],
             [P, {"op": "tedit", "sources": [S(2, 0, 2, items=((1, 3),))], "code": code(name=101)}, P, put((1, 1, 1), [(1, 9)]), put((2, 1, 2), [(1, 2)]), P]),
    ]
    return out


def table(tier):
    """Exhaustive reference table: every (template scope, source kind, source namespace, presence/label, optional) with a
    plain target, and every (template scope, target kind, rendered namespace, owner references) with one good source;
    thorough: the full product of both. Two passes each (create path, then update path)."""
    import itertools
    out = []
    src_rows = list(itertools.product((1, 0), (1, 3, 4), (0, 1, 2), ("absent", "plain", "labelled", "other"), (False, True)))
    tgt_rows = list(itertools.product((1, 0), (1, 3, 4), (0, 1, 2), (False, True)))

    def one(tns, skind, sns, pres, opt, tkind, tgtns, orefs):
        src = S(skind, sns, 1, opt=opt)
        store = []
        if pres != "absent" and skind != 4:
            ns = 0 if skind == 3 else (sns or tns or 1)
            store.append(O((skind, ns, 1), [(1, 5)], label=pres == "labelled", lother=3 if pres == "other" else 0))
            edit = [put((skind, ns, 1), [(1, 6)]), dict(D)]     # the edit must reach the template through the queue
        else:
            edit = []
        return scen(tns, T(tns, [src], code(kind=tkind, ns=tgtns, orefs=orefs)), store, [dict(P), dict(P)] + edit)

    if tier == "quick":
        for tns, skind, sns, pres, opt in src_rows:
            out.append(one(tns, skind, sns, pres, opt, 1, 0 if tns else 1, False))
        for tns, tkind, tgtns, orefs in tgt_rows:
            out.append(one(tns, 1, 0 if tns else 1, "plain", False, tkind, tgtns, orefs))
    else:
        for (tns, skind, sns, pres, opt), (tns2, tkind, tgtns, orefs) in itertools.product(src_rows, tgt_rows):
            if tns == tns2:
                out.append(one(tns, skind, sns, pres, opt, tkind, tgtns, orefs))
    return out


def gen(seed, tier):
    r = vlib.rng(seed, "C18")
    out = corpus() + table(tier)
    total = len(out) + (180 if tier == "quick" else 3000)

    def data():
        return [[k, r.randint(1, 9)] for k in (1, 2, 3) if r.random() < 0.92]

    def mk_source(tns):
        kind = r.choice([1, 1, 1, 2, 2, 3, 3, 4] if r.random() < 0.3 else [1, 1, 2])
        if tns:
            ns = r.choice([0] * 8 + [1, 2]) if kind != 3 else r.choice([0, 1, 1, 2])
        else:
            ns = r.choice([1] * 5 + [2, 2, 0]) if kind != 3 else r.choice([0, 0, 0, 1])
        items = [[r.randint(1, 3), r.randint(1, 4) if r.random() < 0.97 else 0] for _ in range(r.choice([1, 1, 2]))]
        return {"kind": kind, "ns": ns, "name": r.randint(1, 3), "opt": r.random() < 0.4, "items": items}

    def mk_code(tns):
        form = r.choice([0] * 7 + [7] * 5 + [1] * 3 + [2] * 4 + [3] * 2 + [6] * 3 + [4, 5])
        kind = r.choice([1] * 12 + [2] * 3 + [3] * 2 + [4])
        if tns:
            ns = r.choice([0] * 8 + [1, 1, 2])
        else:
            ns = r.choice([1, 1, 2, 0]) if kind != 3 else r.choice([0, 0, 0, 1])
        name = r.choice([100] * 12 + [101] * 3 + [1])
        pick = r.sample([1, 2, 3, 4], r.choice([1, 2, 2, 3]))
        return {"form": form, "kind": kind, "ns": ns, "name": name, "pick": pick, "orefs": r.random() < 0.04}

    def resolve(tns, s):
        kind = s["kind"]
        ns = s["ns"] or tns
        if kind == 3:
            ns = 0
        return [kind, ns, s["name"]]

    def tgt_key(tns, c):
        kind = c["kind"]
        ns = tns or c["ns"]
        if kind == 3:
            ns = 0
        return [kind, ns, c["name"]]

    def valid_key(k):
        return k[0] in (1, 2, 3) and ((k[0] == 3) == (k[1] == 0))

    while len(out) < total:
        tns = r.choice([1, 1, 1, 0])
        srcs = [mk_source(tns) for _ in range(r.choice([0, 1, 1, 2, 2, 3]))]
        c = mk_code(tns)
        store, seen = [], set()
        keys = [resolve(tns, s) for s in srcs]
        for k in keys + [[1, 1, r.randint(1, 3)], [2, 1, r.randint(1, 3)]]:
            if tuple(k) in seen or not valid_key(k) or r.random() < 0.2:
                continue
            seen.add(tuple(k))
            store.append(O(k, data(), label=r.random() < 0.35, lother=r.choice([0, 0, 0, 2, 3, 4])))
        tk = tgt_key(tns, c)
        if valid_key(tk) and tuple(tk) not in seen and r.random() < 0.2:
            seen.add(tuple(tk))
            conds = [{"type": r.randint(1, 2), "status": r.randint(0, 1), "obsgen": r.randint(1, 2), "bare": r.random() < 0.15}
                     for _ in range(r.choice([0, 1, 2]))]
            meta = sorted([1000 * c0 + k0, r.randint(1, 9)] for c0 in (1, 2) for k0 in (1, 2, 3, 7) if r.random() < 0.3)
            store.append(O(tk, data() + meta, label=r.random() < 0.65, lother=r.choice([0, 2, 3, 4]), ctrl=r.choice([0, 1, 1, 2]),
                           gen=r.randint(1, 2), sobs=r.choice([None, 1, 2]), conds=conds))
        tm = T(tns, srcs, c)
        u = r.random()
        if u < 0.03:
            tm = None
        elif u < 0.4:
            tm["fin"] = r.random() < 0.7
            tm["invalid"] = r.choice([0, 0, 1, 2])
            tm["gen"] = r.randint(1, 2)
            tm["conds"] = [[t, r.randint(0, 1)] for t in (1, 2) if r.random() < 0.3]
            tm["ctrlof"] = tk if r.random() < 0.3 and min(tk) >= 0 else None
            if tm["fin"] and r.random() < 0.12:
                tm["del"] = True
        watch = []
        for kind in (1, 2, 3):
            for owner in (1, 2, 3):
                if r.random() < (0.3 if owner == 3 else 0.15):
                    watch.append([kind, owner])
        hyper = r.random() < 0.3
        hs0 = hyper and r.random() < 0.8
        hcs0 = [x for x in (1, 2, 3) if r.random() < 0.5] if hyper else []
        if hyper and tm is not None and r.random() < 0.7:
            c = dict(c, form=6)
            tm["code"] = c

        def mk_adv():
            acts = []
            for _ in range(r.choice([1, 1, 2, 3])):
                i = r.randint(0, 6)
                u2 = r.random()
                cand = [k for k in keys if valid_key(k)] or [[1, 1, 1]]
                if u2 < 0.35:
                    acts.append(a_del(i, r.choice(cand)))
                elif u2 < 0.55:
                    acts.append(a_put(i, r.choice(cand), data()))
                else:
                    acts.append(a_fault(i, r.choice(["NotFound", "Conflict", "Internal"])))
            return passx(*acts)

        steps = []
        driven = r.random() < 0.4      # after the first pass the template only runs when the queue holds a request
        if driven:
            steps.append(dict(P))
        for _ in range(r.randint(1, 7 if driven else 8)):
            u = r.random()
            if driven:
                cand = [k for k in keys if valid_key(k)] + ([tk] if valid_key(tk) and r.random() < 0.3 else []) or [[1, 1, 1]]
                k = r.choice(cand)
                if u < 0.5:
                    steps.append(put(k, data(), label=r.random() < 0.2, lother=r.choice([0, 0, 2, 3, 4])))
                elif u < 0.62:
                    steps.append({"op": "del", "key": k})
                else:
                    steps.append(dict(D))
                continue
            if hyper and r.random() < 0.3:
                v = r.random()
                if v < 0.4 and tns:
                    steps.append({"op": "aux", "ns": r.choice([x for x in (1, 2, 3) if x != tns])})
                elif v < 0.75:
                    steps.append({"op": "hc", "ns": r.randint(1, 3), "b": r.random() < 0.5})
                else:
                    steps.append({"op": "hyper", "b": r.random() < 0.6})
                continue
            if u < 0.42:
                steps.append(mk_adv() if r.random() < 0.25 and tk not in keys else dict(P))
            elif u < 0.66:
                cand = [k for k in keys if valid_key(k)] or [[1, 1, 1]]
                k = r.choice(cand) if r.random() < 0.85 else [r.choice([1, 2]), r.choice([1, 2]), r.randint(1, 3)]
                steps.append(put(k, data(), label=r.random() < 0.25, lother=r.choice([0, 0, 0, 2, 3, 4])))
            elif u < 0.76:
                cand = [k for k in keys if valid_key(k)] or [[1, 1, 1]]
                steps.append({"op": "del", "key": r.choice(cand)})
            elif u < 0.84:
                srcs = [mk_source(tns) for _ in range(r.choice([0, 1, 1, 2, 2, 3]))] if r.random() < 0.7 else srcs
                c = mk_code(tns) if r.random() < 0.6 else c
                keys = [resolve(tns, s) for s in srcs]
                tk = tgt_key(tns, c)
                steps.append({"op": "tedit", "sources": srcs, "code": c})
            elif u < 0.89:
                steps.append({"op": "tdel"})
            elif u < 0.94:
                steps.append({"op": "env", "env": r.randint(1, 9)})
            else:
                if valid_key(tk):
                    conds = [{"type": r.randint(1, 2), "status": r.randint(0, 1), "obsgen": r.randint(1, 3), "bare": r.random() < 0.15}
                             for _ in range(r.choice([1, 1, 2]))]
                    steps.append({"op": "poke", "key": tk, "sobs": r.choice([None, None, 1, 2]), "conds": conds})
                else:
                    steps.append(dict(P))
        if driven:
            steps.append(dict(D))
        elif r.random() < 0.6:
            steps[-1] = dict(P)
        out.append(scen(tns, tm, store, steps, watch=watch, env=r.randint(1, 9),
                        iv=r.choice([(30, 60)] * 6 + [(0, 60), (30, 0), (0, 0)]), hs=hs0, hcs=hcs0, desc=r.random() < 0.5))
    return out


def rootown_shape(sc):
    """Does the scenario contain the shape of the former finding F-C18 (cluster-scoped kind named with the template's namespace)?"""
    if sc["tns"] == 0:
        return False
    specs = [(sc["tmpl"]["sources"], sc["tmpl"]["code"])] if sc["tmpl"] else []
    specs += [(st["sources"], st["code"]) for st in sc["steps"] if st["op"] == "tedit"]
    for srcs, c in specs:
        if any(s["kind"] == 3 and s["ns"] == sc["tns"] for s in srcs) or (c["kind"] == 3 and c["ns"] == sc["tns"]):
            return True
    return False


def classify(sc, obs):
    cls = []
    for st, so in zip(sc["steps"], obs["steps"]):
        if so["kind"] == "pass":
            t = so["snap"]["tmpl"]
            cls.append(("pass", tuple((e["e"], e.get("res", "")) for e in (so.get("evs") or []) if e["e"] not in ("watch",)),
                        so["requeue"], so["err"], None if t is None else t["invalid"]))
        elif so["kind"] == "enq":
            cls.append((st["op"], so["enq"]))
        elif so["kind"] == "aux":
            cls.append((st["op"], so["aux"]))
        else:
            cls.append((st["op"],))
    return (sc["tns"] == 0, tuple(cls))


def slim(sc, obs):
    o = {"ref": obs["ref"], "steps": [{k: v for k, v in s.items() if k != "snap"} for s in obs["steps"]],
         "final": obs["steps"][-1]["snap"] if obs["steps"] else obs["init"]}
    return {"scenario": sc, "impl": o}


def check(run, tier, seed, replay=None):
    run.assumptions += [
        "interleavings: third-party steps and controller passes interleave at pass granularity, and - in passes with a schedule "
        "(passx) - third-party deletions / modifications of sources and API faults are placed before any API request of the pass; "
        "the dynamic cache follows the API server at once (cache consistency is C12's subject); events of mid-pass third-party "
        "actions are not followed through the work queue",
        "for passes with a schedule only the reads clause is judged (what is written is the render of what was read and labelled "
        "in that pass, every unread source is optional); all nine clauses are judged on passes without schedule",
        "environment: version and HyperShift section are what the harness last handed to the real Sink, HostedClusters are the ones "
        "on the recording API server; the expected environment of a render is computed from these by the driver (Template.view), "
        "other templates of the same controller are represented by source-less templates printing their environment (aux passes)",
        "event delivery from the API server to the informer handlers is played by the harness (labelled objects only, as the "
        "cache's label selector prescribes); from the handlers on, controller-runtime's event handler, the controller's "
        "predicate and EnqueueWatchingObjects are the real code; that an enqueued request leads to a pass is controller-runtime's",
        "API server: the recording Store plus controller-runtime's treatment of cluster-scoped kinds (namespace not part of "
        "the request path for get/patch/update, BadRequest for a namespaced body on create/update)",
        "templates are drawn from a fixed family of real Go templates (range over .config into data, the same also into labels and "
        "annotations, .config.kN picks, index|default picks, environment, unparsable text, non-YAML output); the theorems quantify "
        "over arbitrary render functions; object content is compared component-wise (data, labels, annotations); on the update path "
        "label / annotation keys only the existing target has are kept, as labels.Merge(existing, rendered) does",
        "an environment change by itself schedules no pass (environment.Manager only calls SetEnvironment); the quiescence "
        "clause is stated for 'no later source or environment change'",
    ]
    vlib.std_proof_stage(run, "C18")
    ok, blog = vlib.build_harness()
    if not ok:
        run.violation("corr:harness-build", {"correspondence": "harness no longer builds against the tree", "log": blog[-4000:]}, False)
        return
    scs = [json.load(open(replay))["replay"]["scenario"]] if replay else gen(seed, tier)
    outs = vlib.run_harness("template", scs, par=8)
    terms, idx = [], []
    for i, (sc, o) in enumerate(zip(scs, outs)):
        if "obs" not in o:
            if "panic" in o:
                run.violation("corr:C18/panic in the controller (robustness is C19's subject): " + o["panic"][:100],
                              {"scenario": sc, "out": {k: str(v)[:3000] for k, v in o.items()}}, False)
            else:
                run.violation("corr:C18/template harness error", {"scenario": sc, "out": o}, False)
            continue
        try:
            terms.append(c_case(sc, o["obs"]))
            idx.append(i)
        except Unrep as e:
            run.violation("corr:C18/observation outside the model's language: %s" % e,
                          {"correspondence": "C18Corr case language", "scenario": sc, "impl": o["obs"]}, False)
    arity = 1 + len(CLAUSES)
    res, logs = vlib.judge_cases("C18", IMPORTS, "judge", terms, arity, shard=100)
    for l in logs:
        run.violation("corr:C18/coq-eval", {"correspondence": "coq evaluation failed", "log": l}, False)
    run.cov["evaluations"] = len(terms)
    passes = 0
    rootown_seen = 0
    for i, r in zip(idx, res):
        if r is None:
            continue
        sc, obs = scs[i], outs[i]["obs"]
        passes += sum(1 for s in obs["steps"] if s["kind"] == "pass")
        if len(sc["steps"]) >= 2:
            run.classes.add(classify(sc, obs))
        agree, clauses = r[0], r[1:]
        bad = [c for c, g in zip(CLAUSES, clauses) if not g]
        if rootown_shape(sc):
            rootown_seen += 1
        if bad and rootown_shape(sc) and set(bad) <= {"nsbound", "render", "quiescent"}:
            # the shape of the former finding F-C18 fails again: report the recurrence under its old identity
            run.violation(ID_ROOTOWN, slim(sc, obs), True)
        else:
            for c in bad:
                run.violation(IDENT[c], slim(sc, obs), True)
        if not agree:
            d = dict(slim(sc, obs), correspondence="C18Corr.agree")
            if len(run.violations) < 3:
                d["diagnose"] = vlib.coq_show("C18", IMPORTS, "diagnose (%s)" % terms[idx.index(i)])[-1500:]
            run.violation("corr:C18/template model and implementation differ", d, False)
    run.cov["passes"] = passes
    run.cov["histories_with_former_finding_shape"] = rootown_seen
    run.cov["rule"] = (
        "fixed corpus (one witness per clause, both shapes of the former finding F-C18, which must pass now) first, then the exhaustive one-source / one-target "
        "reference table (template scope x source kind x source namespace x absent/unlabelled/labelled/labelled with another value x optional, each followed by an edit of the source and a worker step, and template "
        "scope x target kind x rendered namespace x owner references; thorough: their full product), then seeded random histories: namespaced "
        "(3/4) or cluster-scoped template, 0-3 sources (ConfigMap / Secret / cluster-scoped kind / unregistered kind; namespace "
        "empty, own, other; required or optional; 1-2 items), template from the family x target kind x rendered namespace x "
        "owner references, arbitrary initial template state (finalizer, Invalid condition, conditions, controllerOf, deleting), "
        "pre-existing targets and cache owners (the template itself, another template of its kind, an owner of another kind; the owner list "
        "reaches the real enqueue handler in ascending or descending order), 1-8 steps of source create/edit/delete, target status writes, template edit, "
        "template delete, environment change and controller passes; objects carry the cache label with the exact value, with "
        "another value (\"true\", \"False\", \"\") or not at all; 25% of the passes of ordinary histories run with a schedule of third-party "
        "deletions / modifications of sources and API faults (NotFound, Conflict, InternalError) placed before their n-th request; 30% of "
        "the histories are on a HyperShift management cluster (HostedClusters for some namespaces, created and deleted on the way, passes "
        "of other templates of the same controller in other namespaces, templates printing the environment); 40% of the random histories are queue-driven (one pass, then source / "
        "target edits and deletions with the worker running a pass only when the recording queue holds a request); one evaluation = one history judged in Coq (agreement of "
        "every step + 9 monitor clauses); non-trivial = at least two steps; distinct = (scope, per step: "
        "write/cache events with results, requeue, error class, Invalid | enqueued)")
    run.cov["samples"] = [slim(scs[i], outs[i]["obs"]) for i in idx[:2]]
