"""Generators and the generic driver of the phase-level checks (C01, C02, C05, C09, C11)."""
import itertools, random, json
import vlib, phaselib as pl

IMPORTS = "From PKO Require Import Base Owner Api Phase.\nFrom PKOCorr Require Import PhaseCorr C01Corr C02Corr C05Corr PhaseMonitors."


def table(tier):
    """Exhaustive abstract adoption table, one pre-existing object, one phase object."""
    out = []
    for flavor, okind in (("objectset", 1), ("objectset", 2), ("multiphase", 3), ("samephase", 3)):
        annot = pl.is_annot(flavor)
        ons = 0 if okind in (2, 4) else 1
        for already, revrel, cp, ctrl, force, pko, cache in itertools.product(
                (False, True), ("none", "bad", "lt", "eq", "gt"), (0, 1, 2),
                ("none", "foreign", "prev", "prevremote", "prevnoctrl"), (False, True), (0, 1, 2), (True, False)):
            # pko: package label of the existing object - 0 none, 1 "package-operator" (forced adoption), 2 another package's
            if tier == "quick" and (not cache) and (force or pko):
                continue  # cache=false only changes the read path; keep it for the unforced rows in quick
            owner = pl.mk_owner(okind, ons, 10, 100, 5)
            prevkind = 2 if okind == 2 else 1
            prev = [{"kind": prevkind, "ns": ons, "name": 9, "uid": 90, "remotes": [[19, 190]]},
                    {"kind": prevkind, "ns": ons, "name": 8, "uid": 80, "remotes": []}]
            if ctrl in ("prevremote", "prev") and not cache:
                # the same rows with the previous revision that has no remote phases listed first
                # (uncached rows only: the read path is irrelevant to the order of the previous-revision list)
                prev = prev[::-1]
            refs = []
            if ctrl == "foreign":
                refs.append([9, 50, 500, 1])
            elif ctrl == "prev":
                refs.append([prevkind, 9, 90, 1])
            elif ctrl == "prevremote":
                refs.append([4 if prevkind == 2 else 3, 19, 190, 1])
            elif ctrl == "prevnoctrl":
                refs.append([prevkind, 9, 90, 0])
            if already:
                if ctrl in ("foreign", "prev", "prevremote"):
                    continue  # two controllers: not a state the API server admits
                refs.append([okind, 10, 100, 1])
            rev = {"none": None, "bad": "bad", "lt": 4, "eq": 5, "gt": 6}[revrel]
            o = pl.mk_obj(1, 1, 1, 7, 3, rev=rev, cache=cache, pkg=pko, body=2)
            o["aowners" if annot else "owners"] = refs
            out.append({"flavor": flavor, "force": force, "owner": owner, "prev": prev, "store": [o],
                        "next_rv": 50, "next_uid": 60, "op": "reconcile",
                        "objects": [pl.mk_pobj(1, 1 if ons == 0 else 0, 1, body=3, cp=cp)]})
    return out


def random_phases(seed, n):
    r = vlib.rng(seed, "C01")
    out = []
    for _ in range(n):
        flavor = r.choice(["objectset", "objectset", "samephase", "multiphase", "sameclusterphase", "multiclusterphase"])
        okind = r.choice(pl.flavor_owner_kind(flavor))
        ons = 0 if okind in (2, 4) else 1
        annot = pl.is_annot(flavor)
        orev = r.choice([1, 2, 3, 5])
        owner = pl.mk_owner(okind, ons, 10, 100, orev, paused=r.random() < 0.05, pkg=r.choice([0, 0, 1, 2]))
        prevkind = 2 if okind in (2, 4) else 1
        prev = [{"kind": prevkind, "ns": ons, "name": 9, "uid": 90, "remotes": r.choice([[], [[19, 190]]])}] if r.random() < 0.8 else []
        if prev and r.random() < 0.35:
            # a second previous revision without remote phases (all phases in-process, or already garbage collected: empty identity)
            other = r.choice([{"kind": prevkind, "ns": ons, "name": 8, "uid": 80, "remotes": []},
                              {"kind": prevkind, "ns": 0, "name": 0, "uid": 0, "remotes": []}])
            prev = [other] + prev if r.random() < 0.6 else prev + [other]
        nobj = r.choice([1, 2, 2, 3, 4])
        store, objects = [], []
        uid = 7
        for i in range(1, nobj + 1):
            gk = r.choice([1, 1, 2])
            present = r.random() < 0.75
            if present:
                refs = r.choice([[], [[9, 50, 500, 1]], [[prevkind, 9, 90, 1]], [[prevkind, 9, 90, 0]], [[okind, 10, 100, 1]],
                                 [[prevkind, 9, 90, 0], [okind, 10, 100, 1]], [[okind, 10, 100, 0]],
                                 [[4 if prevkind == 2 else 3, 19, 190, 1]], [[okind, 10, 101, 1]]])
                o = pl.mk_obj(gk, 1, i, uid, uid + 1, rev=r.choice([None, 1, 2, 3, 5, 7, "bad"]) if r.random() < 0.9 else None,
                              cache=r.random() < 0.8, pkg=r.choice([0, 0, 0, 1]), body=r.choice([1, 2]),
                              avail=r.choice([0, 1, 1, 2]), obsgen=r.choice([None, None, 1, 2]), fin=r.random() < 0.1)
                o["aowners" if annot else "owners"] = refs
                store.append(o)
                uid += 2
            objects.append(pl.mk_pobj(gk, r.choice([0, 1]) if ons else 1, i, body=r.choice([1, 2]), cp=r.choice([0, 0, 1, 2])))
            if r.random() < 0.15:
                # the template presets metadata Package Operator owns (revision annotation, cache label, package label):
                # what is applied must not depend on it (the model has no such field)
                objects[-1]["noise"] = r.choice([1, 1, 2, 3] + ([4, 5, 7] if owner.get("pkg") else []))
        sc = {"flavor": flavor, "force": r.random() < 0.1, "owner": owner, "prev": prev, "store": store,
              "next_rv": 50, "next_uid": 60, "op": "reconcile", "objects": objects}
        if r.random() < 0.25 and store:
            v = dict(r.choice(store))
            v = json.loads(json.dumps(v))
            v["rv"] = 40
            ch = r.choice(["reown", "relabel", "delete", "recreate"])
            if ch == "reown":
                v["aowners" if annot else "owners"] = [[9, 51, 501, 1]]
            elif ch == "relabel":
                v["pkg"] = 1 - min(v["pkg"], 1)
            elif ch == "recreate":
                v["uid"] = 41
                v["owners"], v["aowners"] = [], []
            sc["between"] = [{"op": "delete", "key": {"gk": v["gk"], "ns": v["ns"], "name": v["name"]}}] if ch == "delete" else [{"op": "put", "obj": v}]
        out.append(sc)
    return out


def run_cases(run, scs, judge, arity, mode="phase"):
    """Runs scenarios, returns list of (scenario, obs, result tuple | None)."""
    outs = vlib.run_harness(mode, scs)
    terms, idx = [], []
    for i, (sc, o) in enumerate(zip(scs, outs)):
        if "obs" not in o:
            run.violation("corr:%s/harness error or panic" % run.pid, {"correspondence": "harness", "scenario": sc, "out": o}, False)
            continue
        if o["obs"].get("other_writes"):
            # a write on a member that is neither an apply, a release patch nor a delete: for C11 this is a write
            # outside / before the preflight gate; for the other properties the model's event language is left
            run.violation("%s member written through a request the reconcilers never use (%s)" % (run.pid, o["obs"]["other_writes"][0].split()[0]),
                          {"scenario": sc, "impl": o["obs"]}, run.pid == "C11")
            continue
        try:
            terms.append(pl.c_case(sc, o["obs"]))
            idx.append(i)
        except pl.Unrepresentable as e:
            run.violation("corr:%s/observation outside the model's event language: %s" % (run.pid, e),
                          {"correspondence": "PhaseCorr event language", "scenario": sc, "impl": o["obs"]}, False)
    res, logs = vlib.judge_cases(run.pid, IMPORTS, judge, terms, arity)
    for l in logs:
        run.violation("corr:%s/coq-eval" % run.pid, {"correspondence": "coq evaluation failed", "log": l}, False)
    return [(scs[i], outs[i]["obs"], r) for i, r in zip(idx, res)]




# injected API faults: every kind but "lost" fails the request before any effect and differs in the status returned
# (500 generic, 500 "failed calling webhook", 409 Conflict, ServerTimeout, 503); "lost" = effect + lost response
FAULT_KINDS = ("err", "lost", "webhook", "conflict", "timeout", "unavailable")


def fault_stage(run, pid, tier, seed, results, judge, identity, only=None):
    """API faults and lost responses inside a pass (crash points): every request of a sample of the scenarios fails
    without effect ("err") or takes effect with its response lost ("lost").  The model has no faults, so only the
    monitor is judged: a request that failed without effect is no write (dropped), a lost response is a write."""
    rng = random.Random(seed * 7919 + 17)
    cands = []
    for sc, obs, r in results:
        if sc.get("between") or not obs.get("requests"):
            continue
        for i, q in enumerate(obs["requests"]):
            for kind in FAULT_KINDS:
                if kind == "conflict" and " dry " in q + " ":
                    continue   # a 409 of the dry run is a preflight violation, judged by C11's dry-run fault stage
                cands.append((sc, i, kind, q.split()[0]))
    rng.shuffle(cands)
    # reads first: a failed read is where a reconciler may go on with a stale or missing picture
    cands.sort(key=lambda c: 0 if c[3] in ("get", "list") else 1)
    n = 700 if tier == "quick" else 8000
    reads = [c for c in cands if c[3] in ("get", "list")][: n // 2]
    writes = [c for c in cands if c[3] not in ("get", "list")][: n - len(reads)]
    scs = [dict(sc, faults=[{"req": i, "kind": kind}]) for sc, i, kind, _ in reads + writes]
    if only is not None:
        scs = [dict(results[0][0], faults=only)] if results else []
    outs = vlib.run_harness("phase", scs)
    terms, idx = [], []
    for i, (sc, o) in enumerate(zip(scs, outs)):
        if "obs" not in o:
            run.violation("corr:%s/harness error or panic" % pid, {"correspondence": "harness", "scenario": sc, "out": o}, False)
            continue
        obs = o["obs"]
        evs = []
        for e in obs["events"]:
            if e.get("fault") == "err":
                continue
            if e.get("fault") == "lost":
                e = dict(e, res="ok" if e["post"] is not None or e["verb"] == "delete" else "notfound")
            evs.append(e)
        obs["events_judged"] = evs
        try:
            terms.append(pl.c_case(sc, dict(obs, events=evs)))
            idx.append(i)
        except pl.Unrepresentable as e:
            run.violation("corr:%s/observation outside the model's event language: %s" % (pid, e),
                          {"correspondence": "PhaseCorr event language (fault stage)", "scenario": sc, "impl": obs}, False)
    res, logs = vlib.judge_cases(pid + "f", IMPORTS, judge, terms, 2)
    for l in logs:
        run.violation("corr:%s/coq-eval" % pid, {"correspondence": "coq evaluation failed", "log": l}, False)
    nfault = 0
    for i, r in zip(idx, res):
        if r is None:
            continue
        nfault += 1
        sc, obs = scs[i], outs[i]["obs"]
        run.classes.add(("fault", sc["flavor"], sc["op"], sc["faults"][0]["kind"], obs["res"], tuple((e["verb"], e["res"]) for e in obs["events"])))
        if not r[1]:
            run.violation(identity(sc, obs) + " (after an API fault inside the pass)", {"scenario": sc, "impl": obs}, True)
    run.cov["fault_stage"] = {"evaluations": nfault, "reads_faulted": len(reads), "writes_faulted": len(writes),
                              "judged": "monitor only (the model has no faults); failed-without-effect requests dropped, lost responses count as writes"}
    run.cov["evaluations"] = run.cov.get("evaluations", 0) + nfault


def dryrun_fault_stage(run, pid, tier, seed, results, identity, judge="judge11f"):
    """C11 under API faults: the dry-run request of one object of a rollout fails (error before effect, or response
    lost).  The dry run then has not accepted the object, so the pass must not write anything.  Judged by m11f on the
    scenario in which that object is marked as rejected by the dry run (the model's way of saying "not accepted")."""
    rng = random.Random(seed * 104729 + 5)
    cands = []
    for sc, obs, r in results:
        if sc.get("between") or sc["op"] != "reconcile" or not obs.get("requests"):
            continue
        for i, q in enumerate(obs["requests"]):
            if " dry " in q + " ":
                for kind in FAULT_KINDS:
                    cands.append((sc, i, kind, obs["req_keys"][i]))
    rng.shuffle(cands)
    cands = cands[: 450 if tier == "quick" else 5000]
    scs = [dict(sc, faults=[{"req": i, "kind": kind}]) for sc, i, kind, _ in cands]
    outs = vlib.run_harness("phase", scs)
    terms, idx = [], []
    for i, (sc, o) in enumerate(zip(scs, outs)):
        if "obs" not in o:
            run.violation("corr:%s/harness error or panic" % pid, {"correspondence": "harness", "scenario": sc, "out": o}, False)
            continue
        obs, k = o["obs"], cands[i][3]
        fr = sc["faults"][0]["req"]
        if fr >= len(obs["requests"]) or not obs["requests"][fr].endswith("InjectedFault"):
            continue   # the request failed on its own (scripted NotFound of the dry-run apply): no fault was injected
        evs = [dict(e, res="ok" if e["post"] is not None or e["verb"] == "delete" else "notfound") if e.get("fault") == "lost" else e
               for e in obs["events"] if e.get("fault") != "err"]
        ons = sc["owner"]["ns"]
        marked = dict(sc, objects=[dict(p, dryreject=True) if (p["gk"], p["ns"] or ons, p["name"]) == (k["gk"], k["ns"], k["name"]) else p
                                   for p in sc["objects"]])
        try:
            terms.append(pl.c_case(marked, dict(obs, events=evs)))
            idx.append(i)
        except pl.Unrepresentable as e:
            run.violation("corr:%s/observation outside the model's event language: %s" % (pid, e),
                          {"correspondence": "PhaseCorr event language (dry-run fault stage)", "scenario": sc, "impl": obs}, False)
    res, logs = vlib.judge_cases(pid + "d", IMPORTS, judge, terms, 2)
    for l in logs:
        run.violation("corr:%s/coq-eval" % pid, {"correspondence": "coq evaluation failed", "log": l}, False)
    n = 0
    for i, r in zip(idx, res):
        if r is None:
            continue
        n += 1
        sc, obs = scs[i], outs[i]["obs"]
        run.classes.add(("dryfault", sc["flavor"], sc["faults"][0]["kind"], obs["res"], len(obs["events"])))
        if not r[1]:
            run.violation(identity + " (the dry run of an object failed with an API fault and the pass wrote anyway)", {"scenario": sc, "impl": obs}, True)
    run.cov["dryrun_fault_stage"] = {"evaluations": n, "judged": "m11f: dry-run request failed => no write in that pass"}
    run.cov["evaluations"] = run.cov.get("evaluations", 0) + n


def teardown_table(tier):
    """Exhaustive abstract teardown table: one object, one phase entry."""
    out = []
    for flavor, okind in (("objectset", 1), ("objectset", 2), ("multiphase", 3), ("samephase", 3), ("sameclusterphase", 4)):
        annot = pl.is_annot(flavor)
        ons = 0 if okind in (2, 4) else 1
        for own, pre, between, fin, cache in itertools.product(
                ("absent", "sole", "ctrl+others", "owner-foreignctrl", "owner-noctrl", "notowner", "notowner-foreign"),
                ("ok", "foreignns", "apigone"), ("none", "reown", "recreate", "modify", "delete"),
                (False, True), (True, False)):
            if tier == "quick" and not cache and (fin or between != "none"):
                continue
            owner = pl.mk_owner(okind, ons, 10, 100, 5)
            me, other, foreign = [okind, 10, 100], [1 if okind != 2 else 2, 9, 90], [9, 50, 500]
            refs = {"absent": None, "sole": [me + [1]], "ctrl+others": [other + [0], me + [1], foreign + [0]],
                    "owner-foreignctrl": [me + [0], foreign + [1]], "owner-noctrl": [other + [0], me + [0]],
                    "notowner": [], "notowner-foreign": [foreign + [1]]}[own]
            gk, pns = 1, (1 if ons == 0 else 0)
            if pre == "foreignns":
                pns = 2
            if pre == "apigone":
                gk = 4
            kns = pns if pns else ons
            store = []
            if refs is not None:
                o = pl.mk_obj(gk, kns, 1, 7, 3, rev=5, cache=cache, body=2, fin=fin)
                o["aowners" if annot else "owners"] = refs
                store.append(o)
            sc = {"flavor": flavor, "force": False, "owner": owner, "prev": [], "store": store, "next_rv": 50, "next_uid": 60,
                  "op": "teardown", "objects": [pl.mk_pobj(gk, pns, 1, body=2)]}
            if between != "none":
                if not store:
                    continue
                v = json.loads(json.dumps(store[0]))
                if between == "reown":
                    v["rv"] = 40
                    v["aowners" if annot else "owners"] = [foreign + [1]]
                elif between == "recreate":
                    v["uid"], v["rv"] = 41, 42
                    v["owners"], v["aowners"] = [], []
                elif between == "modify":
                    v["rv"], v["body"] = 40, 9
                sc["between"] = [{"op": "delete", "key": {"gk": v["gk"], "ns": v["ns"], "name": v["name"]}}] if between == "delete" else [{"op": "put", "obj": v}]
            out.append(sc)
    return out


def random_teardowns(seed, n):
    scs = random_phases(seed + 7919, n)
    r = vlib.rng(seed, "td")
    for sc in scs:
        sc["op"] = "teardown"
        for o in sc["store"]:
            if r.random() < 0.3:
                o["fin"] = True
            if o["fin"] and r.random() < 0.3:
                o["deleting"] = True
    return scs


def phase_check(run, pid, tier, seed, replay, scs, judge, identity, rule, faults=False, fault_judge=None):
    fault_judge = fault_judge or judge   # the fault stages are judged by monitors that do not consult the (fault-free) model
    run.assumptions += [
        "pass-level atomicity with cache reads as fresh as the store, except for the scripted third-party op placed between read and write",
        "API-server semantics of coq/theories/Api.v as implemented by the harness's recording server",
    ]
    vlib.std_proof_stage(run, pid)
    ok, blog = vlib.build_harness()
    if not ok:
        run.violation("corr:harness-build", {"correspondence": "harness no longer builds against the tree", "log": blog[-4000:]}, False)
        return []
    if replay:
        scs = [json.load(open(replay))["replay"]["scenario"]]
        if scs[0].get("faults"):
            # a fault-stage replay: judged by the monitor only
            sc = dict(scs[0]); sc.pop("faults")
            base = run_cases(run, [sc], fault_judge, 2)
            fault_stage(run, pid, tier, seed, base, fault_judge, identity, only=scs[0]["faults"])
            return base
    results = run_cases(run, scs, judge, 2)
    run.cov["evaluations"] = len(results)
    for sc, obs, r in results:
        if r is None:
            continue
        agree, mon = r
        run.classes.add((sc["flavor"], sc["op"], obs["res"], obs.get("err"), obs.get("done"), tuple((e["verb"], e["res"]) for e in obs["events"])))
        if not mon:
            run.violation(identity(sc, obs), {"scenario": sc, "impl": obs}, True)
        elif not agree:
            run.violation("corr:%s/phase model and implementation differ" % pid,
                          {"correspondence": "PhaseCorr.agree", "scenario": sc, "impl": obs}, False)
    if faults and not replay:
        fault_stage(run, pid, tier, seed, results, fault_judge, identity)
    run.cov["rule"] = rule + "; distinct = (flavor, op, outcome, error class, done, write verbs with results)"
    run.cov["samples"] = [{"scenario": s, "impl": {k: o[k] for k in ("res", "err", "done", "events") if k in o}} for s, o, _ in results[:2]]
    return results
