"""C17: availability probing is a pure conjunction over selected, up-to-date status.
Theorems in props/C17.v; correspondence of internal/probing.Parse + pkg/probing with Probe.v
on generated (probe list, unstructured object) pairs; the CEL evaluator is an oracle whose
table is filled from the real CEL prober."""
import collections
import json
import vlib
from vlib import cN, cZ, cB, cL, cP, cS, cO

IMPORTS = "From PKO Require Import Json Probe.\nFrom PKOCorr Require Import C17Corr."

KINDS = [("apps", "Deployment", "apps/v1"), ("", "ConfigMap", "v1"), ("example.io", "Widget", "example.io/v1beta1")]
COND_TYPES = ["Available", "Progressing", "Ready"]
STATUSES = ["True", "False", "Unknown"]
LABEL_KEYS = ["app", "tier", "env"]
LABEL_VALS = ["x", "y", "db", ""]
FE_PATHS = [".status.a", "status.b", ".status.b", ".spec.replicas", ".status.replicas", ".status.nested.x", ".status.nested",
            ".status.list", ".status.obj", ".status.missing", ".status.a.b", ".status.nul", ".status.nul.x", "", ".",
            "..status.a.", "status..a", ".metadata.labels", ".metadata.generation", ".status.observedGeneration",
            ".status.conditions", ".nothing.at.all"]
# a small fixed set of CEL rules: constants, field comparisons (may fail at run time), non-boolean, not compiling
RULES = ["true", "false", "self.metadata.generation == 2", "self.status.a == self.status.b",
         "has(self.status) && has(self.status.conditions)", "self.status.replicas > 0",
         "self.kind == 'Deployment'", "self.status.a", "1 + 1", "'str'", "self.status.a +", "unknownFn(self)",
         # boolean rules that cannot be evaluated on objects without .status / the key / with a value of the wrong type
         "self.status.conditions.exists(c, c.type == 'Available' && c.status == 'True')",
         "self.spec.replicas == self.status.replicas", "self.status.nested.x == 1", "self.status.observedGeneration >= 1",
         # statically typed int / string / int / list: not boolean, to be refused by Parse
         "size(self.status.conditions)", '"Available"', "self.status.a == 1 ? 1 : 0", "self.status.conditions.map(c, c.type)"]
# what NewCELProbe has to say about each rule
RULE_CLASS = ["ok"] * 7 + ["not-bool"] * 3 + ["compile"] * 2 + ["ok"] * 4 + ["not-bool"] * 4
RULE_W = [10, 10, 8, 8, 8, 8, 6, 1.2, 0.6, 0.6, 0.6, 0.4, 7, 6, 6, 6, 0.6, 0.6, 0.6, 0.6]
PANIC = "C17 probing panics"
REASONS = {"status-outdated": "RStatusOutdated", "cond-missing": "RCondMissing", "cond-malformed": "RCondMalformed",
           "cond-outdated": "RCondOutdated", "cond-wrong-status": "RCondWrongStatus",
           "cond-not-reported": "RCondNotReported", "field-missing-a": "RFieldMissingA",
           "field-missing-b": "RFieldMissingB", "field-not-equal": "RFieldNotEqual", "cel-false": "RCelFalse",
           "cel-error": "RCelError", "unknown": "RUnknown"}
CEL_CLASS = {"ok": "CelOk", "not-bool": "CelNotBool", "compile": "CelCompileErr"}
CEL_OUT = {"true": "CelTrue", "false": "CelFalse", "error": "CelErr", "none": "CelErr", "non-bool": "CelErr"}
PERR = {"cel-not-bool": "ECelNotBool", "cel-compile": "ECelCompile", "selector": "ESelector"}
LS_OPS = {"In": "LIn", "NotIn": "LNotIn", "Exists": "LExists", "DoesNotExist": "LDoesNotExist"}
CLAUSES = ["C17 Parse accepts a non-boolean CEL rule or refuses a valid probe list",
           "C17 success is not the conjunction of the probes",
           "C17 failing probes are not all reported",
           "C17 an object that a probe does not select does not pass it",
           "C17 stale status.observedGeneration passes",
           "C17 stale condition observedGeneration passes",
           "C17 fieldsEqual passes on a missing field",
           "C17 probing changes the object",
           "C17 a selected failing probe does not make the object fail (success flag differs from the reference)",
           "C17 number of reported failures differs from the number of failing probes"]
PASS_CLAUSES = ["an object is recorded as failed although it passes, or passes although a probe that selects it fails",
                "the number of recorded failures differs from the number of failing objects",
                "the result is zero (Available) although an object fails, or not zero although all pass",
                "a selected object with a stale status.observedGeneration, or with a stale entry of a probed condition type "
                "anywhere in status.conditions, is not recorded as failed"]
# former known finding (fixed in /repo by 9b2e4f3); a recurrence is reported under the same identity
SHADOWED = "C17 stale condition entry shadowed by an earlier entry of the same type passes"

FLOATS = {}


def wchoice(r, pairs):
    vals, ws = zip(*pairs)
    return r.choices(vals, weights=ws)[0]


# ------------------------------------------------------------------ generator

def gen_value(r):
    return wchoice(r, [(0, 3), (1, 6), (2, 4), (3, 2), (1.5, 1), (2.0, 2), ("x", 2), ("1", 2), (True, 1), (None, 1),
                       ([1, 2], 1), ([1, 2.0], 0.5), ([], 0.5), ({"x": 1}, 1), ({"x": 1, "y": [1, "x"]}, 0.5), ({}, 0.5)])


def gen_og(r, gen, cov, key, stale_w=22):
    """an observedGeneration value (or absent) relative to the numeric generation `gen`"""
    g = gen if isinstance(gen, int) and not isinstance(gen, bool) else 0
    shape = wchoice(r, [("absent", 30), ("fresh", 30), ("stale", stale_w), ("string", 4), ("float", 4), ("negative", 3),
                        ("null", 3), ("map", 1), ("float-stale", 3)])
    cov[key + ":" + shape] += 1
    if shape == "absent":
        return False, None
    return True, {"fresh": g, "stale": g + r.choice([1, -1, 2]), "string": str(g), "float": float(g),
                  "negative": -1 - r.randrange(3), "null": None, "map": {"v": g}, "float-stale": g + 0.5}[shape]


def gen_conditions(r, gen, cov):
    shape = wchoice(r, [("absent", 8), ("null", 3), ("string", 3), ("map", 3), ("empty", 4), ("list", 79)])
    cov["conditions:" + shape] += 1
    if shape == "absent":
        return False, None
    if shape != "list":
        return True, {"null": None, "string": "conds", "map": {"type": "Available", "status": "True"}, "empty": []}[shape]
    g = gen if isinstance(gen, int) and not isinstance(gen, bool) else 0
    if r.random() < 0.06:
        # two entries of one type, one current and one stale, separated / preceded by entries of other types
        cov["conditions:separated-duplicate"] += 1
        t = r.choice(COND_TYPES)
        rest = [x for x in COND_TYPES if x != t] + ["Degraded"]
        mk = lambda og, st: {"type": t, "status": st, "observedGeneration": og}
        pair = [mk(g, "True"), mk(g + r.choice([1, -1]), r.choice(STATUSES))]
        if r.random() < 0.5:
            pair.reverse()
        other = lambda: r.choice([{"type": r.choice(rest), "status": r.choice(STATUSES)}, {"type": r.choice(rest), "status": "True",
                                  "observedGeneration": g}, "x", None] if r.random() < 0.15 else
                                 [{"type": r.choice(rest), "status": r.choice(STATUSES)}])
        return True, ([other() for _ in range(r.choice([0, 1, 1, 2]))] + [pair[0]] +
                      [other() for _ in range(r.choice([0, 1, 1, 2]))] + [pair[1]] + [other() for _ in range(r.choice([0, 0, 1]))])
    n = wchoice(r, [(1, 4), (2, 4), (3, 3), (4, 1)])
    unique = r.random() < 0.88
    types = r.sample(COND_TYPES, min(n, 3)) if unique else [r.choice(COND_TYPES) for _ in range(n)]
    while len(types) < n:
        types.append(r.choice(["Extra%d" % len(types), "Degraded"]) if unique else r.choice(COND_TYPES))
    out = []
    for t in types:
        es = wchoice(r, [("ok", 82), ("no-type", 3), ("no-status", 3), ("type-int", 2), ("status-bool", 2),
                         ("str", 2), ("int", 1), ("null", 2), ("list", 1), ("empty-map", 2)])
        cov["entry:" + es] += 1
        if es in ("str", "int", "null", "list"):
            out.append({"str": "Available", "int": 1, "null": None, "list": [t]}[es])
            continue
        if es == "empty-map":
            out.append({})
            continue
        e = {"type": t, "status": wchoice(r, [("True", 70), ("False", 20), ("Unknown", 10)])}
        has, og = gen_og(r, gen, cov, "cond-og")
        if has:
            e["observedGeneration"] = og
        if es == "no-type":
            del e["type"]
        elif es == "no-status":
            del e["status"]
        elif es == "type-int":
            e["type"] = 7
        elif es == "status-bool":
            e["status"] = True
        if r.random() < 0.3:
            e["reason"] = "R"
        out.append(e)
    return True, out


def gen_object(r, cov):
    group, kind, av = r.choice(KINDS)
    o = {}
    avs = wchoice(r, [("ok", 88), ("multi-slash", 3), ("empty", 2), ("slash", 1), ("missing", 3), ("int", 2), ("null", 1)])
    if avs != "missing":
        o["apiVersion"] = {"ok": av, "multi-slash": "a/b/c", "empty": "", "slash": "/", "int": 1, "null": None}[avs]
    ks = wchoice(r, [("ok", 94), ("missing", 3), ("int", 2), ("null", 1)])
    if ks != "missing":
        o["kind"] = {"ok": kind, "int": 3, "null": None}[ks]
    cov["apiVersion:" + avs] += 1
    ms = wchoice(r, [("map", 90), ("absent", 4), ("string", 2), ("null", 2), ("list", 2)])
    cov["metadata:" + ms] += 1
    gen = None
    if ms == "map":
        m = {"name": "obj"}
        gs = wchoice(r, [("absent", 8), ("1", 22), ("2", 34), ("3", 18), ("string", 4), ("float", 4), ("negative", 2),
                         ("zero", 4), ("big", 2), ("null", 2)])
        cov["generation:" + gs] += 1
        if gs != "absent":
            gen = {"1": 1, "2": 2, "3": 3, "string": "2", "float": 2.0, "negative": -1, "zero": 0, "big": 2 ** 40,
                   "null": None}[gs]
            m["generation"] = gen
        lsh = wchoice(r, [("map", 66), ("absent", 18), ("nonstring", 7), ("string", 3), ("list", 2), ("null", 2), ("empty", 2)])
        cov["labels:" + lsh] += 1
        if lsh in ("map", "nonstring"):
            ls = {k: r.choice(LABEL_VALS) for k in r.sample(LABEL_KEYS, r.randint(1, 3))}
            if lsh == "nonstring":
                ls[r.choice(LABEL_KEYS)] = r.choice([1, True, None, ["x"]])
            m["labels"] = ls
        elif lsh != "absent":
            m["labels"] = {"string": "app=x", "list": ["app"], "null": None, "empty": {}}[lsh]
        o["metadata"] = m
    elif ms != "absent":
        o["metadata"] = {"string": "meta", "null": None, "list": [{"generation": 2}]}[ms]
    if r.random() < 0.6:
        o["spec"] = {"replicas": r.choice([1, 2, 3])}
    ss = wchoice(r, [("map", 84), ("absent", 6), ("null", 3), ("string", 3), ("list", 2), ("empty", 2)])
    cov["status:" + ss] += 1
    if ss == "map":
        s = {}
        has, og = gen_og(r, gen, cov, "status-og", 12)
        if has:
            s["observedGeneration"] = og
        has, cs = gen_conditions(r, gen, cov)
        if has:
            s["conditions"] = cs
        for k in ("a", "b"):
            if r.random() < 0.8:
                s[k] = gen_value(r)
        if r.random() < 0.5 and "a" in s:
            s["b"] = s["a"]
        if r.random() < 0.6:
            s["replicas"] = r.choice([0, 1, 2, 3, "2", 2.0])
        if r.random() < 0.5:
            s["nested"] = r.choice([{"x": gen_value(r)}, {"x": 1}, {}, "leaf", None, [1]])
        if r.random() < 0.4:
            s["list"] = r.choice([[1, 2], [1, 2.0], [], ["x"], [{"x": 1}]])
        if r.random() < 0.4:
            s["obj"] = r.choice([{"x": 1}, {"x": 1, "y": 2}, {}, {"y": 2, "x": 1}])
        if r.random() < 0.4:
            s["nul"] = None
        o["status"] = s
    elif ss != "absent":
        o["status"] = {"null": None, "string": "Running", "list": [{"observedGeneration": 1}], "empty": {}}[ss]
    return o, (group, kind)


def obj_labels(o):
    m = o.get("metadata")
    if isinstance(m, dict) and isinstance(m.get("labels"), dict):
        return {k: v for k, v in m["labels"].items() if isinstance(v, str)}
    return {}


def gen_label_selector(r, o, cov):
    have = obj_labels(o)
    sel = {}
    if r.random() < 0.6:
        ml = {}
        for _ in range(r.choice([1, 1, 2])):
            if have and r.random() < 0.7:
                k = r.choice(sorted(have))
                ml[k] = have[k]
            else:
                ml[r.choice(LABEL_KEYS)] = r.choice(LABEL_VALS)
        sel["matchLabels"] = ml
    if r.random() < 0.55:
        es = []
        for _ in range(r.choice([1, 1, 2])):
            op = wchoice(r, [("In", 30), ("NotIn", 25), ("Exists", 20), ("DoesNotExist", 20), ("Foo", 1.5)])
            key = r.choice(sorted(have)) if have and r.random() < 0.6 else r.choice(LABEL_KEYS)
            if op in ("In", "NotIn", "Foo"):
                vals = [] if r.random() < 0.03 else r.sample(LABEL_VALS, r.choice([1, 1, 2]))
                if have.get(key) is not None and r.random() < 0.5 and vals:
                    vals[0] = have[key]
            else:
                vals = ["x"] if r.random() < 0.03 else []
            e = {"key": key, "operator": op}
            if vals or r.random() < 0.5:
                e["values"] = vals
            es.append(e)
        sel["matchExpressions"] = es
    cov["label-selector"] += 1
    return sel


def gen_leaf(r, o, cov):
    k = wchoice(r, [("condition", 40), ("fieldsEqual", 30), ("cel", 22), ("none", 3), ("multi", 5)])
    cov["leaf:" + k] += 1
    cond = {"type": wchoice(r, [("Available", 50), ("Progressing", 20), ("Ready", 20), ("Missing", 7), ("", 3)]),
            "status": wchoice(r, [("True", 75), ("False", 15), ("Unknown", 7), ("", 3)])}
    a = r.choice(FE_PATHS)
    fe = {"fieldA": a, "fieldB": a if r.random() < 0.15 else r.choice(FE_PATHS[:9] if r.random() < 0.6 else FE_PATHS)}
    ri = r.choices(range(len(RULES)), weights=RULE_W)[0]
    # the message is user-controlled: required by the API, but may be empty, blank, or shared by several probes
    msg = wchoice(r, [("cel-msg-%d" % ri, 50), ("", 22), (" ", 8), ("dup", 12), (" \t ", 4), ("cel-msg-0", 4)])
    cov["cel-message:" + ("empty" if msg == "" else "blank" if not msg.strip() else "dup" if msg == "dup" else "text")] += 1
    cel = {"rule": RULES[ri], "message": msg}
    if k == "condition":
        return {"condition": cond}
    if k == "fieldsEqual":
        return {"fieldsEqual": fe}
    if k == "cel":
        return {"cel": cel}
    if k == "none":
        return {}
    p = {}
    for name, v in (("condition", cond), ("fieldsEqual", fe), ("cel", cel)):
        if r.random() < 0.6:
            p[name] = v
    return p


def gen_probe(r, o, gk, cov):
    ksel = wchoice(r, [("match", 58), ("none", 12), ("other", 18), ("group", 6), ("kind", 6)])
    cov["kind-selector:" + ksel] += 1
    others = [k for k in KINDS if (k[0], k[1]) != gk]
    kind = {"match": {"group": gk[0], "kind": gk[1]}, "none": None,
            "other": dict(zip(("group", "kind"), r.choice(others)[:2])),
            "group": {"group": r.choice(others)[0], "kind": gk[1]},
            "kind": {"group": gk[0], "kind": r.choice(others)[1]}}[ksel]
    sel = {"kind": kind}
    if r.random() < 0.45:
        sel["selector"] = gen_label_selector(r, o, cov)
    n = wchoice(r, [(0, 8), (1, 40), (2, 32), (3, 20)])
    return {"selector": sel, "probes": [gen_leaf(r, o, cov) for _ in range(n)]}


def cond(t="Available", s="True"):
    return {"condition": {"type": t, "status": s}}


def fe(a, b):
    return {"fieldsEqual": {"fieldA": a, "fieldB": b}}


def cel(i, msg=None):
    return {"cel": {"rule": RULES[i], "message": "cel-msg-%d" % i if msg is None else msg}}


def osp(probes, kind=("apps", "Deployment"), selector=None):
    sel = {"kind": None if kind is None else {"group": kind[0], "kind": kind[1]}}
    if selector is not None:
        sel["selector"] = selector
    return {"selector": sel, "probes": probes}


def dep(gen=2, status=None, labels=None, av="apps/v1", kind="Deployment"):
    o = {"apiVersion": av, "kind": kind, "metadata": {"name": "d", "generation": gen}}
    if labels is not None:
        o["metadata"]["labels"] = labels
    if status is not None:
        o["status"] = status
    return o


def separated_duplicates(gen=4):
    """status.conditions lists with two entries of type Available, one current and one stale, in both orders, with 0-2
    entries of other types before and between them (and one variant with a trailing entry)"""
    others = [{"type": "Progressing", "status": "True"}, {"type": "Ready", "status": "False", "observedGeneration": gen}]
    out = []
    for stale_first in (False, True):
        for before in (0, 1, 2):
            for between in (0, 1, 2):
                for stale_status in ("True", "False"):
                    fresh = {"type": "Available", "status": "True", "observedGeneration": gen}
                    stale = {"type": "Available", "status": stale_status, "observedGeneration": gen - 1}
                    first, second = (stale, fresh) if stale_first else (fresh, stale)
                    cs = others[:before] + [first] + list(reversed(others))[:between] + [second]
                    if before == 1 and between == 1:
                        cs = cs + [{"type": "Degraded", "status": "False"}]
                    out.append([dict(c) for c in cs])
    return out


def fixed():
    avail = lambda og=None, st="True", t="Available": dict(
        {"type": t, "status": st}, **({} if og is None else {"observedGeneration": og}))
    out = [
        {"probes": [], "object": {}},
        {"probes": [], "object": dep(status={"observedGeneration": 1})},
        {"probes": [osp([])], "object": dep(status={"observedGeneration": 1})},
        {"probes": [osp([])], "object": dep(status={"observedGeneration": 2})},
        {"probes": [osp([], kind=("", "ConfigMap"))], "object": dep(status={"observedGeneration": 1})},
        {"probes": [osp([cond(), fe(".status.a", ".status.b"), cel(2)])],
         "object": dep(status={"observedGeneration": 2, "a": 1, "b": 1.0, "conditions": [avail(1)]})},
        # regression corpus for the defect fixed by 9b2e4f3: duplicate condition type, the stale entry comes second
        {"probes": [osp([cond()])], "object": dep(status={"conditions": [avail(2), avail(1)]})},
        {"probes": [osp([cond()], kind=None)], "object": dep(status={"conditions": [avail(1), avail(2)]})},
        {"probes": [osp([cond()])], "object": dep(status={"conditions": ["x", avail(1)]})},
        {"probes": [osp([cel(7)])], "object": dep()},
        {"probes": [osp([cel(1)]), osp([cel(8)], kind=("", "ConfigMap"))], "object": dep()},
        {"probes": [osp([], kind=None, selector={"matchExpressions": [{"key": "a", "operator": "In", "values": []}]}),
                    osp([cel(10)], kind=None)], "object": dep(av="a/b/c")},
        {"probes": [osp([cel(3), cel(2), {}], kind=None)],
         "object": dep(gen=3, labels={"a": 1}, status={"observedGeneration": 3.0}, av="a/b/c")},
        {"probes": [osp([cond()]), osp([fe(".status.x", ".status.y")]), osp([cel(1)], kind=None),
                    osp([cond("Ready")], kind=("", "ConfigMap"))],
         "object": dep(status={"conditions": [avail(st="False")]})},
        {"probes": [osp([fe(".status.nul", ".status.nul")]), osp([fe(".status.nul.x", ".status.a")]),
                    osp([fe(".status.a.b", ".status.a")]), osp([fe("", ".")])], "object": dep(status={"nul": None, "a": 1})},
        {"probes": [osp([fe(".status.obj", ".spec.obj")])],
         "object": dict(dep(status={"obj": {"x": 1, "y": [1, 2]}}), spec={"obj": {"y": [1, 2], "x": 1}})},
        {"probes": [osp([cond()], selector={"matchLabels": {"app": "x"}}),
                    osp([cond("Ready")], selector={"matchExpressions": [{"key": "tier", "operator": "NotIn", "values": ["db"]},
                                                                         {"key": "app", "operator": "Exists"}]})],
         "object": dep(labels={"app": "x"}, status={"conditions": [avail(st="False")]})},
        {"probes": [osp([cond()], selector={})], "object": dep(labels={"app": 1}, status={"conditions": "x"})},
        {"probes": [osp([cond()], selector={"matchExpressions": [{"key": "app", "operator": "DoesNotExist"}]})],
         "object": dep(labels={"app": 1}, status={"conditions": None})},
        {"probes": [osp([{"condition": {"type": "Available", "status": "True"},
                          "fieldsEqual": {"fieldA": ".status.a", "fieldB": ".status.a"}, "cel": cel(1)["cel"]}])],
         "object": dep(status={"a": 1})},
        {"probes": [osp([cond(t="", s="")])], "object": dep(status={"conditions": [{}, {"type": "", "status": ""}]})},
        {"probes": [osp([cond()])], "object": dep(gen="2", status={"observedGeneration": 1, "conditions": [avail(0)]})},
    ] + [{"probes": [osp([cond()], kind=None if k % 5 == 0 else ("apps", "Deployment"))],
          "object": dep(gen=4, status={"conditions": cs})} for k, cs in enumerate(separated_duplicates())] + [
        # boolean rules that cannot be evaluated on the object: no .status, missing key, value of the wrong type
        {"probes": [osp([cel(5)])], "object": dep()},
        {"probes": [osp([cel(5)])], "object": dep(status={"observedGeneration": 2})},
        {"probes": [osp([cel(5)])], "object": dep(status={"observedGeneration": 2, "replicas": "2"})},
        {"probes": [osp([cel(5)])], "object": dep(status="Running")},
        {"probes": [osp([cond(), cel(12)])], "object": dep(status={"observedGeneration": 2, "conditions": "x"})},
        {"probes": [osp([cel(12), cond()]), osp([cel(13)], kind=None)], "object": dep(status={"conditions": [avail()]})},
        {"probes": [osp([cel(14)], selector={"matchLabels": {"app": "x"}})], "object": dep(labels={"app": "x"}, status={"nested": "leaf"})},
        {"probes": [osp([cel(15), cel(0)])], "object": dep(status={"observedGeneration": "2"})},
        {"probes": [osp([cel(5)], kind=("", "ConfigMap"))], "object": dep()},
        # statically non-boolean rules: Parse has to refuse them
        {"probes": [osp([cel(16)])], "object": dep(status={"conditions": [avail()]})},
        {"probes": [osp([cond()]), osp([cel(17)], kind=("", "ConfigMap"))], "object": dep(status={"conditions": [avail()]})},
        {"probes": [osp([cel(0), cel(18)])], "object": dep(status={"a": 1})},
        {"probes": [osp([cel(19)], kind=None)], "object": dep(status={"conditions": [avail()]})},
        # a failing CEL probe whose message is empty / blank, alone, in a list, next to others, and duplicates
        {"probes": [osp([cel(1, "")])], "object": dep()},
        {"probes": [osp([cel(1, "")], kind=None)], "object": dep()},
        {"probes": [osp([cel(1, " ")])], "object": dep()},
        {"probes": [osp([cel(0, ""), cel(1, "")])], "object": dep()},
        {"probes": [osp([cel(1, ""), cel(1, "")]), osp([cel(1, "")], kind=None)], "object": dep()},
        {"probes": [osp([cond(), cel(1, "")])], "object": dep(status={"conditions": [avail()]})},
        {"probes": [osp([cond(), cel(1, "")])], "object": dep(status={"conditions": [avail(st="False")]})},
        {"probes": [osp([cel(1, "dup"), cel(3, "dup"), cel(5, "dup")])], "object": dep(status={"a": 1})},
        {"probes": [osp([cel(5, "")])], "object": dep(status={})},
        {"probes": [osp([cel(1, "")], kind=("", "ConfigMap"))], "object": dep()},
    ]
    return out


def sweep():
    """small-scope exhaustive: generation x status.observedGeneration x condition observedGeneration x inner list"""
    ogs = ["absent", 1, 2, 3, "2", 2.0, 2.5, -1, None]
    out = []
    for gen in (None, 2, "2"):
        for sog in ogs:
            for cog in ogs:
                for inner in ([], [cond()], [cond(), fe(".status.observedGeneration", ".metadata.generation")]):
                    c = {"type": "Available", "status": "True"}
                    if cog != "absent":
                        c["observedGeneration"] = cog
                    st = {"conditions": [c]}
                    if sog != "absent":
                        st["observedGeneration"] = sog
                    o = dep(status=st)
                    if gen is None:
                        del o["metadata"]["generation"]
                    else:
                        o["metadata"]["generation"] = gen
                    out.append({"probes": [osp(inner)], "object": o})
    return out


def gen(seed, tier, cov):
    r = vlib.rng(seed, "C17")
    out = fixed() + sweep()
    n = 2600 if tier == "quick" else 52000
    while len(out) < n:
        o, gk = gen_object(r, cov)
        k = wchoice(r, [(0, 3), (1, 30), (2, 30), (3, 22), (4, 15)])
        out.append({"probes": [gen_probe(r, o, gk, cov) for _ in range(k)], "object": o})
    return out


# ------------------------------------------------------------------ Coq printers

def cJ(v):
    if v is None:
        return "JNull"
    if isinstance(v, bool):
        return "(JBool %s)" % cB(v)
    if isinstance(v, int):
        return "(JNum %s)" % cZ(v)
    if isinstance(v, float):
        return "(JFloat %d)" % FLOATS.setdefault(v, len(FLOATS))
    if isinstance(v, str):
        return "(JStr %s)" % cS(v)
    if isinstance(v, list):
        return "(JArr %s)" % cL([cJ(x) for x in v])
    return "(JObj %s)" % cL([cP(cS(k), cJ(x)) for k, x in v.items()])


def c_leaf(p):
    c, f, e = p.get("condition"), p.get("fieldsEqual"), p.get("cel")
    return "(Build_probe_spec %s %s %s)" % (
        cO(None if c is None else "(Build_cond_spec %s %s)" % (cS(c["type"]), cS(c["status"]))),
        cO(None if f is None else "(Build_fe_spec %s %s)" % (cS(f["fieldA"]), cS(f["fieldB"]))),
        cO(None if e is None else cN(RULES.index(e["rule"]))))


def c_osp(q):
    sel = q["selector"]
    kind = sel.get("kind")
    ls = sel.get("selector")
    lst = None
    if ls is not None:
        ml = cL([cP(cS(k), cS(v)) for k, v in (ls.get("matchLabels") or {}).items()])
        me = cL(["(Build_ls_req %s %s %s)" % (cS(e["key"]), LS_OPS.get(e["operator"], "LOther"),
                                              cL([cS(v) for v in e.get("values") or []]))
                 for e in ls.get("matchExpressions") or []])
        lst = "(Build_label_selector %s %s)" % (ml, me)
    return "(Build_osp %s (Build_probe_selector %s %s))" % (
        cL([c_leaf(p) for p in q["probes"]]),
        cO(None if kind is None else cP(cS(kind["group"]), cS(kind["kind"]))), cO(lst))


def c_result(p):
    return cP(cB(p["ok"]), cL([REASONS[x] for x in p["reasons"]]))


def term(sc, obs):
    tbl = cL([cP(cN(RULES.index(c["rule"])), cP(CEL_CLASS[c["class"]], CEL_OUT[c["outcome"]])) for c in obs["cel"]])
    if obs.get("parseErr"):
        ob = "(OParseErr %s %s)" % (cN(obs["parseErr"]["index"]), PERR[obs["parseErr"]["class"]])
    else:
        ob = "(ORun %s %s %s %s)" % (cB(obs["success"]),
                                     cL([cP(cN(f["index"]), REASONS[f["reason"]]) for f in obs["failures"]]),
                                     cL([c_result(p) for p in obs["per"]]), cB(obs["pure"]))
    return "(%s : case)" % cP(cL([c_osp(q) for q in sc["probes"]]), cJ(sc["object"]), tbl, ob)


# ------------------------------------------------------------------ the check

def effective(p):
    for k in ("fieldsEqual", "condition", "cel"):
        if p.get(k) is not None:
            return k
    return None


def has_duplicate_types(o):
    st = o.get("status")
    cs = st.get("conditions") if isinstance(st, dict) else None
    if not isinstance(cs, list):
        return False
    ts = [c.get("type") for c in cs if isinstance(c, dict) and isinstance(c.get("type"), str)]
    return len(ts) != len(set(ts))


def expected_gk(o):
    av, kind = o.get("apiVersion"), o.get("kind")
    av = av if isinstance(av, str) else ""
    kind = kind if isinstance(kind, str) else ""
    parts = av.split("/")
    if len(parts) > 2:
        return ["", ""]
    return [parts[0] if len(parts) == 2 else "", kind]


def check(run, tier, seed, replay=None):
    run.assumptions += [
        "the CEL evaluator is an oracle: for every rule of a scenario the table (compiles to bool?, result on the object) "
        "is filled by running the real probing.NewCELProbe alone on the same object; C17 covers the composition, not CEL itself",
        "label selector keys/values are syntactically valid (the k8s validation regexes are not modelled); structural errors "
        "(In/NotIn without values, Exists/DoesNotExist with values, unknown operator) are modelled",
        "objects are decoded the way the API machinery does (k8s util/json: integral literals -> int64, others -> float64); "
        "strings are ASCII; float64 values are opaque (equal iff same value, never equal to an int64)",
        "'declares an observedGeneration' means a JSON integer; a float/string/null observedGeneration is ignored by "
        "NestedInt64 (observation, not counted as a violation)",
        "purity is checked by reflect.DeepEqual of the probed deep copy against the original after every Probe call; "
        "independence of earlier calls by driving one long-lived real ObjectSet controller through histories (the API server, "
        "the dynamic cache and the garbage collector are the harness' in-memory store: orphan deletion strips the owner "
        "references and removes the ObjectSet)",
        "phase / history stages: failures are judged on the success flag, the number of FailedProbes entries and the zero-ness "
        "of the ProbingResult (Available condition), never on message texts; about objects a pass does not find (recorded as "
        "'not found') the property says nothing, they are part of the model correspondence only"]
    vlib.std_proof_stage(run, "C17")
    ok, blog = vlib.build_harness()
    if not ok:
        run.violation("corr:harness-build", {"correspondence": "harness no longer builds against the tree", "log": blog[-4000:]}, False)
        return
    cov = collections.Counter()
    rp = json.load(open(replay))["replay"]["scenario"] if replay else None
    if rp is None or "object" in rp:
        stage_probe(run, tier, seed, cov, rp)
    if rp is None or "objects" in rp:
        stage_phase(run, tier, seed, cov, rp)
    if rp is None or "steps" in rp:
        stage_history(run, tier, seed, cov, rp)
    run.cov["generator_shapes"] = dict(sorted(cov.items()))


def stage_probe(run, tier, seed, cov, rp):
    """Parse + Probe on (probe list, object) pairs"""
    scs = [rp] if rp else gen(seed, tier, cov)
    outs = vlib.run_harness("probe", scs, par=8)
    terms, idx = [], []
    dist = collections.Counter()
    for i, (sc, o) in enumerate(zip(scs, outs)):
        if report_panic(run, "probe", sc, o):
            continue
        if "obs" not in o:
            run.violation("corr:C17/probe harness error", {"scenario": sc, "out": o}, False)
            continue
        obs = o["obs"]
        if obs.get("panics"):
            run.violation(PANIC, {"stage": "probe", "scenario": sc, "panic": obs["panics"][0], "impl": obs}, True)
        pe = obs.get("parseErr")
        bad = None
        if pe and (pe["class"] not in PERR or pe["index"] < 0):
            bad = "unclassified Parse error"
        elif any(c["outcome"] == "unknown" for c in obs["cel"]):
            bad = "unclassified CEL oracle result"
        elif obs["gk"] != expected_gk(sc["object"]):
            bad = "object GroupKind differs from the documented derivation"
        op = oracle_problem(obs["cel"])
        if op:
            run.violation(CLAUSES[0], dict(op, scenario=sc, impl=obs), True)
        if bad:
            run.violation("corr:C17/" + bad, {"correspondence": bad, "scenario": sc, "impl": obs}, False)
            continue
        if not pe and (any(f["reason"] == "unknown" for f in obs["failures"])
                       or any("unknown" in p["reasons"] for p in obs["per"])):
            run.violation("corr:C17/message with an unknown format",
                          {"correspondence": "a message of the implementation matches none of the formats of pkg/probing",
                           "scenario": sc, "impl": obs}, False)
        terms.append(term(sc, obs))
        idx.append(i)
        # input / outcome distribution
        dist["pairs"] += 1
        dist["probes:%d" % len(sc["probes"])] += 1
        for q in sc["probes"]:
            dist["inner:%d" % len(q["probes"])] += 1
            for p in q["probes"]:
                dist["kind:" + str(effective(p))] += 1
        if pe:
            dist["outcome:parse-error:" + pe["class"]] += 1
        else:
            dist["outcome:" + ("pass" if obs["success"] else "fail")] += 1
            for f in obs["failures"]:
                dist["reason:" + f["reason"]] += 1
            dist["per:pass"] += sum(1 for p in obs["per"] if p["ok"])
            dist["per:fail"] += sum(1 for p in obs["per"] if not p["ok"])
        for c in obs["cel"]:
            dist["cel:" + c["class"] + "/" + c["outcome"]] += 1
        if has_duplicate_types(sc["object"]):
            dist["duplicate-condition-types"] += 1
    res, logs = vlib.judge_cases("C17", IMPORTS, "judge_detail", terms, 12, shard=220 if len(terms) < 5000 else 400)
    for l in logs:
        run.violation("corr:C17/coq-eval", {"correspondence": "coq evaluation failed", "log": l}, False)
    run.cov["evaluations"] += len(terms)
    for i, r in zip(idx, res):
        if r is None:
            continue
        sc, obs = scs[i], outs[i]["obs"]
        agree, mon, clauses = r[0], r[1], r[2:]
        if any(len(q["probes"]) > 0 for q in sc["probes"]):
            pe = obs.get("parseErr")
            run.classes.add(("err", pe["index"], pe["class"]) if pe else
                            tuple((p["ok"], tuple(p["reasons"])) for p in obs["per"]))
        if not mon:
            for k, okc in enumerate(clauses):
                if okc:
                    continue
                ident = CLAUSES[k]
                if k == 5 and has_duplicate_types(sc["object"]):
                    ident = SHADOWED
                dist["monitor-false:" + ident] += 1
                run.violation(ident, {"scenario": sc, "impl": obs}, True)
        if not agree:
            run.violation("corr:C17/probe model and implementation differ",
                          {"correspondence": "C17Corr.agree", "scenario": sc, "impl": obs}, False)
    run.cov["rule"] = ("fixed corpus + exhaustive sweep generation x status.observedGeneration x condition observedGeneration "
                       "x inner list (729 cases) + random: 0-4 ObjectSetProbes (kind selector matching/other/none, optional "
                       "label selector with matchLabels/matchExpressions), 0-3 probes each (condition, fieldsEqual, CEL from a "
                       "fixed rule set, empty, several set) against objects with malformed apiVersion/metadata/labels/status/"
                       "conditions shapes; CEL messages are text / empty / blank / shared by several probes; non-trivial = some "
                       "ObjectSetProbe has a probe; distinct = per-probe (ok, reasons) vector or Parse error (index, class). "
                       "Phase stage: the real PhaseReconciler.ReconcilePhase (active and paused owner, 1-3 existing objects, some not "
                       "in the cache) with the prober of the real Parse; distinct = (paused, per-object (recorded, missing), count, "
                       "zero). History stage: ONE real ObjectSet controller over create / reconcile / delete (normal, orphan) / "
                       "archive / re-create under the same name and two interleaved ObjectSets; distinct = vector of (create step, "
                       "verdict, count) per pass")
    run.cov["samples"] = [{"scenario": scs[i], "impl": outs[i].get("obs")} for i in idx[5:8]]
    run.cov["input_distribution"] = dict(sorted(dist.items()))
    done = dist["outcome:pass"] + dist["outcome:fail"]
    run.cov["pass_ratio"] = round(dist["outcome:pass"] / done, 3) if done else None


# ------------------------------------------------------------------ the callers: phase reconciler, history

PHASE_KINDS = [("verif.example", "Widget", "verif.example/v1"), ("", "ConfigMap", "v1")]   # registered in the harness' API server


def parseable(probes):
    """Parse accepts the list (used where a Parse error would only end the scenario)"""
    for q in probes:
        for p in q["probes"]:
            if effective(p) == "cel" and RULE_CLASS[RULES.index(p["cel"]["rule"])] != "ok":
                return False
        ls = q["selector"].get("selector")
        for e in (ls or {}).get("matchExpressions") or []:
            vals = e.get("values") or []
            if e["operator"] not in LS_OPS or (e["operator"] in ("In", "NotIn")) != bool(vals):
                return False
    return True


def gen_phase_object(r, cov, i):
    """an object that exists on the cluster: proper identity, everything else as malformed as gen_object makes it"""
    o, _ = gen_object(r, cov)
    group, kind, av = r.choice(PHASE_KINDS)
    o["apiVersion"], o["kind"] = av, kind
    m = o.get("metadata") if isinstance(o.get("metadata"), dict) else {}
    m["name"], m["namespace"] = "m%d" % i, "ns1"
    if isinstance(m.get("generation"), float) or isinstance(m.get("generation"), str):
        m["generation"] = 2
    o["metadata"] = m
    return o, (group, kind)


def gen_probes_for(r, objs, cov, parse_ok):
    while True:
        k = wchoice(r, [(0, 3), (1, 32), (2, 35), (3, 20), (4, 10)])
        o, gk = r.choice(objs)
        probes = [gen_probe(r, o, gk, cov) for _ in range(k)]
        if not parse_ok or parseable(probes):
            return probes


def widget(i=0, gen=1, status=None, labels=None, kind="Widget"):
    o = {"apiVersion": "verif.example/v1" if kind == "Widget" else "v1", "kind": kind,
         "metadata": {"name": "m%d" % i, "namespace": "ns1", "generation": gen}, "spec": {"v": "1"}}
    if labels is not None:
        o["metadata"]["labels"] = labels
    if status is not None:
        o["status"] = status
    return o


WK = ("verif.example", "Widget")
AVAIL = {"type": "Available", "status": "True"}


def gen_phase(seed, tier, cov):
    r = vlib.rng(seed, "C17/phase")
    ok_w = widget(0, status={"observedGeneration": 1, "a": 1, "conditions": [AVAIL]})
    ok_w2 = widget(1, status={"observedGeneration": 1, "conditions": [AVAIL]})
    out = []
    for k, cs in enumerate(separated_duplicates()):
        # a stale duplicate of the probed condition type, separated from the current entry by other types
        out.append({"probes": [osp([cond()], kind=WK)] + ([osp([cond("Ready", "False")], kind=None)] if k % 4 == 0 else []),
                    "objects": [widget(0, gen=4, status={"observedGeneration": 4, "conditions": cs})] +
                               ([ok_w2] if k % 6 == 0 else []),
                    "paused": k % 3 == 2})
    for paused in (False, True):
        out += [
            # the only probe is a rule that cannot be evaluated (no .status / missing key / wrong type)
            {"probes": [osp([cel(5)], kind=WK)], "objects": [widget(0)], "paused": paused},
            {"probes": [osp([cel(5)], kind=WK)], "objects": [widget(0, status={"observedGeneration": 1})], "paused": paused},
            {"probes": [osp([cel(12)], kind=WK)], "objects": [widget(0, status={"conditions": "x"}), ok_w2], "paused": paused},
            {"probes": [osp([cond(), cel(14)], kind=WK)], "objects": [ok_w], "paused": paused},
            # the only failing probe has an empty / blank message
            {"probes": [osp([cel(1, "")], kind=WK)], "objects": [ok_w], "paused": paused},
            {"probes": [osp([cel(1, " ")], kind=WK)], "objects": [ok_w], "paused": paused},
            {"probes": [osp([cond(), cel(1, "")], kind=WK)], "objects": [ok_w], "paused": paused},
            {"probes": [osp([cond()], kind=WK), osp([cel(1, "")], kind=None)], "objects": [ok_w, widget(1, kind="ConfigMap")],
             "paused": paused},
            {"probes": [osp([cel(1, ""), cel(1, "")], kind=WK)], "objects": [ok_w, widget(1, status={"conditions": [AVAIL]})],
             "paused": paused},
            {"probes": [osp([cond("Ready")], kind=WK)], "objects": [ok_w], "paused": paused},
            {"probes": [osp([cond()], kind=WK)], "objects": [ok_w], "paused": paused},
            {"probes": [], "objects": [ok_w], "paused": paused},
            {"probes": [osp([], kind=WK)], "objects": [widget(0, gen=2, status={"observedGeneration": 1})], "paused": paused},
        ]
    out.append({"probes": [osp([cond()], kind=WK)], "objects": [ok_w, widget(1)], "paused": False, "absent": [0, 1]})
    n = 500 if tier == "quick" else 6000
    out.append({"probes": [osp([cond()], kind=WK)], "objects": [ok_w, widget(1)], "paused": True, "uncached": [0]})
    out.append({"probes": [], "objects": [ok_w], "paused": True, "uncached": [0]})
    while len(out) < n:
        objs = [gen_phase_object(r, cov, i) for i in range(wchoice(r, [(1, 55), (2, 30), (3, 15)]))]
        sc = {"probes": gen_probes_for(r, objs, cov, True), "objects": [o for o, _ in objs], "paused": r.random() < 0.35}
        if sc["paused"]:
            # a paused owner finds its objects through the cache label: labels have to be a proper string map for that
            for o in sc["objects"]:
                ls = o["metadata"].get("labels")
                if "labels" in o["metadata"]:
                    o["metadata"]["labels"] = {k: v for k, v in ls.items() if isinstance(v, str)} if isinstance(ls, dict) else {}
            sc["uncached"] = [i for i in range(len(objs)) if r.random() < 0.08]
        else:
            # objects that do not exist yet are created by the pass (and have no status then)
            sc["absent"] = [i for i in range(len(objs)) if r.random() < 0.06]
        out.append(sc)
    return out


def untag(v):
    if isinstance(v, dict):
        if set(v) == {"$f"}:
            return float(v["$f"])
        return {k: untag(x) for k, x in v.items()}
    if isinstance(v, list):
        return [untag(x) for x in v]
    return v


def c_pass(probes, po):
    items = []
    for it in po["items"]:
        tbl = cL([cP(cN(RULES.index(c["rule"])), cP(CEL_CLASS[c["class"]], CEL_OUT[c["outcome"]])) for c in it["cel"]])
        items.append(cP(cO(None if it.get("missing") else cJ(untag(it["object"]))), tbl, cB(it["failed"])))
    return "(%s : pass_obs)" % cP(cL([c_osp(q) for q in probes]), cL(items), cN(po["nfailed"]), cB(po["zero"]))


def oracle_problem(cels):
    """Parse-time clause on the oracle itself: NewCELProbe has to refuse every rule of the corpus whose checked output
    type is not bool (and only those and the ones that do not compile); a compiled program never returns a non-boolean."""
    for c in cels:
        if c["class"] != RULE_CLASS[RULES.index(c["rule"])] or c["outcome"] == "non-bool":
            return {"rule": c["rule"], "class": c["class"], "outcome": c["outcome"], "expected": RULE_CLASS[RULES.index(c["rule"])]}
    return None


def pass_problem(po):
    if po.get("res") != "ok":
        return "pass ended with an error: %s" % po.get("err")
    for it in po["items"]:
        if oracle_problem(it["cel"]):
            return "CEL oracle: rule class differs from the corpus"
    return None


def report_panic(run, stage, sc, o):
    """a panic inside Parse / Probe / ReconcilePhase (recovered by the harness) is a failure with a failing input"""
    if "panic" in o:
        run.violation(PANIC, {"stage": stage, "scenario": sc, "panic": o["panic"], "stack": o.get("stack", "")[-3000:]}, True)
        return True
    return False


def stage_phase(run, tier, seed, cov, rp):
    """the real PhaseReconciler.ReconcilePhase with the prober of the real Parse: recordingProbe"""
    scs = [rp] if rp else gen_phase(seed, tier, cov)
    outs = vlib.run_harness("probephase", scs, par=8)
    terms, idx = [], []
    dist = collections.Counter()
    for i, (sc, o) in enumerate(zip(scs, outs)):
        if report_panic(run, "phase reconciler", sc, o):
            continue
        if "obs" not in o:
            run.violation("corr:C17/probephase harness error", {"scenario": sc, "out": o}, False)
            continue
        po = o["obs"]
        for it in po.get("items", []):
            op = oracle_problem(it["cel"])
            if op:
                run.violation(CLAUSES[0], dict(op, scenario=sc), True)
        if po.get("parseErr"):
            run.violation("corr:C17/probephase: Parse refuses a list the generator holds for valid",
                          {"correspondence": "parseable()", "scenario": sc, "impl": po}, False)
            continue
        bad = pass_problem(po)
        if bad:
            run.violation("corr:C17/probephase " + bad, {"correspondence": bad, "scenario": sc, "impl": po}, False)
            continue
        terms.append(c_pass(sc["probes"], po))
        idx.append(i)
        dist["passes"] += 1
        dist["paused" if sc["paused"] else "active"] += 1
        dist["objects:%d" % len(sc["objects"])] += 1
        dist["recorded-failed"] += po["nfailed"]
        dist["zero" if po["zero"] else "non-zero"] += 1
        dist["missing-objects"] += sum(1 for it in po["items"] if it.get("missing"))
        dist["created-by-the-pass"] += len(sc.get("absent") or [])
        for it in po["items"]:
            if it["failed"] and it.get("entry", "x").endswith(": "):
                dist["failed-with-empty-messages-only"] += 1
    res, logs = vlib.judge_cases("C17", IMPORTS, "judge_pass", terms, 6, shard=45 if len(terms) < 1000 else 150, tag="phase")
    for l in logs:
        run.violation("corr:C17/coq-eval", {"correspondence": "coq evaluation failed (phase stage)", "log": l}, False)
    run.cov["evaluations"] += len(terms)
    for i, r in zip(idx, res):
        if r is None:
            continue
        sc, po = scs[i], outs[i]["obs"]
        run.classes.add(("phase", sc["paused"], tuple((it["failed"], bool(it.get("missing"))) for it in po["items"]),
                         po["nfailed"], po["zero"]))
        agree, mon, clauses = r[0], r[1], r[2:]
        if not mon:
            for k, okc in enumerate(clauses):
                if not okc:
                    run.violation("C17 phase reconciler: " + PASS_CLAUSES[k], {"scenario": sc, "impl": po}, True)
        if not agree:
            run.violation("corr:C17/phase reconciler model and implementation differ",
                          {"correspondence": "C17Corr.agree_pass", "scenario": sc, "impl": po}, False)
    run.cov["phase_stage"] = dict(sorted(dist.items()))
    run.cov["samples"] = run.cov.get("samples", []) + [
        {"stage": "phase", "scenario": scs[i], "impl": {k: v for k, v in outs[i]["obs"].items() if k != "items"}} for i in idx[:1]]


def probe_stage(run, pid, tier, seed, identity):
    """For other checks (C03, C06): what the phase reconciler records from the prober - the real
    PhaseReconciler.ReconcilePhase with the prober of the real Parse on generated probe lists (messages text / empty /
    blank / duplicate) and objects, judged by C17Corr.judge_pass (an object is recorded as failing iff a selecting probe
    fails; the result is zero iff nothing failed). Failures are reported under `identity` for property `pid`."""
    import collections as _c
    cov = _c.Counter()
    scs = gen_phase(seed, "quick", cov)[: 200 if tier == "quick" else 500]
    outs = vlib.run_harness("probephase", scs, par=8)
    terms, idx = [], []
    for i, (sc, o) in enumerate(zip(scs, outs)):
        if "panic" in o:
            run.violation(identity, {"scenario": sc, "panic": o["panic"], "stage": "probephase (checks/C17.py)"}, True)
            continue
        if "obs" not in o or o["obs"].get("parseErr") or pass_problem(o["obs"]):
            continue
        terms.append(c_pass(sc["probes"], o["obs"]))
        idx.append(i)
    res, logs = vlib.judge_cases(pid, IMPORTS, "judge_pass", terms, 6, shard=45, tag="probe")
    for l in logs:
        run.violation("corr:%s/coq-eval" % pid, {"correspondence": "coq evaluation failed (probe stage)", "log": l}, False)
    n = 0
    for i, r in zip(idx, res):
        if r is None:
            continue
        n += 1
        if not r[1]:
            run.violation(identity, {"scenario": scs[i], "impl": outs[i]["obs"], "stage": "probephase (checks/C17.py)"}, True)
    run.cov["probe_stage"] = {"passes": n}
    run.cov["evaluations"] = run.cov.get("evaluations", 0) + n
    return n


def gen_history(seed, tier, cov):
    r = vlib.rng(seed, "C17/history")
    m0 = widget(0, status={"observedGeneration": 1, "a": 1, "conditions": [AVAIL]})
    p_avail = [osp([cond()], kind=WK)]
    p_ready = [osp([cond(), cond("Ready")], kind=WK)]
    p_cel = [osp([cond(), cel(1, "")], kind=WK)]
    p_none = []

    def recreate(p1, p2, how, members=(m0,)):
        steps = [{"op": "create", "name": "x", "probes": p1}, {"op": "reconcile", "name": "x"}]
        steps.append({"op": "archive", "name": "x"} if how == "archive" else {"op": "delete", "name": "x", "orphan": how == "orphan"})
        steps += [{"op": "create", "name": "x", "probes": p2}, {"op": "reconcile", "name": "x"}, {"op": "reconcile", "name": "x"}]
        return {"members": list(members), "steps": steps}

    out = []
    for how in ("orphan", "normal", "archive"):
        for p1, p2 in ((p_avail, p_ready), (p_ready, p_avail), (p_avail, p_cel), (p_none, p_ready), (p_ready, p_none)):
            out.append(recreate(p1, p2, how))
    # two ObjectSets with different probes, interleaved
    out.append({"members": [m0], "steps": [
        {"op": "create", "name": "x", "probes": p_avail}, {"op": "create", "name": "y", "probes": p_ready},
        {"op": "reconcile", "name": "x"}, {"op": "reconcile", "name": "y"}, {"op": "reconcile", "name": "x"},
        {"op": "delete", "name": "x", "orphan": True}, {"op": "create", "name": "x", "probes": p_cel},
        {"op": "reconcile", "name": "y"}, {"op": "reconcile", "name": "x"}, {"op": "reconcile", "name": "y"}]})
    n = 60 if tier == "quick" else 500
    while len(out) < n:
        objs = [gen_phase_object(r, cov, i) for i in range(wchoice(r, [(1, 60), (2, 40)]))]
        pool = [gen_probes_for(r, objs, cov, True) for _ in range(3)] + [p_avail, p_ready]
        live, steps = {}, []
        for _ in range(r.randint(5, 11)):
            name = r.choice(["x", "y"])
            if name not in live:
                steps.append({"op": "create", "name": name, "probes": r.choice(pool)})
                live[name] = True
                steps.append({"op": "reconcile", "name": name})
                continue
            op = wchoice(r, [("reconcile", 50), ("orphan", 25), ("delete", 15), ("archive", 10)])
            if op == "reconcile":
                steps.append({"op": "reconcile", "name": name})
            else:
                steps.append({"op": "archive", "name": name} if op == "archive" else
                             {"op": "delete", "name": name, "orphan": op == "orphan"})
                del live[name]
        for name in sorted(live):
            steps.append({"op": "reconcile", "name": name})
        out.append({"members": [o for o, _ in objs], "steps": steps})
    return out


def stage_history(run, tier, seed, cov, rp):
    """ONE long-lived real ObjectSet controller over create / reconcile / delete (orphan) / archive / re-create"""
    scs = [rp] if rp else gen_history(seed, tier, cov)
    outs = vlib.run_harness("probehistory", scs, par=8)
    terms, idx = [], []
    dist = collections.Counter()
    for i, (sc, o) in enumerate(zip(scs, outs)):
        if report_panic(run, "history", sc, o):
            continue
        if "obs" not in o or o["obs"].get("err"):
            run.violation("corr:C17/probehistory harness error", {"scenario": sc, "out": o}, False)
            continue
        ho = o["obs"]
        # which probes is each reconcile step about: the latest create of that name (tracked here, checked against the harness)
        cur, expect = {}, {}
        for k, st in enumerate(sc["steps"]):
            if st["op"] == "create":
                cur[st["name"]] = k
            elif st["op"] == "reconcile":
                expect[k] = cur[st["name"]]
        bad = None
        passes = []
        for po in ho["passes"]:
            if po.get("created") != expect.get(po.get("step")):
                bad = "harness and check disagree about the ObjectSet a pass was for"
            bad = bad or pass_problem(po)
            passes.append(c_pass(sc["steps"][expect[po["step"]]]["probes"], po))
        if len(ho["passes"]) != len(expect):
            bad = bad or "number of observed passes differs from the number of reconcile steps"
        if bad:
            run.violation("corr:C17/probehistory " + bad, {"correspondence": bad, "scenario": sc, "impl": ho}, False)
            continue
        terms.append("(%s : list pass_obs)" % cL(passes))
        idx.append(i)
        dist["histories"] += 1
        dist["passes"] += len(passes)
        dist["re-created names"] += sum(1 for k, st in enumerate(sc["steps"]) if st["op"] == "create"
                                        and any(s2["op"] == "create" and s2["name"] == st["name"] for s2 in sc["steps"][:k]))
        for st in sc["steps"]:
            dist["op:" + st["op"] + (":orphan" if st.get("orphan") else "")] += 1
        dist["verdict:available"] += sum(1 for po in ho["passes"] if po["zero"])
        dist["verdict:probe-failure"] += sum(1 for po in ho["passes"] if not po["zero"])
    res, logs = vlib.judge_cases("C17", IMPORTS, "judge_history", terms, 6, shard=6 if len(terms) < 100 else 15, tag="history")
    for l in logs:
        run.violation("corr:C17/coq-eval", {"correspondence": "coq evaluation failed (history stage)", "log": l}, False)
    run.cov["evaluations"] += len(terms)
    for i, r in zip(idx, res):
        if r is None:
            continue
        sc, ho = scs[i], outs[i]["obs"]
        run.classes.add(("history", tuple((po["created"], po["zero"], po["nfailed"]) for po in ho["passes"])))
        agree, mon, clauses = r[0], r[1], r[2:]
        brief = {"passes": [{k: v for k, v in po.items() if k != "items"} for po in ho["passes"]], "trace": ho["trace"]}
        if not mon:
            for k, okc in enumerate(clauses):
                if not okc:
                    run.violation("C17 history (one controller instance): a pass is not judged by the probes of the ObjectSet it "
                                  "reconciles: " + PASS_CLAUSES[k], {"scenario": sc, "impl": brief}, True)
        if not agree:
            run.violation("corr:C17/history model and implementation differ",
                          {"correspondence": "C17Corr.judge_history", "scenario": sc, "impl": brief}, False)
    run.cov["history_stage"] = dict(sorted(dist.items()))
    run.cov["samples"] = run.cov.get("samples", []) + [
        {"stage": "history", "steps": [(st["op"], st["name"]) for st in scs[i]["steps"]],
         "verdicts": [(po["created"], po["condition"]) for po in outs[i]["obs"]["passes"]]} for i in idx[:1]]
