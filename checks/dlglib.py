"""Scenario language and generators of the delegation check (C15): harness mode "delegation", coq/corr/C15Corr.v."""
import copy, itertools, json
import vlib, phaselib as pl, setlib as sl
from vlib import cN, cZ, cB, cL, cP, cO


def c_step(st):
    t = st["target"]
    if st["actor"] == "set":
        step = "(DSet %d %d %d)" % (t["kind"], t["ns"], t["name"])
    elif st["actor"] == "phase":
        if t["name"] < 0:
            raise pl.Unrepresentable("phase object name outside the model")
        step = "(DPhase %d %d %d)" % (t["kind"], t["ns"], t["name"])
    else:
        step = "(DEnv %s %s %s %s %s)" % (pl.c_store(st.get("env_objs") or []), cL([sl.c_set(s) for s in st.get("env_sets") or []]),
                                          cL([pl.c_oid(o) for o in st.get("env_gone") or []]),
                                          cL([pl.c_oid(o) for o in st.get("env_phases_gone") or []]),
                                          cL([pl.c_key(k) for k in st.get("env_keys_gone") or []]))
    return "(Build_dobs %s %s %s %d %d %s %s)" % (step, sl.RES[st["res"]], cL([sl.c_sev(e) for e in st["events"]]),
                                                  st["next_rv"], st["next_uid"],
                                                  cO(sl.c_set(st["pre_set"]) if st.get("pre_set") else None),
                                                  sl.c_optphase(st.get("pre_phase")))


def strip_classes(sets):
    out = copy.deepcopy(sets)
    for s in out:
        for ph in s["phases"]:
            ph["class"] = False
    return out


def c_drun(sc, run, local=False):
    sets = strip_classes(sc["sets"]) if local else sc["sets"]
    return "(Build_drun %s %s %s %d %d %s %s %s %s %s %s %s %d %d %s)" % (
        cB(sc["force"]), cB(sc["strategy"] == "annot"), pl.c_store(sc["store"]), sc["next_rv"], sc["next_uid"],
        cL([sl.c_set(s) for s in sets]), cL([sl.c_osphase(p) for p in sc["phases"]]), sl.c_nss(sc["nss"]),
        cL([c_step(st) for st in run["steps"]]),
        pl.c_store(run["post"]), cL([sl.c_set(s) for s in run["sets"]]), cL([sl.c_osphase(p) for p in run["phases"]]),
        run["next_rv"], run["next_uid"], cB(run["quiet"]))


def c_tcase(sc, obs):
    d = c_drun(sc, obs["d"])
    l = cO(c_drun(sc, obs["l"], local=True) if obs.get("l") else None)
    return "(Build_tcase %s %s)" % (d, l)


# ------------------------------------------------------------------ generators

NB = 1000


def join_name(s, p):
    return s * NB + p if p < NB else s * NB * NB + p


def mk_phase_obj(kind, ns, name, uid, rv=5, **kw):
    p = {"kind": kind, "ns": ns, "name": name, "uid": uid, "rv": rv, "gen": 1, "owners": [], "deleting": False, "fin": True,
         "orphan": False, "pkg": 0, "class": 1, "paused": False, "revision": 1, "prev": [], "objects": [], "conds": [], "ctrlof": []}
    p.update(kw)
    return p


def tgt(s):
    return {"kind": s["kind"], "ns": s["ns"], "name": s["name"], "uid": s["uid"]}


def gen_objects(r, ons, nph, first_name=1, dense=False):
    """nph phases x 0-3 objects; returns (list of object lists, next free name)."""
    phases, name = [], first_name
    for _ in range(nph):
        objs = []
        for _ in range(r.choice([1, 1, 2, 2, 3] if dense else [0, 1, 1, 2, 2, 3])):
            gk = r.choice([1, 1, 2, 2])
            pns = r.choice([0, 1]) if ons else 1
            objs.append(pl.mk_pobj(gk, pns, name, body=r.choice([1, 2]), cp=r.choice([0, 0, 0, 1, 2])))
            name += 1
        phases.append(objs)
    return phases, name


def preexisting(r, objs_by_phase, okind, prev_refs, p_exist=0.35):
    """Member objects present before the rollout: unowned, foreign-owned, owned by a previous revision or by one of
    its phase objects — never by the acting ObjectSet or its phase objects (an ObjectSet's phases are immutable)."""
    store, uid = [], 7
    for objs in objs_by_phase:
        for po in objs:
            if r.random() >= p_exist:
                continue
            refs = r.choice([[], [], [[9, 50, 500, 1]]] + prev_refs)
            # observedGeneration never exceeds the generation (1): the scripted kubelet must reach the same fixpoint
            # whenever it runs, or the twin comparison would compare two different environments
            o = pl.mk_obj(po["gk"], 1, po["name"], uid, uid + 1, rev=r.choice([None, 1, 1, 2, 7, "bad"]) if r.random() < 0.9 else None,
                          cache=r.random() < 0.85, pkg=r.choice([0, 0, 0, 1]), body=r.choice([1, 2]),
                          avail=r.choice([0, 1, 1, 2]), obsgen=r.choice([None, None, 1, 1]), fin=r.random() < 0.1)
            o["owners"] = refs
            store.append(o)
            uid += 2
    return store


def lifecycle_stages(r, t, policy, seed):
    """rollout, optionally pause / unpause, then delete or archive."""
    st = [{"targets": [t], "policy": policy, "seed": seed}]
    if r.random() < 0.35:
        st.append({"ops": [{"op": "life", "target": t, "life": 1}], "targets": [t], "policy": policy, "seed": seed + 1})
        if r.random() < 0.6:
            st.append({"ops": [{"op": "life", "target": t, "life": 0}], "targets": [t], "policy": policy, "seed": seed + 2})
    end = r.choice(["delete", "delete", "archive", "archive", "none", "delete-orphan"])
    if end == "archive":
        st.append({"ops": [{"op": "life", "target": t, "life": 2}], "targets": [t], "policy": policy, "seed": seed + 3})
    elif end != "none":
        st.append({"ops": [{"op": end, "target": t}], "targets": [t], "policy": policy, "seed": seed + 3})
    return st


def scenario_rollout(r, mask=None, nph=None, strategy="native", policy=None, cluster=None, paused_start=False):
    cluster = (r.random() < 0.25) if cluster is None else cluster
    okind, ons = (2, 0) if cluster else (1, 1)
    nph = nph or r.choice([1, 2, 2, 3, 3, 4])
    objs, _ = gen_objects(r, ons, nph)
    mask = mask if mask is not None else [r.random() < 0.5 for _ in range(nph)]
    phases = [{"name": i + 1, "class": bool(mask[i]), "objects": objs[i]} for i in range(nph)]
    t = sl.mk_set(okind, ons, 10, 100, rv=5, gen=1, phases=phases, revision=0, fin=False, pkg=r.choice([0, 0, 0, 1, 2]))
    store = preexisting(r, objs, okind, [])
    policy = policy or r.choice(["rr", "rr", "random"])
    stages = lifecycle_stages(r, tgt(t), policy, r.randint(1, 10 ** 6))
    if paused_start:
        # the ObjectSet is created paused: its phase objects are created paused, and unpaused later
        t["life"] = 1
        stages = [stages[0], {"ops": [{"op": "life", "target": tgt(t), "life": 0}], "targets": [tgt(t)], "policy": policy, "seed": 7}] + stages[1:]
    return {"family": "rollout", "force": r.random() < 0.04, "strategy": strategy, "store": store, "sets": [t], "phases": [],
            "nss": [[1, 0]] if ons else [], "next_rv": 50, "next_uid": 60, "kubelet": r.random() < 0.85,
            "stages": stages, "twin": strategy == "native"}


def scenario_handover(r, mask_old=None, mask_new=None, strategy="native", policy=None, nph=None):
    """Revision 1 (ObjectSet 9) rolls out, revision 2 (ObjectSet 10, previous = [9]) takes the same objects over,
    then revision 1 is archived; every phase of either revision may be delegated."""
    cluster = r.random() < 0.2
    okind, ons = (2, 0) if cluster else (1, 1)
    nph = nph or r.choice([1, 2, 2, 3])
    objs, _ = gen_objects(r, ons, nph, dense=True)
    mask_old = mask_old if mask_old is not None else [r.random() < 0.5 for _ in range(nph)]
    mask_new = mask_new if mask_new is not None else [r.random() < 0.5 for _ in range(nph)]
    if strategy == "annot" and r.random() < 0.75:
        mask_new = list(mask_old)   # hosted clusters: a phase is delegated in every revision or in none
    objs2 = copy.deepcopy(objs)
    for ph in objs2:
        for o in ph:
            if r.random() < 0.5:
                o["body"] = 3
    old = sl.mk_set(okind, ons, 9, 90, rv=5, phases=[{"name": i + 1, "class": bool(mask_old[i]), "objects": objs[i]} for i in range(nph)],
                    revision=0, fin=False)
    new = sl.mk_set(okind, ons, 10, 100, rv=6, phases=[{"name": i + 1, "class": bool(mask_new[i]), "objects": objs2[i]} for i in range(nph)],
                    revision=0, fin=False, prev=[9])
    policy = policy or r.choice(["rr", "rr", "random"])
    seed = r.randint(1, 10 ** 6)
    stages = [{"targets": [tgt(old)], "policy": policy, "seed": seed},
              {"targets": [tgt(old), tgt(new)], "policy": policy, "seed": seed + 1}]
    if r.random() < 0.8:
        stages.append({"ops": [{"op": "life", "target": tgt(old), "life": 2}], "targets": [tgt(old), tgt(new)], "policy": policy, "seed": seed + 2})
        if r.random() < 0.4:
            stages.append({"ops": [{"op": "delete", "target": tgt(new)}], "targets": [tgt(old), tgt(new)], "policy": policy, "seed": seed + 3})
    return {"family": "handover", "force": False, "strategy": strategy, "store": [], "sets": sl.sort_sets([old, new]), "phases": [],
            "nss": [[1, 0]] if ons else [], "next_rv": 50, "next_uid": 60, "kubelet": r.random() < 0.9, "stages": stages,
            "twin": strategy == "native"}


def scenario_handover3(r, mask_mid=None, strategy="native", policy=None):
    """Three revisions: 8 (all phases in-process, no remote phases), 9 (previous = [8], delegated per mask), 10
    (previous = [8, 9], any mask): the adoption check has to look past a previous revision without remote phases."""
    cluster = r.random() < 0.2
    okind, ons = (2, 0) if cluster else (1, 1)
    nph = len(mask_mid) if mask_mid else r.choice([1, 2])
    objs, _ = gen_objects(r, ons, nph, dense=True)
    for ph in objs:
        for o in ph:
            o["cp"] = 0   # Prevent: the handover depends on the previous-revision check alone
    mask_mid = mask_mid or [True] + [r.random() < 0.5 for _ in range(nph - 1)]
    mask_new = [r.random() < 0.5 for _ in range(nph)]
    mk = lambda name, uid, rv, mask, prev: sl.mk_set(okind, ons, name, uid, rv=rv, revision=0, fin=False, prev=prev,
        phases=[{"name": i + 1, "class": bool(mask[i]), "objects": copy.deepcopy(objs[i])} for i in range(nph)])
    s8, s9, s10 = mk(8, 80, 5, [False] * nph, []), mk(9, 90, 6, mask_mid, [8]), mk(10, 100, 7, mask_new, [8, 9])
    policy = policy or r.choice(["rr", "rr", "random"])
    seed = r.randint(1, 10 ** 6)
    stages = [{"targets": [tgt(s8)], "policy": policy, "seed": seed},
              {"targets": [tgt(s8), tgt(s9)], "policy": policy, "seed": seed + 1},
              {"targets": [tgt(s8), tgt(s9), tgt(s10)], "policy": policy, "seed": seed + 2}]
    if r.random() < 0.6:
        stages.append({"ops": [{"op": "life", "target": tgt(s8), "life": 2}, {"op": "life", "target": tgt(s9), "life": 2}],
                       "targets": [tgt(s8), tgt(s9), tgt(s10)], "policy": policy, "seed": seed + 3})
    return {"family": "handover3", "force": False, "strategy": strategy, "store": [], "sets": sl.sort_sets([s8, s9, s10]), "phases": [],
            "nss": [[1, 0]] if ons else [], "next_rv": 50, "next_uid": 60, "kubelet": True, "stages": stages, "twin": strategy == "native"}


def scenario_prev_deleted(r, strategy="native"):
    """Revision 10 (previous = [8, 9]) reconciles once - the pass ends with the error of the pass that creates a phase
    object, after its in-process phase 1 was written - then the previous revision with the highest number (9) is
    deleted and goes away; revision 10 reconciles again: its revision must not be recomputed lower."""
    sc = scenario_handover3(r, mask_mid=[False, False], strategy=strategy, policy="rr")
    s8, s9, s10 = [[s for s in sc["sets"] if s["name"] == n][0] for n in (8, 9, 10)]
    for ph, cl in zip(s10["phases"], (False, True)):
        ph["class"] = cl
    st = sc["stages"]
    sc["stages"] = [st[0], st[1],
                    {"targets": [tgt(s10)], "policy": "explicit", "explicit": [{"actor": "set", "target": tgt(s10)}]},
                    {"ops": [{"op": "delete", "target": tgt(s9)}], "targets": [tgt(s8), tgt(s9)], "policy": "rr"},
                    {"targets": [tgt(s8), tgt(s10)], "policy": "rr"}]
    sc["family"] = "prev-deleted"
    sc["twin"] = False
    return sc


def scenario_recreated(r, mask_old=None, strategy="native", policy=None):
    """Handover from a revision whose phase objects were deleted out-of-band (their members garbage collected) and
    re-created by the next passes under new uids, before the next revision takes over."""
    sc = scenario_handover(r, mask_old=mask_old, mask_new=None, strategy=strategy, policy=policy, nph=len(mask_old) if mask_old else None)
    for s_ in sc["sets"]:
        for ph in s_["phases"]:
            for o in ph["objects"]:
                o["cp"] = 0   # Prevent: the handover depends on the previous-revision check alone
    old = [s for s in sc["sets"] if s["name"] == 9][0]
    st = sc["stages"]
    sc["stages"] = [st[0], {"ops": [{"op": "gc-phases", "target": tgt(old)}], "targets": [tgt(old)], "policy": st[0]["policy"], "seed": 11}] + st[1:]
    sc["family"] = "recreated"
    sc["kubelet"] = True
    return sc


def scenario_states(r, strategy="native"):
    """One ObjectSet in an arbitrary state with pre-existing phase objects in arbitrary states (status for a stale /
    current generation, Available True / False / absent, paused mismatch, deleting, foreign controller, other class,
    missing), members owned by the ObjectSet / its phase objects / others; a short explicit schedule."""
    cluster = r.random() < 0.25
    okind, ons = (2, 0) if cluster else (1, 1)
    pkind = 4 if cluster else 3
    nph = r.choice([1, 2, 2, 3, 3])
    objs, _ = gen_objects(r, ons, nph)
    mask = [r.random() < 0.65 for _ in range(nph)]
    mode = r.choice(["active"] * 5 + ["paused", "deleting", "deleting", "archived", "archived"])
    rev = r.choice([1, 2, 3])
    phases = [{"name": i + 1, "class": bool(mask[i]), "objects": objs[i]} for i in range(nph)]
    t = sl.mk_set(okind, ons, 10, 100, rv=5, gen=r.choice([1, 1, 2]), phases=phases, revision=rev, pkg=r.choice([0, 0, 1, 2]))
    annot = strategy == "annot"
    pobjs, store, uid, remotes = [], [], 7, []
    for i in range(nph):
        pname = join_name(10, i + 1)
        puid = 300 + i
        exists = mask[i] and r.random() < 0.8
        if exists:
            g = r.choice([1, 1, 2, 3])
            conds = []
            av = r.choice(["none", "true", "true", "true", "false", "stale-true", "stale-false"])
            if av != "none":
                conds.append([0, 0 if "true" in av else 1, 0 if "true" in av else 1, g if not av.startswith("stale") else max(g - 1, 0)])
            paused = r.random() < 0.15
            if paused and r.random() < 0.7:
                conds.append([3, 0, 6, g])
            ctrl = r.choice(["own", "own", "own", "own", "own", "foreign", "none", "own-stale-uid"])
            owners = {"own": [[okind, 10, 100, 1]], "foreign": [[okind, 11, 110, 1]], "none": [], "own-stale-uid": [[okind, 10, 101, 1]]}[ctrl]
            po = mk_phase_obj(pkind, ons, pname, puid, rv=20 + i, gen=g, owners=owners, fin=r.random() < 0.85,
                              orphan=r.random() < 0.05, pkg=t["pkg"], **{"class": r.choice([1, 1, 1, 1, 1, 1, 2, 0])},
                              paused=paused, revision=rev, prev=[9] if r.random() < 0.5 else [], objects=objs[i], conds=conds)
            if r.random() < 0.12:
                po["deleting"] = True
                po["fin"] = po["fin"] or not po["orphan"]
            if r.random() < 0.6:
                # recorded in status.remotePhases, sometimes with the uid of an earlier incarnation of the phase object
                remotes.append([pname, puid if r.random() < 0.7 else puid + 500])
            pobjs.append(po)
        for po_ in objs[i]:
            if r.random() >= 0.6:
                continue
            refs = r.choice([[], [[9, 50, 500, 1]], [[okind, 9, 90, 1]], [[okind, 10, 100, 1]], [[pkind, pname, puid, 1]], [[pkind, pname, puid, 1]],
                             [[pkind, pname, puid, 0]], [[okind, 9, 90, 0], [pkind, pname, puid, 1]]])
            o = pl.mk_obj(po_["gk"], 1, po_["name"], uid, uid + 1, rev=r.choice([None, 1, rev, rev, rev + 1, "bad"]),
                          cache=r.random() < 0.85, pkg=r.choice([0, 0, 0, 1]), body=r.choice([1, 2]),
                          avail=r.choice([0, 1, 1, 1, 2]), obsgen=r.choice([None, None, 1, 2]), fin=r.random() < 0.1)
            o["aowners" if (annot and refs and refs[-1][0] == pkind) else "owners"] = refs
            if exists and refs and refs[-1][:3] == [pkind, pname, puid] and refs[-1][3] == 1 and r.random() < 0.7:
                pobjs[-1]["ctrlof"].append({"gk": po_["gk"], "ns": 1 if ons else (po_["ns"] or 0), "name": po_["name"]})
            store.append(o)
            uid += 2
    t["remotes"] = remotes
    sets = [t]
    if r.random() < 0.5:
        t["prev"] = [9]
        if r.random() < 0.8:
            sets.append(sl.mk_set(okind, ons, 9, 90, rv=6, revision=max(rev - 1, 1), life=r.choice([0, 2]),
                                  remotes=r.choice([[], [[join_name(9, 1), 290]]])))
    g = t["gen"]
    if r.random() < 0.5:
        t["conds"].append([0, r.choice([0, 1]), r.choice([0, 1]), g])
    if mode == "paused":
        t["life"] = 1
    elif mode == "deleting":
        t["deleting"] = True
        t["orphan"] = r.random() < 0.15
    elif mode == "archived":
        t["life"] = 2
    nss = [[1, r.choice([0, 0, 0, 1])]] if ons and r.random() < 0.92 else []
    k = r.choice([1, 2, 3])
    explicit = []
    cands = [("set", tgt(t))] + [("phase", {"kind": p["kind"], "ns": p["ns"], "name": p["name"], "uid": p["uid"]}) for p in pobjs]
    for _ in range(k):
        a, tg = r.choice(cands)
        explicit.append({"actor": a, "target": tg})
    return {"family": "states", "force": r.random() < 0.05, "strategy": strategy, "store": store, "sets": sl.sort_sets(sets),
            "phases": sorted(pobjs, key=lambda p: (p["kind"], p["ns"], p["name"])), "nss": nss, "next_rv": 50, "next_uid": 400,
            "kubelet": False, "stages": [{"targets": [tgt(t)], "policy": "explicit", "explicit": explicit}], "twin": False}


def scenario_hosted(r, cluster, teardown):
    """Hosted-cluster mode (multi-cluster constructors, two clusters): members of a delegated phase that exist on the
    target cluster but are missing from the dynamic cache (cache label stripped / not yet labelled). Rollout: the
    member is controlled by a NEWER revision's phase object and carries its higher revision: the fallback read on the
    target cluster finds it and the pass stays away. Teardown: the phase object is being deleted and still controls
    the uncached member: the read on the target cluster finds it and it is deleted before the finalizer goes."""
    okind, ons, pkind = (2, 0, 4) if cluster else (1, 1, 3)
    objs = [pl.mk_pobj(1, 1 if cluster else 0, 1, body=1), pl.mk_pobj(2, 1 if cluster else 0, 2, body=1)]
    rev = 1
    t = sl.mk_set(okind, ons, 10, 100, rv=5, phases=[{"name": 1, "class": True, "objects": objs}], revision=rev,
                  remotes=[[join_name(10, 1), 300]])
    po = mk_phase_obj(pkind, ons, join_name(10, 1), 300, rv=20, gen=1, owners=[[okind, 10, 100, 1]], revision=rev, objects=objs,
                      conds=[[0, 1, 1, 1]])
    store = []
    for i, o in enumerate(objs):
        m = pl.mk_obj(o["gk"], 1, o["name"], 7 + 2 * i, 8 + 2 * i, body=1, avail=1, obsgen=1, cache=(i == 1 and r.random() < 0.5))
        if teardown:
            m["rev"], m["aowners"] = rev, [[pkind, join_name(10, 1), 300, 1]]
        else:
            m["rev"], m["aowners"] = rev + 1, [[pkind, join_name(11, 1), 310, 1]]
        store.append(m)
    if teardown:
        po["deleting"] = True
        t["deleting"] = True
    ptgt = {"kind": pkind, "ns": ons, "name": po["name"], "uid": po["uid"]}
    explicit = [{"actor": "phase", "target": ptgt}, {"actor": "set", "target": tgt(t)}, {"actor": "phase", "target": ptgt}]
    return {"family": "hosted", "force": False, "strategy": "annot", "store": store, "sets": [t], "phases": [po],
            "nss": [[1, 0]] if ons else [], "next_rv": 50, "next_uid": 400, "kubelet": False,
            "stages": [{"targets": [tgt(t)], "policy": "explicit", "explicit": explicit}], "twin": False}


def scenario_phase_orphan(r, cluster, strategy="native", with_set=True):
    """A phase object deleted with orphan propagation (kubectl delete --cascade=orphan: deletionTimestamp and the
    "orphan" finalizer next to the cached finalizer) that still controls its members: the phase controller deletes
    nothing and lets its own finalizer go."""
    okind, ons, pkind = (2, 0, 4) if cluster else (1, 1, 3)
    pns = 1 if cluster else 0
    objs = [pl.mk_pobj(1, pns, 1, body=1), pl.mk_pobj(2, pns, 2, body=1), pl.mk_pobj(1, pns, 3, body=1)]
    t = sl.mk_set(okind, ons, 10, 100, rv=5, phases=[{"name": 1, "class": True, "objects": objs}], revision=1,
                  remotes=[[join_name(10, 1), 300]], life=r.choice([0, 0, 1]))
    po = mk_phase_obj(pkind, ons, join_name(10, 1), 300, rv=20, gen=1, owners=[[okind, 10, 100, 1]], revision=1, objects=objs,
                      conds=[[0, 0, 0, 1]], deleting=True, fin=True, orphan=True)
    store = []
    for i, o in enumerate(objs):
        if i == 2 and r.random() < 0.5:
            continue
        m = pl.mk_obj(o["gk"], 1, o["name"], 7 + 2 * i, 8 + 2 * i, body=1, avail=1, obsgen=1, rev=1, cache=r.random() < 0.8,
                      fin=(i == 1 and r.random() < 0.3))
        m["aowners" if strategy == "annot" else "owners"] = [[pkind, join_name(10, 1), 300, 1]]
        store.append(m)
    ptgt = {"kind": pkind, "ns": ons, "name": po["name"], "uid": po["uid"]}
    explicit = [{"actor": "phase", "target": ptgt}]
    if with_set:
        explicit.append({"actor": "set", "target": tgt(t)})
    explicit.append({"actor": "phase", "target": ptgt})
    return {"family": "phase-orphan", "force": False, "strategy": strategy, "store": store, "sets": [t] if with_set else [],
            "phases": [po], "nss": [[1, 0]] if ons else [], "next_rv": 50, "next_uid": 400, "kubelet": False,
            "stages": [{"targets": [tgt(t)], "policy": "explicit", "explicit": explicit}], "twin": False}


def scenario_lagged_teardown(r, cluster, variant, archive=False):
    """Teardown of a delegated phase while the manager's cached client still serves the old incarnation of the phase
    object (controlled by the ObjectSet); on the API server it was re-created under a new uid by another ObjectSet
    ("recreated"), re-owned ("reowned") or orphaned ("released"). The uncached read sees that and leaves it alone."""
    okind, ons, pkind = (2, 0, 4) if cluster else (1, 1, 3)
    pns = 1 if cluster else 0
    objs = [pl.mk_pobj(1, pns, 1, body=1)]
    t = sl.mk_set(okind, ons, 10, 100, rv=5, phases=[{"name": 1, "class": True, "objects": objs}], revision=1,
                  remotes=[[join_name(10, 1), 300]])
    if archive:
        t["life"] = 2
    else:
        t["deleting"] = True
    old = mk_phase_obj(pkind, ons, join_name(10, 1), 300, rv=20, gen=1, owners=[[okind, 10, 100, 1]], revision=1, objects=objs,
                       conds=[[0, 0, 0, 1]])
    new = copy.deepcopy(old)
    new["rv"] = 40
    if variant == "recreated":
        new["uid"], new["owners"], new["conds"] = 301, [[okind, 11, 110, 1]], []
    elif variant == "reowned":
        new["owners"] = [[okind, 10, 100, 0], [okind, 11, 110, 1]]
    else:
        new["owners"] = []
    return {"family": "lagged-teardown", "force": False, "strategy": "native", "store": [], "sets": [t], "phases": [new],
            "stale_phases": [old], "nss": [[1, 0]] if ons else [], "next_rv": 50, "next_uid": 400, "kubelet": False,
            "stages": [{"targets": [tgt(t)], "policy": "explicit", "explicit": [{"actor": "set", "target": tgt(t)}, {"actor": "set", "target": tgt(t)}]}],
            "twin": False}


def teardown_corpus(r):
    """Orphaned phase objects and teardown under cache lag (C05 clauses on the delegation machinery)."""
    scs = []
    for cluster in (False, True):
        for strategy in ("native", "annot"):
            scs.append(scenario_phase_orphan(r, cluster, strategy))
        scs.append(scenario_phase_orphan(r, cluster, "native", with_set=False))
        for variant in ("recreated", "reowned", "released"):
            scs.append(scenario_lagged_teardown(r, cluster, variant, archive=(variant == "reowned" and cluster)))
    return scs


def scenario_clash(strategy="native"):
    """ObjectSet "n3-p2" with phase "p5" and ObjectSet "n3" with phase "p2-p5": both name their phase object
    "n3-p2-p5" (ObjectSet.join_name 3002 5 = join_name 3 2005)."""
    a = sl.mk_set(1, 1, 3002, 100, rv=5, phases=[{"name": 5, "class": True, "objects": [pl.mk_pobj(1, 0, 1, body=1)]}], revision=0, fin=False)
    b = sl.mk_set(1, 1, 3, 110, rv=6, phases=[{"name": 2005, "class": True, "objects": [pl.mk_pobj(1, 0, 2, body=1)]}], revision=0, fin=False)
    return {"family": "clash", "force": False, "strategy": strategy, "store": [], "sets": sl.sort_sets([a, b]), "phases": [],
            "nss": [[1, 0]], "next_rv": 50, "next_uid": 60, "kubelet": True,
            "stages": [{"targets": [tgt(a)], "policy": "rr"}, {"targets": [tgt(a), tgt(b)], "policy": "rr"},
                       {"ops": [{"op": "delete", "target": tgt(b)}], "targets": [tgt(a), tgt(b)], "policy": "rr"}], "twin": False}


def place(sc):
    """Two-cluster runs (strategy "annot") keep a member key on one cluster: the target cluster iff a delegated phase
    lists it. A scenario in which one revision handles a key in-process and another one delegates it would be about
    two different objects on two clusters; such scenarios run the multi-cluster constructors on one cluster."""
    if sc["strategy"] != "annot":
        return sc
    seen = {}
    for s_ in sc["sets"]:
        for ph in s_["phases"]:
            for o in ph["objects"]:
                k = (o["gk"], o["ns"] or s_["ns"], o["name"])
                seen.setdefault(k, set()).add(bool(ph["class"]))
    if any(len(v) > 1 for v in seen.values()):
        sc["one_cluster"] = True
    return sc


def masks(n):
    return [list(m) for m in itertools.product([False, True], repeat=n)]


def gen(seed, tier):
    r = vlib.rng(seed, "C15")
    scs = [scenario_clash()]
    for cluster in (True, False):
        for teardown in (False, True):
            scs.append(scenario_hosted(r, cluster, teardown))
    scs.append(scenario_prev_deleted(r))
    scs += teardown_corpus(r)
    # every subset of phases delegated, 1-3 phases, round-robin and random schedules, both strategies
    for nph in (1, 2, 3):
        for m in masks(nph):
            for strategy in ("native", "annot"):
                scs.append(scenario_rollout(r, mask=m, nph=nph, strategy=strategy, policy="rr"))
            if any(m):
                scs.append(scenario_rollout(r, mask=m, nph=nph, policy="random"))
            if any(m) and nph < 3:
                scs.append(scenario_rollout(r, mask=m, nph=nph, policy="rr", paused_start=True))
    # handovers local -> delegated, delegated -> local, mixed
    for nph in (1, 2):
        for mo in masks(nph):
            for mn in masks(nph):
                if any(mo) or any(mn):
                    scs.append(scenario_handover(r, mo, mn, nph=nph))
    # handovers past a previous revision without remote phases, and from re-created phase objects
    for m in ([True], [True, False], [False, True], [True, True]):
        scs.append(scenario_handover3(r, mask_mid=m, policy="rr"))
        scs.append(scenario_recreated(r, mask_old=m, policy="rr"))
    n_roll, n_hand, n_states = (20, 14, 45) if tier == "quick" else (400, 300, 650)
    for i in range(3 if tier == "quick" else 60):
        scs.append(scenario_handover3(r, strategy="annot" if i % 5 == 4 else "native"))
        scs.append(scenario_recreated(r, mask_old=[True] + [r.random() < 0.5 for _ in range(r.choice([0, 1]))], strategy="annot" if i % 5 == 3 else "native"))
    for i in range(n_roll):
        scs.append(scenario_rollout(r, strategy="annot" if i % 4 == 3 else "native", paused_start=(i % 7 == 5)))
    for i in range(n_hand):
        scs.append(scenario_handover(r, strategy="annot" if i % 5 == 4 else "native"))
    for i in range(n_states):
        scs.append(scenario_states(r, strategy="annot" if i % 4 == 3 else "native"))
    return [place(sc) for sc in scs]
