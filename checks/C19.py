"""C19: no package content or cluster object state can crash Package Operator.  PARTIAL by nature.

Three stages.
 1. Inventory (translator + finite proof about the current source): harness/cmd/verif-sites walks the
    anchored packages with go/types and lists every potential panic site; the list is written as a Coq
    term and `all_accounted inventory` is evaluated against the table of theories/NoPanic.v (one
    constructor per accounted site, verdict per site).  A site the table does not know is reported
    (no-failing-input-found) unless the fuzz stage reaches it (then: concrete violation).
 2. Theorems (props/C19.v): the stage models' panic constructors are reachable exactly as stated
    (`_refuted` + `_partial` + totality of the repaired shapes, mapConditions total).
 3. Fuzz in support of the model (harness mode `nopanic`): structure-aware and byte-level generated
    inputs to the package pipeline, the OCI import, probing, mapConditions, the ObjectTemplate
    controller, the annotation owner strategy and the kubectl-package commands run through the real code
    under recover and a watchdog; where the generator knows the abstract input of a modelled stage the
    outcome is compared with the model's inside Coq (C19Corr.judge).
A panic whose identity is an open entry of known_findings.json is printed as KNOWN-FINDING."""
import base64
import gzip
import io
import json
import os
import re
import resource
import subprocess
import tarfile
from concurrent.futures import ThreadPoolExecutor

import vlib
from vlib import cN, cZ, cB, cL, cP, cO

IMPORTS = "From PKO Require Import NoPanic.\nFrom PKOCorr Require Import C19Corr.\nOpen Scope string_scope."

ANCHORS = ["./internal/packages/internal/packagerender/...", "./internal/packages/internal/packageimport",
           "./internal/packages/internal/packagestructure", "./internal/packages/internal/packagevalidation",
           "./internal/packages/internal/packagemanifestvalidation", "./internal/packages/internal/packagedeploy", "./internal/controllers",
           "./internal/controllers/objecttemplate", "./pkg/probing", "./internal/probing", "./internal/cmd",
           "./internal/transform", "pkg.package-operator.run/boxcutter/ownerhandling"]

F_A = "C19 panic packagerender.phaseCollector.AddObjects: condition-map annotation not validated"
F_B = "C19 panic packageimport.FromOCI: tar header used after a non-EOF read error"
F_C = ("C19 panic objecttemplate.updateStatusConditionsFromOwnedObject: unchecked string assertion on a condition "
       "field of the templated object")
F_D = "C19 panic objecttemplate.copySourceItem: empty destination indexed"
F_E = ("C19 panic ownerhandling.(*OwnerStrategyAnnotation).getOwnerReferences: owners annotation of a cluster or "
       "desired object is not JSON")
F_F = ("C19 panic packagemanifestvalidation.validateSchemaStuffWithXPrefixedName: x-kubernetes-validations of the config "
       "schema compiled with a nil CEL environment set")
F_G = ("C19 panic packagedeploy.validateUnique at `if err := uncachedClient.List(ctx, dst, &client.ListOptions{LabelSelector: s}); "
       "err != nil {`")
FINDINGS = [F_A, F_B, F_C, F_D, F_E, F_F, F_G]
BY_FUNC = {f.split(":")[0][len("C19 panic "):]: f for f in FINDINGS if " at `" not in f}
# the text of the source line a finding panics at: a different panic in the same function is a new violation
FINDING_EXPR = {F_A: "panic(err)", F_B: "hdr.Name", F_C: ".(string)", F_D: "item.Destination[0]", F_E: "panic(err)", F_F: "cel.Compile("}

A_PHASE = "package-operator.run/phase"
A_CONDMAP = "package-operator.run/condition-map"
A_COLLISION = "package-operator.run/collision-protection"
A_CEL = "package-operator.run/condition"
A_OWNERS = "package-operator.run/owners"
CACHE_LABEL = "package-operator.run/cache"


# ------------------------------------------------------------------------------------------ Coq terms
def cstr(s):
    if all(0x20 <= ord(c) <= 0x7e for c in s):
        return '"' + s.replace('"', '""') + '"'
    return "(sb [%s])" % "; ".join(str(b) for b in s.encode("utf-8"))


def cbytes(s):
    if all(0x20 <= ord(c) <= 0x7e for c in s):
        return "(bs %s)" % cstr(s)
    return "(bb [%s])" % "; ".join(str(b) for b in s.encode("utf-8"))


def cjson(v):
    if v is None:
        return "JNull"
    if isinstance(v, bool):
        return "(JBool %s)" % cB(v)
    if isinstance(v, int):
        return "(JInt %s)" % cZ(v) if abs(v) < 10 ** 15 else "JFrac"
    if isinstance(v, float):
        return "(JInt %s)" % cZ(int(v)) if abs(v) < 1e15 and v == int(v) else "JFrac"
    if isinstance(v, str):
        return "(JStr %s)" % cstr(v)
    if isinstance(v, list):
        return "(JArr %s)" % cL([cjson(x) for x in v])
    return "(JObj %s)" % cobj(v)


def cobj(d):
    """Keys in byte order: the order json.Marshal emits a Go map in (mapConditions re-decodes that text)."""
    return cL([cP(cstr(k), cjson(x)) for k, x in sorted(d.items(), key=lambda kv: kv[0].encode("utf-8"))])


def cobs(o):
    if "panic" in o:
        return "(ObsPanic %s)" % cstr(panic_func(o) or "?")
    obs = o.get("obs") or {}
    if obs.get("class") == "ok":
        return "(ObsOk %s)" % cN(obs_count(obs))
    if obs.get("class") == "runaway":
        return "ObsRunaway"
    return "ObsErr"


def obs_count(obs):
    m = re.search(r"(?:objects|conditions|keys|files)=(\d+)", obs.get("info", ""))
    return int(m.group(1)) if m else 0


# ------------------------------------------------------------------------------------------ inventory
def sites_exe():
    return os.path.join(vlib.BUILD, "verif-sites")


def build_sites():
    """Builds the translator inside the tree's module (overlay, like the harness)."""
    os.makedirs(vlib.BUILD, exist_ok=True)
    with vlib.Lock("go.lock"):
        ov = vlib.overlay_map()
        sdir = os.path.join(vlib.VERIF, "harness", "cmd", "verif-sites")
        for f in sorted(os.listdir(sdir)):
            if f.endswith(".go"):
                ov["Replace"][os.path.join(vlib.REPO, "cmd", "verif-sites", f)] = os.path.join(sdir, f)
        path = os.path.join(vlib.BUILD, "overlay-c19.json")
        with open(path, "w") as f:
            json.dump(ov, f, indent=1)
        p = subprocess.run(["go", "build", "-overlay", path, "-o", sites_exe(), "./cmd/verif-sites"], cwd=vlib.REPO,
                           env=vlib.go_env(), stdout=subprocess.PIPE, stderr=subprocess.STDOUT, text=True)
        return p.returncode == 0, p.stdout


def run_sites():
    p = subprocess.run([sites_exe(), vlib.REPO] + ANCHORS, cwd=vlib.REPO, env=vlib.go_env(), stdout=subprocess.PIPE,
                       stderr=subprocess.PIPE, text=True)
    if p.returncode != 0:
        return None, p.stderr
    return [json.loads(l) for l in p.stdout.split("\n") if l.strip()], p.stderr


KINDS = {"assert": "KAssert", "index": "KIndex", "panic": "KPanic", "must": "KMust", "nilderef": "KNilderef",
         "recursion": "KRecursion", "nilarg": "KNilarg", "nilfield": "KNilfield", "dyncmp": "KDyncmp", "unsetfield": "KUnsetfield"}


def site_term(s):
    return "(mk %s %s %s %s %s %s)" % (cstr(s["file"]), cstr(s["func"]), KINDS[s["kind"]], cstr(s["expr"]),
                                        cB(s["guarded"]), cN(s["n"]))


def inventory_stage(run):
    """Returns (sites, accounted flags) or None."""
    ok, blog = build_sites()
    if not ok:
        run.violation("corr:C19/translator-build", {"correspondence": "verif-sites no longer builds against the tree",
                                                     "log": blog[-4000:]}, False)
        return None
    sites, err = run_sites()
    if sites is None:
        run.violation("corr:C19/translator-run", {"correspondence": "verif-sites failed", "log": err[-4000:]}, False)
        return None
    body = ["From Coq Require Import List NArith ZArith String Bool.", "Import ListNotations.",
            "From PKO Require Import NoPanic.", "From PKOCorr Require Import C19Corr.",
            "Open Scope string_scope.",
            "(* regenerated from %s on every run by checks/C19.py *)" % vlib.REPO,
            "Definition inventory : list site := [", ";\n".join(site_term(s) for s in sites), "].",
            "Definition A := Eval vm_compute in (map is_accounted inventory).", "Print A."]
    rc, out = vlib.coqc_eval(os.path.join(vlib.BUILD, "C19"), "sites", "\n".join(body), timeout=600)
    ma = re.search(r"A\s*=\s*(.*?)\n\s*:\s*list", out, re.S)
    if rc != 0 or not ma:
        run.violation("corr:C19/inventory-eval", {"correspondence": "coq evaluation of the inventory failed",
                                                   "log": out[-3000:]}, False)
        return None
    flags = [t == "true" for t in re.findall(r"\b(true|false)\b", ma.group(1))]
    if len(flags) != len(sites):
        run.violation("corr:C19/inventory-eval", {"correspondence": "unexpected shape of the inventory evaluation",
                                                   "log": out[-3000:]}, False)
        return None
    if all(flags):
        # kernel-checked statement about the current source
        proof = "\n".join(body[:-2] + ["Lemma inventory_accounted : all_accounted inventory = true.",
                                      "Proof. vm_compute. reflexivity. Qed.", "Print Assumptions inventory_accounted."])
        rc, out = vlib.coqc_eval(os.path.join(vlib.BUILD, "C19"), "sites_proof", proof, timeout=600)
        if rc != 0 or "Closed under the global context" not in out:
            run.violation("corr:C19/inventory-proof", {"correspondence": "inventory_accounted does not check",
                                                        "log": out[-3000:]}, False)
    return sites, flags


# ------------------------------------------------------------------------------------------ running
def panic_func(o):
    """First function of package-operator (or boxcutter) on the panicking goroutine's stack."""
    lines = o.get("stack", "").split("\n")
    start = 0
    for i, l in enumerate(lines):
        if l.startswith("panic("):
            start = i + 1
    for l in lines[start:]:
        if l.startswith("package-operator.run/") or l.startswith("pkg.package-operator.run/"):
            name = re.sub(r"\(((0x|\{|\.\.\.)[^)]*)?\)$", "", l.strip())
            name = re.sub(r"\[\.\.\.\]", "", name)
            return name.rsplit("/", 1)[-1]
    return None


_SRC = {}


def panic_line(o):
    """Source text of the line the first package-operator (or boxcutter) frame is at."""
    lines = o.get("stack", "").split("\n")
    start = 0
    for i, l in enumerate(lines):
        if l.startswith("panic("):
            start = i + 1
    for i in range(start, len(lines) - 1):
        l = lines[i]
        if l.startswith("package-operator.run/") or l.startswith("pkg.package-operator.run/"):
            m = re.match(r"\s+(\S+):(\d+)", lines[i + 1])
            if not m:
                return ""
            path, ln = m.group(1), int(m.group(2))
            if path not in _SRC:
                try:
                    _SRC[path] = open(path, errors="replace").read().split("\n")
                except OSError:
                    _SRC[path] = []
            src = _SRC[path]
            return src[ln - 1].strip() if 0 < ln <= len(src) else ""
    return ""


def panic_identity(o):
    f = panic_func(o)
    if f is None:
        return None
    ident = BY_FUNC.get(f)
    text = panic_line(o)
    if ident and FINDING_EXPR[ident] in text:
        return ident
    return "C19 panic %s at `%s`" % (f, text[:160])


def _limits():
    resource.setrlimit(resource.RLIMIT_AS, (16 << 30, 16 << 30))
    resource.setrlimit(resource.RLIMIT_CORE, (0, 0))


def _run_chunk(chunk, timeout):
    inp = "\n".join(json.dumps(s) for s in chunk) + "\n"
    try:
        p = subprocess.run([vlib.HARNESS, "nopanic"], input=inp, stdout=subprocess.PIPE, stderr=subprocess.PIPE,
                           text=True, env=vlib.go_env(), timeout=timeout, preexec_fn=_limits)
        out, rc, err = p.stdout, p.returncode, p.stderr
    except subprocess.TimeoutExpired as e:
        out = e.stdout.decode() if isinstance(e.stdout, bytes) else (e.stdout or "")
        rc, err = "timeout", ""
    lines = []
    for l in out.split("\n"):
        if l.strip():
            try:
                lines.append(json.loads(l))
            except ValueError:
                break
    return lines, rc, err


def run_scenarios(scs, par=8, chunk=200):
    """Runs all scenarios; a chunk whose process died or ran away is split until the culprit is alone."""
    res = [None] * len(scs)

    def work(idxs):
        lines, rc, err = _run_chunk([scs[i] for i in idxs], max(40, 0.25 * len(idxs)))
        if len(lines) == len(idxs):
            for i, l in zip(idxs, lines):
                res[i] = l
            return
        if len(idxs) == 1:
            kind = "timeout" if rc == "timeout" else "died"
            m = re.search(r"(fatal error: [^\n]*|runtime: [^\n]*exceeds[^\n]*|signal: [^\n]*)", err or "")
            res[idxs[0]] = {kind: str(rc), "stderr": (m.group(1) if m else (err or "")[-400:])}
            return
        step = max(1, len(idxs) // 6)
        for k in range(0, len(idxs), step):
            work(idxs[k:k + step])

    # scenarios marked solo (a runaway would be a fatal stack overflow of the harness) get a process of their own
    solo = [i for i, sc in enumerate(scs) if sc.get("solo")]
    rest = [i for i, sc in enumerate(scs) if not sc.get("solo")]
    chunks = [[i] for i in solo] + [rest[i:i + chunk] for i in range(0, len(rest), chunk)]
    with ThreadPoolExecutor(max_workers=par) as ex:
        list(ex.map(work, chunks))
    return res


# ------------------------------------------------------------------------------------------ generators
JUNK = [None, True, 0, 1, -1, 1.5, 10 ** 20, "", "s", [], {}, [1], ["a", None], {"a": 1}, [[]], {"type": "x"}]
BAD_STRINGS = ["", " ", "\n", "garbage", "=>", " => ", "a =>", "=> b", "a=>b", "a => b\n", "a => b\n\nc => d",
               "a => b\nc", "\t", "ä => ö", "a => b => c", "x" * 300, "{", "[]", "null", "true", "0", "{{ . }}",
               "a\x00b", "\u2028", "%s", "../..", "*", "a,b", "'", '"']


def q(s):
    return json.dumps(s)


def manifest_yaml(phases=("deploy",), extra_spec="", name="test", scopes="[Namespaced, Cluster]", tail=""):
    out = ["apiVersion: manifests.package-operator.run/v1alpha1", "kind: PackageManifest", "metadata:",
           "  name: %s" % name, "spec:", "  scopes: %s" % scopes, "  phases:"]
    out += ["  - name: %s" % q(p) for p in phases]
    out += ["  availabilityProbes:", "  - probes:", "    - condition: {type: Available, status: \"True\"}",
            "    selector:", "      kind: {group: apps, kind: Deployment}"]
    return "\n".join(out) + "\n" + extra_spec + tail


def obj_yaml(name, annos, kind="ConfigMap", api="v1", labels=None, body="data: {k: v}\n", md_extra=""):
    out = ["apiVersion: %s" % api, "kind: %s" % kind, "metadata:", "  name: %s" % q(name)]
    if annos is not None:
        out.append("  annotations:")
        out += ["    %s: %s" % (q(k), q(v)) for k, v in annos.items()]
    if labels:
        out.append("  labels:")
        out += ["    %s: %s" % (q(k), q(v)) for k, v in labels.items()]
    return "\n".join(out) + "\n" + md_extra + body


def render_sc(files, config=None, component="", env=None, ns="ns1"):
    sc = {"files": files, "component": component, "package": {"name": "p", "namespace": ns}, "reps": 1}
    if config is not None:
        sc["config"] = config
    if env is not None:
        sc["environment"] = env
    return sc


def pobj_term(phase, key, condmap, gvk_ok=True, labels_ok=True):
    return "(mkobj %s %s %s %s %s)" % (cO(cstr(phase)) if phase is not None else "None", cB(gvk_ok), cB(labels_ok),
                                       cN(key), cO(cbytes(condmap)) if condmap is not None else "None")


def modelable(s):
    return all(c in "\n\t\r" or 0x20 <= ord(c) <= 0x7e for c in s)


def gen_collector(r, cli):
    """A static package whose objects the generator knows: the collector model applies."""
    phases = r.sample(["deploy", "crds", "rbac", "post"], r.randint(1, 3))
    n = r.randint(1, 4)
    files, terms = {"manifest.yaml": manifest_yaml(phases)}, []
    docs = []
    damage = r.choice(["condmap", "condmap", "condmap", "none", "phase", "dup"])
    for i in range(n):
        phase = r.choice(phases)
        annos = {A_PHASE: phase}
        condmap = None
        if r.random() < 0.7:
            condmap = r.choice(["Available => my.io/Available", "A => B\nC => D", " A=>B ", "A => B\n"])
        if damage == "condmap" and i == 0:
            condmap = r.choice([s for s in BAD_STRINGS if modelable(s)] + [mutate_text(r, "Available => my.io/Available")])
            if not modelable(condmap):
                condmap = "garbage"
        if condmap is not None:
            annos[A_CONDMAP] = condmap
        if r.random() < 0.3:
            annos[A_COLLISION] = r.choice(["None", "IfNoController", "Prevent"])
        name, key, ph = "o%d" % i, i, phase
        if damage == "phase" and i == 0:
            ph = r.choice([None, "", "nope"])
            if ph is None:
                del annos[A_PHASE]
            else:
                annos[A_PHASE] = ph
        if damage == "dup" and i == 1:
            name, key = "o0", 0
        docs.append(obj_yaml(name, annos))
        terms.append(pobj_term(ph, key, condmap))
    split = r.randint(0, len(docs))
    files["a.yaml"] = "---\n".join(docs[:split]) or "# empty\n"
    if docs[split:]:
        files["sub/b.yaml"] = "---\n".join(docs[split:])
    scen = "(ScCollector %s %s)" % (cL([cstr(p) for p in phases]), cL(terms))
    if cli:
        return {"target": "cli", "cmd": "tree", "render": render_sc(files)}, scen
    return {"target": "pipeline", "render": render_sc(files), "deploy": r.random() < 0.3}, scen


def mutate_text(r, s):
    chunks = ["{{", "}}", "---\n", "\t", ": ", "- ", "{{ end }}", "|\n", "&a ", "*a ", "!!binary ", "\x00", "\"", "'",
              "{", "[", "#", "\n\n", "  ", "{{ . }}", "\xff", "=>", "\n", "]", "}", "? ", "<<: ", "!!map ", "%YAML 1.1\n"]
    for _ in range(r.randint(1, 3)):
        i = r.randint(0, len(s))
        k = r.choice(["del", "dup", "ins", "ins", "trunc", "flip"])
        if k == "del":
            s = s[:i] + s[i + r.randint(1, 12):]
        elif k == "dup":
            j = min(len(s), i + r.randint(1, 30))
            s = s[:j] + s[i:j] + s[j:]
        elif k == "ins":
            s = s[:i] + r.choice(chunks) + s[i:]
        elif k == "trunc":
            s = s[:i]
        elif s:
            i = min(i, len(s) - 1)
            s = s[:i] + chr((ord(s[i]) ^ (1 << r.randint(0, 6))) & 0x7f) + s[i + 1:]
    return s


SCHEMA_POOL = [
    "      type: object\n      properties:\n        a: {type: string, default: x}\n",
    "      type: nonsense\n",
    "      type: object\n      properties:\n        a: {type: string, pattern: \"(\"}\n",
    "      type: object\n      properties:\n        a: {type: string, default: 5}\n",
    "      type: object\n      properties:\n        a: {type: integer, minimum: \"x\"}\n",
    "      type: object\n      required: [a]\n      properties:\n        a: {type: string}\n",
    "      type: object\n      x-kubernetes-validations:\n      - rule: \"self.a ==\"\n",
    "      type: object\n      x-kubernetes-validations:\n      - rule: \"self.a == 1\"\n        message: m\n      properties:\n        a: {type: integer}\n",
    "      type: object\n      additionalProperties: true\n      properties: {a: {type: string}}\n",
    "      type: array\n      items: {type: string}\n",
    "      type: object\n      properties:\n        a:\n          type: object\n          x-kubernetes-preserve-unknown-fields: true\n",
    "      type: object\n      properties:\n        a: {type: string, enum: [1, {}]}\n",
    "      type: object\n      properties:\n        a: {type: string, format: \"date-time\", default: \"nope\"}\n",
    "      $ref: \"#/definitions/x\"\n",
    "      type: object\n      properties:\n        a: {oneOf: [{type: string}, {type: integer}]}\n",
    "      type: object\n      properties:\n        a: {type: array, items: [{type: string}]}\n",
    "      type: object\n      properties:\n        a: {type: object, x-kubernetes-map-type: wrong}\n",
    "      type: object\n      properties:\n        a: {type: array, x-kubernetes-list-type: map, x-kubernetes-list-map-keys: [k], items: {type: string}}\n",
    "      null\n", "      []\n", "      \"str\"\n",
]


def deep(n, kind):
    if kind == "flow-seq":
        return "[" * n + "]" * n
    if kind == "flow-map":
        return "{a: " * n + "1" + "}" * n
    return "".join("%sa:\n" % ("  " * i) for i in range(n)) + "  " * n + "b: 1\n"


def schema_deep(n):
    ind, out = "      ", ""
    for i in range(n):
        out += "%stype: object\n%sproperties:\n%s  a:\n" % (ind, ind, ind)
        ind += "    "
    return out + "%stype: string\n" % ind


def schema_manifest(schema, phases=("deploy", "post"), tail=""):
    """Manifest with the given JSONSchemaProps (a JSON value; JSON is YAML) as config schema."""
    return manifest_yaml(list(phases), "  config:\n    openAPIV3Schema: %s\n" % json.dumps(schema), tail=tail)


SCALAR_TYPES = ["string", "integer", "number", "boolean"]
WRONG_DEFAULTS = {"string": [5, True, {}, [], None], "integer": ["x", 1.5, {}, None], "number": ["x", [], None],
                  "boolean": ["true", 0, None], "object": ["x", 5, []], "array": ["x", {}, 5]}
GOOD_DEFAULTS = {"string": "x", "integer": 1, "number": 1.5, "boolean": True, "object": {}, "array": []}


def gen_schema(r, depth=0):
    """Structure-aware JSONSchemaProps: mostly structural, with the odd corners the validation code branches on."""
    t = r.choice(["object", "object", "array", "array", "string", "integer", "number", "boolean", None, "nonsense"]
                 if depth < 3 else SCALAR_TYPES)
    s = {}
    if t is not None:
        s["type"] = t
    if t == "object":
        names = r.sample(["a", "b", "c", "k", "metadata", "kind"], r.randint(0, 3))
        pk = r.random()
        if pk < 0.75:
            s["properties"] = {n: gen_schema(r, depth + 1) for n in names}
        elif pk < 0.85:
            s["properties"] = {}
        if r.random() < 0.3:
            s["required"] = r.sample(names + ["missing", "other"], r.randint(1, 2))
        ap = r.random()
        if ap < 0.15:
            s["additionalProperties"] = r.choice([True, False])
        elif ap < 0.35:
            s["additionalProperties"] = gen_schema(r, depth + 1)
        if r.random() < 0.2:
            s["x-kubernetes-map-type"] = r.choice(["atomic", "granular", "wrong", ""])
        if r.random() < 0.2:
            s["x-kubernetes-preserve-unknown-fields"] = r.choice([True, False])
        if r.random() < 0.12:
            s["x-kubernetes-embedded-resource"] = r.choice([True, True, False])
    elif t == "array":
        form = r.random()
        if form < 0.45:
            s["items"] = gen_schema(r, depth + 1)
        elif form < 0.7:
            s["items"] = [gen_schema(r, depth + 1) for _ in range(r.choice([1, 1, 2]))]
        elif form < 0.78:
            s["items"] = r.choice([[], None, {}])
        if r.random() < 0.15:
            s["additionalItems"] = r.choice([True, False, gen_schema(r, depth + 1)])
        lt = r.random()
        if lt < 0.6:
            s["x-kubernetes-list-type"] = r.choice(["atomic", "set", "set", "map", "map", "wrong"])
        mk = r.random()
        if mk < 0.3:
            s["x-kubernetes-list-map-keys"] = r.choice([["k"], ["a"], ["missing"], [], ["k", "k"], ["a", "k"]])
        if r.random() < 0.2:
            s[r.choice(["maxItems", "minItems"])] = r.choice([0, 1, 5, -1])
        if r.random() < 0.1:
            s["uniqueItems"] = r.choice([True, False])
    elif t in SCALAR_TYPES:
        if r.random() < 0.2:
            s["enum"] = r.choice([[GOOD_DEFAULTS[t]], [], [1, "x", {}], None])
        if t == "string" and r.random() < 0.3:
            s[r.choice(["format", "pattern"])] = r.choice(["date-time", "byte", "nonsense", "(", "^a+$", ""])
        if t in ("integer", "number") and r.random() < 0.3:
            s[r.choice(["minimum", "maximum", "multipleOf"])] = r.choice([0, 1, -1, 1.5])
    if t is not None and r.random() < 0.3:
        s["default"] = GOOD_DEFAULTS.get(t, 1) if r.random() < 0.5 else r.choice(WRONG_DEFAULTS.get(t, [None, 1]))
    if r.random() < 0.12:
        s["nullable"] = r.choice([True, False])
    if r.random() < 0.08:
        s["x-kubernetes-int-or-string"] = True
        if r.random() < 0.6:
            s.pop("type", None)
            s["anyOf"] = [{"type": "integer"}, {"type": "string"}]
    if depth < 3 and r.random() < 0.12:
        k = r.choice(["oneOf", "anyOf", "allOf", "not"])
        sub = [gen_schema(r, depth + 2) if r.random() < 0.5 else r.choice([{"required": ["a"]}, {"minimum": 1}, {"pattern": "^a"}, {}])
               for _ in range(r.choice([1, 2]))]
        s[k] = sub[0] if k == "not" else sub
    if r.random() < 0.15:
        s["x-kubernetes-validations"] = r.choice(XV_RULES + [[{"rule": "true"}], [{"rule": "self.a =="}], [{"rule": "true", "messageExpression": "'m' +"}], [], None])
    if t == "string" and r.random() < 0.3:
        s["maxLength"] = r.choice([8, 64, 0])
    if t == "object" and r.random() < 0.15:
        s["maxProperties"] = r.choice([1, 5])
    return s


def gen_config_for(r, schema, depth=0):
    """A configuration value that mostly fits the schema."""
    if r.random() < 0.15 or depth > 4 or not isinstance(schema, dict):
        return r.choice(JUNK)
    t = schema.get("type")
    if t == "object":
        props = schema.get("properties") or {}
        out = {n: gen_config_for(r, ps, depth + 1) for n, ps in props.items() if r.random() < 0.7}
        if r.random() < 0.3:
            out["extra"] = r.choice(JUNK)
        return out
    if t == "array":
        it = schema.get("items")
        it = it[0] if isinstance(it, list) and it else it
        return [gen_config_for(r, it, depth + 1) for _ in range(r.choice([0, 1, 2, 2]))]
    return GOOD_DEFAULTS.get(t, None)


# schema nodes that validation rejects (or that do not convert), to be combined with the test section: several
# panics sit behind "the earlier validation passed" assumptions
SCHEMA_DEFECTS = [
    {"$ref": "%zz"}, {"$ref": "#/definitions/x"}, {"$ref": ""}, {"type": "string", "pattern": "("}, {"type": "string", "default": 5},
    {"type": "nonsense"}, {}, {"type": "string", "format": "nonsense"}, {"type": "array"}, {"type": "array", "items": [{"type": "string"}]},
    {"type": "object", "additionalProperties": True, "properties": {"x": {"type": "string"}}}, {"type": "string", "enum": [1]},
    {"type": "object", "not": {"$ref": "%zz"}}, {"type": "object", "properties": {"x": {"$ref": "%zz"}}},
    {"type": "string", "x-kubernetes-validations": [{"rule": "self =="}]}, {"type": "string", "nullable": True, "default": None},
    {"type": "string", "maxLength": -1}, {"type": "string", "id": "%zz"}, {"type": "string", "$schema": "%zz"},
    {"type": "array", "items": {"$ref": "%zz"}}, {"type": "object", "additionalProperties": {"$ref": "%zz"}},
    {"type": "object", "definitions": {"d": {"$ref": "%zz"}}}, {"type": "object", "dependencies": {"a": ["b"]}},
    {"type": "object", "patternProperties": {"(": {"type": "string"}}}, {"type": "integer", "multipleOf": 0}, {"type": "string", "externalDocs": {"url": "%zz"}},
    {"type": "string", "example": {"a": [1]}}, {"type": "object", "x-kubernetes-embedded-resource": True},
    {"x-kubernetes-int-or-string": True, "type": "string"}, {"type": "array", "x-kubernetes-list-type": "map", "items": {"type": "string"}},
]
TEST_SECTIONS = [
    None,
    {"template": [{"name": "t1", "context": {"package": {"metadata": {"name": "n", "namespace": "ns"}}, "config": {}}}]},
    {"template": [{"name": "t1", "context": {"package": {"metadata": {"name": "n", "namespace": "ns"}}, "config": {"a": 5, "b": {"c": [1]}}}}]},
    {"template": [{"name": "t1", "context": {"package": {"metadata": {"name": "n"}}, "config": {"a": "x"}}}]},
    {"template": [{"name": "t1", "context": {"package": {"metadata": {"name": "n"}}}}]},
    {"template": [{"name": "t1", "context": {"package": {"metadata": {"name": "n"}}, "config": {"a": "x"}}},
                  {"name": "bad name!", "context": {"package": {"metadata": {"name": "n"}}, "config": {"a": 1}}}]},
    {"template": [{"name": "bad name!", "context": {"package": {"metadata": {"name": "n"}}, "config": {"a": "x"}}}]},
    {"template": [{"name": "t1", "context": {"package": {"metadata": {"name": "n"}}, "config": {"a": "x"}}}], "kubeconform": {"kubernetesVersion": "v1.29.0"}},
    {"kubeconform": {}}, {"kubeconform": {"kubernetesVersion": "v1.29.0", "schemaLocations": ["file:///nope"]}},
    {"template": []},
]


def test_tail(section):
    return "" if section is None else "test: %s\n" % json.dumps(section)


def place_defect(defect, where):
    if where == "root":
        return defect
    if where == "property":
        return {"type": "object", "properties": {"a": defect}}
    if where == "items":
        return {"type": "object", "properties": {"a": {"type": "array", "items": defect}}}
    return {"type": "object", "properties": {"a": {"type": "object", "properties": {"b": {"type": "object", "additionalProperties": defect}}}}}


def defect_corpus():
    """Every schema defect x where it sits x every shape of the manifest's test section."""
    out = []
    for defect in SCHEMA_DEFECTS:
        for where in ("root", "property", "items", "deep"):
            for section in TEST_SECTIONS:
                files = {"manifest.yaml": schema_manifest(place_defect(defect, where), tail=test_tail(section)),
                         "a.yaml": obj_yaml("a", {A_PHASE: "deploy"})}
                out.append(({"target": "pipeline", "render": render_sc(files, {"a": "x"})}, "ScOpaque"))
                # Deploy admits the configuration before the manifest is validated; `kubectl package validate` validates first
                out.append(({"target": "cli", "cmd": "validate", "render": render_sc(files, {"a": "x"})}, "ScOpaque"))
    return out


def inject_defect(r, schema, depth=0):
    """Replace one node of a generated schema by a defect."""
    if not isinstance(schema, dict) or depth > 3 or r.random() < 0.3:
        return json.loads(json.dumps(r.choice(SCHEMA_DEFECTS)))
    out = dict(schema)
    props = out.get("properties")
    if isinstance(props, dict) and props and r.random() < 0.6:
        k = r.choice(sorted(props))
        out["properties"] = dict(props, **{k: inject_defect(r, props[k], depth + 1)})
    elif isinstance(out.get("items"), dict) and r.random() < 0.7:
        out["items"] = inject_defect(r, out["items"], depth + 1)
    elif isinstance(out.get("additionalProperties"), dict):
        out["additionalProperties"] = inject_defect(r, out["additionalProperties"], depth + 1)
    else:
        out[r.choice(["properties"])] = dict(props or {}, zz=json.loads(json.dumps(r.choice(SCHEMA_DEFECTS))))
    return out


def gen_schema_package(r):
    schema = gen_schema(r)
    if schema.get("type") != "object" and r.random() < 0.8:
        schema = {"type": "object", "properties": {"a": schema}}
    cfg = gen_config_for(r, schema)
    if r.random() < 0.35:
        schema = inject_defect(r, schema)
    tail = ""
    k = r.random()
    if k < 0.3:
        tail = "test:\n  template:\n  - name: t1\n    context:\n      package: {metadata: {name: n, namespace: ns}}\n      config: %s\n" % json.dumps(
            gen_config_for(r, schema))
    elif k < 0.55:
        section = json.loads(json.dumps(r.choice(TEST_SECTIONS)))
        if section and section.get("template") and r.random() < 0.5:
            section["template"][0]["context"]["config"] = gen_config_for(r, schema)
        tail = test_tail(section)
    files = {"manifest.yaml": schema_manifest(schema, tail=tail), "a.yaml": obj_yaml("a", {A_PHASE: "deploy"})}
    sc = {"target": "pipeline", "render": render_sc(files, cfg if isinstance(cfg, (dict, type(None))) or r.random() < 0.3 else None),
          "deploy": r.random() < 0.2}
    if r.random() < 0.3:
        sc = {"target": "cli", "cmd": r.choice(["tree", "validate", "validate"]), "render": sc["render"]}
    return sc, "ScOpaque"


def schema_corpus():
    """Exhaustive small scope over the shapes the list / map validation of the config schema branches on."""
    out = []
    item_forms = [("absent", None), ("schema-string", {"type": "string"}),
                  ("schema-object", {"type": "object", "properties": {"k": {"type": "string"}}, "required": ["k"]}),
                  ("schema-object-atomic", {"type": "object", "x-kubernetes-map-type": "atomic", "properties": {"k": {"type": "string"}}}),
                  ("schema-array", {"type": "array", "items": {"type": "string"}}),
                  ("schema-array-set", {"type": "array", "x-kubernetes-list-type": "set", "items": {"type": "string"}}),
                  ("array-form-string", [{"type": "string"}]), ("array-form-object", [{"type": "object", "properties": {"k": {"type": "string"}}}]),
                  ("array-form-two", [{"type": "string"}, {"type": "integer"}]), ("array-form-empty", []), ("null", "null")]
    for _, items in item_forms:
        for lt in (None, "atomic", "set", "map", "wrong"):
            for mk in (None, ["k"], ["missing"], []):
                prop = {"type": "array"}
                if items == "null":
                    prop["items"] = None
                elif items is not None:
                    prop["items"] = items
                if lt is not None:
                    prop["x-kubernetes-list-type"] = lt
                if mk is not None:
                    prop["x-kubernetes-list-map-keys"] = mk
                schema = {"type": "object", "properties": {"a": prop}}
                files = {"manifest.yaml": schema_manifest(schema), "a.yaml": obj_yaml("a", {A_PHASE: "deploy"})}
                out.append(({"target": "pipeline", "render": render_sc(files, {"a": [{"k": "x"}]} if isinstance(items, dict) and items.get("type") == "object" else {"a": ["x"]})},
                            "ScOpaque"))
    for ap in (None, True, False, {"type": "string"}, {"type": "object", "properties": {}}):
        for props in (None, {}, {"k": {"type": "string"}}):
            for mt in (None, "atomic", "granular", "wrong"):
                for puf in (None, True, False):
                    for emb in (None, True):
                        for nullable in (None, True):
                            prop = {"type": "object"}
                            for key, v in (("additionalProperties", ap), ("properties", props), ("x-kubernetes-map-type", mt),
                                           ("x-kubernetes-preserve-unknown-fields", puf), ("x-kubernetes-embedded-resource", emb), ("nullable", nullable)):
                                if v is not None:
                                    prop[key] = v
                            schema = {"type": "object", "properties": {"a": prop}, "required": ["a", "missing"] if nullable else ["a"]}
                            files = {"manifest.yaml": schema_manifest(schema), "a.yaml": obj_yaml("a", {A_PHASE: "deploy"})}
                            out.append(({"target": "pipeline", "render": render_sc(files, {"a": {"k": "x"}})}, "ScOpaque"))
    for comb in ("oneOf", "anyOf", "allOf", "not"):
        for sub in ({"type": "string"}, {"required": ["a"]}, {"properties": {"a": {"minimum": 1}}}, {comb: [{"type": "string"}]} if comb != "not" else {"not": {}}):
            for ios in (False, True):
                prop = {"type": "object", "properties": {"a": {"type": "integer"}}}
                if ios:
                    prop = {"x-kubernetes-int-or-string": True, "anyOf": [{"type": "integer"}, {"type": "string"}]}
                prop[comb] = sub if comb == "not" else [sub]
                for default in (None, "x", {"a": "wrong"}):
                    p2 = dict(prop)
                    if default is not None:
                        p2["default"] = default
                    files = {"manifest.yaml": schema_manifest({"type": "object", "properties": {"p": p2}}), "a.yaml": obj_yaml("a", {A_PHASE: "deploy"})}
                    out.append(({"target": "pipeline", "render": render_sc(files, {"p": {"a": 1}})}, "ScOpaque"))
    return out


XV_RULES = [
    [{"rule": "self.size() >= 0"}], [{"rule": "self == self", "message": "m"}], [{"rule": "self.size() > 0", "message": "must not be empty"}],
    [{"rule": "has(self.a)"}], [{"rule": "self.all(x, x == x)"}], [{"rule": "true"}, {"rule": "self == self"}],
    [{"rule": "self =="}], [{"rule": "self.nope.nope == 1"}], [{"rule": "1"}], [{"rule": ""}],
    [{"rule": "self == oldSelf"}], [{"rule": "self.size() >= 0", "messageExpression": "'m' + string(self.size())"}],
    [{"rule": "self.size() >= 0", "messageExpression": "1 +"}], [{"rule": "self == self", "reason": "FieldValueInvalid", "fieldPath": ".a"}],
]


def xvalidations_corpus():
    """x-kubernetes-validations rules at every position the cost estimation distinguishes: root, a property, the items of
    a list with / without maxItems, the values of a map with / without maxProperties, nested lists; element types string
    (with / without maxLength), object, array."""
    out = []
    elems = [{"type": "string", "maxLength": 64}, {"type": "string"}, {"type": "integer"},
             {"type": "object", "properties": {"a": {"type": "string", "maxLength": 8}}},
             {"type": "array", "maxItems": 3, "items": {"type": "string", "maxLength": 8}}, {"type": "array", "items": {"type": "string"}}]
    for rules in XV_RULES:
        for elem in elems:
            e = dict(elem, **{"x-kubernetes-validations": rules})
            schemas = [
                {"type": "object", "x-kubernetes-validations": rules, "properties": {"a": elem}},
                {"type": "object", "properties": {"a": e}},
                {"type": "object", "properties": {"a": {"type": "array", "items": e}}},
                {"type": "object", "properties": {"a": {"type": "array", "maxItems": 5, "items": e}}},
                {"type": "object", "properties": {"a": {"type": "object", "additionalProperties": e}}},
                {"type": "object", "properties": {"a": {"type": "object", "maxProperties": 5, "additionalProperties": e}}},
                {"type": "object", "properties": {"a": {"type": "array", "items": {"type": "array", "maxItems": 2, "items": e}}}},
                {"type": "object", "properties": {"a": {"type": "array", "maxItems": 2, "items": {"type": "object", "additionalProperties": e}}}},
                {"type": "object", "additionalProperties": e},
                {"type": "array", "items": e},
            ]
            for schema in schemas:
                files = {"manifest.yaml": schema_manifest(schema), "a.yaml": obj_yaml("a", {A_PHASE: "deploy"})}
                out.append(({"target": "pipeline", "render": render_sc(files, {})}, "ScOpaque"))
    # the same through kubectl package validate / tree for a sample (validate sees the manifest before admission)
    for k, (sc, _) in enumerate(list(out)):
        if k % 7 == 0:
            out.append(({"target": "cli", "cmd": "validate" if k % 2 == 0 else "tree", "render": sc["render"]}, "ScOpaque"))
    return out


def gen_pipeline_damaged(r):
    """Mostly valid package with one damaged aspect; opaque to the model."""
    phases = ["deploy", "post"]
    files = {"manifest.yaml": manifest_yaml(phases),
             "a.yaml": obj_yaml("a", {A_PHASE: "deploy"}),
             "b.yaml": obj_yaml("b", {A_PHASE: "post", A_CONDMAP: "Available => x/Available"}, kind="Deployment",
                                api="apps/v1", body="spec: {replicas: 1}\n")}
    config, env, component = None, None, ""
    if r.random() < 0.25:
        return gen_schema_package(r)
    kind = r.choice(["anno", "anno", "anno-shape", "metadata", "yaml-bytes", "yaml-bytes", "manifest-field", "manifest-field",
                     "manifest-bytes", "schema", "filter", "template", "template", "lock", "components", "test-template",
                     "deep", "config", "paths", "multi-manifest", "env"])
    if kind == "anno":
        key = r.choice([A_PHASE, A_CONDMAP, A_COLLISION, A_CEL, A_OWNERS, "package-operator.run/revision",
                        "package-operator.run/unknown"])
        val = r.choice(BAD_STRINGS + ["true", "false", "cond.x", "config.a == 1", "1 +", "has(", "environment.x.y"])
        annos = {A_PHASE: "deploy"}
        annos[key] = val
        files["a.yaml"] = obj_yaml("a", annos)
    elif kind == "anno-shape":
        shape = r.choice(["null", "[]", "\"str\"", "{k: 1}", "{k: null}", "{k: {a: b}}", "{1: 2}", "{k: [a]}", "5",
                          "{%s: 1}" % q(A_PHASE), "{%s: null}" % q(A_PHASE), "{%s: [deploy]}" % q(A_CONDMAP),
                          "{%s: deploy, %s: {a: b}}" % (q(A_PHASE), q(A_CONDMAP)),
                          "{%s: deploy, %s: 5}" % (q(A_PHASE), q(A_CEL))])
        which = r.choice(["annotations", "labels"])
        other = "  annotations: {%s: deploy}\n" % q(A_PHASE) if which == "labels" else ""
        files["a.yaml"] = "apiVersion: v1\nkind: ConfigMap\nmetadata:\n  name: a\n%s  %s: %s\ndata: {k: v}\n" % (other, which, shape)
    elif kind == "metadata":
        files["a.yaml"] = r.choice([
            "apiVersion: v1\nkind: ConfigMap\nmetadata: null\n", "apiVersion: v1\nkind: ConfigMap\nmetadata: str\n",
            "apiVersion: v1\nkind: ConfigMap\nmetadata: [a]\n", "apiVersion: v1\nkind: ConfigMap\n",
            "apiVersion: v1\nkind: ConfigMap\nmetadata: {name: 5, annotations: {%s: deploy}}\n" % q(A_PHASE),
            "apiVersion: v1\nkind: ConfigMap\nmetadata: {name: a, namespace: [x], annotations: {%s: deploy}}\n" % q(A_PHASE),
            "apiVersion: 5\nkind: ConfigMap\nmetadata: {name: a, annotations: {%s: deploy}}\n" % q(A_PHASE),
            "apiVersion: a/b/c\nkind: ConfigMap\nmetadata: {name: a, annotations: {%s: deploy}}\n" % q(A_PHASE),
            "apiVersion: v1\nkind: [ConfigMap]\nmetadata: {name: a}\n", "kind: ConfigMap\n", "apiVersion: v1\n",
            "[1, 2]\n", "just a string\n", "5\n", "null\n", "~\n", "---\n---\n---\n", "a: &x [*x]\n", "a: *undefined\n",
            "apiVersion: v1\nkind: List\nitems: [{apiVersion: v1, kind: ConfigMap}]\nmetadata: {annotations: {%s: deploy}}\n" % q(A_PHASE),
            "apiVersion: v1\nkind: ConfigMap\nmetadata: {name: a, generateName: x-, annotations: {%s: deploy}, ownerReferences: [1]}\n" % q(A_PHASE),
            "apiVersion: v1\nkind: ConfigMap\nmetadata: {name: a, labels: {\"bad key!\": \"bad value!\"}, annotations: {%s: deploy}}\n" % q(A_PHASE),
        ])
    elif kind == "yaml-bytes":
        p = r.choice(["a.yaml", "b.yaml"])
        files[p] = mutate_text(r, files[p])
    elif kind == "manifest-field":
        files["manifest.yaml"] = r.choice([
            "apiVersion: manifests.package-operator.run/v1alpha1\nkind: PackageManifest\n",
            "apiVersion: manifests.package-operator.run/v1alpha1\nkind: PackageManifest\nmetadata: {name: t}\nspec: null\n",
            "apiVersion: manifests.package-operator.run/v1alpha1\nkind: PackageManifest\nmetadata: {name: t}\nspec: {scopes: [Namespaced], phases: null}\n",
            "apiVersion: manifests.package-operator.run/v1alpha1\nkind: PackageManifest\nmetadata: {name: t}\nspec: {scopes: [Namespaced], phases: [{}]}\n",
            "apiVersion: manifests.package-operator.run/v1alpha1\nkind: PackageManifest\nmetadata: {name: t}\nspec: {scopes: [], phases: [{name: deploy}, {name: post}]}\n",
            "apiVersion: manifests.package-operator.run/v1alpha1\nkind: PackageManifest\nmetadata: {name: t}\nspec: {scopes: [Nope], phases: [{name: deploy}, {name: deploy}, {name: post}]}\n",
            "apiVersion: manifests.package-operator.run/v1alpha1\nkind: PackageManifest\nmetadata: {name: t}\nspec: {scopes: [Namespaced], phases: [{name: deploy, class: x}, {name: post}], availabilityProbes: [{}]}\n",
            "apiVersion: manifests.package-operator.run/v1alpha1\nkind: PackageManifest\nmetadata: {name: t}\nspec: {scopes: [Namespaced], phases: [{name: deploy}, {name: post}], availabilityProbes: [{probes: [{}], selector: {}}]}\n",
            "apiVersion: manifests.package-operator.run/v1alpha1\nkind: PackageManifest\nmetadata: {name: t}\nspec: {scopes: [Namespaced], phases: [{name: deploy}, {name: post}], availabilityProbes: [{probes: [{cel: {rule: \"self.x ==\", message: m}}], selector: {kind: {group: \"\", kind: ConfigMap}}}]}\n",
            "apiVersion: manifests.package-operator.run/v1alpha1\nkind: PackageManifest\nmetadata: {name: t}\nspec: {scopes: [Namespaced], phases: [{name: deploy}, {name: post}], availabilityProbes: [{probes: [{fieldsEqual: {fieldA: \"\", fieldB: \"..\"}}], selector: {selector: {matchExpressions: [{key: a, operator: Bad}]}}}]}\n",
            "apiVersion: manifests.package-operator.run/v1alpha1\nkind: PackageManifest\nmetadata: {name: t}\nspec: {scopes: [Namespaced], phases: [{name: deploy}, {name: post}], images: [{name: \"\", image: \"\"}, {name: a, image: x}, {name: a, image: y}]}\n",
            "apiVersion: manifests.package-operator.run/v1alpha1\nkind: PackageManifest\nmetadata: {name: t}\nspec: {scopes: [Namespaced], phases: [{name: deploy}, {name: post}], constraints: [{}, {platformVersion: {name: Kubernetes, range: \">>1\"}}, {platform: [Nope]}, {uniqueInScope: {}}]}\n",
            "apiVersion: manifests.package-operator.run/v1alpha1\nkind: PackageManifest\nmetadata: {name: t}\nspec: {scopes: [Namespaced], phases: [{name: deploy}, {name: post}], dependencies: [{}, {image: {name: \"\", package: \"\", range: \"x\"}}]}\n",
            "apiVersion: manifests.package-operator.run/v1alpha1\nkind: PackageManifest\nmetadata: {name: t}\nspec: {scopes: [Namespaced], phases: [{name: deploy}, {name: post}], repositories: [{}, {file: x}, {image: y, file: z}]}\n",
            "apiVersion: manifests.package-operator.run/v2\nkind: PackageManifest\nmetadata: {name: t}\nspec: {scopes: [Namespaced], phases: [{name: deploy}, {name: post}]}\n",
            "apiVersion: v1\nkind: PackageManifest\nmetadata: {name: t}\n", "apiVersion: manifests.package-operator.run/v1alpha1\nkind: Other\n",
            "apiVersion: manifests.package-operator.run/v1alpha1\nkind: PackageManifest\nmetadata: 5\nspec: 7\n",
            "apiVersion: manifests.package-operator.run/v1alpha1\nkind: PackageManifest\nmetadata: {name: t}\nspec: {scopes: Namespaced, phases: {name: deploy}}\n",
            "apiVersion: manifests.package-operator.run/v1alpha1\nkind: PackageManifest\nmetadata: {name: t}\nspec: {scopes: [Namespaced], phases: [{name: deploy}, {name: post}]}\ntest: {template: [{name: \"bad name!\", context: {package: {metadata: {name: 5}}}}], kubeconform: {kubernetesVersion: \"\"}}\n",
            "", "\n", "null\n", "[]\n", "---\n", "\x00\x01\x02",
        ])
    elif kind == "manifest-bytes":
        files["manifest.yaml"] = mutate_text(r, files["manifest.yaml"])
    elif kind == "schema":
        schema = r.choice(SCHEMA_POOL + [schema_deep(r.choice([5, 40, 120]))])
        files["manifest.yaml"] = manifest_yaml(phases, "  config:\n    openAPIV3Schema:\n" + schema,
                                               tail=r.choice(["", "test:\n  template:\n  - name: t1\n    context:\n      package: {metadata: {name: n, namespace: ns}}\n      config: {a: 5}\n",
                                                              "test:\n  template:\n  - name: t1\n    context:\n      package: {metadata: {name: n}}\n      config: [1]\n"]))
        config = r.choice([None, {}, {"a": "x"}, {"a": 5}, {"a": {"b": [1]}}, {"b": None}, [1], "str", {"a": None}])
    elif kind == "filter":
        files["manifest.yaml"] = manifest_yaml(phases, "  filter:\n    conditions:\n" + r.choice([
            "    - {name: ok, expression: \"true\"}\n", "    - {name: \"1bad\", expression: \"true\"}\n",
            "    - {name: ok, expression: \"1 +\"}\n", "    - {name: ok, expression: \"1\"}\n",
            "    - {name: ok, expression: \"config.a.b.c\"}\n", "    - {name: ok, expression: \"cond.ok\"}\n",
            "    - {name: a, expression: \"true\"}\n    - {name: a, expression: \"false\"}\n",
            "    - {name: ok, expression: \"[1][5] == 1\"}\n", "    - {name: ok, expression: \"1/0 == 1\"}\n",
            "    - {name: ok, expression: \"environment.kubernetes.version.matches('(')\"}\n", "    - {}\n", "    - null\n",
        ]) + r.choice(["", "    paths:\n    - {glob: \"**\", expression: \"cond.ok\"}\n", "    paths:\n    - {glob: \"[\", expression: \"true\"}\n",
                       "    paths:\n    - {glob: \"a.yaml\", expression: \"1\"}\n", "    paths:\n    - {}\n"]))
        files["a.yaml"] = obj_yaml("a", {A_PHASE: "deploy", A_CEL: r.choice(["cond.ok", "cond.nope", "!cond.ok", "cond", "cond.ok.x"])})
    elif kind == "template":
        tmpl = r.choice([
            "{{ if }}", "{{ .config.a.b.c }}", "{{ index .config \"a\" \"b\" }}", "{{ index (list 1 2) 5 }}", "{{ slice \"abc\" 5 1 }}",
            "{{ getFile 5 }}", "{{ getFile \"nope\" }}", "{{ getFileGlob \"[\" }}", "{{ b64decMap \"x\" }}", "{{ b64decMap (dict \"a\" \"!!\") }}",
            "{{ fromYAML \"{\" }}", "{{ fromYAML 5 }}", "{{ toYAML . }}", "{{ include \"nope\" . }}",
            "{{ define \"a\" }}{{ include \"a\" . }}{{ end }}{{ include \"a\" . }}",
            "{{ define \"a\" }}{{ include \"b\" . }}{{ end }}{{ define \"b\" }}{{ include \"a\" . }}{{ end }}{{ include \"a\" . }}",
            "{{ define \"a\" }}{{ template \"a\" . }}{{ end }}{{ template \"a\" . }}",
            "{{ cel \"1 +\" }}", "{{ cel \"1\" }}", "{{ cel 5 }}", "{{ cel \"cond.x\" }}", "{{ fail \"no\" }}", "{{ required \"x\" .config.a }}",
            "{{ .package.metadata.annotations.x.y }}", "{{ range $i := until 3 }}{{ $i }}{{ end }}", "{{ repeat 100000 \"ab\" | len }}",
            "{{ regexMatch \"(\" \"a\" }}", "{{ mustRegexMatch \"(\" \"a\" }}", "{{ substr 5 1 \"abc\" }}", "{{ trunc -5 \"abc\" }}", "{{ \"abc\" | indent -1 }}",
            "{{ div 1 0 }}", "{{ mod 1 0 }}", "{{ atoi \"x\" }}", "{{ seq 0 }}", "{{ untilStep 0 10 0 }}", "{{ first (list) }}", "{{ last nil }}",
            "{{ rest (list) }}", "{{ initial (list) }}", "{{ (list 1 2) | reverse | first }}", "{{ slice (list 1 2 3) 2 1 }}", "{{ chunk 0 (list 1 2) }}",
            "{{ dig \"a\" \"b\" . }}", "{{ get . 5 }}", "{{ set . \"a\" 1 }}", "{{ unset .config \"a\" }}", "{{ pluck \"a\" 5 }}", "{{ merge 5 6 }}",
            "{{ mustMerge .config (dict \"a\" (dict \"b\" 1)) }}", "{{ deepCopy . | toJson }}", "{{ toJson (dict \"a\" (list)) }}", "{{ fromJson \"{\" }}",
            "{{ mustFromJson \"{\" }}", "{{ semver \"x\" }}", "{{ semverCompare \"^x\" \"1.0.0\" }}", "{{ b64dec \"!!\" }}", "{{ b32dec \"!!\" }}",
            "{{ splitn \"/\" 0 \"a/b\" }}", "{{ (splitList \"/\" \"a/b\") | last }}", "{{ nospace 5 }}", "{{ int64 \"x\" }}", "{{ float64 \"x\" }}",
            "{{ toDecimal \"x\" }}", "{{ add1 \"x\" }}", "{{ max }}", "{{ ternary 1 2 \"x\" }}", "{{ empty }}", "{{ coalesce }}", "{{ kindOf . }}",
            "{{ typeIs \"x\" }}", "{{ printf \"%d\" \"x\" }}", "{{ printf \"%[5]d\" 1 }}", "{{ len 5 }}", "{{ call .config }}", "{{ html . }}", "{{ js . }}",
            "{{ and }}", "{{ or 1 }}", "{{ not }}", "{{ eq }}", "{{ eq 1 \"a\" }}", "{{ lt (list) (list) }}", "{{ index nil 1 }}", "{{ index .config nil }}",
            "{{ with .config }}{{ .a.b }}{{ end }}", "{{ range .config.a }}x{{ end }}", "{{ range 5 }}x{{ end }}", "{{ template \"x\" }}", "{{ block \"x\" . }}{{ end }}",
            "{{ $x := 1 }}{{ $x.y }}", "{{ .Values }}", "{{ . }}", "{{ \"\\xff\" }}", "{{/* c */}}", "{{- \"a\" -}}", "{{ `{{` }}", "{{ 1e999 }}", "{{ 0x }}", "{{ 'ab' }}",
            "{{ sha256sum . }}", "{{ adler32sum 5 }}", "{{ toString nil | upper }}", "{{ sortAlpha 5 }}", "{{ uniq 5 }}", "{{ without 5 1 }}", "{{ has 1 5 }}",
            "{{ compact 5 }}", "{{ concat 5 }}", "{{ append 5 1 }}", "{{ prepend nil 1 }}", "{{ keys 5 }}", "{{ values 5 }}", "{{ pick 5 \"a\" }}", "{{ omit 5 \"a\" }}",
            "{{ hasKey 5 \"a\" }}", "{{ dict 1 }}", "{{ dict 1 2 }}", "{{ list | first }}", "{{ tuple 1 | last }}", "{{ regexFind \"(\" \"a\" }}", "{{ regexReplaceAll \"(\" \"a\" \"b\" }}",
            "{{ regexSplit \"(\" \"a\" 1 }}", "{{ wrap 0 \"abc\" }}", "{{ wrapWith 0 \"x\" \"abc\" }}", "{{ abbrev 1 \"abcdef\" }}", "{{ abbrevboth 1 2 \"abcdef\" }}",
            "{{ initials 5 }}", "{{ plural \"a\" \"b\" \"x\" }}", "{{ swapcase nil }}", "{{ cat nil 1 }}", "{{ replace \"\" \"x\" \"abc\" }}", "{{ randInt 1 0 }}",
        ])
        where = r.choice(["body", "anno", "name", "whole", "helper"])
        if where == "body":
            files["a.yaml.gotmpl"] = obj_yaml("a", {A_PHASE: "deploy"}, body="data:\n  k: %s\n" % q("x") + "  t: " + tmpl + "\n")
            del files["a.yaml"]
        elif where == "anno":
            files["a.yaml.gotmpl"] = "apiVersion: v1\nkind: ConfigMap\nmetadata:\n  name: a\n  annotations:\n    %s: deploy\n    %s: %s\n" % (
                q(A_PHASE), q(r.choice([A_CONDMAP, A_CEL, A_COLLISION])), tmpl)
            del files["a.yaml"]
        elif where == "name":
            files["a.yaml.gotmpl"] = "apiVersion: v1\nkind: ConfigMap\nmetadata:\n  name: %s\n  annotations: {%s: deploy}\n" % (tmpl, q(A_PHASE))
            del files["a.yaml"]
        elif where == "whole":
            files["c.yaml.gotmpl"] = tmpl
        else:
            files["_helpers.gotmpl"] = tmpl
            files["c.yaml.gotmpl"] = "{{ include \"a\" . }}\n"
        config = r.choice([None, {"a": "x"}, {"a": {"b": {"c": 1}}}, {"a": [1, 2]}])
    elif kind == "lock":
        files["manifest.yaml"] = manifest_yaml(phases, "  images:\n  - {name: app, image: \"quay.io/x/app:v1\"}\n")
        files["manifest.lock.yaml"] = r.choice([
            "apiVersion: manifests.package-operator.run/v1alpha1\nkind: PackageManifestLock\nspec:\n  images:\n  - {name: app, image: \"quay.io/x/app:v1\", digest: \"sha256:%s\"}\n" % ("ab" * 32),
            "apiVersion: manifests.package-operator.run/v1alpha1\nkind: PackageManifestLock\nspec:\n  images:\n  - {name: app, image: \"quay.io/x/app:v1\", digest: \"nope\"}\n",
            "apiVersion: manifests.package-operator.run/v1alpha1\nkind: PackageManifestLock\nspec:\n  images:\n  - {name: app, image: \"::::\", digest: \"\"}\n",
            "apiVersion: manifests.package-operator.run/v1alpha1\nkind: PackageManifestLock\nspec:\n  images:\n  - {name: other, image: \"quay.io/x/app:v1\", digest: \"sha256:%s\"}\n" % ("ab" * 32),
            "apiVersion: manifests.package-operator.run/v1alpha1\nkind: PackageManifestLock\nspec: {images: null}\n",
            "apiVersion: manifests.package-operator.run/v1alpha1\nkind: PackageManifestLock\nspec: {images: [null, 5]}\n",
            "apiVersion: manifests.package-operator.run/v1alpha1\nkind: PackageManifestLock\nspec: {dependencies: [{name: x}]}\n",
            "apiVersion: manifests.package-operator.run/v1alpha1\nkind: PackageManifest\n", "apiVersion: x\nkind: PackageManifestLock\n", "", "[", "null",
        ])
    elif kind == "components":
        files["manifest.yaml"] = manifest_yaml(phases, "  components: %s\n" % r.choice(["{}", "null", "[]", "5"]))
        files.update(r.choice([
            {"components/c1/manifest.yaml": manifest_yaml(["deploy"], name="c1"), "components/c1/x.yaml": obj_yaml("x", {A_PHASE: "deploy", A_CONDMAP: r.choice(["A => B", "bad"])})},
            {"components/file.yaml": "a: b\n"}, {"components/c1/x.yaml": obj_yaml("x", {A_PHASE: "deploy"})},
            {"components/c1/manifest.yaml": manifest_yaml(["deploy"], "  components: {}\n", name="c1"), "components/c1/components/c2/manifest.yaml": manifest_yaml(["deploy"], name="c2")},
            {"components//manifest.yaml": manifest_yaml(["deploy"]), "components/../x.yaml": "a: b\n"},
            {"components/c1/manifest.yaml": "", "components/c1/manifest.yml": manifest_yaml(["deploy"])},
        ]))
        component = r.choice(["", "", "c1", "nope", "../c1", "c1/c2"])
    elif kind == "test-template":
        files["manifest.yaml"] = manifest_yaml(phases, tail="test:\n" + r.choice([
            "  template: null\n", "  template: [{}]\n", "  template:\n  - name: t\n    context: {package: null}\n",
            "  template:\n  - name: t\n    context: {package: {metadata: {name: x}}, config: \"str\"}\n",
            "  template:\n  - name: t\n    context: {package: {metadata: {name: x, annotations: {a: 1}}}}\n",
            "  template:\n  - {name: t, context: {package: {metadata: {name: x}}}}\n  - {name: t, context: {package: {metadata: {name: y}}}}\n",
            "  kubeconform: {}\n", "  kubeconform: {kubernetesVersion: \"v1.29.0\", schemaLocations: [\"file:///nope\"]}\n", "  5\n",
        ]))
    elif kind == "deep":
        d = r.choice([50, 500, 3000, 12000])
        shape = r.choice(["flow-seq", "flow-map", "block"])
        if shape == "block":
            d = min(d, 400)
        where = r.choice(["object", "config", "manifest", "anno-json"])
        if where == "object":
            files["a.yaml"] = obj_yaml("a", {A_PHASE: "deploy"}, body="data:\n  k: " + (deep(d, shape) if shape != "block" else "\n" + "".join("    " + l + "\n" for l in deep(d, shape).split("\n"))))
        elif where == "config":
            v = None
            for _ in range(min(d, 900)):
                v = {"a": v}
            config = v
            files["manifest.yaml"] = manifest_yaml(phases, "  config:\n    openAPIV3Schema:\n      type: object\n      x-kubernetes-preserve-unknown-fields: true\n")
        elif where == "manifest":
            files["manifest.yaml"] = manifest_yaml(phases, "  config:\n    openAPIV3Schema:\n      type: object\n      default: " + deep(min(d, 3000), "flow-map" if shape == "block" else shape) + "\n")
        else:
            files["a.yaml"] = obj_yaml("a", {A_PHASE: "deploy", A_CONDMAP: "[" * d})
    elif kind == "config":
        files["manifest.yaml"] = manifest_yaml(phases, "  config:\n    openAPIV3Schema:\n" + SCHEMA_POOL[0])
        config = r.choice([[], "x", 5, None, {"a": 5}, {"a": "x", "zz": {"y": 1}}, {"": ""}, {"a": "\x00"}])
    elif kind == "paths":
        files = {"manifest.yaml": files["manifest.yaml"]}
        for p in r.sample(["a.yaml", ".hidden.yaml", "a/../b.yaml", "/abs.yaml", "a//b.yaml", "_x.yaml", "x.yml", "x.YAML", "manifest.yml",
                           "a.yaml.gotmpl.gotmpl", ".gotmpl", "a/.gotmpl", "x.yaml/", "\x00.yaml", "ä/ö.yaml", "a" * 300 + ".yaml", "components/x.yaml",
                           "manifest.lock.yml", "README.md", "a.json", "Manifest.yaml"], 4):
            files[p] = obj_yaml("n" + str(len(files)), {A_PHASE: "deploy"})
    elif kind == "multi-manifest":
        files["manifest.yml"] = manifest_yaml(["other"], name="second")
    else:
        env = r.choice([{}, {"kubernetes": {}}, {"kubernetes": {"version": ""}}, {"kubernetes": {"version": "x"}, "openShift": {}},
                        {"kubernetes": {"version": "v1.29.0"}, "proxy": {}, "hyperShift": {"hostedCluster": None}}])
        files["a.yaml"] = obj_yaml("a", {A_PHASE: "deploy", A_CEL: r.choice(["has(environment.openShift)", "environment.kubernetes.version == \"x\"",
                                                                             "environment.proxy.httpProxy == \"\"", "environment.hyperShift.hostedCluster.metadata.name == \"\""])})
    rs = render_sc(files, config, component, env)
    if r.random() < 0.1:
        # Package fields the API schema does not constrain further
        rs["package"] = {"name": r.choice(["", "a" * 300, "Bad_Name!", "\u00e4", "p"]), "namespace": r.choice(["", "ns1", "x" * 80]),
                         "labels": r.choice([None, {"a": "b"}, {"bad key!": "bad value!"}]), "annotations": r.choice([None, {A_CONDMAP: "x"}]),
                         "image": r.choice(["", "quay.io/x/y:v1", "::::"])}
    sc = {"target": "pipeline", "render": rs, "deploy": r.random() < 0.25}
    if r.random() < 0.2 and "\x00" not in "".join(files):
        sc = {"target": "cli", "cmd": r.choice(["tree", "validate"]), "render": rs, "cluster": r.random() < 0.3}
    return sc, "ScOpaque"


# ---- OCI
def tar_entry(name, body, typeflag=tarfile.REGTYPE, linkname=""):
    ti = tarfile.TarInfo(name)
    ti.size = len(body) if typeflag == tarfile.REGTYPE else 0
    ti.type = typeflag
    ti.linkname = linkname
    buf = ti.tobuf(format=tarfile.USTAR_FORMAT)
    data = body if typeflag == tarfile.REGTYPE else b""
    pad = (512 - len(data) % 512) % 512
    return buf + data + b"\0" * pad


def path_class(name):
    """(tar entry name) -> (Coq path_class, counted as a file)"""
    if name.startswith("package/"):
        rel = name[len("package/"):]
        hidden = any(seg.startswith(".") for seg in rel.split("/"))
        return "(PUnder %s)" % cB(hidden), not hidden
    return "POutside", False


def gen_oci_truncation(entries, t):
    """entries: [(tar entry name, body)], regular files with distinct names, relative, no "..". Plain truncation
    at offset t. mutate.Extract re-encodes the layer: where the layer breaks off between entries (or inside a
    header, padding, the trailer) FromOCI sees a clean end of archive; inside a body it sees a short body."""
    stream, offs = b"", []
    for name, body in entries:
        offs.append((len(stream), len(body)))
        stream += tar_entry(name, body)
    stream += b"\0" * 1024
    evs = []
    for (name, body), (h, size) in zip(entries, offs):
        pc, _ = path_class(name)
        if t >= h + 512 + size:
            evs.append("THeader %s true" % pc)
            continue
        if t >= h + 512 and size > 0:
            evs.append("THeader %s false" % pc)
        break
    sc = {"target": "oci", "layers": [base64.b64encode(stream[:t]).decode()]}
    return sc, "(ScOCI %s)" % cL(evs), len(stream)


def gen_oci(r, exhaustive_t=None):
    names = r.sample(["package/manifest.yaml", "package/a.yaml", "package/sub/b.yaml", "package/c.yml", "package/README.md", "package/d/e/f.yaml",
                      "package/.hidden.yaml", "package/.git/config", "package/sub/.x/y.yaml", "other/x.yaml", "Dockerfile", "etc/passwd"], r.randint(1, 4))
    entries = [(n, (manifest_yaml() if n.endswith("manifest.yaml") else obj_yaml("x", {A_PHASE: "deploy"})).encode()[:r.choice([0, 1, 100, 511, 512, 513, 700])])
               for n in names]
    if exhaustive_t is not None:
        return gen_oci_truncation(entries, exhaustive_t)[:2]
    kind = r.choice(["trunc", "trunc", "trunc-boundary", "garble", "names", "types", "gzip", "multi", "sizes", "empty"])
    total = sum(512 + len(b) + (512 - len(b) % 512) % 512 for _, b in entries) + 1024
    if kind == "trunc":
        return gen_oci_truncation(entries, r.randint(0, total))[:2]
    if kind == "trunc-boundary":
        t = max(0, min(total, r.choice(range(0, total + 1, 512)) + r.choice([-1, 0, 1, 2, 100, 256, 511])))
        return gen_oci_truncation(entries, t)[:2]
    stream = b"".join(tar_entry(n, b) for n, b in entries) + b"\0" * 1024
    compressed = False
    if kind == "garble":
        b = bytearray(stream)
        for _ in range(r.randint(1, 4)):
            i = r.randrange(len(b))
            b[i] = r.choice([0, 0xff, b[i] ^ (1 << r.randint(0, 7)), 0x20, 0x38])
        stream = bytes(b)
    elif kind == "names":
        nm = r.choice(["/etc/passwd", "../x.yaml", "package/../../x.yaml", "package", "package/", "other/x.yaml", "", ".", "package/.hidden/x.yaml",
                       "package/a\x00b.yaml", "package/" + "d/" * 60 + "x.yaml", "./package/x.yaml", "/package/x.yaml", "package//x.yaml",
                       "PACKAGE/x.yaml", "package/ä.yaml"])
        try:
            stream = tar_entry(nm, b"a: b\n") + stream
        except (ValueError, UnicodeError):
            stream = tar_entry("package/x", b"a: b\n") + stream
    elif kind == "types":
        tf = r.choice([tarfile.DIRTYPE, tarfile.SYMTYPE, tarfile.LNKTYPE, tarfile.FIFOTYPE, tarfile.CHRTYPE, b"x", b"g", b"L", b"K", b"S", b"\0"])
        stream = tar_entry("package/link.yaml", b"", tf, "package/a.yaml") + stream
    elif kind == "gzip":
        gz = gzip.compress(stream, mtime=0)
        how = r.choice(["ok", "trunc", "garble", "trunc"])
        if how == "trunc":
            gz = gz[:r.randint(0, len(gz))]
        elif how == "garble":
            b = bytearray(gz)
            i = r.randrange(len(b))
            b[i] ^= 1 << r.randint(0, 7)
            gz = bytes(b)
        stream, compressed = gz, True
    elif kind == "multi":
        l2 = tar_entry("package/.wh.a.yaml", b"") + tar_entry("package/z.yaml", b"z: 1\n") + b"\0" * 1024
        cut = r.choice([len(l2), r.randint(0, len(l2))])
        return {"target": "oci", "layers": [base64.b64encode(stream).decode(), base64.b64encode(l2[:cut]).decode()]}, "ScOpaque"
    elif kind == "sizes":
        hdr = bytearray(tar_entry("package/big.yaml", b"abc"))
        size_field = r.choice([b"77777777777\0", b"00000001000\0", b"-0000000001\0", b"\x80\0\0\0\x7f\xff\xff\xff\xff\xff\xff\xff", b"zzzzzzzzzzz\0"])
        hdr[124:136] = size_field
        hdr[148:156] = b"        "
        chk = sum(hdr[:512])
        hdr[148:156] = ("%06o\0 " % chk).encode()
        stream = bytes(hdr) + stream
    else:
        stream = r.choice([b"", b"\0" * 512, b"\0" * 1024, b"\0" * 10240, b"x", b"\0" * 511])
    return {"target": "oci", "layers": [base64.b64encode(stream).decode()], "compressed": compressed}, "ScOpaque"


# ---- status shapes
def cond(ty="Available", status="True", og=1, **kw):
    c = {"type": ty, "status": status, "reason": "R", "message": "m", "observedGeneration": og,
         "lastTransitionTime": "2024-01-01T00:00:00Z"}
    c.update(kw)
    return c


def damage_json(r, v, depth=0):
    """Replace one position of a JSON value by junk, or drop / rename a key."""
    if isinstance(v, dict) and v and r.random() < 0.8:
        k = r.choice(list(v))
        how = r.random()
        out = dict(v)
        if how < 0.2:
            del out[k]
        elif how < 0.3:
            out[r.choice([k.upper(), k.capitalize(), k + " ", k.lower()])] = out.pop(k)
        elif how < 0.6 or not isinstance(v[k], (dict, list)):
            out[k] = r.choice(JUNK)
        else:
            out[k] = damage_json(r, v[k], depth + 1)
        return out
    if isinstance(v, list) and v and r.random() < 0.8:
        i = r.randrange(len(v))
        out = list(v)
        how = r.random()
        if how < 0.3 or not isinstance(v[i], (dict, list)):
            out[i] = r.choice(JUNK)
        else:
            out[i] = damage_json(r, v[i], depth + 1)
        return out
    return r.choice(JUNK)


def base_object(r, gen=1):
    n = r.randint(0, 3)
    conds = [cond(r.choice(["Available", "Progressing", "Ready", ""]), r.choice(["True", "False", "Unknown", ""]),
                  r.choice([gen, gen, 0, gen + 1])) for _ in range(n)]
    for c in conds:
        if r.random() < 0.3:
            del c[r.choice(list(c))]
    obj = {"apiVersion": "v1", "kind": "ConfigMap",
           "metadata": {"name": "x", "namespace": "ns1", "generation": gen},
           "status": {"conditions": conds}}
    if r.random() < 0.4:
        obj["status"]["observedGeneration"] = r.choice([gen, gen, gen + 1, 0])
    return obj


def gen_status_object(r):
    gen = r.choice([0, 1, 1, 2, 7])
    obj = base_object(r, gen)
    k = r.random()
    if k < 0.55:
        obj = dict(obj, status=damage_json(r, obj["status"]))
    elif k < 0.7:
        obj = damage_json(r, obj)
        if not isinstance(obj, dict):
            obj = {"status": obj}
    elif k < 0.8:
        obj["status"]["conditions"].append(r.choice([
            cond(lastTransitionTime=r.choice(["nope", "", "2024-13-01T00:00:00Z"[:0] + "x", 5, None, "2024-01-01T00:00:00Z"])),
            cond(observedGeneration=r.choice(["1", 1.5, None, -1, 10 ** 20, True])), cond(**{"Type": "Other"}), cond(**{"TYPE": 5}),
            cond(extra={"a": [1]}), None, cond(status=None), cond(reason=5), cond(message=["m"])]))
    return obj, gen


def gen_mapconditions(r):
    obj, gen = gen_status_object(r)
    pool = ["Available", "Progressing", "Ready", "", "Other"]
    mappings = [{"sourceType": r.choice(pool), "destinationType": r.choice(["my/A", "my/B", "my/C"])} for _ in range(r.choice([0, 1, 1, 2, 3]))]
    sc = {"target": "mapconditions", "mappings": mappings, "object": obj, "generation": r.choice([1, gen])}
    scen = "(ScMapConditions %s %s)" % (cL([cP(cstr(m["sourceType"]), cstr(m["destinationType"])) for m in mappings]), cobj(obj))
    return sc, scen


def gen_template_conditions(r):
    obj, gen = gen_status_object(r)
    g = r.choice([gen, gen, 1, 0])
    sc = {"target": "template-conditions", "object": obj, "generation": g}
    return sc, "(ScTemplateConditions %s %s)" % (cZ(g), cobj(obj))


SOURCE = {"apiVersion": "v1", "kind": "ConfigMap", "metadata": {"name": "src", "namespace": "ns1", "labels": {CACHE_LABEL: "True"}},
          "data": {"k": "v"}, "items": [{"a": 1}, {"a": 2}], "nested": {"x": {"y": [1, 2, 3]}}}
KEYS = ["", ".", "..", "{", "}", "{}", "{.}", "{.a", ".a}", ".data.k", "{.data.k}", "data.k", "{data.k}", ".data", ".items[0]", ".items[*].a", ".items[5]",
        ".items[-1]", ".items[0:5]", ".items[?(@.a==1)]", ".items[?(@.a==", "..a", "..*", ".nested.x.y[1]", ".nope", ".data.k.z", "a b", "$.data.k", ".data['k']",
        "{.data.k}{.data.k}", "{range .items[*]}{.a}{end}", ".metadata.labels.package-operator\\.run/cache", "{.items[0].a} x", "ä", ".\x00", "{" * 50, ".a" * 2000,
        "[", "]", "[0]", "*", "@", "?()", ".items[?(@.a>'x')]", ".items[::0]", ".items[99999999999999999999]"]
DESTS = ["", ".", ".x", "x", "..", ".a.b", ".a..b", "ä", ".ä", " ", ". x", ".x.", "...", ".data.k", "\x00", "." * 300, ".a" * 300]


SOURCE2 = {"apiVersion": "v1", "kind": "ConfigMap", "metadata": {"name": "src", "namespace": "ns1", "labels": {CACHE_LABEL: "True"}},
           "data": {"k": "v"},
           "spec": {"empty": [], "one": [{"host": "h1", "port": 1}], "two": [{"host": "h1", "port": 1}, {"host": "h2", "port": 2}],
                    "scalars": [1, 2, 3], "emap": {}, "map": {"x": {"host": "hx"}, "y": {"host": "hy"}}, "null": None, "str": "s",
                    "nested": [[], [1], [1, 2]], "deep": {"a": {"b": {"endpoints": []}}}}}
# jsonpath expressions by what they select on SOURCE2: nothing, one value, several values, or an error
RESULT_KEYS = [
    ".spec.empty[*]", ".spec.empty[*].host", "{.spec.empty[*]}", "spec.empty[*]", ".spec.one[*]", ".spec.one[*].host", ".spec.two[*]", ".spec.two[*].host",
    ".spec.absent[*]", ".spec.absent", "..host", "..nomatch", "..port", "..endpoints", "..endpoints[*]", "..empty", "..empty[*]",
    ".spec.two[?(@.port==1)]", ".spec.two[?(@.port==99)]", ".spec.two[?(@.port>0)]", ".spec.two[?(@.host==\"h2\")].port", ".spec.empty[?(@.port==1)]",
    ".spec.one[?(@.nope)]", ".spec.two[0:0]", ".spec.two[5:]", ".spec.two[0:2]", ".spec.two[-1:]", ".spec.two[1]", ".spec.two[2]", ".spec.scalars[*]",
    ".spec.scalars[0:0]", ".spec.scalars[?(@>5)]", ".spec.emap.*", ".spec.map.*", ".spec.map.*.host", ".spec.emap", ".spec.null", ".spec.null[*]",
    ".spec.str[*]", ".spec.nested[*]", ".spec.nested[0][*]", ".spec.nested[*][*]", ".spec.nested[0]", ".spec.deep..endpoints[*]", ".spec.*", ".*",
    "..*", ".spec.two[*]['host','port']", ".spec['empty','one']", ".spec.empty", ".spec.one", ".spec.two", ".metadata.labels.*", ".data.*",
]


def source_results_corpus():
    """Source item keys that select nothing, one value and several values, directly and through the real controller."""
    out = []
    for key in RESULT_KEYS:
        for dest in (".x", ".a.b"):
            out.append(({"target": "template-source", "items": [{"key": key, "destination": dest}], "object": SOURCE2}, "ScOpaque"))
        ot = {"apiVersion": "package-operator.run/v1alpha1", "kind": "ObjectTemplate", "metadata": {"name": "t", "namespace": "ns1", "generation": 1},
              "spec": {"template": "apiVersion: v1\nkind: ConfigMap\nmetadata:\n  name: out\ndata: {k: \"{{ toJson .config }}\"}\n",
                       "sources": [{"apiVersion": "v1", "kind": "ConfigMap", "name": "src", "items": [{"key": key, "destination": ".x"}]}]}}
        out.append(({"target": "template-reconcile", "template": ot, "store": [SOURCE2]}, "ScOpaque"))
    return out


def gen_template_source(r):
    if r.random() < 0.3:
        obj = SOURCE2 if r.random() < 0.7 else damage_json(r, SOURCE2)
        if not isinstance(obj, dict):
            obj = {"spec": obj}
        items = [{"key": r.choice(RESULT_KEYS), "destination": r.choice([".x", ".a.b", ".x", "x", ""])} for _ in range(r.choice([1, 1, 2]))]
        return {"target": "template-source", "items": items, "object": obj}, "ScOpaque"
    if r.random() < 0.45:
        d = r.choice(DESTS)
        if modelable(d) and "\n" not in d:
            return ({"target": "template-source", "items": [{"key": ".data.k", "destination": d}], "object": SOURCE},
                    "(ScTemplateSource %s)" % cstr(d))
    items = [{"key": r.choice(KEYS), "destination": r.choice(DESTS)} for _ in range(r.choice([1, 1, 2, 3]))]
    obj = SOURCE if r.random() < 0.7 else damage_json(r, SOURCE)
    if not isinstance(obj, dict):
        obj = {"data": obj}
    return {"target": "template-source", "items": items, "object": obj}, "ScOpaque"


def gen_template_reconcile(r):
    tmpl = r.choice([
        "apiVersion: v1\nkind: ConfigMap\nmetadata:\n  name: out\ndata: {k: \"{{ .config.x }}\"}\n",
        "apiVersion: v1\nkind: ConfigMap\nmetadata:\n  name: out\n  namespace: other\n", "apiVersion: v1\nkind: ConfigMap\nmetadata: {name: out, ownerReferences: [{}]}\n",
        "apiVersion: verif.example/v1\nkind: Widget\nmetadata: {name: out}\nspec: {v: \"{{ .environment.kubernetes.version }}\"}\n",
        "apiVersion: verif.example/v1\nkind: Unregistered\nmetadata: {name: out}\n", "apiVersion: v1\nkind: Namespace\nmetadata: {name: out}\n",
        "", "null", "[1]", "str", "{{", "{{ .config.a.b.c }}", "apiVersion: v1\nkind: ConfigMap\n", "kind: ConfigMap\nmetadata: {name: out}\n",
        "apiVersion: v1\nkind: ConfigMap\nmetadata: {name: 5}\n", "apiVersion: v1\nkind: ConfigMap\nmetadata: str\n", "apiVersion: a/b/c\nkind: X\nmetadata: {name: out}\n",
        "apiVersion: v1\nkind: ConfigMap\nmetadata:\n  name: out\n  labels: {a: {b: c}}\n", "{{ fail \"x\" }}", "{{ toYAML . }}",
    ])
    src = {"apiVersion": "v1", "kind": "ConfigMap", "name": "src",
           "items": [{"key": r.choice(KEYS[:12] + [".data.k"] * 6 + RESULT_KEYS), "destination": r.choice(DESTS[:8] + [".x"] * 4)}]}
    k = r.random()
    if k < 0.3:
        src = damage_json(r, src)
    elif k < 0.5:
        # empty strings where the CRD does not forbid them (all fields are plain `type: string`)
        src = dict(src)
        f = r.choice(["apiVersion", "kind", "name", "namespace", "items"])
        src[f] = [] if f == "items" else r.choice(["", "other", "a/b/c"])
    sources = r.choice([[src], [src], [], [src, src], None])
    ot = {"apiVersion": "package-operator.run/v1alpha1", "kind": "ObjectTemplate",
          "metadata": {"name": "t", "namespace": "ns1", "generation": 1, "uid": "ot-uid"},
          "spec": {"template": tmpl, "sources": sources}}
    if sources is None:
        del ot["spec"]["sources"]
    store = []
    if r.random() < 0.85:
        s = json.loads(json.dumps(SOURCE))
        s["spec"] = json.loads(json.dumps(SOURCE2["spec"]))
        if r.random() < 0.3:
            del s["metadata"]["labels"]
        store.append(s)
    if r.random() < 0.6:
        ex, _ = gen_status_object(r)
        if isinstance(ex, dict):
            ex = dict(ex)
            md = {"name": "out", "namespace": "ns1", "generation": r.choice([1, 2]), "labels": {CACHE_LABEL: "True"}}
            if isinstance(ex.get("metadata"), dict) or r.random() < 0.9:
                ex["metadata"] = md
            ex["apiVersion"], ex["kind"] = r.choice([("v1", "ConfigMap"), ("verif.example/v1", "Widget")])
            store.append(ex)
    return {"target": "template-reconcile", "template": ot, "store": store}, "ScOpaque"


# ---- owner annotation
def anno_term(a):
    if a is None or a == "":
        return "AAbsent"
    def refuse(_):
        raise ValueError("not JSON")
    try:
        v = json.loads(a, parse_constant=refuse)
    except ValueError:
        return "ANotJSON"
    return "(AJSON %s)" % cjson(v)


OWNER_OK = json.dumps([{"apiVersion": "package-operator.run/v1alpha1", "kind": "ObjectSetPhase", "name": "n7", "namespace": "ns1",
                        "uid": "u7", "controller": True}])
OWNER_VALUES = ["", "[]", "null", OWNER_OK, OWNER_OK[:-1], OWNER_OK[:20], "garbage", "{}", "[1]", "[{}]", "[null]", "[[]]", "\"s\"", "5", "true",
                "[{\"controller\":\"yes\"}]", "[{\"controller\":null}]", "[{\"uid\":5}]", "[{\"apiVersion\":\"a/b/c\",\"kind\":\"K\",\"name\":\"n\",\"uid\":\"u\",\"controller\":true}]",
                "[{\"APIVERSION\":\"v1\"}]", "[{\"kind\":[]}]", " [] ", "[]x", "\ufeff[]", "{", "[", "[{\"name\":\"a\"},]", "[{'name':'a'}]", "NaN", "[1e999]",
                "[{\"controller\":1}]", "[{\"controller\":false,\"extra\":{\"a\":[1]}}]"]


def gen_owner(r):
    a = r.choice(OWNER_VALUES + [mutate_text(r, OWNER_OK)])
    where, op, cluster = r.choice(["cluster", "cluster", "desired"]), r.choice(["reconcile", "reconcile", "teardown", "event"]), r.random() < 0.2
    if op == "event":
        where = "cluster"
    sc = {"target": "ownerannotation", "annotation": a, "where": where, "op": op, "cluster": cluster}
    if not all(0x20 <= ord(c) <= 0x7e for c in a) or cluster:
        return sc, "ScOpaque"
    td = op in ("teardown", "event")  # both read the cluster object's annotation only
    desired = anno_term(a) if where == "desired" else "AAbsent"
    actual = "(Some %s)" % (anno_term(a) if where == "cluster" else "AAbsent")
    return sc, "(ScOwnerAnno %s %s %s)" % (cB(td), desired, actual)


# ---- probes
CEL_RULES = ["self.status.ready == true", "self.status.x", "1", "self ==", "self.a.b.c == 1", "self.l[5] == 1", "1/0 == 1", "self.metadata.name.matches('(')",
             "has(self.status)", "self.status.conditions.exists(c, c.type == 'A')", "self.status.conditions.all(c, c.status == 'True')", "true", "false", "",
             "self.metadata.generation > 0", "self.x == self.y", "dyn(self.a) == 1", "self.status.conditions[0].type == 'A'", "size(self.status) > 0", "self in [1]",
             "type(self) == map", "string(self.status.n) == '1'", "int(self.status.s) == 1", "self.status.conditions.map(c, c.type).size() == 1",
             "url('::').getHost() == ''", "self.metadata.name.find('(') == ''", "[1,2,3].sum() == 6", "self.status.n + 1 == 2", "self.status.f * 2.0 == 3.0",
             "timestamp(self.status.t) < timestamp('2025-01-01T00:00:00Z')", "duration(self.status.d) > duration('1s')", "self.status.b && self.status.c",
             "self.status.?x.orValue(1) == 1", "optional.none().hasValue()", "x" * 5000, "(" * 300 + "true" + ")" * 300, "true" + " || true" * 400,
             "self.status.n == 9223372036854775807 + 1", "-(-9223372036854775807 - 1) == 0", "uint(-1) == 0u", "'a'.charAt(5) == ''", "'abc'.substring(2, 1) == ''"]
PATHS = ["", ".", "..", ".status", ".status.conditions", ".spec.a", "status", ".status.x.y", ".metadata.generation", ".a[0]", ".status.conditions[0]", " ", ".ä"]


SHAPES = {"int": 1, "int2": 1, "zero": 0, "float": 1.5, "str": "s", "str2": "s", "empty": "", "true": True, "false": False, "null": None,
          "list": [1, 2], "list2": [1, 2], "list3": [2, 1], "elist": [], "elist2": [], "map": {"a": 1}, "map2": {"a": 1}, "map3": {"a": 2}, "emap": {},
          "nested": [[1], [2]], "nested2": [[1], [2]], "lom": [{"a": 1}], "lom2": [{"a": 1}], "mol": {"a": [1]}, "mol2": {"a": [1]}, "deep": {"a": {"b": [{"c": [1]}]}},
          "lnull": [None], "mnull": {"a": None}, "mixed": [1, "a", None, [1], {"a": 1}]}


def shapes_object(r=None):
    return {"apiVersion": "v1", "kind": "ConfigMap", "metadata": {"name": "x", "namespace": "ns1", "generation": 1},
            "shapes": json.loads(json.dumps(SHAPES)), "status": {"observedGeneration": 1, "replicas": [1], "updatedReplicas": [1]}}


def probe_shape_corpus():
    """fieldsEqual with fieldA / fieldB resolving to every pair of JSON shapes."""
    out = []
    names = sorted(SHAPES)
    for a in names:
        for b in names:
            probes = [{"probes": [{"fieldsEqual": {"fieldA": ".shapes." + a, "fieldB": ".shapes." + b}}], "selector": {}}]
            out.append(({"target": "probe", "probes": probes, "object": shapes_object()}, "ScOpaque"))
    return out


def gen_probe(r):
    if r.random() < 0.25:
        # fieldsEqual on paths that resolve to arbitrary shapes, also below the top level
        paths = [".shapes." + n for n in SHAPES] + [".shapes.map.a", ".shapes.deep.a.b", ".shapes.mol.a", ".status.replicas", ".status.updatedReplicas",
                                                     ".shapes", ".metadata", ".shapes.nope", "shapes.list", ".shapes.list.", "..shapes.list"]
        obj = shapes_object()
        if r.random() < 0.3:
            obj["shapes"] = damage_json(r, obj["shapes"])
        probes = [{"probes": [{"fieldsEqual": {"fieldA": r.choice(paths), "fieldB": r.choice(paths)}} for _ in range(r.choice([1, 2]))],
                   "selector": r.choice([{}, {"kind": {"group": "", "kind": "ConfigMap"}}])}]
        return {"target": "probe", "probes": probes, "object": obj}, "ScOpaque"
    probes = []
    for _ in range(r.choice([1, 1, 2, 3])):
        k = r.random()
        if k < 0.3:
            p = {"condition": {"type": r.choice(["Available", "", "Ready"]), "status": r.choice(["True", "", "False"])}}
        elif k < 0.5:
            p = {"fieldsEqual": {"fieldA": r.choice(PATHS), "fieldB": r.choice(PATHS)}}
        elif k < 0.9:
            p = {"cel": {"rule": r.choice(CEL_RULES), "message": "m"}}
        else:
            p = r.choice([{}, {"condition": None}, {"cel": None, "fieldsEqual": None}, {"condition": {}, "cel": {}}])
        probes.append(p)
    sel = r.choice([{}, {"kind": {"group": "", "kind": "ConfigMap"}}, {"kind": {"group": "", "kind": "ConfigMap"}, "selector": {"matchLabels": {"a": "b"}}},
                    {"selector": {"matchExpressions": [{"key": "a", "operator": r.choice(["In", "Exists", "Bad", ""]), "values": r.choice([[], ["b"]])}]}},
                    {"selector": {"matchLabels": {"bad key!": "bad value!"}}}, {"kind": None, "selector": None}, {"kind": {}}])
    obj, _ = gen_status_object(r)
    if isinstance(obj, dict):
        if r.random() < 0.5:
            st = obj.get("status")
            if isinstance(st, dict):
                st.update({"ready": r.choice([True, "yes", None]), "n": r.choice([1, "1", 1.5]), "s": "1", "f": 1.5, "t": r.choice(["2024-01-01T00:00:00Z", "x"]),
                           "d": r.choice(["5s", "x"]), "b": True, "c": r.choice([False, 0])})
        obj.update({"l": [1], "a": r.choice([1, {"b": {"c": 1}}, None]), "x": 1, "y": r.choice([1, "1"])})
        if isinstance(obj.get("metadata"), dict) and r.random() < 0.5:
            obj["metadata"]["labels"] = r.choice([{"a": "b"}, {"a": 1}, "str", None])
    return {"target": "probe", "probes": [{"probes": probes, "selector": sel}] if r.random() < 0.9 else r.choice([[], [{}], [{"probes": None}]]), "object": obj}, "ScOpaque"


# ---- package controllers (both deployers through the real controllers)
CONSTRAINTS = [
    None, "  - platform: [Kubernetes]\n", "  - platform: [OpenShift]\n", "  - platform: [Nope]\n", "  - platform: []\n",
    "  - platformVersion: {name: Kubernetes, range: \">=1.20.x\"}\n", "  - platformVersion: {name: Kubernetes, range: \">>1\"}\n",
    "  - platformVersion: {name: Kubernetes, range: \"\"}\n", "  - platformVersion: {name: OpenShift, range: \">=4.1.x\"}\n",
    "  - platformVersion: {name: OpenShift, range: \"garbage\"}\n", "  - platformVersion: {name: Nope, range: \"x\"}\n",
    "  - platformVersion: {name: \"\", range: \">=1\"}\n", "  - uniqueInScope: {}\n",
    "  - uniqueInScope: {}\n  - platform: [Kubernetes]\n", "  - uniqueInScope: {}\n    platform: [OpenShift]\n    platformVersion: {name: Kubernetes, range: \"<1.0.0\"}\n",
    "  - uniqueInScope: {}\n  - uniqueInScope: {}\n", "  - {}\n",
]
ENVS = [{"kubernetes": {"version": "v1.29.0"}}, {"kubernetes": {"version": "v1.29.0"}, "openShift": {"version": "4.15.1"}},
        {"kubernetes": {"version": "not-a-version"}, "openShift": {"version": ""}}]


def controller_sc(constraint, cluster, others, env, files_extra=None, passes=2):
    man = manifest_yaml(["deploy"], "" if constraint is None else "  constraints:\n" + constraint)
    files = {"manifest.yaml": man, "a.yaml": obj_yaml("a", {A_PHASE: "deploy"})}
    files.update(files_extra or {})
    return {"target": "controller", "render": render_sc(files, env=env), "cluster": cluster, "others": others, "manifest_name": "test", "passes": passes}


def controller_corpus():
    """Every constraint kind x namespaced / cluster scope x 0 / 1 / 2 other packages of the same manifest x platform."""
    return [(controller_sc(c, cl, n, e), "ScOpaque") for c in CONSTRAINTS for cl in (False, True) for n in (0, 1, 2) for e in ENVS]


def gen_controller(r):
    if r.random() < 0.5:
        sc, _ = gen_pipeline_damaged(r)
        while sc["target"] != "pipeline":
            sc, _ = gen_pipeline_damaged(r)
        return {"target": "controller", "render": sc["render"], "cluster": r.random() < 0.5, "others": r.choice([0, 0, 1, 2]),
                "manifest_name": r.choice(["test", "t", "second"]), "passes": r.choice([1, 2])}, "ScOpaque"
    extra = {}
    if r.random() < 0.3:
        extra["b.yaml"] = obj_yaml("b", {A_PHASE: "deploy", A_CONDMAP: r.choice(["A => B", "bad", ""])})
    return controller_sc(r.choice(CONSTRAINTS), r.random() < 0.5, r.choice([0, 1, 2, 3]), r.choice(ENVS), extra, r.choice([1, 2, 3])), "ScOpaque"


# ---- include recursion shapes
INCLUDE_LIMIT = 1000  # transform.recursionDepth: an include is refused when more than this many of the same name are active


def helper(name, body):
    return '{{- define "%s" -}}{{- enter -}}%s{{- leave -}}{{- end -}}\n' % (name, body)


def include_shapes():
    """(label, template text with enter/leave ticks, data, number of helper names, expected class)"""
    out = []
    leaf_first = ('{{- if .leaf -}}leaf{{- else -}}{{- include "walk" (dict "leaf" true) -}}{{- include "walk" . -}}{{- end -}}')
    out.append(("self-include after a returning leaf call", helper("walk", leaf_first) + '{{- include "walk" (dict "leaf" false) -}}', None, 1, "err"))
    out.append(("self-include after two returning leaf calls",
                helper("walk", '{{- if .leaf -}}l{{- else -}}{{- include "walk" (dict "leaf" true) -}}{{- include "walk" (dict "leaf" true) -}}{{- include "walk" . -}}{{- end -}}')
                + '{{- include "walk" (dict "leaf" false) -}}', None, 1, "err"))
    out.append(("direct endless self-include", helper("a", '{{- include "a" . -}}') + '{{- include "a" . -}}', None, 1, "err"))
    out.append(("mutual recursion a -> b -> a", helper("a", '{{- include "b" . -}}') + helper("b", '{{- include "a" . -}}') + '{{- include "a" . -}}', None, 2, "err"))
    out.append(("mutual recursion with a separate leaf helper",
                helper("leaf", "x") + helper("a", '{{- include "leaf" . -}}{{- include "b" . -}}') + helper("b", '{{- include "leaf" . -}}{{- include "a" . -}}')
                + '{{- include "a" . -}}', None, 3, "err"))
    out.append(("mutual recursion, each helper first includes itself for a leaf",
                helper("a", '{{- if .leaf -}}l{{- else -}}{{- include "a" (dict "leaf" true) -}}{{- include "b" . -}}{{- end -}}')
                + helper("b", '{{- if .leaf -}}l{{- else -}}{{- include "b" (dict "leaf" true) -}}{{- include "a" . -}}{{- end -}}')
                + '{{- include "a" (dict "leaf" false) -}}', None, 2, "err"))
    out.append(("self-include after a returning call of another helper",
                helper("leaf", "x") + helper("walk", '{{- include "leaf" . -}}{{- include "walk" . -}}') + '{{- include "walk" . -}}', None, 2, "err"))
    out.append(("leaf call, then template action, then self-include",
                helper("walk", '{{- if .leaf -}}l{{- else -}}{{- include "walk" (dict "leaf" true) -}}{{- template "t" . -}}{{- include "walk" . -}}{{- end -}}')
                + '{{- define "t" -}}t{{- end -}}{{- include "walk" (dict "leaf" false) -}}', None, 1, "err"))
    counter = '{{- if lt (int .n) (int .k) -}}{{- include "c" (dict "n" (add1 .n) "k" .k) -}}{{- end -}}'
    for k in (0, 1, 3, 50, 500, INCLUDE_LIMIT - 1, INCLUDE_LIMIT, INCLUDE_LIMIT + 1, INCLUDE_LIMIT + 2, 2 * INCLUDE_LIMIT):
        # a chain of k+1 nested bodies: just under, at and over the guard's limit
        out.append(("counter chain k=%d" % k, helper("c", counter) + '{{- include "c" (dict "n" 0 "k" %d) -}}' % k, None, 1,
                    "ok" if k + 1 <= INCLUDE_LIMIT + 1 else "err"))
    leafy = ('{{- if .leaf -}}l{{- else -}}{{- include "c" (dict "leaf" true) -}}{{- if lt (int .n) (int .k) -}}'
             '{{- include "c" (dict "n" (add1 .n) "k" .k "leaf" false) -}}{{- end -}}{{- end -}}')
    for k in (3, 200, INCLUDE_LIMIT - 1, INCLUDE_LIMIT, INCLUDE_LIMIT + 50):
        # every level first includes itself for a call that returns at once, then goes one level deeper
        out.append(("counter chain with a leaf call per level k=%d" % k, helper("c", leafy) + '{{- include "c" (dict "n" 0 "k" %d "leaf" false) -}}' % k, None, 1,
                    "ok" if k + 1 <= INCLUDE_LIMIT else "err"))
    tree = '{{- if lt (int .n) (int .k) -}}{{- include "t" (dict "n" (add1 .n) "k" .k) -}}{{- include "t" (dict "n" (add1 .n) "k" .k) -}}{{- end -}}'
    for k in (1, 5, 9):
        out.append(("binary tree depth %d" % k, helper("t", tree) + '{{- include "t" (dict "n" 0 "k" %d) -}}' % k, None, 1, "ok"))
    for k in (2, 30):
        text = "".join(helper("h%d" % i, '{{- include "h%d" . -}}' % (i + 1)) for i in range(k)) + helper("h%d" % k, "end") + '{{- include "h0" . -}}'
        out.append(("chain of %d distinct helpers" % (k + 1), text, None, k + 1, "ok"))
    out.append(("data-driven recursion over a finite tree",
                helper("n", '{{- range .children -}}{{- include "n" . -}}{{- end -}}') + '{{- include "n" . -}}',
                {"children": [{"children": [{"children": []}, {"children": []}]}, {"children": []}]}, 1, "ok"))
    out.append(("include of an undefined helper", '{{- include "nope" . -}}', None, 1, "err"))
    return out


def strip_ticks(text):
    return text.replace("{{- enter -}}", "").replace("{{- leave -}}", "")


def include_corpus():
    out = []
    for label, text, data, names, expect in include_shapes():
        sc = {"target": "include", "text": text, "data": data if data is not None else {}, "max_depth": (INCLUDE_LIMIT + 1) * names + 25,
              "label": label, "names": names, "expect": expect}
        out.append((sc, "(ScInclude %s @DEPTH@)" % cN(names)))
        # the same template through the package pipeline, without the harness ticks: only the watchdog protects this run
        files = {"manifest.yaml": manifest_yaml(["deploy"]), "a.yaml": obj_yaml("a", {A_PHASE: "deploy"}),
                 "c.yaml.gotmpl": "# " + strip_ticks(text).replace("\n", "\n# ") + "\n"}
        cfg = data if isinstance(data, dict) else None
        psc = {"target": "pipeline", "render": render_sc(files), "label": "pipeline: " + label, "solo": expect == "err"}
        if cfg is not None:
            # the data of the shape is reachable as .config in a package template; keep the shape as is where it needs no data
            continue
        out.append((psc, "ScOpaque"))
    return out


def gen_all(seed, tier):
    r = vlib.rng(seed, "C19")
    out = []

    def add(p):
        out.append(p)

    # fixed corpus: the witnesses of the _refuted theorems, replayed on the real code
    man = manifest_yaml(["deploy"])
    for cli in (False, True):
        files = {"manifest.yaml": man, "a.yaml": obj_yaml("o0", {A_PHASE: "deploy", A_CONDMAP: "garbage"})}
        scen = "(ScCollector [\"deploy\"] [%s])" % pobj_term("deploy", 0, "garbage")
        add(({"target": "cli", "cmd": "tree", "render": render_sc(files)} if cli else
             {"target": "pipeline", "render": render_sc(files), "deploy": True}, scen))
    files = {"manifest.yaml": man, "a.yaml": obj_yaml("o0", {A_PHASE: "deploy", A_CONDMAP: ""})}
    add(({"target": "pipeline", "render": render_sc(files)}, "(ScCollector [\"deploy\"] [%s])" % pobj_term("deploy", 0, "")))
    add(({"target": "cli", "cmd": "validate", "render": render_sc(files)}, "ScOpaque"))
    wit = {"metadata": {"generation": 1}, "status": {"conditions": [{"type": "Ready", "status": "True", "message": "all good", "observedGeneration": 1}]}}
    add(({"target": "template-conditions", "object": wit, "generation": 1}, "(ScTemplateConditions %s %s)" % (cZ(1), cobj(wit))))
    add(({"target": "template-source", "items": [{"key": ".data.k", "destination": ""}], "object": SOURCE}, "(ScTemplateSource \"\")"))
    ot = {"apiVersion": "package-operator.run/v1alpha1", "kind": "ObjectTemplate", "metadata": {"name": "t", "namespace": "ns1", "generation": 1},
          "spec": {"template": "apiVersion: v1\nkind: ConfigMap\nmetadata:\n  name: out\n", "sources": [
              {"apiVersion": "v1", "kind": "ConfigMap", "name": "src", "items": [{"key": ".data.k", "destination": ""}]}]}}
    add(({"target": "template-reconcile", "template": ot, "store": [SOURCE]}, "ScOpaque"))
    ot2 = json.loads(json.dumps(ot))
    ot2["spec"]["sources"][0]["items"][0]["destination"] = ".x"
    existing = dict(wit, apiVersion="v1", kind="ConfigMap", metadata={"name": "out", "namespace": "ns1", "generation": 1, "labels": {CACHE_LABEL: "True"}})
    add(({"target": "template-reconcile", "template": ot2, "store": [SOURCE, existing]}, "ScOpaque"))
    for a, where, op in [("garbage", "cluster", "reconcile"), ("{}", "cluster", "teardown"), ("[1]", "desired", "reconcile"), (OWNER_OK, "cluster", "reconcile"),
                         ("garbage", "cluster", "event"), (OWNER_OK, "cluster", "event")]:
        td = op in ("teardown", "event")
        add(({"target": "ownerannotation", "annotation": a, "where": where, "op": op},
             "(ScOwnerAnno %s %s %s)" % (cB(td), anno_term(a) if where == "desired" else "AAbsent", "(Some %s)" % (anno_term(a) if where == "cluster" else "AAbsent"))))
    # tar stream truncated at every header/body boundary (+-1) of a fixed three-entry stream; every offset in thorough
    entries = [("package/manifest.yaml", manifest_yaml().encode()), ("package/.hidden/notes.txt", b"n" * 700),
               ("package/a.yaml", obj_yaml("x", {A_PHASE: "deploy"}).encode()), ("Dockerfile", b"FROM scratch\n" * 50), ("package/sub/b.yaml", b"a: b\n" * 103)]
    _, _, total = gen_oci_truncation(entries, 0)
    offsets = range(0, total + 1) if tier == "thorough" else sorted({max(0, min(total, b + d)) for b in range(0, total + 1, 512) for d in (-1, 0, 1, 257)} |
                                                                     set(range(0, total + 1, 97)))
    for t in offsets:
        add(gen_oci_truncation(entries, t)[:2])

    for p in (schema_corpus() + defect_corpus() + xvalidations_corpus() + source_results_corpus() + probe_shape_corpus() + controller_corpus()
              + include_corpus()):
        add(p)

    n = 3000 if tier == "quick" else 196000
    weights = [("collector", 10), ("collector-cli", 2), ("pipeline", 22), ("oci", 10), ("mapconditions", 14), ("template-conditions", 14),
               ("template-source", 8), ("template-reconcile", 5), ("owner", 5), ("probe", 10), ("controller", 6)]
    names = [w[0] for w in weights]
    for _ in range(n):
        t = r.choices(names, [w[1] for w in weights])[0]
        if t == "collector":
            add(gen_collector(r, False))
        elif t == "collector-cli":
            add(gen_collector(r, True))
        elif t == "pipeline":
            add(gen_pipeline_damaged(r))
        elif t == "oci":
            add(gen_oci(r))
        elif t == "mapconditions":
            add(gen_mapconditions(r))
        elif t == "template-conditions":
            add(gen_template_conditions(r))
        elif t == "template-source":
            add(gen_template_source(r))
        elif t == "template-reconcile":
            add(gen_template_reconcile(r))
        elif t == "owner":
            add(gen_owner(r))
        elif t == "controller":
            add(gen_controller(r))
        else:
            add(gen_probe(r))
    return out


# ------------------------------------------------------------------------------------------ check
def slim(sc):
    """Replay payload: the scenario itself (layers may be large but are needed)."""
    return sc


def check(run, tier, seed, replay=None):
    run.assumptions += [
        "PARTIAL: panics inside yaml, text/template, sprig, cel-go, jsonpath, go-containerregistry, apimachinery are only fuzzed, not modelled; "
        "nil map writes, integer division, conversions and stack exhaustion are not in the site inventory",
        "the stage models are those of the present tree (repaired shapes); the five repaired sites are `Fixed` entries of the table, outside the accepted "
        "inventory, with `_v0` models and refutation theorems naming the fixing commits",
        "the site inventory is syntactic (go/types): unchecked assertions, index/slice expressions on slices/strings/arrays, explicit panic, Must* helpers, "
        "(explicit panics carry the conditions of their enclosing if / case statements in their identity: a changed guard is a different site), "
        "pointer results used before an unconditional err != nil check, direct recursion, nil passed to a pointer/interface parameter of another module, "
        "dereferences of pointer-typed struct fields (and of locals assigned from them) with a same-function nil-check dominance heuristic, ==/!= on two "
        "operands of type any, nilable struct fields that one constructor sets and another leaves out while the package calls through them, template "
        "functions that execute templates again (guard flag: bound check + increment before + decrement after the nested execution); `guarded` is a heuristic and part of a site's identity; not covered: nil dereference of parameters, locals and call results, "
        "map keys of interface type, switch on dynamic values",
        "verdicts ByConstruction / Library / Validated of the table are reviewed claims about the code, checked by proof only where a stage model exists "
        "(condition map, collector, mapConditions, ObjectTemplate conditions and source items, FromOCI, annotation owner strategy)",
        "cluster objects are what a client decodes from API server JSON (maps, slices, string, bool, int64, float64, nil); ownerReferences apiVersion is "
        "validated by kube-apiserver", "exponential-time inputs (template include bombs) are bounded and not counted as runaway recursion; the include guard's nesting bound "
        "(recursionDepth + 1) x helper names is proven for the guard model and monitored on the depth the harness counts; recursion through the "
        "`template` action is left to text/template's own depth limit",
        "the JSON model covers ASCII keys, integers below 1e15 and the RFC 3339 shape dddd-dd-ddTdd:dd:ddZ; the generator stays inside it for modelled cases"]
    vlib.std_proof_stage(run, "C19")
    inv = inventory_stage(run)
    ok, blog = vlib.build_harness()
    if not ok:
        run.violation("corr:harness-build", {"correspondence": "harness no longer builds against the tree", "log": blog[-4000:]}, False)
        return
    if replay:
        rp = json.load(open(replay))["replay"]
        # a replay without a scenario (inventory / theorem violations) re-runs the inventory and theorem stages only
        pairs = [(rp["scenario"], rp.get("model", "ScOpaque"))] if "scenario" in rp else []
    else:
        pairs = gen_all(seed, tier)
    scs = [p[0] for p in pairs]
    outs = run_scenarios(scs, par=8)
    run.cov["evaluations"] = len(scs)

    # Coq evaluation of (model agreement, monitor), on distinct terms
    terms, where = [], {}
    for i, ((sc, scen), o) in enumerate(zip(pairs, outs)):
        if o is None or "died" in o or "timeout" in o or ("err" in o and "obs" not in o and "panic" not in o):
            continue
        if "@DEPTH@" in scen:
            m = re.search(r"depth=(\d+)", (o.get("obs") or {}).get("info", ""))
            scen = scen.replace("@DEPTH@", cN(int(m.group(1)) if m else 0))
            pairs[i] = (sc, scen)
        t = cP(scen, cobs(o))
        where.setdefault(t, []).append(i)
    terms = list(where)
    res, logs = vlib.judge_cases("C19", IMPORTS, "judge", terms, 2, shard=300)
    for l in logs:
        run.violation("corr:C19/coq-eval", {"correspondence": "coq evaluation failed", "log": l}, False)
    verdict = {}
    for t, rr in zip(terms, res):
        for i in where[t]:
            verdict[i] = rr

    reached = set()
    new_panic_funcs = set()
    modelled = 0
    for i, ((sc, scen), o) in enumerate(zip(pairs, outs)):
        tgt = sc.get("target")
        if o is None or "died" in o or "timeout" in o:
            what = ("runaway recursion or time" if o and ("timeout" in o or "exceeds" in o.get("stderr", "") or "stack overflow" in o.get("stderr", ""))
                    else "process died")
            run.violation("C19 %s in target %s" % (what, tgt), {"scenario": slim(sc), "impl": o}, True)
            run.classes.add((tgt, "died"))
            continue
        if "panic" in o:
            f = panic_func(o)
            reached.add(f)
            run.classes.add((tgt, "panic", f))
            if f is None:
                run.violation("corr:C19/panic outside package-operator (harness or library called by the harness)",
                              {"scenario": slim(sc), "impl": {"panic": o["panic"], "stack": o["stack"][:3000]}}, False)
                continue
            ident = panic_identity(o)
            if ident not in FINDINGS:
                new_panic_funcs.add(f)
            run.violation(ident, {"scenario": slim(sc), "model": scen, "impl": {"panic": o["panic"], "stack": o["stack"][:3000]}}, True)
        elif "obs" in o:
            ob = o["obs"]
            run.classes.add((tgt, ob.get("class"), ob.get("stage", ""), ob.get("err", "")))
            if ob.get("class") == "runaway":
                run.violation("C19 runaway recursion: includes nest beyond the guard's bound of (recursionDepth + 1) per helper name",
                              {"scenario": slim(sc), "impl": ob}, True)
            elif tgt == "include" and sc.get("expect") and ob.get("class") != sc["expect"]:
                run.violation("corr:C19/include shape outcome differs from the generator's expectation (%s)" % sc.get("label"),
                              {"correspondence": "expected %s" % sc["expect"], "scenario": slim(sc), "impl": ob}, False)
        else:
            run.violation("corr:C19/harness error", {"scenario": slim(sc), "out": o}, False)
            continue
        v = verdict.get(i)
        if v is None:
            continue
        if scen != "ScOpaque":
            modelled += 1
        agree, mon = v
        if not agree:
            run.violation("corr:C19/model and implementation differ (%s)" % tgt,
                          {"correspondence": "C19Corr.agree", "scenario": slim(sc), "model": scen, "impl": o.get("obs") or {"panic": o.get("panic"), "func": panic_func(o)}}, False)
        bad = "panic" in o or (o.get("obs") or {}).get("class") == "runaway"
        if mon and bad:
            run.violation("corr:C19/monitor evaluation inconsistent", {"scenario": slim(sc), "impl": o}, False)
        elif not mon and not bad:
            # the monitor's nesting bound (include_bound_ok) failed on the depth the harness counted
            run.violation("C19 runaway recursion: includes nest beyond the guard's bound of (recursionDepth + 1) per helper name",
                          {"scenario": slim(sc), "model": scen, "impl": o.get("obs")}, True)

    # inventory verdict, after the fuzz had its chance to reach the unknown sites
    if inv:
        sites, flags = inv
        for s, acc in zip(sites, flags):
            if acc:
                continue
            pkg = s["file"].rsplit("/", 2)[-2] if "/" in s["file"] else ""
            fn = pkg + "." + re.sub(r"^\((\*?)(\w+)\)\.", lambda m: ("(*%s)." % m.group(2)) if m.group(1) else m.group(2) + ".", s["func"])
            hit = fn in new_panic_funcs
            run.violation("corr:C19/unaccounted panic site %s %s %s `%s`" % (s["file"], s["func"], s["kind"], s["expr"]),
                          {"theorem": "all_accounted inventory = true (theories/NoPanic.v) fails for the current source: a potential panic "
                                      "site the model does not account for", "site": s,
                           "note": ("a generated input panics in this function: see the concrete violation of this run" if hit else
                                    "no generated input reached it in this run; model it (constructor + verdict) or guard it")}, False)
        run.cov["sites"] = len(sites)
        run.cov["sites_accounted"] = sum(flags)
        run.cov["sites_unguarded"] = sum(1 for s in sites if not s["guarded"])
    run.cov["modelled_cases"] = modelled
    run.cov["rule"] = ("fixed corpus (witnesses of the _v0 refutations, a five-entry tar stream truncated at every header/body boundary - every byte "
                       "offset in thorough; exhaustive small scope over list/map/combinator shapes of the config schema; fieldsEqual over every pair of JSON "
                       "shapes; every manifest constraint kind x both package controllers x 0/1/2 other packages of the manifest; include recursion shapes with a nesting "
                       "tick and, without the tick, through the package pipeline each in a process of its own), then mostly-valid inputs with one damaged aspect per sub-target (pipeline, cli, oci, probe, mapconditions, "
                       "template-conditions, template-source, template-reconcile, ownerannotation); non-trivial & distinct = distinct (target, outcome class, "
                       "stage, error class | panic function) tuples")
    ex = [i for i, o in enumerate(outs) if o and "obs" in o][:2] + [i for i, o in enumerate(outs) if o and "panic" in o][:1]
    run.cov["samples"] = [{"scenario": scs[i], "model": pairs[i][1], "impl": outs[i].get("obs") or {"panic": outs[i].get("panic"), "func": panic_func(outs[i])}}
                          for i in ex]
