"""C04 teardown order and finalizer: theorems in props/C04.v; real controller on deleting / archived ObjectSets."""
import setcheck, setgen, vlib


def check(run, tier, seed, replay=None):
    setcheck.set_check(run, "C04", tier, seed, replay, 1200, 20000, "judge04",
                       "C04 delete issued before later phases are gone, or finalizer removed / Archived=True reported while objects are still controlled",
                       "seeded random worlds biased to deleting and archived ObjectSets: members with finalizers that delay deletion, "
                       "already deleting, taken over by others, gone; orphan finalizer; finalizer already removed")
