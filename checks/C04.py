"""C04 teardown order and finalizer: theorems in props/C04.v; real controller on deleting / archived ObjectSets."""
import json
import setcheck, setgen, vlib, phasecheck as pc


def check(run, tier, seed, replay=None):
    if replay and "sliced" in json.load(open(replay))["replay"]["scenario"]:
        import C14
        vlib.std_proof_stage(run, "C04")
        vlib.build_harness()
        C14.sliced_extra(run, tier, seed, "fault", ID_SLICE, replay, ID_SLICE_EQ)
        return
    setcheck.set_check(run, "C04", tier, seed, replay, 1200, 20000, "judge04g",
                       "C04 delete issued before later phases are gone, or finalizer removed / Archived=True reported while objects are still controlled, or objects written before the finalizer is persisted",
                       "seeded random worlds biased to deleting and archived ObjectSets: members with finalizers that delay deletion, "
                       "already deleting, taken over by others, gone; orphan finalizer; finalizer already removed; plus the exhaustive "
                       "teardown table x third-party op between read and delete through the real TeardownPhase ('done' only if gone)",
                       phase_judge="judge04p",
                       phase_scs=pc.teardown_table(tier) + pc.random_teardowns(seed + 4, 300 if tier == "quick" else 5000))
    # additive: objects that live in ObjectSlices (machinery and theorems of C14, props/C14.v C14_teardown_read_fault_inert)
    import C14
    C14.sliced_extra(run, tier, seed, "fault", ID_SLICE, None, ID_SLICE_EQ)


ID_SLICE = ("C04 finalizer removed / Archived=True reported / members deleted although a slice of the ObjectSet could not be read "
            "(read error treated as 'slice gone'): the slice's objects are still there and controlled")
ID_SLICE_EQ = ("C04 a deleted / archived ObjectSet referencing ObjectSlices is not torn down like the ObjectSet with the objects of its "
               "existing slices inline: objects of a slice are left behind (finalizer removed / Archived=True while still controlled) "
               "or deleted out of order")
