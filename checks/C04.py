"""C04 teardown order and finalizer: theorems in props/C04.v; real controller on deleting / archived ObjectSets."""
import setcheck, setgen, vlib, phasecheck as pc


def check(run, tier, seed, replay=None):
    setcheck.set_check(run, "C04", tier, seed, replay, 1200, 20000, "judge04",
                       "C04 delete issued before later phases are gone, or finalizer removed / Archived=True reported while objects are still controlled",
                       "seeded random worlds biased to deleting and archived ObjectSets: members with finalizers that delay deletion, "
                       "already deleting, taken over by others, gone; orphan finalizer; finalizer already removed; plus the exhaustive "
                       "teardown table x third-party op between read and delete through the real TeardownPhase ('done' only if gone)",
                       phase_judge="judge04p",
                       phase_scs=pc.teardown_table(tier) + pc.random_teardowns(seed + 4, 300 if tier == "quick" else 5000))
