"""Generators of ObjectSet-level scenarios."""
import json
import vlib, phaselib as pl, setlib as sl


def gen_member(r, gk, ns, name, uid, okind, prevkind, cur_rev):
    refs = r.choice([[], [[9, 50, 500, 1]], [[prevkind, 9, 90, 1]], [[prevkind, 9, 90, 0]], [[okind, 10, 100, 1]],
                     [[prevkind, 9, 90, 0], [okind, 10, 100, 1]], [[okind, 10, 100, 0]], [[okind, 10, 100, 1]],
                     [[okind, 10, 100, 1]], [[prevkind, 8, 80, 1]], [[okind, 11, 110, 1]]])
    o = pl.mk_obj(gk, ns, name, uid, uid + 1, rev=r.choice([None, 1, 2, 3, cur_rev, cur_rev, cur_rev + 1, "bad"]),
                  cache=r.random() < 0.85, pkg=r.choice([0, 0, 0, 1]), body=r.choice([1, 2]),
                  avail=r.choice([0, 1, 1, 1, 2]), obsgen=r.choice([None, None, 1, 2]), fin=r.random() < 0.12)
    o["owners"] = refs
    if o["fin"] and r.random() < 0.4:
        o["deleting"] = True
    return o


def gen_scenario(r, mode=None):
    cluster = r.random() < 0.25
    okind, ons = (2, 0) if cluster else (1, 1)
    mode = mode or r.choice(["active"] * 6 + ["paused", "paused", "deleting", "deleting", "archived", "archived", "archived-done", "new"])
    nph = r.choice([1, 2, 2, 3, 3, 4])
    phases, store, uid, name = [], [], 7, 1
    rev = r.choice([1, 2, 3, 5])
    for pi in range(1, nph + 1):
        objs = []
        for _ in range(r.choice([0, 1, 1, 2, 2, 3])):
            gk = r.choice([1, 1, 2, 2])
            dup = r.random() < 0.04 and name > 1
            nm = r.randint(1, name - 1) if dup else name
            if not dup:
                name += 1
            pns = r.choice([0, 1]) if ons else 1
            bad = r.random()
            po = pl.mk_pobj(gk, pns, nm, body=r.choice([1, 2]), cp=r.choice([0, 0, 0, 1, 2]),
                            ownerrefs=bad < 0.02, dryreject=0.02 <= bad < 0.04)
            if 0.04 <= bad < 0.05:
                po["gk"] = 4
            if 0.05 <= bad < 0.06 and ons:
                po["ns"] = 2
            if 0.06 <= bad < 0.07:
                po["gk"] = 3
                po["ns"] = 0
            if r.random() < 0.08:
                po["noise"] = r.choice([1, 2, 3])   # template presets PKO-owned metadata (see phasecheck.random_phases)
            objs.append(po)
            if r.random() < 0.7 and not dup and po["gk"] in (1, 2):
                store.append(gen_member(r, po["gk"], 1 if (po["ns"] or ons) in (0, 1) else po["ns"], nm, uid, okind, okind, rev))
                uid += 2
        phases.append({"name": pi, "class": False, "objects": objs})
    # unrelated objects
    for j in range(r.choice([0, 0, 1, 2])):
        store.append(gen_member(r, r.choice([1, 2]), 1, 40 + j, uid, okind, okind, rev))
        uid += 2
    target = sl.mk_set(okind, ons, 10, 100, rv=5, gen=r.choice([1, 1, 2, 3]), phases=phases, revision=rev,
                       pkg=r.choice([0, 0, 0, 1, 2]))
    sets = [target]
    prevs = []
    if r.random() < 0.7:
        prevs.append(9)
        if r.random() < 0.85:
            sets.append(sl.mk_set(okind, ons, 9, 90, rv=6, revision=r.choice([0, 1, 1, 2, 4]) if mode == "new" else max(rev - 1, 1),
                                  life=r.choice([0, 1, 2]), remotes=r.choice([[], [], [[19, 190]]])))
        if r.random() < 0.3:
            prevs.append(8)
            if r.random() < 0.8:
                sets.append(sl.mk_set(okind, ons, 8, 80, rv=7, revision=r.choice([0, 1, 2, 3]) if mode == "new" else 1, life=2))
    target["prev"] = prevs
    g = target["gen"]
    conds = []
    if r.random() < 0.6:
        conds.append([0, r.choice([0, 0, 1]), r.choice([0, 1, 2, 3]), r.choice([g, g, max(g - 1, 1)])])
    if r.random() < 0.3:
        conds.append([1, 0, 4, g])
    if r.random() < 0.4:
        conds.append([2, 0, 5, r.choice([g, 1])])
    target["conds"] = conds
    if mode == "new":
        target["revision"] = 0
        target["fin"] = r.random() < 0.3
        target["conds"] = []
    elif mode == "paused":
        target["life"] = 1
        if r.random() < 0.5:
            target["conds"].append([3, 0, 6, g])
    elif mode == "deleting":
        target["deleting"] = True
        target["fin"] = r.random() < 0.85
        target["orphan"] = r.random() < 0.2
        if not target["fin"] and not target["orphan"]:
            target["fin"] = True
    elif mode in ("archived", "archived-done"):
        target["life"] = 2
        target["fin"] = r.random() < 0.8
        if mode == "archived-done":
            # archival completed earlier, possibly for an older generation, possibly with the lifecycle state
            # flipped back afterwards: the ObjectSet must never be reconciled again
            target["conds"] = [c for c in target["conds"] if c[0] != 0] + [[4, 0, 8, r.choice([g, g, max(g - 1, 1), 1])]]
            target["fin"] = r.random() < 0.2
            target["life"] = r.choice([2, 2, 0, 1])
        elif r.random() < 0.4:
            target["conds"].append([4, 1, 9, g])
        if r.random() < 0.15:
            target["deleting"] = True
            target["fin"] = True
    if r.random() < 0.5:
        target["ctrlof"] = [{"gk": o["gk"], "ns": o["ns"], "name": o["name"]} for o in store if [okind, 10, 100, 1] in o["owners"]][:3]
    return {"force": r.random() < 0.05, "store": store, "sets": sl.sort_sets(sets), "next_rv": 50, "next_uid": 60,
            "target": {"kind": okind, "ns": ons, "name": 10, "uid": 100}}


def gen_handover(seed, n, salt="seth"):
    """Active ObjectSets at revision >= 3 with TWO declared previous revisions (in either order), members controlled
    by either of them at a lower revision: the adoption has to be permitted through every entry of spec.previous."""
    r = vlib.rng(seed, salt)
    out = []
    for _ in range(n):
        sc = gen_scenario(r, mode="active")
        t = [s_ for s_ in sc["sets"] if s_["name"] == 10][0]
        okind, ons = t["kind"], t["ns"]
        t["revision"] = max(t["revision"], 3)
        sets = [s_ for s_ in sc["sets"] if s_["name"] not in (8, 9)]
        sets.append(sl.mk_set(okind, ons, 9, 90, rv=6, revision=2, life=r.choice([0, 1, 2]), remotes=[]))
        sets.append(sl.mk_set(okind, ons, 8, 80, rv=7, revision=1, life=r.choice([0, 2]), remotes=[]))
        t["prev"] = r.choice([[8, 9], [9, 8]])
        for o in sc["store"]:
            if o["name"] < 40 and r.random() < 0.6:
                who = r.choice([(9, 90, 2), (8, 80, 1)])
                o["owners"] = [[okind, who[0], who[1], 1]]
                o["rev"] = who[2]
        sc["sets"] = sl.sort_sets(sets)
        out.append(sc)
    return out


def gen(seed, n, salt="set"):
    r = vlib.rng(seed, salt)
    return [gen_scenario(r) for _ in range(n)]


def gen_delegated(seed, n, salt="setd"):
    """ObjectSets with delegated (class) phases and pre-existing ObjectSetPhase objects in arbitrary states
    (checks/dlglib.scenario_states), as single-pass scenarios of harness mode "objectset"."""
    import dlglib
    r = vlib.rng(seed, salt)
    out = []
    for i in range(n):
        d = dlglib.scenario_states(r, strategy="native")
        t = d["stages"][0]["targets"][0]
        out.append({"force": d["force"], "store": d["store"], "sets": d["sets"], "phases": d["phases"], "nss": d["nss"],
                    "next_rv": d["next_rv"], "next_uid": d["next_uid"], "target": t})
    return out
