"""C07 one ObjectSet per template, unique increasing revisions: theorems in props/C07.v (any hash function, all fresh
histories; staleness window refuted); the real ObjectDeployment + ObjectSet controllers on histories of template edits,
schedules, API faults, stale Lists and forced name clashes, judged by DeployCorr.agree and the C07Corr monitors."""
import json
import vlib, deplib as dl, depgen, depcheck as dc

NAMES = ["spec", "prev", "one", "unique", "monotone", "stable", "noreuse", "progress", "clash_progress", "wake"]
WHAT = {"spec": "C07 ObjectSet created with a spec other than the template, or while paused / without phases",
        "prev": "C07 ObjectSet created while a sibling has no revision, or previous list incomplete",
        "one": "C07 second ObjectSet created although the newest one has the template's spec",
        "unique": "C07 two ObjectSets of a deployment share a revision number",
        "monotone": "C07 reported revision does not exceed the revisions of the other ObjectSets",
        "stable": "C07 reported revision changed",
        "noreuse": "C07 name clash with an archived / different / older ObjectSet resolved by reusing it, or the bumped collisionCount not stored",
        "clash_progress": "C07 the same name clash met again with the same stored collisionCount (no progress towards a new ObjectSet)",
        "wake": "C07 deployment pass with a failed request returns success without requeue: nothing wakes the controller again, "
                "the template stays without its ObjectSet",
        "progress": "C07 template not matched by the newest ObjectSet (template change or revert to an earlier template) and no new ObjectSet requested"}


def identity(name, sc, agree):
    """F-C07b (open) is the model-confirmed behaviour in the create-not-listed window: it is only named when the model
    agrees with the implementation on the whole history; anything else keeps its own identity."""
    if dc.has_stale(sc):
        if name == "one":
            return dc.ID_C07          # fixed by 0384cff: reported as a violation again if it comes back
        if name in ("prev", "unique", "monotone") and agree:
            return dc.ID_C07B
    return WHAT[name]


def check(run, tier, seed, replay=None):
    run.assumptions += [
        "ObjectSets of a like-labelled deployment in a second namespace (corpus entries with 'foreign' ObjectSets: same / other template "
        "hashes, higher / lower revisions) are not part of the model's world; that no request of a deployment pass names them, that they "
        "stay unchanged and never appear in spec.previous is judged on the observed requests and stored objects (depcheck.namespace_violations)",
        "pass-level atomicity; cache staleness limited to 'the ObjectSet created by the latest deployment pass is missing from List "
        "but visible to Get' (wrapper client in the harness, ghost dw_fresh in the model)",
        "List returns ObjectSets in key order and sort.Sort is stable (insertion sort) for at most 12 ObjectSets",
        "the template's labels are the selector's labels; the deployment carries no annotations; no mapped ('/') conditions; "
        "the deployment is not deleted; revision numbers stay within int64; hash = real utils.ComputeFNV32Hash on the templates of the "
        "scenario (table lookup inside Coq), theorems for any hash function",
        "API-server semantics of the harness's recording server (resourceVersion conflicts, status subresource, generation bump on spec "
        "change, finalizer-delayed deletion, no-op writes); condition messages / transition times not compared",
    ]
    vlib.std_proof_stage(run, "C07")
    ok, blog = vlib.build_harness()
    if not ok:
        run.violation("corr:harness-build", {"correspondence": "harness no longer builds against the tree", "log": blog[-4000:]}, False)
        return
    dc.note_shapes(run)
    if replay:
        d = json.load(open(replay))["replay"]
        ctx = dl.Ctx(d["scenario"]["alphabet"], cluster=d["scenario"]["dep"]["kind"] == 6)
        pairs = [(ctx, d["scenario"])]
    else:
        pairs = depgen.corpus() + depgen.histories(seed, 300 if tier == "quick" else 5000)
    res = dl.run_cases(run, pairs, "judge07", 11, "From PKOCorr Require Import C08Corr C07Corr.", shard=100)
    npass = 0
    for ctx, sc, obs, r in res:
        if r is None:
            continue
        cls = tuple(dc.pass_class(st, so) for st, so in zip(sc["steps"], obs["steps"]))
        npass += sum(1 for st in sc["steps"] if st["op"] == "dep")
        if any(c[0] == "dep" and (c[1] or c[2] or any(e[0] != "status" for e in c[4])) for c in cls):
            run.classes.add(cls)
        agree, mons = r[0], r[1:]
        if dc.ID_NS_PREV in dc.namespace_violations(sc, obs):
            run.violation(dc.ID_NS_PREV, {"scenario": dl.slim(sc), "impl": dc.slim_obs(obs), "monitor": "namespace"}, True)
        concrete = False
        for name, okk in zip(NAMES, mons):
            if not okk:
                concrete = True
                run.violation(identity(name, sc, agree), {"scenario": dl.slim(sc), "impl": dc.slim_obs(obs), "monitor": name}, True)
        if not agree and not concrete:
            run.violation("corr:C07/deployment model and implementation differ",
                          {"correspondence": "DeployCorr.agree", "scenario": dl.slim(sc),
                           "impl": dc.slim_obs(obs)}, False)
    run.cov["evaluations"] = len(res)
    run.cov["deployment_passes"] = npass
    run.cov["rule"] = ("fixed corpus (rollout, F-C07 witness and its two neighbours, rollbacks T1->T2->T1 with the T1 revision live / archived / from scratch, "
                       "seven kinds of name-clash holders, terminating newest / older revision, pause/unpause with all annotation x lifecycle states, "
                       "pruning, sliced handover, handover race) + seeded random histories: initial world of 0-3 earlier revisions (12% terminating, "
                       "paused-by-parent annotation independent of the lifecycle state) and an optional forced clash on "
                       "the next name (real hash), then 3-14 steps of template edits over a 4-template alphabet (reverts, no-ops, empty template), "
                       "deployment passes (20% with a stale List, 15% with an err/lost API fault at request 0-7), real ObjectSet controller passes, "
                       "status changes of ObjectSets, probe changes of members, pause toggles, limit changes; non-trivial = some deployment pass is "
                       "stale, faulted or sends a request besides its status; distinct = per-step tuple (kind, stale, fault, outcome, requests with results)")
    run.cov["samples"] = [{"scenario": dl.slim(sc), "impl": dc.slim_obs(obs)} for _, sc, obs, _ in res[1:2]]
