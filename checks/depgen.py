"""Generators of ObjectDeployment-level scenarios (C07 histories, C08 kernel)."""
import itertools
import json
import vlib, phaselib as pl, setlib as sl, deplib as dl

AV_T = lambda g: [0, 0, 0, g]      # Available=True/Available
AV_F = lambda g: [0, 1, 1, g]      # Available=False/ProbeFailure
SUCC = lambda g: [2, 0, 5, g]      # Succeeded=True
PAUSED = lambda g: [3, 0, 6, g]    # Paused=True


def keys_of(ctx, tmpl, ns):
    return dl.full_keys(ctx, tmpl, ns)


def corpus():
    ctx = dl.Ctx(dl.ALPHABET)
    out = []
    # plain rollout A -> B with ObjectSet passes: create, revision, handover, pause, archive
    steps = [{"op": "dep"}, {"op": "dep"}, {"op": "set", "name": ctx.h(1)}, {"op": "dep"},
             {"op": "edit", "tmpl": 2}, {"op": "dep"}, {"op": "set", "name": ctx.h(2)}, {"op": "dep"}, {"op": "set", "name": ctx.h(1)},
             {"op": "dep"}, {"op": "set", "name": ctx.h(2)}, {"op": "dep"}, {"op": "set", "name": ctx.h(1)}, {"op": "dep"},
             {"op": "set", "name": ctx.h(1)}, {"op": "dep"}]
    out.append((ctx, dl.scenario(ctx, dl.mk_dep(ctx, 1), [], steps)))
    # F-C07 witness: an earlier revision exists, the new ObjectSet is created, the next pass lists stale
    old = dl.mk_dset(ctx, ctx.h(2), 101, 2, 1, hash=ctx.h(2), conds=[AV_T(1), SUCC(1)])
    steps = [{"op": "dep"}, {"op": "dep", "stale": True}, {"op": "set", "name": ctx.h(1)}, {"op": "dep"}, {"op": "set", "name": ctx.h(1, 1)}, {"op": "dep"}]
    out.append((ctx, dl.scenario(ctx, dl.mk_dep(ctx, 1), [old], steps)))
    # same window, the ObjectSet controller was faster: revision already reported -> "slow cache, no collision"
    steps = [{"op": "dep"}, {"op": "set", "name": ctx.h(1)}, {"op": "dep", "stale": True}, {"op": "dep"}]
    out.append((ctx, dl.scenario(ctx, dl.mk_dep(ctx, 1), [old], steps)))
    # template edited inside the window: two ObjectSets with the same previous list
    steps = [{"op": "dep"}, {"op": "edit", "tmpl": 3}, {"op": "dep", "stale": True}, {"op": "set", "name": ctx.h(1)}, {"op": "set", "name": ctx.h(3)},
             {"op": "dep"}, {"op": "dep"}]
    out.append((ctx, dl.scenario(ctx, dl.mk_dep(ctx, 1), [old], steps)))
    # rollback A -> B -> A: clash with the old A revision, collision bump, fresh ObjectSet
    a = dl.mk_dset(ctx, ctx.h(1), 101, 1, 1, hash=ctx.h(1), conds=[AV_T(1), SUCC(1)])
    b = dl.mk_dset(ctx, ctx.h(2), 102, 2, 2, hash=ctx.h(2), prev=[ctx.h(1)], conds=[AV_T(1), SUCC(1)])
    steps = [{"op": "dep"}, {"op": "dep"}, {"op": "set", "name": ctx.h(1, 1)}, {"op": "dep"}]
    out.append((ctx, dl.scenario(ctx, dl.mk_dep(ctx, 1, hash=ctx.h(2)), [a, b], steps)))
    # clashes: archived / different spec / foreign controller / equal spec / not selected holder of the next name
    for holder in (dl.mk_dset(ctx, ctx.h(1), 103, 1, 1, hash=ctx.h(1), life=2),
                   dl.mk_dset(ctx, ctx.h(1), 103, 3, 3),
                   dl.mk_dset(ctx, ctx.h(1), 103, 1, 3, ctrl=777),
                   dl.mk_dset(ctx, ctx.h(1), 103, 1, 3, ctrl=0),
                   dl.mk_dset(ctx, ctx.h(1), 103, 1, 3),
                   dl.mk_dset(ctx, ctx.h(1), 103, 1, 0),
                   dl.mk_dset(ctx, ctx.h(1), 103, 1, 3, sel=False)):
        b2 = dl.mk_dset(ctx, ctx.h(2), 102, 2, 2, hash=ctx.h(2), conds=[AV_T(1), SUCC(1)])
        steps = [{"op": "dep"}, {"op": "dep"}, {"op": "set", "name": ctx.h(1, 1)}, {"op": "dep"}]
        out.append((ctx, dl.scenario(ctx, dl.mk_dep(ctx, 1), [holder, b2], steps)))
    # pause / unpause
    a = dl.mk_dset(ctx, ctx.h(1), 101, 1, 1, hash=ctx.h(1), conds=[AV_T(1), SUCC(1)], life=2)
    b = dl.mk_dset(ctx, ctx.h(2), 102, 2, 2, hash=ctx.h(2), prev=[ctx.h(1)], conds=[AV_F(1)], life=1)
    c = dl.mk_dset(ctx, ctx.h(3), 104, 3, 3, hash=ctx.h(3), prev=[ctx.h(1), ctx.h(2)], conds=[AV_F(1)])
    steps = [{"op": "pause", "v": True}, {"op": "dep"}, {"op": "edit", "tmpl": 1}, {"op": "dep"}, {"op": "pause", "v": False}, {"op": "dep"}, {"op": "dep"}]
    out.append((ctx, dl.scenario(ctx, dl.mk_dep(ctx, 3), [a, b, c], steps)))
    # garbage collection: limit 1, three previous revisions, two of them archived
    a = dl.mk_dset(ctx, ctx.x(0), 101, 1, 1, life=2)
    b = dl.mk_dset(ctx, ctx.x(1), 102, 2, 2, life=2, fin=False)
    c = dl.mk_dset(ctx, ctx.h(3), 104, 3, 3, hash=ctx.h(3), conds=[PAUSED(1)], life=1)
    d = dl.mk_dset(ctx, ctx.h(1), 105, 1, 4, hash=ctx.h(1), conds=[AV_T(1), SUCC(1)])
    out.append((ctx, dl.scenario(ctx, dl.mk_dep(ctx, 1, limit=1), [a, b, c, d], [{"op": "dep"}, {"op": "dep"}])))
    # second half of F-C14: revision 1 controls ConfigMap n1, revision 2 keeps it in ObjectSlice 7; nothing is Available
    r1 = dl.mk_dset(ctx, ctx.h(1), 101, 1, 1, hash=ctx.h(1), conds=[AV_F(1)], ctrlof=[{"gk": 1, "ns": 1, "name": 1}])
    r2 = dl.mk_dset(ctx, ctx.h(5), 102, 5, 2, hash=ctx.h(5), prev=[ctx.h(1)], conds=[AV_F(1)])
    member = pl.mk_obj(1, 1, 1, 7, 8, rev=1)
    member["owners"] = [[1, ctx.h(1), 101, 1]]
    steps = [{"op": "dep"}, {"op": "set", "name": ctx.h(1)}, {"op": "dep"}, {"op": "set", "name": ctx.h(1)}, {"op": "set", "name": ctx.h(1)}]
    out.append((ctx, dl.scenario(ctx, dl.mk_dep(ctx, 5), [r1, r2], steps, store=[member])))
    # the next newer revision references an ObjectSlice that cannot be read: missing (template G), or the Get fails
    r2g = dl.mk_dset(ctx, ctx.h(7), 102, 7, 2, hash=ctx.h(7), prev=[ctx.h(1)], conds=[AV_F(1)])
    out.append((ctx, dl.scenario(ctx, dl.mk_dep(ctx, 7), [r1, r2g], steps, store=[member])))
    r1p = dl.mk_dset(ctx, ctx.h(1), 101, 1, 1, hash=ctx.h(1), conds=[AV_F(1), PAUSED(1)], life=1, ctrlof=[{"gk": 1, "ns": 1, "name": 1}])
    out.append((ctx, dl.scenario(ctx, dl.mk_dep(ctx, 7), [r1p, r2g], [{"op": "dep"}, {"op": "dep"}], store=[member])))
    for kind in ("err", "lost"):
        out.append((ctx, dl.scenario(ctx, dl.mk_dep(ctx, 5), [r1p, r2], [{"op": "dep", "fault": [2, kind]}, {"op": "dep"}], store=[member])))
    # the same with the shared object inline in revision 2 (template B): revision 1 stays
    r2b = dl.mk_dset(ctx, ctx.h(2), 102, 2, 2, hash=ctx.h(2), prev=[ctx.h(1)], conds=[AV_F(1)])
    out.append((ctx, dl.scenario(ctx, dl.mk_dep(ctx, 2), [r1, r2b], steps[:3], store=[member])))
    # rollback with the earlier revision archived
    a = dl.mk_dset(ctx, ctx.h(1), 101, 1, 1, hash=ctx.h(1), life=2, fin=False, conds=[[4, 0, 8, 1]])
    b = dl.mk_dset(ctx, ctx.h(2), 102, 2, 2, hash=ctx.h(2), prev=[ctx.h(1)], conds=[AV_T(1), SUCC(1)])
    steps = [{"op": "dep"}, {"op": "dep"}, {"op": "set", "name": ctx.h(1, 1)}, {"op": "dep"}]
    out.append((ctx, dl.scenario(ctx, dl.mk_dep(ctx, 1, hash=ctx.h(2)), [a, b], steps)))
    # full edit sequence T1 -> T2 -> T1 from scratch, every revision rolled out by the real ObjectSet controller
    steps = [{"op": "dep"}, {"op": "set", "name": ctx.h(1)}, {"op": "dep"}, {"op": "edit", "tmpl": 2}, {"op": "dep"}, {"op": "set", "name": ctx.h(2)},
             {"op": "dep"}, {"op": "edit", "tmpl": 1}, {"op": "dep"}, {"op": "dep"}, {"op": "set", "name": ctx.h(1, 1)}, {"op": "dep"}]
    out.append((ctx, dl.scenario(ctx, dl.mk_dep(ctx, 1), [], steps)))
    # the newest revision is terminating (deletionTimestamp, finalizer still there) when the template changes
    for tnew in (1, 3):
        a = dl.mk_dset(ctx, ctx.h(2), 101, 2, 1, hash=ctx.h(2), conds=[AV_T(1)])
        b = dl.mk_dset(ctx, ctx.h(3), 102, 3, 2, hash=ctx.h(3), prev=[ctx.h(2)], conds=[AV_T(1)], deleting=True, fin=True)
        steps = [{"op": "dep"}, {"op": "set", "name": ctx.h(tnew, 1 if tnew == 3 else None)}, {"op": "set", "name": ctx.h(tnew)}, {"op": "dep"}, {"op": "dep"}]
        out.append((ctx, dl.scenario(ctx, dl.mk_dep(ctx, tnew), [a, b], steps)))
    # an older revision is terminating
    a = dl.mk_dset(ctx, ctx.h(2), 101, 2, 1, hash=ctx.h(2), conds=[AV_T(1)], deleting=True, fin=True)
    b = dl.mk_dset(ctx, ctx.h(3), 102, 3, 2, hash=ctx.h(3), prev=[ctx.h(2)], conds=[AV_T(1)])
    out.append((ctx, dl.scenario(ctx, dl.mk_dep(ctx, 1), [a, b], [{"op": "dep"}, {"op": "set", "name": ctx.h(1)}, {"op": "dep"}])))
    # paused deployment; revisions with / without the paused-by-parent annotation x lifecycleState Active / Paused
    # (annotation + Active is what the bootstrap job's ensurePKORevisionsPaused or a patch of lifecycleState leaves behind)
    for newest_state in ((0, False), (0, True), (1, False), (1, True)):
        sets = []
        for i, (life, pbp) in enumerate([(0, False), (0, True), (1, False), (1, True), newest_state]):
            t = [2, 3, 2, 3, 1][i]
            name = ctx.h(t, None if i in (0, 1, 4) else 1)
            sets.append(dl.mk_dset(ctx, name, 101 + i, t, i + 1, hash=name, life=life, pbp=pbp, prev=[x["name"] for x in sets],
                                   conds=[AV_T(1)] + ([PAUSED(1)] if life == 1 else [])))
        out.append((ctx, dl.scenario(ctx, dl.mk_dep(ctx, 1, paused=True), sets, [{"op": "dep"}, {"op": "dep"}, {"op": "pause", "v": False}, {"op": "dep"}])))
    # handover race: the archived revision 1 still controls ConfigMap n1, which revision 2 contains; revision 2's controller adopts it
    # between revision 1's read and delete
    for at in (0,):
        r1 = dl.mk_dset(ctx, ctx.h(1), 101, 1, 1, hash=ctx.h(1), life=2, conds=[PAUSED(1)], ctrlof=[{"gk": 1, "ns": 1, "name": 1}])
        r2 = dl.mk_dset(ctx, ctx.h(2), 102, 2, 2, hash=ctx.h(2), prev=[ctx.h(1)], conds=[])
        member = pl.mk_obj(1, 1, 1, 7, 8, rev=1)
        member["owners"] = [[1, ctx.h(1), 101, 1]]
        out.append((ctx, dl.scenario(ctx, dl.mk_dep(ctx, 2), [r1, r2], [{"op": "dep"}, {"op": "race", "name": ctx.h(1), "with": ctx.h(2), "at": at}],
                                     store=[member])))
    return out + handover_corpus() + namespace_corpus() + fault_corpus()


def fault_corpus():
    """The same request (Get / List / Create / status update; Update of a revision) fails in two consecutive passes, then the API works
    again: every failed pass has to return the error (the work queue retries nothing else), the third pass creates the ObjectSet."""
    ctx = dl.Ctx(dl.ALPHABET)
    out = []
    for n in (0, 1, 2, 3):
        for kind in ("err", "lost"):
            f = {"op": "dep", "fault": [n, kind]}
            out.append((ctx, dl.scenario(ctx, dl.mk_dep(ctx, 1), [], [f, dict(f), {"op": "dep"}, {"op": "set", "name": ctx.h(1)}, {"op": "dep"}])))
    old = dl.mk_dset(ctx, ctx.h(2), 101, 2, 1, hash=ctx.h(2), conds=[AV_F(1)], ctrlof=[{"gk": 1, "ns": 1, "name": 1}])
    for n in (2, 3, 4):
        f = {"op": "dep", "fault": [n, "err"]}
        out.append((ctx, dl.scenario(ctx, dl.mk_dep(ctx, 3), [old], [f, dict(f), {"op": "dep"}, {"op": "set", "name": ctx.h(3)}, {"op": "dep"}, {"op": "dep"}])))
    return out


def namespace_corpus():
    """A like-labelled ObjectDeployment lives in another namespace (ns2): its ObjectSets carry the same selector labels, the same or
    other template hashes, higher and lower revisions. None of them is a revision of this deployment."""
    ctx = dl.Ctx(dl.ALPHABET)
    D = {"op": "dep"}
    out = []
    def foreign(name, tmpl, rev, **kw):
        kw.setdefault("conds", [AV_T(1), SUCC(1)])
        s = dl.mk_dset(ctx, name, 900 + rev, tmpl, rev, hash=name, ctrl=777, **kw)
        s["ns"] = 2
        return s
    own1 = lambda **kw: dl.mk_dset(ctx, ctx.h(2), 101, 2, 1, hash=ctx.h(2), **kw)
    # the other namespace's newest ObjectSet has this deployment's template hash (and name): must not count as current
    out.append((ctx, dict(dl.scenario(ctx, dl.mk_dep(ctx, 1), [], [D, D, {"op": "set", "name": ctx.h(1)}, D]),
                          foreign=[foreign(ctx.h(1), 1, 3)])))
    # other hashes, higher and lower revisions than the own revision: must not appear in previous, nor be paused / archived / pruned
    for frevs in ((5, 6), (1, 7), (0, 4)):
        f = [foreign(ctx.x(0), 3, frevs[0], conds=[AV_F(1)], ctrlof=[{"gk": 1, "ns": 2, "name": 2}]), foreign(ctx.x(1), 2, frevs[1])]
        steps = [D, D, {"op": "set", "name": ctx.h(1)}, D, {"op": "set", "name": ctx.h(2)}, D, D]
        out.append((ctx, dict(dl.scenario(ctx, dl.mk_dep(ctx, 1), [own1(conds=[AV_F(1)], ctrlof=[{"gk": 1, "ns": 1, "name": 2}])], steps), foreign=f)))
        out.append((ctx, dict(dl.scenario(ctx, dl.mk_dep(ctx, 1, limit=0), [own1(conds=[AV_T(1), SUCC(1)])], steps), foreign=f)))
    # paused deployment: only its own revisions are paused
    out.append((ctx, dict(dl.scenario(ctx, dl.mk_dep(ctx, 2, paused=True), [own1(conds=[AV_T(1)])], [D, {"op": "pause", "v": False}, D]),
                          foreign=[foreign(ctx.x(0), 3, 2)])))
    return out


# templates of the handover witnesses (coq/theories/HandoverProofs.v w1_history, w2_history, w3_history); Widgets (kind 2) are probed
HALPHABET = [
    [dl.ph(1, [dl.po(2, 1)]), dl.ph(2, [dl.po(1, 2)])],                 # 1: phases [a]; [b]
    [dl.ph(1, [dl.po(2, 3)]), dl.ph(2, [dl.po(1, 2)])],                 # 2: phases [c]; [b]
    [dl.ph(1, [dl.po(1, 2)])],                                          # 3: [b]
    [dl.ph(1, [dl.po(1, 2), dl.po(2, 3)])],                             # 4: [b, c]
    [dl.ph(1, [dl.po(2, 4)]), dl.ph(2, [dl.po(1, 2)])],                 # 5: phases [d]; [b]
    [dl.ph(1, [dl.po(2, 1, body=1)])],                                  # 6-8: the Widget k with three bodies (+ one more Widget)
    [dl.ph(1, [dl.po(2, 1, body=2)])],
    [dl.ph(1, [dl.po(2, 1, body=3), dl.po(2, 2)])],
    [dl.ph(1, [dl.po(2, 3)])],                                          # 9
    [dl.ph(1, [dl.po(1, 1)]), dl.ph(2, [dl.po(2, 2)])],                 # 10: phases [ConfigMap a]; [Widget b]: b's probe fails
    [dl.ph(1, [dl.po(2, 3)]), dl.ph(2, [dl.po(2, 2)])],                 # 11: phases [Widget c]; [Widget b]
]


def handover_corpus():
    """Whole-system histories from an empty cluster that end with the teardown of an archived revision deleting an object the next
    newer, active revision lists (F-C08c truncated controllerOf, F-C08d cache label + stale Paused=True, F-C08e stale Available)."""
    ctx = dl.Ctx(HALPHABET)
    D = {"op": "dep"}
    S = lambda t: {"op": "set", "name": ctx.h(t)}
    M = lambda g, n, a: {"op": "member", "key": {"gk": g, "ns": 1, "name": n}, "avail": a}
    E = lambda t: {"op": "edit", "tmpl": t}
    out = []
    w1 = [D, S(1), M(2, 1, 1), S(1), M(2, 1, 2), S(1), E(2), D, S(2), D, S(1), D, S(1), S(2)]
    w2 = [D, S(3), D, E(4), D, S(4), M(2, 3, 1), S(4), D, S(3), D, S(3), M(2, 3, 2), {"op": "pause", "v": True}, D, S(4), E(5),
          {"op": "pause", "v": False}, D, S(5), D, S(4), S(4), S(5)]
    w3 = [D, S(6), M(2, 1, 2), S(6), E(7), D, S(7), D, E(8), D, S(8), D, S(6), S(7), E(9), D, S(9), M(2, 3, 2), D, S(8), D,
          M(2, 1, 1), S(7), S(8), S(8), S(6), D, S(6), D, S(6), S(6), S(7)]
    # no violation in the code as it is: revision 1 fails its probe in its LAST phase and reports [a, b]; revision 2 shares only b, which it
    # has not reached yet: revision 1 stays (a status.controllerOf without the objects of the failing phase would get it archived)
    w4 = [D, S(10), D, E(11), D, S(11), D, S(10), D, S(10), S(10), S(11), D]
    for t0, steps in ((1, w1), (3, w2), (6, w3), (10, w4)):
        sc = dl.scenario(ctx, dl.mk_dep(ctx, t0), [], steps)
        sc["slices"] = []
        out.append((ctx, sc))
    return out


def gen_history(r, ctx):
    ns = 0 if ctx.cluster else 1
    t0 = r.choice([1, 1, 2, 3, 4])
    cc0 = r.choice([None, None, None, 1])
    dep = dl.mk_dep(ctx, t0, paused=r.random() < 0.08, limit=r.choice([None, None, 0, 1, 2, 10]), cc=cc0)
    sets, uid, rev = [], 101, 0
    used = set()
    # earlier revisions
    for _ in range(r.choice([0, 0, 1, 1, 2, 3])):
        t = r.choice([x for x in (1, 2, 3) if x != t0])
        name = ctx.h(t, r.choice([None, None, 1]))
        if name in used:
            continue
        used.add(name)
        rev += r.choice([1, 1, 2])
        g = r.choice([1, 2])
        conds = r.choice([[], [AV_T(g)], [AV_T(g), SUCC(g)], [AV_F(g)], [AV_T(1)], [AV_T(g), PAUSED(g)], [AV_F(g), PAUSED(g)]])
        life = r.choice([0, 0, 0, 1, 2])
        terminating = r.random() < 0.12
        own = keys_of(ctx, t, ns)
        sets.append(dl.mk_dset(ctx, name, uid, t, rev, hash=name if r.random() < 0.9 else None, gen=g, conds=conds, life=life,
                               prev=[s["name"] for s in sets if s["sel"]], pbp=(life != 2 and r.random() < 0.35),
                               ctrlof=[] if life == 2 else r.choice([[], own, own[:1]]), fin=terminating or r.random() < 0.8,
                               deleting=terminating))
        uid += 1
    # forced clash on the name the next create will use
    tnext = r.choice([t0, t0, r.choice([1, 2, 3])])
    if r.random() < 0.45 and tnext != 4:
        name = ctx.h(tnext, r.choice([cc0, cc0, 1 if cc0 is None else cc0 + 1]))
        if name not in used:
            used.add(name)
            kind = r.choice(["archived", "diffspec", "foreign", "noctrl", "equal", "equal0", "unselected", "older"])
            tother = [x for x in (1, 2, 3) if x not in (tnext, t0)][0]
            kw = {"archived": dict(tmpl=tnext, revision=rev + 1, life=2), "diffspec": dict(tmpl=tother, revision=rev + 1),
                  "foreign": dict(tmpl=tnext, revision=rev + 1, ctrl=777), "noctrl": dict(tmpl=tnext, revision=rev + 1, ctrl=0),
                  "equal": dict(tmpl=tnext, revision=rev + 1), "equal0": dict(tmpl=tnext, revision=0),
                  "unselected": dict(tmpl=tnext, revision=rev + 1, sel=False), "older": dict(tmpl=tnext, revision=rev + 1)}[kind]
            t, rv = kw.pop("tmpl"), kw.pop("revision")
            if kind == "older":
                # an older revision with the wanted name: put a newer one on top
                sets.append(dl.mk_dset(ctx, name, uid, t, rv, hash=name, prev=[s["name"] for s in sets if s["sel"]], conds=[AV_T(1)], **kw))
                uid += 1
                other = ctx.x(0)
                sets.append(dl.mk_dset(ctx, other, uid, tother, rv + 1, hash=other, prev=[s["name"] for s in sets if s["sel"]], conds=[AV_T(1), SUCC(1)]))
                rev = rv + 1
            else:
                sets.append(dl.mk_dset(ctx, name, uid, t, rv, hash=r.choice([name, name, None]),
                                       prev=[s["name"] for s in sets if s["sel"]] if kw.get("sel", True) else [], **kw))
                rev = max(rev, rv)
            uid += 1
    # at most one ObjectSet without a revision; it names all others
    zero = [s for s in sets if s["revision"] == 0 and s["sel"]]
    for z in zero:
        z["prev"] = [s["name"] for s in sets if s["sel"] and s is not z and s["revision"] != 0]
    # members
    store, ouid = [], 7
    for s in sets:
        if r.random() < 0.6:
            for k in s["ctrlof"]:
                if not any(o["gk"] == k["gk"] and o["name"] == k["name"] for o in store):
                    o = pl.mk_obj(k["gk"], k["ns"] or 1, k["name"], ouid, ouid + 1, rev=s["revision"], avail=r.choice([0, 1, 1, 2]))
                    o["owners"] = [[2 if ctx.cluster else 1, s["name"], s["uid"], 1]]
                    store.append(o)
                    ouid += 2
    cur_t, steps = t0, []
    pool = [s["name"] for s in sets]
    for _ in range(r.randint(3, 14)):
        x = r.random()
        likely = [ctx.h(t, c) for t in (cur_t,) if t != 4 for c in (None, 1, 2)]
        if x < 0.38:
            st = {"op": "dep"}
            if r.random() < 0.2:
                st["stale"] = True
            if r.random() < 0.15:
                st["fault"] = [r.randint(0, 7), r.choice(["err", "lost"])]
            steps.append(st)
        elif x < 0.62:
            steps.append({"op": "set", "name": r.choice(likely + likely + pool) if likely + pool else ctx.x(3)})
        elif x < 0.74:
            cur_t = r.choice([1, 2, 3, cur_t, 4 if r.random() < 0.3 else cur_t])
            steps.append({"op": "edit", "tmpl": cur_t})
        elif x < 0.80:
            steps.append({"op": "pause", "v": r.random() < 0.6})
        elif x < 0.84:
            steps.append({"op": "limit", "limit": r.choice([None, 0, 1, 2, 10, -1])})
        elif x < 0.93:
            n = r.choice(likely + pool) if likely + pool else ctx.x(3)
            g = r.choice([1, 1, 2, 3])
            conds = r.choice([[AV_T(g)], [AV_T(g), SUCC(g)], [AV_F(g)], [AV_T(g), PAUSED(g)], [AV_F(g), PAUSED(g)], [PAUSED(g)], []])
            steps.append({"op": "stat", "name": n, "conds": conds, "ctrlof": r.choice([[], keys_of(ctx, r.choice([1, 2, 3]), ns)[:r.choice([1, 2])]])})
        else:
            steps.append({"op": "member", "key": {"gk": 2, "ns": 1, "name": r.choice([3, 4])}, "avail": r.choice([0, 1, 2])})
    if not any(s["op"] == "dep" for s in steps):
        steps.append({"op": "dep"})
    return dl.scenario(ctx, dep, sets, steps, store=store)


def histories(seed, n, salt="C07"):
    r = vlib.rng(seed, salt)
    ctxs = [dl.Ctx(dl.ALPHABET, cluster=False), dl.Ctx(dl.ALPHABET, cluster=True)]
    out = []
    for _ in range(n):
        ctx = ctxs[1] if r.random() < 0.15 else ctxs[0]
        out.append((ctx, gen_history(r, ctx)))
    return out


# ---------------------------------------------------------------- C08 kernel

# state of a previous revision: (available, lifecycle/paused state, controllerOf pattern)
PSTATES = ["active", "specpaused", "paused", "archived"]
COPATS = ["nil", "empty", "own", "shared"]
LIMITS = [None, 0, 1, 2, 10]


def kernel_set(ctx, i, tmpl, nxt, avail, pstate, copat, names, ns):
    g = 2
    conds = [AV_T(g)] if avail else [AV_F(g)]
    life = {"active": 0, "specpaused": 1, "paused": 1, "archived": 2}[pstate]
    if pstate == "paused":
        conds.append(PAUSED(g))
    own = keys_of(ctx, tmpl, ns)
    nxt_keys = keys_of(ctx, nxt, ns) if nxt else []
    shared = [k for k in own if k in nxt_keys]
    only = [k for k in own if k not in nxt_keys]
    ctrlof = {"nil": [], "empty": [], "own": only, "shared": shared + only[:1]}[copat]
    return dl.mk_dset(ctx, names[i], 101 + i, tmpl, i + 1, hash=names[i], gen=g, conds=conds, life=life, prev=names[:i],
                      ctrlof=ctrlof, ctrlset=(copat == "empty"))


def kernel_cases(maxlen, tmpl_orders, limit_mode="cycle", minlen=1, cluster=False, newest_succ=False):
    ctx = dl.Ctx(dl.ALPHABET, cluster=cluster)
    ns = 0 if cluster else 1
    out, idx = [], 0
    for k in range(minlen, maxlen + 1):
        prev_space = list(itertools.product([False, True], PSTATES, COPATS))
        for order in tmpl_orders:
            tm = [order[i % len(order)] for i in range(k)]
            names, seen = [], {}
            for i, t in enumerate(tm):
                cc = seen.get(t)
                names.append(ctx.h(t, cc))
                seen[t] = 1 if cc is None else cc + 1
            for combo in itertools.product(*([prev_space] * (k - 1))):
                for avail_new in (False, True):
                    sets = [kernel_set(ctx, i, tm[i], tm[i + 1], combo[i][0], combo[i][1], combo[i][2], names, ns) for i in range(k - 1)]
                    sets.append(kernel_set(ctx, k - 1, tm[-1], None, avail_new, "active", "own", names, ns))
                    if newest_succ:
                        # the sticky Succeeded of a revision that was Available once says nothing about now
                        sets[-1]["conds"].append(SUCC(2))
                    cc_dep = None
                    # the deployment's collision count is the one the newest name was made with
                    for (t, c), h in ctx.hashes.items():
                        if ctx.rank[h] == names[-1] and t == tm[-1] - 1:
                            cc_dep = c
                    lims = LIMITS if (limit_mode == "all" or (k <= 2 and limit_mode != "one")) else [LIMITS[idx % len(LIMITS)]]
                    for lim in lims:
                        dep = dl.mk_dep(ctx, tm[-1], limit=lim, cc=cc_dep)
                        out.append((ctx, dl.scenario(ctx, dep, sets, [{"op": "dep"}])))
                    idx += 1
    return out


def kernel(seed, tier):
    if tier == "quick":
        return kernel_cases(3, [(1, 2, 3)]) + kernel_cases(2, [(1, 5), (2, 6), (5, 1)]) + kernel_cases(2, [(1, 7), (7, 1)], "one", minlen=2) + \
            [p for i, p in enumerate(kernel_cases(3, [(1, 5, 6)])) if len(p[1]["sets"]) == 3 and i % 8 == 0] + \
            [p for i, p in enumerate(kernel_cases(3, [(1, 7, 3), (1, 2, 7)], minlen=3)) if i % 16 == 0] + succ_cases()
    return kernel_cases(3, [(1, 2, 3)], "all") + kernel_cases(3, [(1, 5, 6), (2, 1, 2), (3, 2, 1), (2, 6, 5), (1, 7, 3), (1, 2, 7)]) + kernel4() + succ_cases()


def succ_cases():
    """chains of 2 whose newest revision carries Succeeded=True next to its Available condition, both flavours"""
    return kernel_cases(2, [(1, 2)], "one", minlen=2, cluster=False, newest_succ=True) + \
        kernel_cases(2, [(1, 2)], "one", minlen=2, cluster=True, newest_succ=True)


def kernel4():
    """chains of 4: the two oldest revisions range over the full state space, the third over a reduced one"""
    return [p for p in kernel_cases(4, [(1, 2, 3, 1)]) if len(p[1]["sets"]) == 4]
