"""C12: dynamic cache - one informer per watched kind, released with its last owner.

Theorems: coq/props/C12.v (model coq/theories/Cache.v of internal/dynamiccache/cache.go, both the code
as it is and the repair candidate Cache_fixed).  Correspondence: the REAL dynamiccache.Cache, wired to a
scripted informer map and real cache sources, is driven through operation sequences with adversarial
outcomes; every (sequence, observation) is judged by C12Corr.judge = (agree with model of current code,
agree with Cache_fixed, 4 monitor clauses).

 * corpus, all sequences up to length 2, seeded random sequences up to length 40: judged inside Coq
   (vm_compute) through vlib.judge_cases;
 * all sequences of length 4 (quick) / 5 (thorough) over 2 owners x 2 kinds x outcomes (28 operations):
   the harness prints observation trees, the same Coq function `judge`, extracted to OCaml, evaluates
   every leaf natively; every class of verdicts that is not "fine" is re-run and confirmed inside Coq,
   and a random sample of leaves is evaluated both ways and compared;
 * thorough: concurrent callers on one Cache under a -race build.

Which model `agree` uses is decided by the implementation's behaviour on the F-C12 witness sequence."""
import json
import os
import shutil
import subprocess
import time
from concurrent.futures import ThreadPoolExecutor

import vlib
from vlib import cN, cB, cL, cP, cO

IMPORTS = "From PKO Require Import Cache.\nFrom PKOCorr Require Import C12Corr."
IDENT_FC12 = ("C12 owner reference recorded before failed informer start "
              "(Watch after failed Watch skips informer+handlers)")
CLAUSES = ("refs", "started", "stopped", "read")

# ---------------------------------------------------------------- scenarios


def W(o, g, out="ok", k=0):
    d = {"op": "watch", "o": o, "g": g, "out": out}
    if out == "hf":
        d["k"] = k
    return d


def F(o, out="ok"):
    return {"op": "free", "o": o, "out": out}


def G(g):
    return {"op": "get", "g": g}


def L(g):
    return {"op": "list", "g": g}


def O(g):
    return {"op": "owners", "g": g}


WITNESS = [W(0, 0, "get"), W(0, 0), G(0)]


def alphabet(owners=2, kinds=2, handlers=2, with_owners_op=False):
    a = []
    for o in range(owners):
        for g in range(kinds):
            a.append(W(o, g))
            a.append(W(o, g, "get"))
            a.append(W(o, g, "sync"))
            for k in range(handlers):
                a.append(W(o, g, "hf", k))
    for o in range(owners):
        a.append(F(o))
        a.append(F(o, "del"))
    for g in range(kinds):
        a.append(G(g))
        a.append(L(g))
        if with_owners_op:
            a.append(O(g))
    return a


def scen(ops, handlers=2, kinds=2):
    return {"handlers": handlers, "kinds": kinds, "ops": ops}


def corpus():
    c = [
        WITNESS,
        [W(0, 0, "get"), W(1, 0), L(0), O(0)],                       # another owner runs into the stale entry
        [W(0, 0, "sync"), W(0, 0), G(0)],                             # informer started, Get failed
        [W(0, 0, "hf", 0), W(0, 0), G(0)],
        [W(0, 0, "hf", 1), W(1, 0), L(0)],                            # half the handlers
        [W(0, 0, "get"), F(0), W(0, 0), G(0), O(0)],                  # Free repairs it
        [W(0, 0), W(0, 0), W(0, 0, "get"), O(0), G(0)],               # idempotent, failure not consulted
        [W(0, 0), W(1, 0), F(0), G(0), O(0), F(1), G(0), O(0)],       # last owner releases
        [W(0, 0), W(0, 1), W(1, 1), F(0), G(0), G(1), L(1), F(1), L(1)],
        [G(0), L(1), O(0), F(0), F(1, "del")],                        # nothing watched
        [W(0, 0), F(0, "del"), O(0), G(0), W(1, 0), O(0), F(1), O(0), G(0)],   # stuck informer
        [W(0, 0), W(0, 1), F(0, "del"), O(0), O(1), F(0), O(0), O(1)],         # Free stops half-way (map order)
        [W(0, 0), F(0), W(0, 0), F(0), W(0, 0, "get"), F(0), G(0)],
        [W(0, 0, "hf", 2), G(0), O(0)],                               # failing call index beyond the handlers
        [W(0, 0), W(1, 1), F(0, "del"), F(1, "del"), W(0, 1), W(1, 0), F(0), F(1), O(0), O(1)],
    ]
    out = [scen(x) for x in c]
    out.append(scen([W(0, 2), W(1, 2, "get"), W(2, 2), G(2), F(0), F(2), F(1), L(2), O(2)], handlers=3, kinds=3))
    out.append(scen([W(0, 0), G(0), F(0), G(0)], handlers=0, kinds=1))
    out.append(scen([W(2, 1, "sync"), L(1), W(0, 1), F(2), O(1), F(0), O(1)], handlers=1, kinds=3))
    return out


def random_scenarios(r, n, maxlen):
    out = []
    for _ in range(n):
        owners = r.choice([2, 2, 3])
        kinds = r.choice([2, 2, 3])
        handlers = r.choice([1, 2, 2, 3])
        pfail = r.choice([0.0, 0.1, 0.1, 0.3])
        ln = r.randint(3, maxlen)
        ops = []
        for _ in range(ln):
            x = r.random()
            if x < 0.4:
                out_ = "ok"
                if r.random() < pfail:
                    out_ = r.choice(["get", "sync", "hf", "hf"])
                ops.append(W(r.randrange(owners), r.randrange(kinds), out_, r.randrange(handlers + 1)))
            elif x < 0.6:
                ops.append(F(r.randrange(owners), "del" if r.random() < pfail / 2 else "ok"))
            elif x < 0.75:
                ops.append(G(r.randrange(kinds)))
            elif x < 0.9:
                ops.append(L(r.randrange(kinds)))
            else:
                ops.append(O(r.randrange(kinds)))
        out.append(scen(ops, handlers, kinds))
    return out


# ---------------------------------------------------------------- Coq terms

OUTS = {"ok": "ok", "": "ok", "get": "informer_get_fails", "sync": "informer_sync_fails", "del": "informer_delete_fails"}
ERRS = {"none": "ErrNone", "notstarted": "ErrNotStarted", "get": "ErrInformerGet", "handler": "ErrHandler",
        "delete": "ErrDelete"}


def c_out(op):
    if op.get("out") == "hf":
        return "(handler_registration_fails %s)" % cN(op.get("k", 0))
    return OUTS[op.get("out", "ok")]


def c_op(op):
    t = op["op"]
    if t == "watch":
        return "Watch %s %s %s" % (cN(op["o"]), cN(op["g"]), c_out(op))
    if t == "free":
        return "Free %s %s []" % (cN(op["o"]), c_out(op))
    return {"get": "Get %s", "list": "List %s", "owners": "OwnersForGKV %s"}[t] % cN(op["g"])


def c_event(e):
    t = e["t"]
    if t == "get":
        return "EGet %s %s" % (cN(e["g"]), cB(e["ok"]))
    if t == "start":
        return "EStart %s" % cN(e["g"])
    if t == "add":
        return "EAdd %s %s %s" % (cN(e["g"]), cN(e["h"]), cB(e["ok"]))
    if t == "delete":
        return "EDelete %s %s" % (cN(e["g"]), cB(e["ok"]))
    return "EStop %s" % cN(e["g"])


def c_owners(l):
    return cO(None if l is None else cL([cN(x) for x in l]))


def c_obs(o):
    res = None
    if o.get("res") is not None:
        res = c_owners(None if o["res"]["nil"] else o["res"]["owners"])
    snap = cL([cP(cN(g), c_owners(s)) for g, s in enumerate(o["snap"])])
    return "Obs %s %s %s %s" % (ERRS[o["err"]], cL([c_event(e) for e in o["ev"] or []]), cO(res), snap)


def term(sc, obs):
    steps = cL([cP(c_op(op), c_obs(o)) for op, o in zip(sc["ops"], obs["steps"])])
    return cP(cL([cN(h) for h in range(sc["handlers"])]), cL([cN(g) for g in range(sc["kinds"])]), steps)


def has_start_failure(ops):
    return any(op["op"] == "watch" and op.get("out") in ("get", "sync", "hf") for op in ops)


def signature(sc, obs):
    return tuple((op["op"], op.get("out", ""), o["err"], len(o["ev"] or [])) for op, o in zip(sc["ops"], obs["steps"]))


def nontrivial(sc, obs):
    """some Watch reported success and a later Free/Get/List reached the cache"""
    seen = False
    for op, o in zip(sc["ops"], obs["steps"]):
        if op["op"] == "watch" and o["err"] == "none":
            seen = True
        elif seen and op["op"] in ("free", "get", "list"):
            return True
    return False


# ---------------------------------------------------------------- verdicts

def classify(verdict, sf, fixed_mode):
    """verdict = (agree_current, agree_fixed, refs, started, stopped, read).
    Returns None (fine) or (identity, concrete)."""
    a_cur, a_fix = verdict[0], verdict[1]
    mon = verdict[2:]
    if all(mon):
        if a_fix if fixed_mode else a_cur:
            return None
        return ("corr:C12/model (%s) and implementation differ" % ("Cache_fixed" if fixed_mode else "current code"), False)
    failed = [c for c, b in zip(CLAUSES, mon) if not b]
    if failed == ["started"] and sf and a_cur:
        # exactly the behaviour of the faithful model of the unrepaired code; by C12_monitor_sound that
        # model fails the monitor only through a failed informer start
        return (IDENT_FC12, True)
    return ("C12 dynamic cache breaks clause(s) %s" % "+".join(failed), True)


# ---------------------------------------------------------------- extracted judge for the big sweeps

def build_native_judge():
    """Extracts C12Corr.judge to OCaml (no Extract directives) and links it with harness/ocaml/c12_driver.ml.
    Returns (path or None, log)."""
    d = os.path.join(vlib.BUILD, "C12", "extract")
    with vlib.Lock("c12judge.lock"):
        os.makedirs(d, exist_ok=True)
        with open(os.path.join(d, "Extract.v"), "w") as f:
            f.write("From PKOCorr Require Import C12Corr.\nRequire Extraction.\nExtraction Language OCaml.\n"
                    'Extraction "c12judge.ml" judge.\n')
        args = ["-Q", os.path.join(vlib.COQ, "theories"), "PKO", "-Q", os.path.join(vlib.COQ, "corr"), "PKOCorr"]
        p = subprocess.run(["timeout", "600", "coqc"] + args + ["Extract.v"], cwd=d, stdout=subprocess.PIPE,
                           stderr=subprocess.STDOUT, text=True)
        if p.returncode != 0:
            return None, p.stdout
        shutil.copy(os.path.join(vlib.VERIF, "harness", "ocaml", "c12_driver.ml"), os.path.join(d, "c12_driver.ml"))
        exe = os.path.join(d, "c12judge")
        q = subprocess.run(["ocamlfind", "ocamlopt", "-package", "str", "-linkpkg", "-unsafe", "-inline", "200",
                            "c12judge.mli", "c12judge.ml", "c12_driver.ml", "-o", exe], cwd=d,
                           stdout=subprocess.PIPE, stderr=subprocess.STDOUT, text=True)
        if q.returncode != 0:
            return None, q.stdout
        return exe, p.stdout + q.stdout


def run_trees(exe, trees, par=16, tag="sweep"):
    """Pipes tree scenarios through `harness cachetree | c12judge`. Returns per tree either
    {"leaves": n, "classes": {key: (count, path)}} or {"error": msg}."""
    n = len(trees)
    if n == 0:
        return []
    par = max(1, min(par, n))
    d = os.path.join(vlib.BUILD, "C12")
    os.makedirs(d, exist_ok=True)
    chunks = [trees[i::par] for i in range(par)]

    def run(i):
        path = os.path.join(d, "%s_%d_%d.jsonl" % (tag, os.getpid(), i))
        with open(path, "w") as f:
            for t in chunks[i]:
                f.write(json.dumps(t) + "\n")
        p = subprocess.run(["bash", "-c", 'set -o pipefail; timeout 3000 "$0" cachetree < "$1" | "$2"',
                            vlib.HARNESS, path, exe], stdout=subprocess.PIPE, stderr=subprocess.PIPE, text=True,
                           env=vlib.go_env())
        os.remove(path)
        lines = [l for l in p.stdout.split("\n") if l.strip()]
        res = []
        for l in lines:
            if l.startswith("T "):
                parts = l.split()
                cl = {}
                for c in parts[2:]:
                    key, cnt, pth, ob = c.split(":")
                    cl[key] = (int(cnt), [] if pth == "-" else [int(x) for x in pth.split(".")],
                               [int(x) for x in ob.split(",")] if ob else [])
                res.append({"leaves": int(parts[1]), "classes": cl})
            else:
                res.append({"error": l[:500]})
        while len(res) < len(chunks[i]):
            res.append({"error": "pipeline died rc=%d %s" % (p.returncode, p.stderr[-1500:])})
        return res

    with ThreadPoolExecutor(max_workers=par) as ex:
        outs = list(ex.map(run, range(par)))
    res = [None] * n
    for k, o in enumerate(outs):
        for j, r in enumerate(o):
            res[k + j * par] = r
    return res


def key_verdict(key):
    bits, sf = key.split("/")
    return tuple(b == "1" for b in bits), sf == "1"


# the integer encoding shared by mode_cache.go (encOp/encObs) and c12_driver.ml
OP_TAGS = {"watch": 0, "free": 1, "get": 2, "list": 3, "owners": 4}
OUT_TAGS = {"": 0, "ok": 0, "get": 1, "sync": 2, "hf": 3, "del": 4}
ERR_TAGS = ["none", "notstarted", "get", "handler", "delete"]
EV_TAGS = ["get", "start", "add", "delete", "stop"]


def enc_op(op):
    return [OP_TAGS[op["op"]], op.get("o", 0), op.get("g", 0), OUT_TAGS[op.get("out", "ok")], op.get("k", 0)]


def enc_obs(o):
    w = [ERR_TAGS.index(o["err"]), len(o["ev"] or [])]
    for e in o["ev"] or []:
        w += [EV_TAGS.index(e["t"]), e["g"], e.get("h", 0), 1 if e["ok"] else 0]
    res = o.get("res")
    if res is None:
        w.append(0)
    elif res["nil"]:
        w.append(1)
    else:
        w += [2 + len(res["owners"])] + list(res["owners"])
    for sn in o["snap"]:
        w += [0] if sn is None else [1 + len(sn)] + list(sn)
    return w


def enc_case(sc, obs):
    """a depth-0 tree whose prefix is the whole sequence, in the format `harness cachetree` prints"""
    w = [sc["handlers"], sc["kinds"], len(sc["ops"])]
    for op in sc["ops"]:
        w += enc_op(op)
    w += [0, 0]
    for o in obs["steps"]:
        w += enc_obs(o)
    return json.dumps({"obs": " ".join(str(x) for x in w)}, separators=(",", ":"))


def dec_obs_list(ints, kinds, n):
    pos = [0]

    def nx():
        pos[0] += 1
        return ints[pos[0] - 1]
    steps = []
    for _ in range(n):
        err = ERR_TAGS[nx()]
        evs = []
        for _ in range(nx()):
            t, g, h, ok = EV_TAGS[nx()], nx(), nx(), nx() == 1
            evs.append({"t": t, "g": g, "h": h, "ok": ok})
        o = {"err": err, "ev": evs}
        rr = nx()
        if rr == 1:
            o["res"] = {"nil": True, "owners": []}
        elif rr >= 2:
            o["res"] = {"nil": False, "owners": [nx() for _ in range(rr - 2)]}
        snap = []
        for _ in range(kinds):
            k = nx()
            snap.append(None if k == 0 else [nx() for _ in range(k - 1)])
        o["snap"] = snap
        steps.append(o)
    assert pos[0] == len(ints), "trailing integers in example observation"
    return {"steps": steps}


def run_native(exe, lines):
    """Feeds already encoded trees to the extracted judge. Returns the verdict key of each (depth-0) tree."""
    p = subprocess.run([exe], input="\n".join(lines) + "\n", stdout=subprocess.PIPE, stderr=subprocess.PIPE, text=True)
    out = []
    for l in p.stdout.split("\n"):
        if l.startswith("T "):
            out.append(l.split()[2].split(":")[0])
        elif l.strip():
            out.append(None)
    while len(out) < len(lines):
        out.append(None)
    return out


# ---------------------------------------------------------------- overlapping calls (linearizability)

def state_key(obs):
    """final owner sets + running informers (with handlers) of a flat run, from its observations"""
    if not obs["steps"]:
        return ("init",)
    infs = {}
    for st in obs["steps"]:
        for e in st["ev"] or []:
            if e["t"] == "start":
                infs[e["g"]] = []
            elif e["t"] == "stop":
                infs.pop(e["g"], None)
            elif e["t"] == "add" and e["ok"] and e["g"] in infs:
                infs[e["g"]].append(e["h"])
    snap = obs["steps"][-1]["snap"]
    return (json.dumps(snap), json.dumps(sorted(infs.items())))


def prefixes_upto(letters, n):
    out = [[]]
    last = [[]]
    for _ in range(n):
        last = [p + [x] for p in last for x in letters]
        out += last
    return out


def overlap_scenarios(run, r, tier):
    """pairs (quick) / pairs + sampled triples (thorough) of overlapping calls from every distinct state a
    prefix of state-changing operations reaches"""
    p6 = [W(o, g) for o in range(2) for g in range(2)] + [F(0), F(1)]
    pres = prefixes_upto(p6, 2 if tier == "quick" else 4)
    outs = vlib.run_harness("cache", [scen(p) for p in pres], par=8)
    states = {}
    for p, o in zip(pres, outs):
        if "obs" not in o:
            run.violation("corr:C12/harness error", {"correspondence": "harness", "scenario": scen(p), "out": o}, False)
            continue
        states.setdefault(state_key(o["obs"]), p)          # shortest prefix first
    reps = list(states.values())
    a_ops = [x for x in alphabet(with_owners_op=True) if x.get("out") != "del"]
    b_ops = [x for x in alphabet(with_owners_op=True) if x.get("out", "ok") == "ok"]
    # how many informer-map / informer calls does A make from each state?  (sequential probe)
    probes = [(p, a) for p in reps for a in a_ops]
    pouts = vlib.run_harness("cache", [scen(p + [a]) for p, a in probes], par=8)
    scs = []
    for (p, a), o in zip(probes, pouts):
        if "obs" not in o:
            continue
        ncalls = sum(1 for e in o["obs"]["steps"][-1]["ev"] or [] if e["t"] in ("get", "delete", "add"))
        for k in range(ncalls):
            for when in ("pre", "post"):
                for b in b_ops:
                    scs.append({"handlers": 2, "kinds": 2, "prefix": p, "calls": [a, b], "hook_call": k, "hook_when": when})
                if tier == "thorough":
                    for _ in range(12):
                        scs.append({"handlers": 2, "kinds": 2, "prefix": p, "calls": [a, r.choice(b_ops), r.choice(b_ops)],
                                    "hook_call": k, "hook_when": when})
    return scs, len(reps)


def c_cobs(o):
    res = None
    if o.get("res") is not None:
        res = c_owners(None if o["res"]["nil"] else o["res"]["owners"])
    return "CObs %s %s %s" % (ERRS[o["err"]], cL([c_event(e) for e in o["ev"] or []]), cO(res))


def lin_term(sc, obs):
    pre = cL([cP(c_op(op), c_obs(o)) for op, o in zip(sc["prefix"], obs["pre"])])
    calls = cL([cP(c_op(op), c_cobs(o)) for op, o in zip(sc["calls"], obs["calls"])])
    snap = cL([cP(cN(g), c_owners(x)) for g, x in enumerate(obs["snap"])])
    infs = cL([cP(cN(g), c_owners(x)) for g, x in enumerate(obs["informers"])])
    return "(%s : lin_case)" % cP(cL([cN(h) for h in range(sc["handlers"])]), cL([cN(g) for g in range(sc["kinds"])]),
                                  pre, calls, snap, infs)


def pair_name(sc):
    return "%s overlapped by %s" % (sc["calls"][0]["op"], "+".join(c["op"] for c in sc["calls"][1:]))


def check_overlap(run, scs, fixed_mode):
    """Runs overlapping-call scenarios on the real Cache and judges them by linearizability inside Coq."""
    outs = vlib.run_harness("cacheoverlap", scs, par=16)
    terms, idx = [], []
    stats = {"cases": 0, "others_returned_inside_window": 0, "others_blocked_until_A_returned": 0, "hook_not_reached": 0}
    for i, (sc, o) in enumerate(zip(scs, outs)):
        if "obs" not in o:
            run.violation("corr:C12/harness error", {"correspondence": "harness (cacheoverlap)", "scenario": sc, "out": o}, False)
            continue
        ob = o["obs"]
        if ob["hung"]:
            run.violation("C12 overlapping calls deadlock (%s)" % pair_name(sc), {"scenario": sc, "impl": ob}, True)
            continue
        errs = [c["err"] for c in ob["calls"]] + [st["err"] for st in ob["pre"]]
        if any(e not in ERRS for e in errs):
            run.violation("corr:C12/unexpected error class", {"correspondence": "error classes", "scenario": sc, "impl": ob}, False)
            continue
        stats["cases"] += 1
        if not ob["fired"]:
            stats["hook_not_reached"] += 1
        for c in ob["calls"][1:]:
            stats["others_returned_inside_window" if c["inside"] else "others_blocked_until_A_returned"] += 1
        terms.append(lin_term(sc, ob))
        idx.append(i)
    res, logs = vlib.judge_cases("C12", IMPORTS, "judge_lin", terms, 3, shard=200, tag="lin")
    for l in logs:
        run.violation("corr:C12/coq-eval", {"correspondence": "coq evaluation failed", "log": l}, False)
    for i, v in zip(idx, res):
        if v is None:
            continue
        sc, ob = scs[i], outs[i]["obs"]
        lin_cur, lin_fix, mon = v
        lin = lin_fix if fixed_mode else lin_cur
        rep = {"scenario": sc, "impl": ob, "judge_lin(lin_agree_current,lin_agree_fixed,final_state_monitor)": list(v)}
        if not mon:
            if lin_cur and has_start_failure(sc["calls"]):
                run.violation(IDENT_FC12, rep, True)
            else:
                run.violation("C12 overlapping calls leave an informer without owner or an owner without complete "
                              "informer (%s)" % pair_name(sc), rep, True)
        elif not lin:
            rep["correspondence"] = "C12Corr.lin_agree"
            run.violation("corr:C12/overlapping calls not linearizable (%s)" % pair_name(sc), rep, False)
        if len(sc["calls"]) >= 2 and any(c["inside"] for c in ob["calls"][1:]):
            run.classes.add(("overlap", sc["calls"][0]["op"], sc["calls"][0].get("out", ""), sc["hook_call"], sc["hook_when"],
                             tuple(c["op"] for c in sc["calls"][1:]), tuple(c["err"] for c in ob["calls"])))
    run.cov["evaluations"] += stats["cases"]
    return stats


# ---------------------------------------------------------------- the controllers' owner-deletion helper

PATCHES = {"ok": "patch_ok", "notfound": "patch_not_found", "conflict": "patch_conflict", "internal": "patch_internal_error",
           "lost": "patch_lost_response"}
RETS = {"nil": "RetNil", "free": "RetFreeErr", "patch": "RetPatchErr"}


def FIN(o, patch="ok", fin=True, out="ok"):
    return {"op": "finalize", "o": o, "patch": patch, "fin": fin, "out": out}


def ENS(o, patch="ok", fin=False):
    return {"op": "ensure", "o": o, "patch": patch, "fin": fin}


def fin_scenarios(r, tier):
    """the real FreeCacheAndRemoveFinalizer for owners with 1..n watched kinds, sharing kinds with other owners,
    every answer to the finalizer patch, then reads / retries / another watcher"""
    pres = [[W(0, 0)], [W(0, 0), W(0, 1)], [W(0, 0), W(1, 0)], [W(0, 0), W(0, 1), W(1, 0)], [W(0, 0), W(0, 1), W(1, 1), W(1, 0)],
            [W(1, 1)], [W(0, 0), W(0, 1), W(0, 2), W(1, 2)]]
    tails = [[G(0), L(1), O(0)], [FIN(0), G(0)], [W(1, 0), FIN(1), L(0)]]
    out = []
    for pre in pres:
        for patch in PATCHES:
            for fin in (True, False):
                if not fin and patch != "ok":
                    continue
                for tail in tails:
                    out.append(scen([ENS(0, fin=False)] + pre + [FIN(0, patch, fin)] + tail, 2, 3))
        out.append(scen(pre + [FIN(0, "ok", True, "del"), O(0), FIN(0, "notfound", True), O(0), G(0)], 2, 3))
        out.append(scen([ENS(0, "conflict"), ENS(0, "ok"), ENS(0, fin=True)] + pre + [FIN(0, "lost"), FIN(1, "internal"), FIN(1)], 2, 3))
    for _ in range(0 if tier == "quick" else 300):
        ops = []
        for _ in range(r.randint(3, 10)):
            x = r.random()
            if x < 0.45:
                ops.append(W(r.randrange(3), r.randrange(3), r.choice(["ok", "ok", "ok", "get", "hf"]), r.randrange(3)))
            elif x < 0.7:
                ops.append(FIN(r.randrange(3), r.choice(list(PATCHES)), r.random() < 0.85, "del" if r.random() < 0.1 else "ok"))
            elif x < 0.8:
                ops.append(ENS(r.randrange(3), r.choice(list(PATCHES)), r.random() < 0.3))
            else:
                ops.append(r.choice([G, L, O])(r.randrange(3)))
        out.append(scen(ops, 2, 3))
    return out


def fin_term(sc, obs):
    steps = []
    for op, o in zip(sc["ops"], obs["steps"]):
        sent, ret = cB(bool(o.get("sent"))), RETS.get(o.get("ret") or "nil")
        if op["op"] == "finalize":
            fop = "FFinalize %s %s %s %s" % (cN(op["o"]), c_out(op), cB(op["fin"]), PATCHES[op["patch"]])
        elif op["op"] == "ensure":
            fop = "FEnsure %s %s %s" % (cN(op["o"]), cB(op["fin"]), PATCHES[op["patch"]])
        else:
            fop = "FOp (%s)" % c_op(op)
        steps.append(cP(fop, "FObs (%s) %s %s" % (c_obs(o), sent, ret)))
    return "(%s : fin_case)" % cP(cL([cN(h) for h in range(sc["handlers"])]), cL([cN(g) for g in range(sc["kinds"])]), cL(steps))


def check_fin(run, scs, fixed_mode):
    outs = vlib.run_harness("cache", scs, par=8)
    terms, idx = [], []
    for i, (sc, o) in enumerate(zip(scs, outs)):
        if "obs" not in o:
            run.violation("corr:C12/harness error", {"correspondence": "harness (finalizer helper)", "scenario": sc, "out": o}, False)
            continue
        if any(st["err"] not in ERRS for st in o["obs"]["steps"]):
            run.violation("corr:C12/unexpected error class", {"correspondence": "error classes", "scenario": sc, "impl": o["obs"]}, False)
            continue
        terms.append(fin_term(sc, o["obs"]))
        idx.append(i)
    res, logs = vlib.judge_cases("C12", IMPORTS, "judge_fin", terms, 6, shard=60, tag="fin")
    for l in logs:
        run.violation("corr:C12/coq-eval", {"correspondence": "coq evaluation failed", "log": l}, False)
    n = 0
    for i, v in zip(idx, res):
        if v is None:
            continue
        n += 1
        sc, ob = scs[i], outs[i]["obs"]
        c = classify(v, has_start_failure(sc["ops"]), fixed_mode)
        if c is not None:
            ident, concrete = c
            if concrete and ident != IDENT_FC12:
                ident = "C12 owner deletion (FreeCacheAndRemoveFinalizer) leaves the owner's watches or informers behind: clause(s) " + \
                        "+".join(cl for cl, b in zip(CLAUSES, v[2:]) if not b)
            rep = {"scenario": sc, "impl": ob, "judge_fin(agree_current,agree_fixed,refs,started,stopped,read)": list(v)}
            if not concrete:
                rep["correspondence"] = "C12Corr.agree_fin"
            run.violation(ident, rep, concrete)
        run.classes.add(("fin",) + tuple((op["op"], op.get("patch", ""), op.get("fin", ""), o["err"], len(o["ev"] or []), o.get("ret", ""))
                                         for op, o in zip(sc["ops"], ob["steps"])))
    run.cov["evaluations"] += n
    return {"scenarios": n, "helper_calls": sum(1 for s in scs for op in s["ops"] if op["op"] in ("finalize", "ensure"))}


# ---------------------------------------------------------------- the real InformerMap

IDENT_READ = ("C12 dynamic cache read of a watched kind does not return the object the informer holds "
              "(scope of the kind mis-derived)")
# kinds of the harness: 0 Secret, 1 ConfigMap, 2 Widget v1, 3 Widget v1beta1 (same kind, other version),
# 4 ClusterWidget (cluster-scoped); owners 0, 1 are namespaced, owner 2 is cluster-scoped;
# sample namespaces: 0 none, 1 "ns-a"


def RW(o, g, lst="ok", sns=1):
    return {"op": "watch", "o": o, "g": g, "list": lst, "sns": sns}


REAL_TAIL = [F(0), F(1), F(2)]   # every scenario ends with all owners freed: no stream may be left


def scope_scenarios(r, tier):
    """who watches a kind first, with what sample object: cluster-scoped kind / namespaced owner+sample and vice versa"""
    c = [
        [RW(0, 4, sns=1)],
        [RW(2, 4, sns=0), RW(0, 4, sns=1)],
        [RW(2, 1, sns=0)],
        [RW(0, 1, sns=1), RW(2, 1, sns=0), F(0)],
        [RW(0, 4, sns=1), F(0), RW(2, 4, sns=0)],
        [RW(0, 4, "hang", sns=1), RW(0, 4, sns=1), RW(2, 2, sns=0)],
    ]
    for _ in range(0 if tier == "quick" else 40):
        ops = []
        for _ in range(r.randint(2, 5)):
            if r.random() < 0.7:
                ops.append(RW(r.randrange(3), r.choice([1, 2, 4, 4]), "hang" if r.random() < 0.2 else "ok", r.randrange(2)))
            else:
                ops.append(F(r.randrange(3)))
        c.append(ops)
    return [{"handlers": 2, "kinds": 5, "ops": ops + REAL_TAIL} for ops in c]


def version_scenarios(r, tier):
    """one kind watched in two API versions by different owners"""
    c = [
        [RW(0, 2), RW(1, 3), F(0), G(3), L(3)],
        [RW(0, 3), RW(1, 2), F(1), G(2)],
        [RW(0, 2), RW(1, 3), F(1), L(2), F(0), RW(1, 3)],
        [RW(0, 2, "hang"), RW(1, 3), RW(0, 2), F(1)],
    ]
    for _ in range(0 if tier == "quick" else 30):
        ops = []
        for _ in range(r.randint(3, 6)):
            if r.random() < 0.65:
                ops.append(RW(r.randrange(3), r.choice([2, 3]), "hang" if r.random() < 0.2 else "ok", r.randrange(2)))
            else:
                ops.append(F(r.randrange(3)))
        c.append(ops)
    return [{"handlers": 2, "kinds": 5, "ops": ops + REAL_TAIL} for ops in c]


def nomatch_scenarios(r, tier):
    """a kind the RESTMapper does not know yet during the first Watch (CRD not installed), known on the retry"""
    c = [
        [RW(0, 1, "nomatch"), RW(0, 1), RW(0, 0), F(0)],
        [RW(0, 0), RW(0, 1, "nomatch"), L(1), F(0), G(0)],
        [RW(0, 1, "nomatch"), RW(1, 1, "nomatch"), RW(1, 1), G(1), F(1)],
        [RW(0, 0), RW(0, 1, "nomatch"), RW(0, 1), RW(1, 1), F(0), L(1), L(0)],
        [RW(0, 1, "nomatch"), G(1), L(1), RW(1, 1), F(1)],
    ]
    for _ in range(0 if tier == "quick" else 60):
        ops = []
        for _ in range(r.randint(3, 7)):
            x = r.random()
            if x < 0.6:
                ops.append(RW(r.randrange(2), r.randrange(2), r.choice(["ok", "ok", "nomatch", "nomatch", "hang"])))
            elif x < 0.85:
                ops.append(F(r.randrange(2)))
            else:
                ops.append(r.choice([G, L])(r.randrange(2)))
        c.append(ops)
    return [{"handlers": 2, "kinds": 2, "ops": ops + REAL_TAIL[:2]} for ops in c]


def real_scenarios(r, tier):
    c = [
        [RW(0, 0, "hang"), RW(0, 0), G(0), F(0), G(0)],
        [RW(0, 0), RW(1, 0, "hang"), F(0), L(0)],
        [RW(0, 0, "hang"), RW(1, 0, "hang"), RW(0, 0), RW(1, 0), F(0), L(0)],
        [RW(0, 0), RW(0, 1, "hang"), F(0), RW(0, 1), L(1)],
        [RW(0, 0, "hang"), F(0), RW(0, 0)],
        [RW(0, 0), RW(0, 1), RW(1, 1), F(0), L(0), L(1)],
        [G(0), RW(0, 0, "hang"), G(0), L(0), RW(1, 0)],
    ]
    letters = [RW(o, g, m) for o in range(2) for g in range(2) for m in ("ok", "hang")] + [F(0), F(1)]
    if tier == "thorough":
        c += [[x] for x in letters] + [[x, y] for x in letters for y in letters]
        c += [[RW(0, 0, "fail"), RW(0, 0)], [RW(0, 0), RW(1, 1, "fail"), RW(0, 1), F(1)], [RW(1, 0, "fail"), F(1), RW(0, 0, "hang"), RW(0, 0)]]
    for _ in range(10 if tier == "quick" else 150):
        ops = []
        for _ in range(r.randint(3, 5 if tier == "quick" else 7)):
            x = r.random()
            if x < 0.55:
                ops.append(RW(r.randrange(2), r.randrange(2), "hang" if r.random() < 0.4 else "ok"))
            elif x < 0.8:
                ops.append(F(r.randrange(2)))
            else:
                ops.append(r.choice([G, L])(r.randrange(2)))
        c.append(ops)
    return ([{"handlers": 2, "kinds": 2, "ops": ops + REAL_TAIL[:2]} for ops in c]
            + scope_scenarios(r, tier) + version_scenarios(r, tier) + nomatch_scenarios(r, tier))


def run_real(scs):
    """one harness process per scenario (they spend their time waiting), 16 at a time"""
    def run(sc):
        p = subprocess.run(["timeout", "300", vlib.HARNESS, "cachereal"], input=json.dumps(sc) + "\n", stdout=subprocess.PIPE,
                           stderr=subprocess.PIPE, text=True, env=vlib.go_env())
        for l in p.stdout.split("\n"):
            if l.strip():
                return json.loads(l)
        return {"err": "harness died rc=%d %s" % (p.returncode, p.stderr[-1500:])}
    with ThreadPoolExecutor(max_workers=16) as ex:
        return list(ex.map(run, scs))


def real_model_op(op):
    if op["op"] == "watch":
        return "Watch %s %s %s" % (cN(op["o"]), cN(op["g"]), {"hang": "informer_sync_fails", "fail": "informer_sync_fails", "nomatch": "informer_get_fails"}.get(op.get("list"), "ok"))
    return c_op(op)


def c_key(k):
    return cP(cN(k[0]), cN(k[1]))


def real_reads_wellformed(obs):
    for st in obs["steps"]:
        for g in st["gets"]:
            if g["class"] not in ("found", "notfound", "notstarted") or (g["class"] == "found" and min(g["got_ns"], g["got_n"]) < 0):
                return False
        for l in st["lists"]:
            if l["class"] not in ("ok", "notstarted") or any(min(k) < 0 for k in l["keys"]):
                return False
    return True


def real_term(sc, obs):
    steps = []
    for op, st in zip(sc["ops"], obs["steps"]):
        snap = cL([cP(cN(g), c_owners(x)) for g, x in enumerate(st["snap"])])
        streams = cL([cP(cN(g), cN(n)) for g, n in enumerate(st["streams"])])
        deliv = cL([cP(cN(g), cL([cN(h) for h in d])) for g, d in enumerate(st["delivered"])])
        gets = []
        for g in st["gets"]:
            res = {"found": lambda: cO(cO(c_key((g["got_ns"], g["got_n"])))), "notfound": lambda: cO("None"),
                   "notstarted": lambda: "None"}[g["class"]]()
            gets.append(cP(cN(g["g"]), cN(g["ns"]), cN(g["name"]), res))
        lists = []
        for l in st["lists"]:
            res = cO(cL([c_key(k) for k in l["keys"]])) if l["class"] == "ok" else "None"
            lists.append(cP(cN(l["g"]), cN(l["ns"]), res))
        steps.append(cP(real_model_op(op), "RObs %s %s %s %s %s %s" % (ERRS[st["err"]], snap, streams, deliv, cL(gets), cL(lists))))
    peaks = cL([cP(cN(g), cN(n)) for g, n in enumerate(obs["peak"])])
    scope = cL([cP(cN(g), cB(b)) for g, b in enumerate(obs["scope"])])
    store = cL([cP(cN(g), cL([c_key(k) for k in ks])) for g, ks in enumerate(obs["store"])])
    return "(%s : real_case)" % cP(cL([cN(h) for h in range(sc["handlers"])]), cL([cN(g) for g in range(sc["kinds"])]),
                                   scope, store, cL(steps), peaks)


def check_real(run, scs, fixed_mode, pid="C12", only_reads_as=None):
    """The real Cache on the real InformerMap with a fake API server; judged inside Coq (C12Corr.judge_real).
    only_reads_as: report only failures of the read-correctness clause, under that identity."""
    outs = run_real(scs)
    terms, idx = [], []
    for i, (sc, o) in enumerate(zip(scs, outs)):
        if "obs" not in o:
            run.violation("corr:%s/harness error" % pid, {"correspondence": "harness (cachereal)", "scenario": sc, "out": o}, False)
            continue
        if any(st["err"] not in ERRS for st in o["obs"]["steps"]) or not real_reads_wellformed(o["obs"]):
            run.violation("corr:%s/unexpected error class" % pid, {"correspondence": "error classes (cachereal)", "scenario": sc,
                                                                    "impl": o["obs"]}, False)
            continue
        terms.append(real_term(sc, o["obs"]))
        idx.append(i)
    res, logs = vlib.judge_cases(pid, IMPORTS, "judge_real", terms, 6, shard=20, tag="real")
    for l in logs:
        run.violation("corr:%s/coq-eval" % pid, {"correspondence": "coq evaluation failed", "log": l}, False)
    n = 0
    for i, v in zip(idx, res):
        if v is None:
            continue
        n += 1
        sc, ob = scs[i], outs[i]["obs"]
        a_cur, a_fix, streams_ok, deliv_ok, peaks_ok, reads_ok = v
        rep = {"scenario": sc, "impl": ob, "judge_real(agree_current,agree_fixed,streams,delivered,peaks,reads)": list(v)}
        if only_reads_as is not None:
            if not reads_ok:
                run.violation(only_reads_as, rep, True)
        elif not peaks_ok:
            run.violation("C12 real InformerMap: two informers of one kind run at the same time", rep, True)
        elif not streams_ok:
            missing = any(st["snap"][g] and st["streams"][g] == 0 for st in ob["steps"] for g in range(sc["kinds"]))
            run.violation("C12 real InformerMap: no informer runs for a GVK a live owner still watches" if missing else
                          "C12 real InformerMap: an informer keeps running for a kind nobody watches", rep, True)
        elif not deliv_ok:
            if a_cur and any(op.get("list") in ("hang", "fail", "nomatch") for op in sc["ops"]):
                run.violation(IDENT_FC12, rep, True)
            else:
                run.violation("C12 real InformerMap: a running informer does not deliver events to all registered handlers", rep, True)
        elif not reads_ok:
            run.violation(IDENT_READ, rep, True)
        elif not (a_fix if fixed_mode else a_cur):
            rep["correspondence"] = "C12Corr.agree_real"
            run.violation("corr:C12/real InformerMap: model and implementation differ", rep, False)
        run.classes.add(("real",) + tuple((op["op"], op.get("g", -1), op.get("list", ""), op.get("sns", -1), st["err"], tuple(st["streams"]))
                                          for op, st in zip(sc["ops"], ob["steps"])))
    run.cov["evaluations"] += n
    return {"scenarios": n, "operations": sum(len(s["ops"]) for s in scs),
            "with_hanging_or_failing_LIST_or_unknown_kind": sum(1 for s in scs if any(op.get("list") in ("hang", "fail", "nomatch") for op in s["ops"])),
            "reads_through_the_cache": sum(len(st["gets"]) + len(st["lists"]) for o in outs if "obs" in o for st in o["obs"]["steps"])}


def read_stage(run, pid, tier, seed, identity):
    """For other checks (C09): the read-correctness clause on the real Cache + real InformerMap - a Get/List of a
    watched kind returns what the informer holds, whoever watched the kind first and with whatever sample object.
    Failures are reported under `identity`; needs nothing but a built Coq development."""
    ok, blog = vlib.build_harness()
    if not ok:
        run.violation("corr:harness-build", {"correspondence": "harness no longer builds against the tree", "log": blog[-4000:]}, False)
        return None
    r = vlib.rng(seed, "C12-read-stage")
    st = check_real(run, scope_scenarios(r, tier) + version_scenarios(r, tier)[:2], True, pid=pid, only_reads_as=identity)
    run.cov["dynamic_cache_read_stage"] = st
    return st


# ---------------------------------------------------------------- concurrent callers

def race_scenarios(r, n):
    out = []
    for _ in range(n):
        kinds = r.choice([2, 3])
        progs = []
        nprog = r.choice([4, 6, 8])
        for i in range(nprog):
            own = [2 * i, 2 * i + 1]        # owners private to this caller
            ops = []
            for _ in range(r.randint(20, 60)):
                x = r.random()
                if x < 0.4:
                    ops.append(W(r.choice(own), r.randrange(kinds)))
                elif x < 0.6:
                    ops.append(F(r.choice(own)))
                elif x < 0.75:
                    ops.append(G(r.randrange(kinds)))
                elif x < 0.9:
                    ops.append(L(r.randrange(kinds)))
                else:
                    ops.append(O(r.randrange(kinds)))
            progs.append(ops)
        out.append({"handlers": 2, "kinds": kinds, "programs": progs})
    return out


def run_race(scs):
    """One process per scenario (so a race report can be attributed). Returns list of (obs|None, rc, stderr)."""
    exe = vlib.HARNESS + "-race"
    env = vlib.go_env()
    env["GORACE"] = "halt_on_error=0 exitcode=66"

    def run(sc):
        p = subprocess.run(["timeout", "600", exe, "cacherace"], input=json.dumps(sc) + "\n", stdout=subprocess.PIPE,
                           stderr=subprocess.PIPE, text=True, env=env)
        obs = None
        for l in p.stdout.split("\n"):
            if l.strip():
                obs = json.loads(l)
                break
        return obs, p.returncode, p.stderr

    with ThreadPoolExecutor(max_workers=4) as ex:
        return list(ex.map(run, scs))


def race_local_check(sc, obs):
    """Per caller (its owners are private to it): while one of its owners watches a kind - its Watch reported
    success and it has not freed that owner since - its own Get/List of that kind must not fail with
    CacheNotStartedError; and no call may fail in any other way (nothing is scripted to fail)."""
    for prog, errs in zip(sc["programs"], obs["errs"]):
        if len(errs) != len(prog):
            return ("caller stopped early", "")
        watching = {}
        for op, e in zip(prog, errs):
            if e not in ("none", "notstarted"):
                return ("unexpected error", "%s from %s" % (e, op))
            if op["op"] == "watch" and e == "none":
                watching.setdefault(op["g"], set()).add(op["o"])
            elif op["op"] == "watch":
                return ("Watch failed though nothing was scripted to fail", e)
            elif op["op"] == "free":
                for s in watching.values():
                    s.discard(op["o"])
            elif op["op"] in ("get", "list") and e == "notstarted" and watching.get(op["g"]):
                return ("read of a watched kind failed with CacheNotStartedError",
                        "%s of kind %d while owner(s) %s of the same caller watch it" % (op["op"], op["g"], sorted(watching[op["g"]])))
    for g in range(sc["kinds"]):
        running = 1 if obs["informers"][g] is not None else 0
        if obs["starts"][g] - obs["stops"][g] != running:
            return ("informer start/stop count does not match running informers",
                    "kind %d: %d started, %d stopped, %d running" % (g, obs["starts"][g], obs["stops"][g], running))
    return None


def final_term(sc, obs):
    ops = [op for prog in sc["programs"] for op in prog]        # a serialisation: callers one after the other
    snap = cL([cP(cN(g), c_owners(s)) for g, s in enumerate(obs["snap"])])
    infs = cL([cP(cN(g), c_owners(s)) for g, s in enumerate(obs["informers"])])
    return cP(cL([cN(h) for h in range(sc["handlers"])]), cL([cN(g) for g in range(sc["kinds"])]),
              cL([c_op(op) for op in ops]), snap, infs)


def check_race(run, rscs, fixed_mode):
    routs = run_race(rscs)
    fterms, fidx = [], []
    for i, (sc, (obs, rc, err)) in enumerate(zip(rscs, routs)):
        if "DATA RACE" in err or rc == 66:
            run.violation("C12 data race between concurrent cache calls",
                          {"scenario": sc, "race_report": err[-6000:]}, True)
            continue
        if obs is None or "obs" not in obs:
            run.violation("C12 concurrent cache calls crash", {"scenario": sc, "out": obs, "stderr": err[-4000:], "rc": rc}, True)
            continue
        why = race_local_check(sc, obs["obs"])
        if why:
            run.violation("C12 concurrent callers: " + why[0], {"scenario": sc, "impl": obs["obs"], "why": why[1]}, True)
            continue
        fterms.append(final_term(sc, obs["obs"]))
        fidx.append(i)
    fres, flogs = vlib.judge_cases("C12", IMPORTS, "judge_final %s" % cB(fixed_mode), fterms, 1, shard=10, tag="final")
    for l in flogs:
        run.violation("corr:C12/coq-eval", {"correspondence": "coq evaluation failed", "log": l}, False)
    for i, v in zip(fidx, fres):
        if v is not None and not v[0]:
            run.violation("C12 concurrent callers leave owner sets or informers no serial execution produces",
                          {"scenario": rscs[i], "impl": routs[i][0]["obs"]}, True)
    run.cov["race_runs"] = {"scenarios": len(rscs), "callers": sum(len(s["programs"]) for s in rscs),
                            "calls": sum(len(p) for s in rscs for p in s["programs"]),
                            "final_states_judged_in_coq": len(fterms)}
    run.cov["evaluations"] += len(rscs)


# ---------------------------------------------------------------- the check

def judge_in_coq(run, cases, tag):
    """cases: list of (scenario, observation). Returns list of (scenario, obs, verdict) for those Coq evaluated."""
    terms = [term(sc, obs) for sc, obs in cases]
    res, logs = vlib.judge_cases("C12", IMPORTS, "judge", terms, 6, shard=150, tag=tag)
    for l in logs:
        run.violation("corr:C12/coq-eval", {"correspondence": "coq evaluation failed", "log": l}, False)
    return [(sc, obs, r) for (sc, obs), r in zip(cases, res) if r is not None]


def judge_flat(run, scs, tag):
    """Runs flat scenarios on the real Cache and judges them inside Coq."""
    outs = vlib.run_harness("cache", scs, par=8)
    cases = []
    for sc, o in zip(scs, outs):
        if "obs" not in o:
            run.violation("corr:C12/harness error", {"correspondence": "harness", "scenario": sc, "out": o}, False)
            continue
        bad = [s["err"] for s in o["obs"]["steps"] if s["err"] not in ERRS]
        if bad:
            run.violation("corr:C12/unexpected error class", {"correspondence": "error classes", "scenario": sc,
                                                               "impl": o["obs"]}, False)
            continue
        cases.append((sc, o["obs"]))
    return judge_in_coq(run, cases, tag)


def check(run, tier, seed, replay=None):
    run.assumptions += [
        "atomic steps are the critical sections of informerReferencesMux; that the mutex serialises them is runtime "
        "behaviour, supported (not proved) by the concurrent -race runs of the thorough tier",
        "in the sequence sweeps and overlapping-call runs the informer map is scripted: it has the Get/Delete semantics of "
        "InformerMap (informer_map.go) and fails only when told to; the real InformerMap and real client-go informers are "
        "exercised by the cachereal stage against a fake API server (timing-based: bounded waits of 2 s for streams to "
        "open/close, 150 ms sync deadline)",
        "Cache.recorder is nil in the harness (sampleMetrics is a no-op); with a recorder, sampleMetrics lists every "
        "referenced kind after each Watch/Free and would start the handler-less informer of F-C12 even earlier",
        "informerMap.Delete failures are outside the property's quantifier (the real Delete cannot fail): a kind whose "
        "Delete failed is excused from 'no informer without owner' and 'reads fail' until it is stopped",
    ]
    vlib.std_proof_stage(run, "C12")
    ok, blog = vlib.build_harness()
    if not ok:
        run.violation("corr:harness-build", {"correspondence": "harness no longer builds against the tree", "log": blog[-4000:]}, False)
        return
    r = vlib.rng(seed, "C12")
    t0 = time.time()

    # which of the two models does the implementation follow?  (the F-C12 witness decides)
    wit = judge_flat(run, [scen(WITNESS)], "witness")
    if not wit:
        return
    wv = wit[0][2]
    if wv[1]:
        fixed_mode = True
    elif wv[0]:
        fixed_mode = False
    else:
        fixed_mode = False
        run.violation("corr:C12/witness sequence matches neither model",
                      {"correspondence": "C12Corr.agree on the F-C12 witness", "scenario": wit[0][0], "impl": wit[0][1]}, False)
    run.notes.append("implementation follows the model of %s on the F-C12 witness" %
                     ("the repair candidate (Cache_fixed)" if fixed_mode else "the code as it is (owner reference recorded before informer start)"))

    def report(sc, obs, verdict):
        c = classify(verdict, has_start_failure(sc["ops"]), fixed_mode)
        if c is None:
            return
        ident, concrete = c
        rep = {"scenario": sc, "impl": obs, "judge(agree_current,agree_fixed,refs,started,stopped,read)": list(verdict)}
        if not concrete:
            rep["correspondence"] = "C12Corr.agree"
        run.violation(ident, rep, concrete)

    # 1. flat cases judged inside Coq
    if replay and "programs" in json.load(open(replay))["replay"].get("scenario", {}):
        okr, rlog = vlib.build_harness(race=True)
        if not okr:
            run.violation("corr:harness-build-race", {"correspondence": "harness -race build", "log": rlog[-4000:]}, False)
            return
        check_race(run, [json.load(open(replay))["replay"]["scenario"]] * 5, fixed_mode)
        run.cov["rule"] = "replay of one recorded concurrent scenario, 5 runs"
        return
    if replay and any("list" in op and op["op"] == "watch" for op in json.load(open(replay))["replay"].get("scenario", {}).get("ops", [])):
        check_real(run, [json.load(open(replay))["replay"]["scenario"]], fixed_mode)
        run.cov["rule"] = "replay of one recorded real-InformerMap scenario"
        return
    if replay and any(op["op"] in ("finalize", "ensure") for op in json.load(open(replay))["replay"].get("scenario", {}).get("ops", [])):
        check_fin(run, [json.load(open(replay))["replay"]["scenario"]], fixed_mode)
        run.cov["rule"] = "replay of one recorded finalizer-helper scenario"
        return
    if replay and "calls" in json.load(open(replay))["replay"].get("scenario", {}):
        check_overlap(run, [json.load(open(replay))["replay"]["scenario"]] * 3, fixed_mode)
        run.cov["rule"] = "replay of one recorded overlapping-call scenario, 3 runs"
        return
    if replay:
        scs = [json.load(open(replay))["replay"]["scenario"]]
    else:
        a = alphabet(with_owners_op=True)
        scs = corpus() + [scen([x]) for x in a] + [scen([x, y]) for x in a for y in a]
        a28 = alphabet()
        if tier == "quick":      # quick: a sample of the length-3 sequences inside Coq (all of them are in the sweep below)
            scs += [scen([r.choice(a28) for _ in range(3)]) for _ in range(2500)]
        else:
            scs += [scen([x, y, z]) for x in a28 for y in a28 for z in a28]
        scs += random_scenarios(r, 300 if tier == "quick" else 4000, 40)
    flat = judge_flat(run, scs, "flat")
    for sc, obs, v in flat:
        report(sc, obs, v)
        if nontrivial(sc, obs):
            run.classes.add(signature(sc, obs))
    run.cov["evaluations"] = len(flat) + 1
    run.cov["samples"] = [{"scenario": sc, "impl": obs, "judge": list(v)} for sc, obs, v in ([wit[0]] + flat[:2])]
    run.cov["flat_cases_judged_in_coq"] = len(flat) + 1
    t_flat = time.time() - t0
    if replay:
        run.cov["rule"] = "replay of one recorded scenario"
        return

    # 2. exhaustive sweeps with the extracted judge
    t1 = time.time()
    exe, xlog = build_native_judge()
    if exe is None:
        run.violation("corr:C12/native judge build", {"correspondence": "extraction of C12Corr.judge", "log": xlog[-3000:]}, False)
        return
    # (owners, kinds, length); 2 handlers
    configs = [(2, 2, 4), (2, 3, 3), (3, 2, 3)] if tier == "quick" else [(2, 2, 5), (2, 3, 4), (3, 2, 4)]
    run.cov["sweeps"] = []
    for owners, kinds, depth in configs:
        al = alphabet(owners, kinds)
        trees = [{"handlers": 2, "kinds": kinds, "prefix": [x, y], "depth": depth - 2, "alphabet": al} for x in al for y in al]
        res = run_trees(exe, trees)
        leaves = 0
        agg = {}
        for t, o in zip(trees, res):
            if "error" in o:
                run.violation("corr:C12/sweep error", {"correspondence": "cachetree pipeline", "prefix": t["prefix"], "out": o}, False)
                continue
            leaves += o["leaves"]
            for key, (cnt, path, ob) in o["classes"].items():
                e = agg.setdefault(key, [0, []])
                e[0] += cnt
                if len(e[1]) < 2:
                    ops = t["prefix"] + [al[i] for i in path]
                    e[1].append((scen(ops, 2, kinds), dec_obs_list(ob, kinds, len(ops))))
        expected = len(al) ** depth
        if leaves != expected:
            run.violation("corr:C12/sweep incomplete", {"correspondence": "cachetree pipeline", "leaves": leaves, "expected": expected}, False)
        # every verdict class that is not fine is confirmed inside Coq on the very observations the extracted judge saw
        confirm = []
        for key, (cnt, examples) in sorted(agg.items()):
            verdict, sf = key_verdict(key)
            if classify(verdict, sf, fixed_mode) is not None:
                confirm += [(key, sc, obs) for sc, obs in examples]
        conf = judge_in_coq(run, [(sc, obs) for _, sc, obs in confirm], "confirm")
        if len(conf) == len(confirm):
            for (key, _, _), (sc, obs, v) in zip(confirm, conf):
                if tuple(v) != key_verdict(key)[0]:
                    run.violation("corr:C12/extracted judge differs from Coq", {"correspondence": "extraction", "scenario": sc,
                                  "impl": obs, "coq": list(v), "native": key}, False)
                report(sc, obs, v)
        # and a random sample of sequences is run once and judged both ways
        sample = judge_flat(run, [scen([r.choice(al) for _ in range(depth)], 2, kinds) for _ in range(150)], "xcheck")
        nat = run_native(exe, [enc_case(sc, obs) for sc, obs, _ in sample])
        for (sc, obs, v), key in zip(sample, nat):
            if key is None or key_verdict(key)[0] != tuple(v):
                run.violation("corr:C12/extracted judge differs from Coq", {"correspondence": "extraction", "scenario": sc,
                              "impl": obs, "coq": list(v), "native": key}, False)
            report(sc, obs, v)
        run.cov["evaluations"] += leaves + len(conf) + len(sample)
        run.cov["flat_cases_judged_in_coq"] += len(conf) + len(sample)
        run.cov["sweeps"].append({"owners": owners, "kinds": kinds, "handlers": 2, "length": depth, "operations": len(al),
                                  "sequences": leaves, "verdict_classes(agree_current,agree_fixed,refs,started,stopped,read/start_failure)":
                                  {k: v[0] for k, v in sorted(agg.items())},
                                  "not_fine_examples_confirmed_in_coq": len(conf), "sample_judged_both_ways": len(sample)})
    run.cov["exhaustive"] = True
    t_sweep = time.time() - t1

    # 3. overlapping calls, judged by linearizability
    t3 = time.time()
    oscs, nstates = overlap_scenarios(run, r, tier)
    ostats = check_overlap(run, oscs, fixed_mode)
    ostats["pre_states"] = nstates
    run.cov["overlapping_calls"] = ostats
    t_overlap = time.time() - t3

    # 3b. the controllers' owner-deletion helper on the real Cache
    run.cov["finalizer_helper"] = check_fin(run, fin_scenarios(r, tier), fixed_mode)

    # 4. the real InformerMap and real informers on a fake API server
    t4 = time.time()
    run.cov["real_informer_map"] = check_real(run, real_scenarios(r, tier), fixed_mode)
    t_real = time.time() - t4

    # 5. concurrent callers under the race detector
    t_race = 0.0
    if tier == "thorough":
        t2 = time.time()
        okr, rlog = vlib.build_harness(race=True)
        if not okr:
            run.violation("corr:harness-build-race", {"correspondence": "harness -race build", "log": rlog[-4000:]}, False)
        else:
            check_race(run, race_scenarios(r, 60), fixed_mode)
        t_race = time.time() - t2

    run.cov["rule"] = (
        "real dynamiccache.Cache + scripted informer map + real cache sources; corpus (incl. the F-C12 witness), all "
        "sequences of length <= 2 over 30 operations and of length 3 over 28 operations (quick: 2500 sampled), seeded random sequences of length <= 40 over <= 3 owners x 3 kinds x "
        "<= 3 handlers: judged inside Coq; all sequences of length %s over (owners, kinds) = %s x {ok, Get fails "
        "early/after start, handler 0/1 registration fails, Delete fails} (OwnersForGKV of every kind is called after "
        "every operation; Free visits kinds in Go's map order, both branches are followed as they occur): "
        "judged by the extracted `judge`, every non-fine verdict class re-judged inside Coq; non-trivial = a Watch "
        "succeeded and a later Free/Get/List reached the cache; distinct = sequence of (operation, outcome, error class, "
        "number of informer-map events), counted over the cases judged inside Coq only; overlapping calls: from every "
        "distinct state reached by <= 2 (quick) / <= 4 (thorough) Watch/Free calls, call A (any operation and outcome except "
        "Delete failure) is held before/after the effect of each of its informer-map / AddEventHandler calls while call B "
        "(thorough: also B and C) is started on another goroutine and returns or blocks; the joint outcome is judged inside "
        "Coq by lin_agree (some serial order of the model) and the final-state monitor; distinct overlap classes = (A, hook, "
        "others, error classes) of cases in which another call returned while A was held; owner deletion: the real "
        "controllers.FreeCacheAndRemoveFinalizer / EnsureCachedFinalizer on the real Cache with every answer to the finalizer "
        "patch (ok, NotFound, Conflict, InternalError, lost response), owners with 1-3 kinds sharing kinds with others, "
        "judged inside Coq by judge_fin; real InformerMap: the real Cache "
        "on the real InformerMap and client-go informers over a fake API server whose LIST hangs/fails or whose RESTMapper does not "
        "know the kind yet during chosen Watch calls (150 ms deadline); per operation, after a bounded wait: open WATCH streams per kind, handlers reached by an "
        "event sent down the streams, OwnersForGKV; judged inside Coq by judge_real" %
        ("/".join(str(c[2]) for c in configs), "/".join("%dx%d" % (c[0], c[1]) for c in configs)))
    run.cov["trusted_base"] = run.cov.get("trusted_base", []) + [
        "exhaustive sweeps: Coq extraction to OCaml of C12Corr.judge (no Extract Constant/Inductive directives), ocamlopt, "
        "harness/ocaml/c12_driver.ml (decoding); not-fine classes and a random sample are re-evaluated by vm_compute",
        "Go harness mode_cache.go (scripted informer map, handler identification by probe event), mode_cache_real.go (fake "
        "dynamic client counting LIST/WATCH, bounded waits), Python driver"]
    run.notes.append("timings: flat %.0fs, sweep %.0fs, overlap %.0fs, real informer map %.0fs, race %.0fs" %
                     (t_flat, t_sweep, t_overlap, t_real, t_race))
