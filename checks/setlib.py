"""Scenario language of the ObjectSet-level checks (harness mode "objectset", coq/corr/SetCorr.v)."""
import json
import vlib
import phaselib as pl
from vlib import cN, cZ, cB, cL, cP, cO

CTYPES = ["CAvailable", "CInTransition", "CSucceeded", "CPaused", "CArchived"]
CSTATUS = ["STrue", "SFalse", "SUnknown"]
CREASONS = ["RAvailable", "RProbeFailure", "RPreflightError", "RCollisionDetected", "RInTransition", "RRolloutSuccess",
            "RPaused", "RPartiallyPaused", "RArchived", "RArchivalInProgress", "ROtherReason"]
LIFE = ["LActive", "LPaused", "LArchived"]


def c_cond(c):
    if c[0] >= len(CTYPES):
        raise pl.Unrepresentable("condition type outside the model")
    return "(Build_cond %s %s %s %s)" % (CTYPES[c[0]], CSTATUS[c[1]], CREASONS[min(c[2], 10)], cZ(c[3]))


def c_phase(p):
    return "(Build_phase %d %s %s)" % (p["name"], cB(p["class"]), cL([pl.c_pobj(o) for o in p["objects"]]))


def c_set(s):
    return "(Build_oset %s %d %s %s %s %s %d %s %s %s %s %s %s %s)" % (
        pl.c_oid(s), s["rv"], cZ(s["gen"]), cB(s["deleting"]), cB(s["fin"]), cB(s["orphan"]), s["pkg"], LIFE[s["life"]],
        cL([c_phase(p) for p in s["phases"]]), cL([cN(n) for n in s["prev"]]), cZ(s["revision"]),
        cL([c_cond(c) for c in s["conds"]]), cL([pl.c_key(k) for k in s["ctrlof"]]),
        cL([cP(cN(a), cN(b)) for a, b in s["remotes"]]))


def c_osphase(p):
    if p["kind"] < 0 or p["name"] < 0 or p["class"] > 2:
        raise pl.Unrepresentable("ObjectSetPhase outside the model")
    return "(Build_osphase %s %d %s %s %s %s %s %d %d %s %s %s %s %s %s)" % (
        pl.c_oid(p), p["rv"], cZ(p["gen"]), cL([pl.c_ref(r) for r in p["owners"]]), cB(p["deleting"]), cB(p["fin"]),
        cB(p["orphan"]), p["pkg"], p["class"], cB(p["paused"]), cZ(p["revision"]), cL([cN(n) for n in p["prev"]]),
        cL([pl.c_pobj(o) for o in p["objects"]]), cL([c_cond(c) for c in p["conds"]]), cL([pl.c_key(k) for k in p["ctrlof"]]))


def c_optphase(p):
    return cO(None if p is None else c_osphase(p))


def c_pev(e):
    op, n = e["op"], e["name"]
    if n < 0:
        raise pl.Unrepresentable("phase object name outside the model")
    if op == "get":
        return "(PGet %d %s)" % (n, c_optphase(e.get("obj")))
    if op == "create":
        return "(PCreate %d %s)" % (n, c_optphase(e.get("obj")))
    if op == "pause":
        return "(PPause %d %s %s)" % (n, cB(e.get("paused", False)), c_optphase(e.get("obj")))
    if op == "delete":
        return "(PDelete %d %s)" % (n, {"ok": "DOk", "notfound": "DNotFound", "conflict": "DConflict"}[e["res"]])
    if op == "strip":
        return "(PStrip %d %s)" % (n, cB(e["ok"]))
    if op == "finalizer":
        return "(PFinalizer %d %s %s)" % (n, cB(e.get("added", False)), cB(e["ok"]))
    if op == "status":
        return "(PStatus %d %s %s %s)" % (n, cL([c_cond(c) for c in e.get("conds") or []]),
                                         cL([pl.c_key(k) for k in e.get("ctrlof") or []]), cB(e["ok"]))
    raise pl.Unrepresentable("request on a phase object outside the model's event language: %s" % op)


def c_nss(nss):
    return cL([cP(cN(a), cB(b == 1)) for a, b in nss])


def c_sev(e):
    if e["kind"] == "phase":
        return "(SPhase %s)" % c_pev(e["phase"])
    if e["kind"] == "member":
        return "(SMember %s)" % pl.c_event(e["member"])
    if e["kind"] == "finalizer":
        return "(SMeta (MFinalizer %s %s))" % (cB(e.get("added", False)), cB(e["ok"]))
    if e["kind"] == "status":
        s = e.get("set")
        if s is None:
            raise pl.Unrepresentable("status request without content")
        return "(SMeta (MStatus %s %s %s %s %s %s))" % (cZ(s["revision"]), cL([c_cond(c) for c in s["conds"]]),
                                                         cL([pl.c_key(k) for k in s["ctrlof"]]),
                                                         cL([cP(cN(a), cN(b)) for a, b in s["remotes"]]),
                                                         cO(None if e.get("fph") is None else cN(e["fph"])), cB(e["ok"]))
    raise pl.Unrepresentable("request outside the model's event language: %s" % e["kind"])


RES = {"nothing": "SNothing", "done": "(SDone false)", "requeue": "(SDone true)", "error": "SError"}


def c_case(sc, obs):
    t = sc["target"]
    return "(Build_scase %s %s %d %d %s %s %s %d %d %d %s %s %s %s %s %d %d)" % (
        cB(sc["force"]), pl.c_store(sc["store"]), sc["next_rv"], sc["next_uid"], cL([c_set(s) for s in sc["sets"]]),
        cL([c_osphase(p) for p in sc.get("phases", [])]), c_nss(sc.get("nss", [])),
        t["kind"], t["ns"], t["name"], RES[obs["res"]], cL([c_sev(e) for e in obs["events"]]),
        pl.c_store(obs["post"]), cL([c_set(s) for s in obs["sets"]]), cL([c_osphase(p) for p in obs.get("phases", [])]),
        obs["next_rv"], obs["next_uid"])


def mk_set(kind, ns, name, uid, rv=5, **kw):
    s = {"kind": kind, "ns": ns, "name": name, "uid": uid, "rv": rv, "gen": 1, "deleting": False, "fin": True, "orphan": False,
         "pkg": 0, "life": 0, "phases": [], "prev": [], "revision": 1, "conds": [], "ctrlof": [], "remotes": []}
    s.update(kw)
    return s


def sort_sets(sets):
    return sorted(sets, key=lambda s: (s["kind"], s["ns"], s["name"]))


IMPORTS = ("From PKO Require Import Base Owner Api Phase ObjectSet.\n"
           "From PKOCorr Require Import PhaseCorr SetCorr.")


def run_cases(run, scs, judge, arity, extra_imports=""):
    outs = vlib.run_harness("objectset", scs)
    terms, idx = [], []
    for i, (sc, o) in enumerate(zip(scs, outs)):
        if "obs" not in o:
            run.violation("corr:%s/harness error or panic" % run.pid, {"correspondence": "harness", "scenario": sc, "out": o}, False)
            continue
        try:
            terms.append(c_case(sc, o["obs"]))
            idx.append(i)
        except pl.Unrepresentable as e:
            run.violation("corr:%s/observation outside the model's event language: %s" % (run.pid, e),
                          {"correspondence": "SetCorr event language", "scenario": sc, "impl": o["obs"]}, False)
    res, logs = vlib.judge_cases(run.pid, IMPORTS + "\n" + extra_imports, judge, terms, arity)
    for l in logs:
        run.violation("corr:%s/coq-eval" % run.pid, {"correspondence": "coq evaluation failed", "log": l}, False)
    return [(scs[i], outs[i]["obs"], r) for i, r in zip(idx, res)]
