"""C20: RequestManager de-duplication (theorems in props/C20.v) + correspondence of the real
RequestManager.Pull, driven through linearised schedules, with the model in ReqMgr.v."""
import json
import vlib
from vlib import cN, cB, cL, cP

IMPORTS = "From PKO Require Import ReqMgr.\nFrom PKOCorr Require Import C20Corr."
IMAGES = "abcdefgh"


def req(c, img):
    return {"op": "req", "caller": c, "image": img}


def done(img, res="ok"):
    return {"op": "done", "image": img, "result": res}


def overlap(c, img, res="ok"):
    """Done(img, res) whose broadcast is stalled while caller c calls Pull(img)."""
    return {"op": "overlap", "caller": c, "image": img, "result": res}


def cancel(c):
    """The context of caller c's waiting Pull is cancelled."""
    return {"op": "cancel", "caller": c, "image": ""}


# references that match the manager's registry host override (quay.io) but cannot be rewritten
BAD_REFS = ["quay.io/Seed/C20C:v1", "quay.io/", "quay.io/a b:v1", "quay.io/x@sha256:zz", "quay.io/x:"]


def badreq(c, ref):
    """Caller c calls Pull with a reference on which the registry host override fails."""
    return {"op": "badreq", "caller": c, "image": "", "ref": ref}


def well_formed(steps):
    """Done only while a pull of the image is running; a caller blocked in Pull cannot call again."""
    waiting, blocked = {}, set()
    flat = []
    for s in steps:
        flat += [done(s["image"], s["result"]), req(s["caller"], s["image"])] if s["op"] == "overlap" else [s]
    for s in flat:
        if s["op"] == "badreq":
            if s["caller"] in blocked:
                return False
            continue    # returns at once
        if s["op"] == "cancel":
            continue    # no effect on the current code: the caller stays blocked in Pull
        if s["op"] == "req":
            if s["caller"] in blocked:
                return False
            blocked.add(s["caller"])
            waiting.setdefault(s["image"], []).append(s["caller"])
        else:
            if not waiting.get(s["image"]):
                return False
            blocked -= set(waiting[s["image"]])
            waiting[s["image"]] = []
    return True


CORPUS = [
    [],
    [req(0, "a")],
    [req(0, "a"), done("a")],
    [req(0, "a"), done("a", "err")],
    [req(0, "a"), req(1, "a"), done("a")],
    [req(0, "a"), req(1, "a"), req(2, "a"), done("a", "err")],
    [req(0, "a"), done("a"), req(0, "a")],                       # request right after a broadcast
    [req(0, "a"), done("a"), req(1, "a"), done("a", "err"), req(0, "a"), req(1, "a")],
    [req(0, "a"), req(1, "b"), done("b"), done("a")],            # two images, out of order completion
    [req(0, "a"), req(1, "b"), req(2, "a"), done("a"), req(0, "b"), done("b", "err"), req(2, "a"), req(1, "a"), done("a")],
    [req(0, "a"), req(1, "a"), req(2, "b"), done("a"), req(0, "a"), done("b", "err"), req(2, "a"), done("a")],  # props/C20.v example
    [req(i, "a") for i in range(8)] + [done("a")] + [req(i, "a") for i in range(8)],
    [req(0, "a"), req(1, "b"), req(2, "c"), done("c"), done("a", "err"), req(2, "b"), req(0, "c")],
    # overlapping steps: a Pull arriving while handleResponse is in the middle of its broadcast
    [req(0, "a"), overlap(1, "a")],
    [req(0, "a"), req(1, "a"), overlap(2, "a", "err"), req(0, "a"), done("a")],
    [req(0, "a"), req(1, "b"), overlap(2, "a"), overlap(3, "b", "err"), overlap(0, "a"), done("b")],
    [req(0, "a"), overlap(1, "a"), overlap(0, "a"), overlap(1, "a", "err"), done("a")],
    # context cancellation of waiting callers
    [req(0, "a"), cancel(0), done("a")],
    [req(0, "a"), req(1, "a"), cancel(0), done("a"), req(2, "a"), done("a", "err")],
    [req(0, "a"), req(1, "a"), req(2, "b"), cancel(1), cancel(2), done("b", "err"), req(2, "a"), done("a"), req(1, "b")],
    [req(0, "a"), req(1, "a"), cancel(0), overlap(2, "a"), cancel(2), cancel(3), done("a")],
    # Pull calls on which the registry host override fails: answered at once with the error, no pull
    [badreq(0, BAD_REFS[0])],
    [req(0, "a"), badreq(1, BAD_REFS[0]), badreq(1, BAD_REFS[1]), req(1, "a"), badreq(2, BAD_REFS[2]), done("a"),
     badreq(0, BAD_REFS[3]), badreq(0, BAD_REFS[4])],
]


def badreq_variants(schedules):
    """Every schedule with one failing-override Pull (by a caller used nowhere else) inserted at every position."""
    out, n = [], 0
    for seq in schedules:
        for k in range(0, len(seq) + 1):
            out.append(seq[:k] + [badreq(7, BAD_REFS[n % len(BAD_REFS)])] + seq[k:])
            n += 1
    return out


def blocked_after(seq):
    """Callers blocked in Pull after seq (on the current code a cancelled caller stays blocked)."""
    waiting, blocked = {}, []
    for s in seq:
        if s["op"] in ("cancel", "badreq"):
            continue
        if s["op"] in ("done", "overlap"):
            for c in waiting.get(s["image"], []):
                blocked.remove(c)
            waiting[s["image"]] = []
        if s["op"] in ("req", "overlap"):
            blocked.append(s["caller"])
            waiting.setdefault(s["image"], []).append(s["caller"])
    return blocked


def cancel_variants(schedules):
    """Every schedule with one cancel inserted: at every position, for every caller blocked there."""
    out = []
    for seq in schedules:
        for k in range(1, len(seq) + 1):
            for c in blocked_after(seq[:k]):
                out.append(seq[:k] + [cancel(c)] + seq[k:])
    return out


def sprinkle_cancels(r, schedules, p):
    out = []
    for seq in schedules:
        new = []
        for s in seq:
            new.append(s)
            b = blocked_after(new)
            if b and r.random() < p:
                new.append(cancel(r.choice(b)))
        out.append(new)
    return out


def overlap_variants(schedules):
    """For every Done of every schedule: the same schedule with that Done overlapped by a Pull of the
    same image from a caller that appears nowhere else (so the rest of the schedule stays well-formed)."""
    out = []
    for seq in schedules:
        for k, s in enumerate(seq):
            if s["op"] == "done":
                out.append(seq[:k] + [overlap(9, s["image"], s["result"])] + seq[k + 1:])
    return out


def sprinkle_overlaps(r, schedules, p):
    """Random schedules: every Done becomes an overlap with probability p (fresh caller id each)."""
    out = []
    for seq in schedules:
        new, fresh = [], 100
        for s in seq:
            if s["op"] == "done" and r.random() < p:
                new.append(overlap(fresh, s["image"], s["result"]))
                fresh += 1
            else:
                new.append(s)
        out.append(new)
    return out


def exhaustive(maxlen, callers=3, images="ab"):
    """All well-formed schedules up to maxlen (including those that leave pulls running)."""
    out = []

    def rec(seq, waiting, blocked):
        out.append(seq)
        if len(seq) == maxlen:
            return
        for c in range(callers):
            if c in blocked:
                continue
            for img in images:
                w = dict(waiting)
                w[img] = w[img] + (c,)
                rec(seq + [req(c, img)], w, blocked | {c})
        for img in images:
            if waiting[img]:
                for r in ("ok", "err"):
                    w = dict(waiting)
                    w[img] = ()
                    rec(seq + [done(img, r)], w, blocked - set(waiting[img]))

    rec([], {i: () for i in images}, frozenset())
    return out


def random_schedules(r, n, maxlen):
    out = []
    for _ in range(n):
        ncall = r.choice([2, 3, 3, 4, 6])
        imgs = IMAGES[:r.choice([1, 2, 2, 3])]
        length = r.randint(maxlen // 3, maxlen)
        pdone = r.choice([0.2, 0.35, 0.5])
        seq, waiting, blocked = [], {i: [] for i in imgs}, set()
        for _ in range(length):
            running = [i for i in imgs if waiting[i]]
            free = [c for c in range(ncall) if c not in blocked]
            if running and (not free or r.random() < pdone):
                img = r.choice(running)
                seq.append(done(img, "err" if r.random() < 0.3 else "ok"))
                blocked -= set(waiting[img])
                waiting[img] = []
            elif free:
                c, img = r.choice(free), r.choice(imgs)
                # prefer images with a pull in flight (joining) and images just completed (fresh pull)
                if running and r.random() < 0.4:
                    img = r.choice(running)
                seq.append(req(c, img))
                blocked.add(c)
                waiting[img].append(c)
        out.append(seq)
    return out


def img_no(img):
    return IMAGES.index(img)


def step_term(s):
    if s["op"] == "req":
        return "Plain (Req %d %d)" % (s["caller"], img_no(s["image"]))
    if s["op"] == "cancel":
        return "Plain (Cancel %d)" % s["caller"]
    if s["op"] == "badreq":
        return "Plain (Fail %d)" % s["caller"]
    if s["op"] == "overlap":
        return "Overlap %d %s %d" % (img_no(s["image"]), cB(s.get("result") != "err"), s["caller"])
    return "Plain (Done %d %s)" % (img_no(s["image"]), cB(s.get("result") != "err"))


def malformed_events(obs):
    return [e for evs in obs["events"] for e in evs
            if (e["k"] == "early" and e["res"] != "err") or
            (e["k"] != "early" and e.get("res") != "cancelled" and
             (e["pull"] < 0 or (e["k"] == "resp" and e["res"] not in ("ok", "err"))))]


def term(sc, obs):
    steps = sc["steps"] + obs["drain"]
    evs = []
    for step_evs in obs["events"]:
        l = []
        for e in step_evs:
            if e["k"] == "pull":
                l.append("IPull %d %d" % (img_no(e["image"]), e["pull"]))
            elif e["k"] == "early":
                l.append("IRej %d" % e["caller"])
            elif e["res"] == "cancelled":
                l.append("IGone %d %d" % (e["caller"], img_no(e["image"])))
            else:
                l.append("IResp %d %d %d %s" % (e["caller"], img_no(e["image"]), e["pull"], cB(e["res"] == "ok")))
        evs.append(cL(l))
    order = []
    for s in steps:
        if s["op"] not in ("cancel", "badreq") and s["image"] not in order:
            order.append(s["image"])
    pend = {p["image"]: p["callers"] for p in obs["pending"]}
    pend_t = cL([cP(cN(img_no(i)), cL([cN(c) for c in pend.get(i, [])])) for i in order])
    alias = cL([cP(cN(a), cN(b)) for a, b in obs["alias"]])
    return "(%s : case)" % cP(cL([step_term(s) for s in steps]), cP(cL(evs), cL([cN(n) for n in obs["counts"]]), pend_t, alias))


def classify(sc, obs):
    """(class key, non-trivial?) - callers erased; non-trivial = some request joined a running pull
    or some image was pulled again after a broadcast."""
    steps = sc["steps"]
    key = tuple((s["op"], s["image"], s.get("result", ""), s.get("ref", "")) for s in steps) + \
        tuple(obs.get("overlap", [])) + (bool(sc.get("override")),)
    joined = any(n >= 2 for n in obs["counts"]) or any(s["op"] in ("overlap", "cancel", "badreq") for s in steps) or bool(sc.get("override"))
    pulls = {}
    for evs in obs["events"]:
        for e in evs:
            if e["k"] == "pull":
                pulls[e["image"]] = pulls.get(e["image"], 0) + 1
    return key, joined or any(v >= 2 for v in pulls.values())


def inconclusive(o):
    return "obs" in o and o["obs"].get("stuck", -1) < 0 and any("timeout" in f for f in o["obs"]["flags"])


def evaluate(run, scs, outs, tag, samples):
    """Judges (scenario, observation) pairs in Coq. Returns number of concrete violations found."""
    terms, idx, concrete = [], [], 0
    # a harness wait that ran into its fallback timeout says nothing about the code: run those schedules again, alone
    for attempt in range(2):
        again = [i for i, o in enumerate(outs) if inconclusive(o)]
        if not again or tag == "race":
            break
        run.cov["retried_after_timeout"] = run.cov.get("retried_after_timeout", 0) + len(again)
        for i, o in zip(again, vlib.run_harness("reqmgr", [scs[i] for i in again], par=1)):
            outs[i] = o
    for i, (sc, o) in enumerate(zip(scs, outs)):
        if "obs" not in o:
            if "concurrent map" in json.dumps(o):
                continue    # Go's fatal error on unsynchronised map access: reported by the race stage
            run.violation("corr:C20/reqmgr harness error", {"scenario": sc, "out": o}, False)
            continue
        if any("timeout" in f for f in o["obs"]["flags"]) and o["obs"].get("stuck", -1) < 0:
            # a wait of the harness ran into its (long) fallback timeout: inconclusive, never a verdict on the code
            run.violation("corr:C20/reqmgr harness timeout", {"scenario": sc, "impl": o["obs"]}, False)
            continue
        if o["obs"].get("stuck", -1) >= 0:
            # watchdog: nothing can move any more; the schedule was aborted after that step
            pend = [c for p in o["obs"]["pending"] for c in p["callers"]]
            if o["obs"].get("blocked"):
                run.violation("C20 broadcast blocked while holding inFlightLock: waiting callers are never answered and no "
                              "later Pull can start a fresh pull", {"scenario": sc, "impl": o["obs"]}, True)
                concrete += 1
            elif pend:
                run.violation("C20 RequestManager stuck: callers wait forever", {"scenario": sc, "impl": o["obs"]}, True)
                concrete += 1
            else:
                run.violation("corr:C20/reqmgr harness stuck", {"scenario": sc, "impl": o["obs"]}, False)
            continue
        bad = malformed_events(o["obs"])
        if bad:
            run.violation("C20 a Pull call did not return exactly one of (package, nil) / (nil, error)",
                          {"scenario": sc, "impl": o["obs"]}, True)
            concrete += 1
            continue
        terms.append(term(sc, o["obs"]))
        idx.append(i)
    res, logs = vlib.judge_cases("C20", IMPORTS, "judge", terms, 2, tag=tag)
    for l in logs:
        run.violation("corr:C20/coq-eval", {"correspondence": "coq evaluation failed", "log": l}, False)
    run.cov["evaluations"] += len(terms)
    for i, r in zip(idx, res):
        if r is None:
            continue
        sc, obs = scs[i], outs[i]["obs"]
        key, nontrivial = classify(sc, obs)
        for w in obs.get("overlap", []):   # what the overlapping Pull was seen doing while the broadcast was stalled
            h = run.cov.setdefault("overlap_states", {})
            h[w] = h.get(w, 0) + 1
        if nontrivial:
            run.classes.add(key)
        agree, mon = r
        if not mon:
            what = "returned copies share memory" if obs["alias"] else \
                   "loses, duplicates or misroutes a response, or runs two pulls of one image, or fails to start a fresh pull"
            run.violation("C20 RequestManager " + what, {"scenario": sc, "impl": obs}, True)
            concrete += 1
        elif not agree or obs["flags"]:
            run.violation("corr:C20/reqmgr model and implementation differ",
                          {"correspondence": "C20Corr.lin_agree (not linearizable against the sequential model) / harness flags",
                           "scenario": sc, "impl": obs}, False)
    if len(samples) < 3:
        samples += [{"scenario": scs[i], "impl": outs[i].get("obs")} for i in idx if len(scs[i]["steps"]) >= 4][:3 - len(samples)]
    return concrete


def run_race_harness(scs, par=8, timeout=3000):
    """Like vlib.run_harness(..., race=True) but keeps stderr: the harness prints a marker line per scenario
    (VERIF_MARK), so a race report can be attributed to the scenario during which it was printed.
    Returns (outputs, [(scenario index, report text)])."""
    import os
    import subprocess
    from concurrent.futures import ThreadPoolExecutor
    exe = vlib.HARNESS + "-race"
    n = len(scs)
    par = max(1, min(par, (n + 49) // 50))
    env = vlib.go_env()
    env.update({"VERIF_MARK": "1", "GORACE": "halt_on_error=0"})
    tagged = [dict(sc, tag=str(i)) for i, sc in enumerate(scs)]

    def one(k):
        ch = tagged[k::par]
        inp = "\n".join(json.dumps(s) for s in ch) + "\n"
        p = subprocess.run(["timeout", str(timeout), exe, "reqmgr"], input=inp, stdout=subprocess.PIPE,
                           stderr=subprocess.PIPE, text=True, env=env)
        lines = [json.loads(l) for l in p.stdout.split("\n") if l.strip()]
        while len(lines) < len(ch):
            lines.append({"err": "harness died: rc=%d %s" % (p.returncode, p.stderr[-1500:])})
        races, cur, errl = [], None, p.stderr.split("\n")
        for j, line in enumerate(errl):
            if line.startswith("VERIF-SCENARIO "):
                cur = int(line.split()[2])
            elif "WARNING: DATA RACE" in line or "fatal error: concurrent map" in line:
                races.append((cur, "\n".join(errl[j:j + 40])))
        return lines, races

    with ThreadPoolExecutor(max_workers=par) as ex:
        parts = list(ex.map(one, range(par)))
    outs, races = [None] * n, []
    for k, (lines, rc) in enumerate(parts):
        for j, line in enumerate(lines):
            outs[k + j * par] = line
        races += rc
    return outs, sorted(races, key=lambda x: (x[0] is None, x[0]))


def race_stage(run, scs):
    """Runs schedules under the -race build with callers mutating their packages unsynchronised.
    A reported data race (or Go's concurrent-map fatal error) is a concrete violation: two callers,
    or a caller and the pull, share memory, or the in-flight map is accessed without the lock."""
    ok, blog = vlib.build_harness(race=True)
    if not ok:
        run.violation("corr:harness-build-race", {"correspondence": "race harness does not build", "log": blog[-4000:]}, False)
        return [], 0
    scs = [dict(sc, unsync=True) for sc in scs]
    outs, races = run_race_harness(scs)
    run.cov["race_evaluations"] = run.cov.get("race_evaluations", 0) + len(scs)
    for i, report in races[:1]:
        sc = scs[i] if i is not None else None
        run.violation("C20 data race reported by the race detector during RequestManager.Pull",
                      {"scenario": sc, "race_report": report[-3000:]}, True)
    return outs, len(races)


def check(run, tier, seed, replay=None):
    run.assumptions += [
        "the model's steps are the two lock scopes of request_manager.go taken as atomic; atomicity of handleResponse "
        "against a concurrent Pull of the same image is TESTED (overlap steps: broadcast stalled on an extra unbuffered "
        "receiver, Pull issued meanwhile, joint observation must be linearizable against the model), not proved; "
        "overlaps inside handleRequest are not forced",
        "context cancellation: on the current code Pull ignores its context while waiting, so a cancel step is a no-op "
        "in the model and the cancelled caller stays blocked; the monitor also accepts an early return of the cancelled "
        "caller (exempt from exactly-once) but nobody else's; the scripted pull function ignores the context",
        "Pull = imagePrefix/registry-host override step, then the request machine on the rewritten image: every manager "
        "is built with the host override quay.io -> localhost:123; 'override' scenarios request each image x as "
        "quay.io/pko/x:v1 (rewritten), badreq steps use references on which the override fails; every Pull call is "
        "classified as (package,nil) / (nil,err) / neither / both; image prefix overrides are not exercised",
        "handleResponse(img) is only called by the goroutine started by handleRequest(img) (schedules are well-formed); "
        "the scripted pull function does not panic",
        "linearisation: a step is over when the accessor (under inFlightLock) shows the registration / deletion and every "
        "goroutine of the scenario is parked in a channel receive (runtime.Stack)",
        "memory-level privacy of copies is tested, not proved: the scripted package has files with spare capacity, "
        "zero-length files with spare capacity and a nil file; every returned Files map gets in-place writes, in-place "
        "appends, key insertion and deletion; all copies and the original are compared by content, by spare capacity "
        "and by backing-array address (-race in thorough)",
    ]
    run.cov["evaluations"] = 0
    vlib.std_proof_stage(run, "C20")
    ok, blog = vlib.build_harness()
    if not ok:
        run.violation("corr:harness-build", {"correspondence": "harness no longer builds against the tree", "log": blog[-4000:]}, False)
        return
    r = vlib.rng(seed, "C20")
    samples = []
    run.cov["samples"] = samples
    run.cov["rule"] = (
        "stages: fixed corpus; ALL well-formed schedules (Done only while a pull of the image runs, a blocked caller does not "
        "call again) up to length %d over 3 callers x 2 images x ok/err, each drained by the harness at the end; seeded random "
        "well-formed schedules up to length %d over <=6 callers x <=3 images; overlap variants: for EVERY Done of every "
        "exhaustive schedule up to length %d the schedule with that Done overlapped by a Pull of the same image (issued while "
        "the broadcast is stalled), plus random schedules with a third of the Dones overlapped; cancel variants: every "
        "exhaustive schedule up to length %d with one context cancellation inserted at every position for every caller "
        "blocked there, plus random schedules with cancels and overlaps%s. A per-schedule watchdog reports a schedule after "
        "which nothing can move (blocked broadcast) with the schedule as replay; override stage: corpus and exhaustive "
        "schedules re-run with every image requested through a reference the registry host override rewrites, and a "
        "Pull on a reference the override rejects inserted at every position. Stops after the first "
        "stage with a concrete violation. non-trivial = a request joined a running pull, an image was pulled again after a "
        "broadcast, or a step overlapped; distinct = (op, image, result) sequence with caller ids erased + what the "
        "overlapping Pull was seen doing"
        % ((5, 20, 5, 4, "") if tier == "quick" else (7, 60, 6, 5, "; a sample re-run under go build -race with unsynchronised caller mutation")))

    if replay:
        sc = json.load(open(replay))["replay"]["scenario"]
        if sc.get("unsync"):
            outs, _ = race_stage(run, [sc])
            if outs:
                evaluate(run, [sc], outs, "replay", samples)
        else:
            evaluate(run, [sc], vlib.run_harness("reqmgr", [sc]), "replay", samples)
        return

    stages = [("corpus", [{"steps": s} for s in CORPUS])]
    assert all(well_formed(s) for s in CORPUS)
    stages.append(("exh", [{"steps": s} for s in exhaustive(5 if tier == "quick" else 7)]))
    stages.append(("rnd", [{"steps": s} for s in random_schedules(r, 150 if tier == "quick" else 2500,
                                                                    20 if tier == "quick" else 60)]))
    ov = overlap_variants(exhaustive(5 if tier == "quick" else 6))
    ov += sprinkle_overlaps(r, random_schedules(r, 100 if tier == "quick" else 1500, 20 if tier == "quick" else 60), 0.34)
    assert all(well_formed(s) for s in ov[:2000])
    stages.append(("overlap", [{"steps": s} for s in ov]))
    cv = cancel_variants(exhaustive(4 if tier == "quick" else 5))
    cv += sprinkle_cancels(r, sprinkle_overlaps(r, random_schedules(r, 100 if tier == "quick" else 1500,
                                                                    20 if tier == "quick" else 60), 0.2), 0.2)
    assert all(well_formed(s) for s in cv[:2000])
    stages.append(("cancel", [{"steps": s} for s in cv]))
    # the path before the request machine: managers always have a registry host override (quay.io -> localhost:123);
    # "override" scenarios request every image through a reference the override rewrites, badreq steps use
    # references on which it fails
    small = exhaustive(3 if tier == "quick" else 4)
    bv = badreq_variants(small)
    osc = [{"steps": s, "override": True} for s in CORPUS + exhaustive(4 if tier == "quick" else 5)]
    osc += [{"steps": s, "override": i % 2 == 0} for i, s in enumerate(bv)]
    osc += [{"steps": s, "override": True} for s in badreq_variants(
        sprinkle_cancels(r, sprinkle_overlaps(r, random_schedules(r, 40 if tier == "quick" else 400, 20 if tier == "quick" else 60), 0.2), 0.1))[:400 if tier == "quick" else 6000]]
    stages.append(("override", osc))
    for tag, scs in stages:
        outs = vlib.run_harness("reqmgr", scs, par=8)
        if evaluate(run, scs, outs, tag, samples):
            return
        run.cov["stage_" + tag] = len(scs)
    run.cov["exhaustive"] = False   # exhaustive only up to the stated length; longer schedules are sampled
    if tier == "thorough":
        rs = [{"steps": s} for s in CORPUS] + [{"steps": s} for s in exhaustive(4)] + \
             [{"steps": s} for s in random_schedules(r, 300, 40)] + \
             [{"steps": s} for s in overlap_variants(exhaustive(4))] + \
             [{"steps": s} for s in cancel_variants(exhaustive(3))]
        outs, concrete = race_stage(run, rs)
        if outs and not concrete:
            evaluate(run, [dict(sc, unsync=True) for sc in rs], outs, "race", samples)
